(* Properties/C12.v — every key export format imports back to the same key and metadata.
   Only statements closed by [exact lemma], non-vacuity / table examples computed from the regenerated
   Gen/GenNetworks.v, refutation witnesses for the code before the repairs and for the one class still open,
   and Print Assumptions.  All theorems are about Model/KeyFormat.v with fixes/C12-1 ([wifcheck] = true where it
   matters) and for both settings of the Base58 lower-casing switch [fold] (false in the current tree). *)
From Coq Require Import ZArith List Bool.
From Coq Require String.
From Coq.Strings Require Import Byte.
From Verif Require Import Lib.Bytes Gen.GenConsts Gen.GenNetworks Crypto.Sha256 Model.Base58 Model.KeyFormat
  Model.SpecNetworks Proofs.SpecNetworksGlue
  Proofs.KeyFormatBase Proofs.KeyFormatWif Proofs.KeyFormatXkey Proofs.KeyFormatFinal
  Proofs.KeyFormatSpecTable Proofs.KeyFormatSession.
Import ListNotations.
Import Coq.Strings.String.StringSyntax.
Open Scope Z_scope.

(* ================= WIF ================= *)
(* every 32-byte secret in 1 .. n-1 (fixed width: leading zero bytes are inside the quantifier; the guard is the
   range Key.__init__ accepts since the C04 repairs — see secret_out_of_range_refused), both compression flags,
   every network of the table:
   wif() succeeds; get_key_format reports a private WIF of the right kind whatever is_private the caller passes;
   Key(text, network=h) returns the secret, the flag and h; Key(text) returns the secret, the flag and the
   network check_network_and_key resolves from the candidates of the version byte — or its refusal *)
Theorem wif_roundtrip : forall fold oc n km,
  In n all_networks ->
  km_private km = true -> length (km_secret km) = 32%nat -> 0 < of_be (km_secret km) < secp256k1_n ->
  km_network km = nw_name n ->
  exists w,
    lib_wif oc km = Ok w /\
    In (nw_name n) (lib_networks_by_wif (nw_prefix_wif n)) /\
    (forall ip, lib_get_key_format fold true (KStr w) ip =
       KfOk {| kf_format := if km_compressed km then FWifCompressed else FWif;
               kf_networks := Some (lib_networks_by_wif (nw_prefix_wif n)); kf_private := true; kf_scripts := [];
               kf_witness := [default_witness]; kf_multisig := [false] |}) /\
    (forall h c ip, network_defined h = true ->
       lib_key_import fold true oc (KStr w) (Some h) c ip = Ok (wif_key_obj (km_secret km) (km_compressed km) h)) /\
    (forall c ip,
       lib_key_import fold true oc (KStr w) None c ip =
       match resolve_networks (lib_networks_by_wif (nw_prefix_wif n)) with
       | Ok nw => Ok (wif_key_obj (km_secret km) (km_compressed km) nw)
       | Err e => Err e
       end).
Proof. exact wif_roundtrip_lemma. Qed.

(* what "resolves" means: a member of the candidate list, or a refusal that only happens when several networks
   share the prefix and neither the default network nor testnet is among them *)
Theorem network_resolution_sound : forall l x, l <> [] -> resolve_networks l = Ok x -> In x l.
Proof. exact resolve_networks_ok. Qed.

Theorem network_resolution_refusal : forall l e, resolve_networks l = Err e ->
  e = EAmbiguous /\ (1 < length l)%nat /\ str_in default_network l = false /\ str_in testnet_name l = false.
Proof. exact resolve_networks_err. Qed.

Theorem wif_candidates_are_version_sharers : forall x v, In x (lib_networks_by_wif v) ->
  exists n, In n all_networks /\ nw_name n = x /\ nw_prefix_wif n = v.
Proof. exact networks_by_wif_sound. Qed.

(* which version bytes are shared is computed from the regenerated table *)
Example wif_version_candidates :
  lib_networks_by_wif [x80] = ["bitcoin"; "regtest"]%string /\
  lib_networks_by_wif [xef] = ["testnet"; "testnet4"; "signet"; "litecoin_testnet"]%string /\
  lib_networks_by_wif [xb0] = ["litecoin"; "litecoin_legacy"]%string /\
  lib_networks_by_wif [x9e] = ["dogecoin"]%string /\
  resolve_networks (lib_networks_by_wif [xef]) = Ok "testnet"%string /\
  resolve_networks (lib_networks_by_wif [xb0]) = Err EAmbiguous.
Proof. vm_compute. repeat split; reflexivity. Qed.

(* the code before fixes/C12-1: the uncompressed WIF of a secret ending in 01 is classified wif_compressed and
   Key(text) fails (before the C11 repair of the 32-byte check it returned the 31-byte number in front of the 01) *)
Example wif_roundtrip_old_code_refuted :
  match lib_wif (fun _ => true) wif_bug_km with
  | Ok w => lib_key_import false false (fun _ => true) (KStr w) None true None = Err EKey /\
            (exists i, lib_get_key_format false false (KStr w) None = KfOk i /\ kf_format i = FWifCompressed)
  | Err _ => False
  end.
Proof. exact KeyFormatWif.wif_roundtrip_old_code_refuted. Qed.

(* ================= extended keys ================= *)
(* HDKey.wif() writes, for the row r of the exporting network that Network.wif_prefix selects — a row whose
   private / witness-type / multisig columns are the ones asked for —, Base58Check of the 78-byte body *)
Theorem xkey_export_is_row_text : forall pubser oc k want w,
  lib_xkey pubser oc k want = Ok w ->
  exists n r, km_constructible oc k = true /\ In n all_networks /\ nw_name n = km_network k /\ In r (nw_prefixes_wif n) /\
    wr_private r = (km_private k && want) /\ wr_witness_type r = km_witness_eff k /\ wr_multisig r = km_multisig k /\
    0 <= km_depth k < 256 /\ 0 <= km_child k < 2 ^ 32 /\
    w = xkey_text r (km_depth k) (km_fp k) (km_child k) (km_chain k) (xkey_keydata pubser k want).
Proof. exact xkey_export_row. Qed.

(* HDKey(text, network=hint, witness_type=wthint, multisig=mshint, compressed=c), for every table row and all
   field values (row_key_ok: a 32-byte secret in 1 .. n-1 for a private row; for a public row 02/03 + 32 bytes that the
   curve oracle accepts): every field comes back; the network is what check_network_and_key makes of the hint and the
   networks carrying this prefix; witness type / multisig are the prefix's when it determines them, else the hint *)
Theorem xkey_roundtrip : forall fold wc oc n r depth child fp chain k0 kr hint wthint mshint c,
  In n all_networks -> In r (nw_prefixes_wif n) ->
  0 <= depth < 256 -> 0 <= child < 2 ^ 32 -> length fp = 4%nat -> length chain = 32%nat -> row_key_ok oc r k0 kr ->
  lib_hdkey_import fold wc oc (KStr (xkey_text r depth fp child chain (k0 :: kr))) hint wthint mshint c =
  match lib_check_network hint (Some (prefix_networks (wr_prefix r))) with
  | Err e => Err e
  | Ok nw => Ok (xkey_obj (wr_private r) (row_key r k0 kr) c nw chain depth fp child
                   (import_witness (wr_prefix r) wthint) (import_multisig (wr_prefix r) mshint))
  end.
Proof. exact xkey_import_closed. Qed.

(* HDKey.from_wif(text, network=hint, multisig=mshint, compressed=c) *)
Theorem xkey_roundtrip_from_wif : forall fold wc oc n r depth child fp chain k0 kr hint mshint c,
  In n all_networks -> In r (nw_prefixes_wif n) ->
  0 <= depth < 256 -> 0 <= child < 2 ^ 32 -> length fp = 4%nat -> length chain = 32%nat -> row_key_ok oc r k0 kr ->
  lib_hdkey_from_wif fold wc oc (xkey_text r depth fp child chain (k0 :: kr)) hint mshint c =
  match lib_wif_prefix_search (wr_prefix r) None mshint hint with
  | [] => Err EKey
  | m :: _ => Ok (xkey_obj (wr_private r) (row_key r k0 kr) c (match hint with Some h => h | None => hm_network m end)
                    chain depth fp child (wr_witness_type (hm_row m))
                    (match mshint with Some true => true | _ => wr_multisig (hm_row m) end))
  end.
Proof. exact xkey_from_wif_closed. Qed.

(* with the exporting network as hint: never refused, that network *)
Theorem xkey_network_exact_with_hint : forall n r, In n all_networks -> In r (nw_prefixes_wif n) ->
  lib_check_network (Some (nw_name n)) (Some (prefix_networks (wr_prefix r))) = Ok (nw_name n).
Proof. exact check_network_hint. Qed.

(* without: one of the networks carrying the prefix, or the ambiguity refusal *)
Theorem xkey_network_candidates : forall p, prefix_networks p <> [] ->
  match lib_check_network None (Some (prefix_networks p)) with
  | Ok x => In x (prefix_networks p)
  | Err e => e = EAmbiguous /\ (1 < length (prefix_networks p))%nat /\
             str_in default_network (prefix_networks p) = false /\ str_in testnet_name (prefix_networks p) = false
  end.
Proof. exact check_network_nohint. Qed.

(* the exporting row's network / witness type / multisig flag are among what the prefix stands for — hence equal
   to it when the prefix stands for one value only *)
Theorem xkey_row_among_candidates : forall n r, In n all_networks -> In r (nw_prefixes_wif n) ->
  In (nw_name n) (prefix_networks (wr_prefix r)) /\
  In (wr_witness_type r) (prefix_witness (wr_prefix r)) /\
  In (wr_multisig r) (prefix_multisig (wr_prefix r)).
Proof. exact (fun n r Hn Hr => conj (prefix_networks_in n r Hn Hr) (conj (prefix_witness_in n r Hn Hr) (prefix_multisig_in n r Hn Hr))). Qed.

Theorem unique_candidate_is_exact : forall (A : Type) (x y : A), In x [y] -> y = x.
Proof. exact @unique_candidate. Qed.

Theorem from_wif_chooses_table_rows : forall p ms hint m,
  In m (lib_wif_prefix_search p None ms hint) ->
  In m (prefix_rows p) /\ In (hm_network m) (prefix_networks p) /\
  match hint with Some h => hm_network m = h | None => True end.
Proof. exact from_wif_candidates. Qed.

Theorem from_wif_with_hint_finds_a_row : forall n r ms, In n all_networks -> In r (nw_prefixes_wif n) ->
  (ms = None \/ ms = Some (wr_multisig r)) ->
  lib_wif_prefix_search (wr_prefix r) None ms (Some (nw_name n)) <> [].
Proof. exact from_wif_hint_nonempty. Qed.

(* which prefixes are shared, and between what, is computed from the regenerated table *)
Example shared_prefixes :
  prefix_networks [x04; x88; xad; xe4] = ["bitcoin"; "regtest"; "dogecoin"]%string /\
  prefix_networks [x04; x35; x83; x94] = ["testnet"; "testnet4"; "signet"; "dogecoin_testnet"]%string /\
  prefix_networks [x01; x9d; x9c; xfe] = ["litecoin"; "litecoin_legacy"]%string /\
  lib_check_network None (Some (prefix_networks [x01; x9d; x9c; xfe])) = Err EAmbiguous /\
  lib_check_network None (Some (prefix_networks [x04; x88; xad; xe4])) = Ok "bitcoin"%string /\
  prefix_multisig [x04; x88; xad; xe4] = [false; true] /\
  prefix_witness [x01; xb2; x67; x92] = ["p2sh-segwit"; "segwit"]%string /\
  prefix_witness [x04; x36; xef; x7d] = ["legacy"; "p2sh-segwit"; "segwit"]%string /\
  prefix_networks [x2f; xff; xb9; x00] = ["bitcoinlib_test"]%string /\
  prefix_witness [x2f; xff; xb9; x00] = ["segwit"]%string /\ prefix_multisig [x2f; xff; xb9; x00] = [false] /\
  prefix_witness [x02; xaa; x7a; x99] = ["segwit"]%string /\ prefix_multisig [x02; xaa; x7a; x99] = [true].
Proof. vm_compute. repeat split; reflexivity. Qed.

(* non-vacuity: a bitcoin / segwit / single-signature private key at depth 3, hardened child 2^31+1, secret with
   eight leading zero bytes, exported and imported inside Coq *)
Example xkey_concrete :
  let km := {| km_private := true; km_secret := repeat x00 8 ++ repeat xa7 24; km_pubc := x02 :: repeat x33 32;
               km_pubu := x04 :: repeat x33 64; km_compressed := true; km_chain := repeat x5a 32; km_depth := 3;
               km_fp := [x01; x02; x03; x04]; km_child := 2147483649; km_network := "bitcoin"%string;
               km_witness := "segwit"%string; km_multisig := false |} in
  match lib_xkey true (fun _ => true) km true with
  | Ok w => lib_hdkey_import false true (fun _ => true) (KStr w) None None false true =
            Ok (xkey_obj true (km_secret km) true "bitcoin"%string (km_chain km) 3 (km_fp km) 2147483649
                         "segwit"%string false)
  | Err _ => False
  end.
Proof. vm_compute. reflexivity. Qed.

(* the code before fixes/C12-2: the "extended public key" of an uncompressed key carries the 65-byte point — 114
   bytes that neither HDKey() nor HDKey.from_wif() accept (before the C11 repair of the length check HDKey() read
   04 || x as a compressed key) *)
Example xkey_uncompressed_old_code_refuted :
  let km := {| km_private := false; km_secret := []; km_pubc := x02 :: repeat x33 32;
               km_pubu := x04 :: repeat x33 32 ++ repeat x44 32; km_compressed := false; km_chain := repeat x5a 32;
               km_depth := 0; km_fp := repeat x00 4; km_child := 0; km_network := "bitcoin"%string;
               km_witness := "legacy"%string; km_multisig := false |} in
  match lib_xkey false (fun _ => true) km false with
  | Ok w => lib_hdkey_import false true (fun _ => true) (KStr w) None None false true = Err EKey /\
            lib_hdkey_from_wif false true (fun _ => true) w None None true = Err EKey
  | Err _ => False
  end.
Proof. vm_compute. split; reflexivity. Qed.

(* still open (BIP32 has no uncompressed form): compressed=False does not survive an extended-key round trip
   unless the caller supplies it again — the imported flag is the argument c, not the exported key's *)
Example xkey_uncompressed_flag_refuted :
  let km := {| km_private := true; km_secret := repeat xa7 32; km_pubc := x02 :: repeat x33 32;
               km_pubu := x04 :: repeat x33 64; km_compressed := false; km_chain := repeat x5a 32; km_depth := 0;
               km_fp := repeat x00 4; km_child := 0; km_network := "bitcoin"%string;
               km_witness := "segwit"%string; km_multisig := false |} in
  match lib_xkey true (fun _ => true) km true with
  | Ok w => match lib_hdkey_import false true (fun _ => true) (KStr w) None None false true with
            | Ok h => ko_key (ho_key h) = km_secret km /\ ko_compressed (ho_key h) = true
            | Err _ => False
            end
  | Err _ => False
  end.
Proof. vm_compute. split; reflexivity. Qed.

(* ================= raw forms ================= *)
(* private_byte, private_hex, secret (the integer), for every secret in 1 .. n-1: the same 32 bytes come back,
   leading zeros included *)
Theorem raw_forms_roundtrip : forall fold wc oc secret h c ip,
  length secret = 32%nat -> 0 < of_be secret < secp256k1_n -> hint_ok h ->
  lib_key_import fold wc oc (KBytes secret) h c ip = Ok (raw_key_obj true secret c (hint_network h) FBin) /\
  lib_key_import fold wc oc (KStr (hex_encode secret)) h c ip = Ok (raw_key_obj true secret c (hint_network h) FHex) /\
  lib_key_import fold wc oc (KInt (of_be secret)) h c ip = Ok (raw_key_obj true secret c (hint_network h) FDecimal).
Proof. exact raw_private_roundtrip. Qed.

(* public_byte and public_hex, compressed (02/03 + 32 bytes) and uncompressed (04 + 64 bytes), for every point the
   curve oracle accepts *)
Theorem raw_public_bytes_roundtrip : forall fold wc oc k0 kr h c,
  hint_ok h -> pub_shape k0 kr -> oc (k0 :: kr) = true ->
  lib_key_import fold wc oc (KBytes (k0 :: kr)) h c None =
  Ok (raw_key_obj false (k0 :: kr) (Nat.eqb (length kr) 32) (hint_network h)
        (if Nat.eqb (length kr) 32 then FBinCompressed else FBin)).
Proof. exact raw_public_bytes. Qed.

Theorem raw_public_hex_roundtrip : forall fold wc oc k0 kr h c,
  hint_ok h -> pub_shape k0 kr -> oc (k0 :: kr) = true ->
  lib_key_import fold wc oc (KStr (hex_encode (k0 :: kr))) h c None =
  Ok (raw_key_obj false (k0 :: kr) (Nat.eqb (length kr) 32) (hint_network h)
        (if Nat.eqb (length kr) 32 then FPublic else FPublicUncompressed)).
Proof. exact raw_public_hex. Qed.

(* outside the guards (intended since the C04 repairs): the group order as a secret is refused in every raw form, as a
   WIF and inside an extended key, 0 is refused; a public key the curve oracle rejects, or of the wrong shape, is refused *)
Example secret_out_of_range_refused :
  lib_key_import false true (fun _ => true) (KBytes order_bytes) None true None = Err EKey /\
  lib_key_import false true (fun _ => true) (KStr (hex_encode order_bytes)) None true None = Err EKey /\
  lib_key_import false true (fun _ => true) (KInt secp256k1_n) None true None = Err EKey /\
  lib_key_import false true (fun _ => true) (KInt 0) None true None = Err EKey /\
  lib_key_import false true (fun _ => true)
    (KStr (b58check_enc sha256d ([x80] ++ order_bytes ++ [x01]))) None true None = Err EKey /\
  lib_hdkey_import false true (fun _ => true)
    (KStr (b58check_enc sha256d (xkey_raw [x04; x88; xad; xe4] 0 (repeat x00 4) 0 (repeat x11 32) (x00 :: order_bytes))))
    None None false true = Err EKey.
Proof. exact KeyFormatFinal.secret_out_of_range_refused. Qed.

Example off_curve_public_refused :
  lib_key_import false true (fun _ => false) (KBytes (x02 :: repeat x33 32)) None true None = Err EKey /\
  lib_key_import false true (fun _ => true) (KBytes (x02 :: repeat x33 32)) None true None =
    Ok (raw_key_obj false (x02 :: repeat x33 32) true default_network FBinCompressed) /\
  lib_key_import false true (fun _ => true) (KBytes (x05 :: repeat x33 32)) None true None = Err EUnmodelled /\
  lib_key_import false true (fun _ => true) (KBytes (x04 :: repeat x33 32)) None true None = Err EKey.
Proof. exact KeyFormatFinal.off_curve_public_refused. Qed.

(* ================= never cross-classified ================= *)
(* extended keys: is_private reported by get_key_format is the row's, whatever is_private the caller passes *)
Theorem never_cross_classified_xkey : forall fold wc oc n r depth child fp chain k0 kr ip,
  In n all_networks -> In r (nw_prefixes_wif n) ->
  length fp = 4%nat -> length chain = 32%nat -> row_key_ok oc r k0 kr ->
  lib_get_key_format fold wc (KStr (xkey_text r depth fp child chain (k0 :: kr))) ip =
  KfOk {| kf_format := if wr_private r then FHdPrivate else FHdPublic;
          kf_networks := Some (prefix_networks (wr_prefix r)); kf_private := wr_private r;
          kf_scripts := prefix_scripts (wr_prefix r); kf_witness := prefix_witness (wr_prefix r);
          kf_multisig := prefix_multisig (wr_prefix r) |}.
Proof. exact xkey_format_closed. Qed.

(* the finite facts this rests on, re-proved from the regenerated table on every run *)
Theorem prefix_determines_private : forall m m', In m all_rows -> In m' all_rows ->
  wr_prefix (hm_row m) = wr_prefix (hm_row m') -> wr_private (hm_row m) = wr_private (hm_row m').
Proof. exact all_rows_private. Qed.

Theorem wif_version_never_starts_hd_prefix : forall n, In n all_networks ->
  exists v, nw_prefix_wif n = [v] /\ v <> x00 /\
            forall m, In m all_rows -> first_byte (wr_prefix (hm_row m)) <> v.
Proof. exact wif_version_shape. Qed.

Theorem hd_prefix_shape : forall m, In m all_rows ->
  length (wr_prefix (hm_row m)) = 4%nat /\ first_byte (wr_prefix (hm_row m)) <> x00.
Proof. exact all_rows_shape. Qed.

(* BIP38: every 58-character text starting 6P is reported private, whatever the caller passes; and the BIP38
   payloads are exactly such texts *)
Theorem never_cross_classified_bip38 : forall fold wc s ip,
  length s = 58%nat -> starts s_6P s = true ->
  lib_get_key_format fold wc (KStr s) ip = kf_plain FWifProtected true.
Proof. exact bip38_text_private. Qed.

Theorem bip38_payloads_start_6P : forall v,
  (82624 * 256 ^ 40 <= v < 82657 * 256 ^ 40) \/ (82688 * 256 ^ 40 <= v < 82725 * 256 ^ 40) ->
  (5 * 58 + 22) * 58 ^ 56 <= v < (5 * 58 + 23) * 58 ^ 56.
Proof. exact bip38_range. Qed.


(* ================= the prefix table against the frozen specification ================= *)
(* Model/SpecNetworks.v is a frozen copy of the chain parameters (Bitcoin / Litecoin / Dogecoin Core chainparams, SLIP-0132
   version bytes), never regenerated.  The rows the round trips above quantify over — regenerated from
   bitcoinlib/data/networks.json on every run — are those rows: version bytes, label, private?, multisig?, witness type and
   script type of every prefixes_wif row of every network, in order; the WIF version bytes; the names and the priorities
   (network_by_value orders the candidates of a shared prefix by priority).  Closed by the glue lemmas
   (Proofs/SpecNetworksGlue.v, vm_compute over both tables): an edited row breaks these obligations. *)
Theorem prefixes_wif_rows_are_frozen_spec :
  map (fun n => (nw_name n, map proj_wif_row (nw_prefixes_wif n))) all_networks =
  map (fun s => (sn_name s, sn_prefixes_wif s)) spec_networks.
Proof. exact c12_prefixes_wif_frozen. Qed.

Theorem wif_version_bytes_are_frozen_spec :
  map (fun n => (nw_name n, nw_prefix_wif n)) all_networks = map (fun s => (sn_name s, sn_prefix_wif s)) spec_networks.
Proof. exact c12_wif_versions_frozen. Qed.

Theorem network_priorities_are_frozen_spec :
  map (fun n => (nw_name n, nw_priority n, nw_currency_code n)) all_networks =
  map (fun s => (sn_name s, sn_priority s, sn_currency_code s)) spec_networks.
Proof. exact c12_priorities_frozen. Qed.

Theorem network_names_are_frozen_spec : map nw_name all_networks = map sn_name spec_networks.
Proof. exact c12_names_frozen. Qed.

(* the flattened regenerated table, row by row, is the flattened frozen table *)
Theorem all_rows_are_frozen_rows : map proj_match all_rows = spec_rows.
Proof. exact all_rows_are_spec_rows. Qed.

(* SLIP-0132, proved on the frozen table and carried over: on bitcoin / testnet / testnet4 / signet / regtest /
   bitcoinlib_test a version-bytes prefix stands for ONE witness type in the whole table and, outside the legacy rows
   (xpub / tpub serve single-signature and multisig keys alike), for ONE multisig flag *)
Theorem slip132_prefix_determines_metadata : forall m m', In m all_rows -> In m' all_rows ->
  wr_prefix (hm_row m) = wr_prefix (hm_row m') -> slip132_network (hm_network m) = true ->
  wr_witness_type (hm_row m') = wr_witness_type (hm_row m) /\
  (is_legacy (wr_witness_type (hm_row m)) = false -> wr_multisig (hm_row m') = wr_multisig (hm_row m)).
Proof. exact slip132_prefix_exact. Qed.

(* hence the exact round trip: HDKey(text, network=<exporting network>) returns every field AND the exporting row's
   witness type and multisig flag, with no witness-type / multisig hint *)
Theorem xkey_roundtrip_exact_metadata : forall fold wc oc n r depth child fp chain k0 kr mshint c,
  In n all_networks -> In r (nw_prefixes_wif n) -> slip132_network (nw_name n) = true ->
  is_legacy (wr_witness_type r) = false ->
  0 <= depth < 256 -> 0 <= child < 2 ^ 32 -> length fp = 4%nat -> length chain = 32%nat -> row_key_ok oc r k0 kr ->
  lib_hdkey_import fold wc oc (KStr (xkey_text r depth fp child chain (k0 :: kr))) (Some (nw_name n)) None mshint c =
  Ok (xkey_obj (wr_private r) (row_key r k0 kr) c (nw_name n) chain depth fp child (wr_witness_type r) (wr_multisig r)).
Proof. exact xkey_import_exact. Qed.

Theorem xkey_roundtrip_exact_witness_legacy : forall fold wc oc n r depth child fp chain k0 kr mshint c,
  In n all_networks -> In r (nw_prefixes_wif n) -> slip132_network (nw_name n) = true ->
  0 <= depth < 256 -> 0 <= child < 2 ^ 32 -> length fp = 4%nat -> length chain = 32%nat -> row_key_ok oc r k0 kr ->
  exists ms,
  lib_hdkey_import fold wc oc (KStr (xkey_text r depth fp child chain (k0 :: kr))) (Some (nw_name n)) None mshint c =
  Ok (xkey_obj (wr_private r) (row_key r k0 kr) c (nw_name n) chain depth fp child (wr_witness_type r) ms).
Proof. exact xkey_import_exact_legacy. Qed.

Theorem xkey_roundtrip_from_wif_exact_metadata : forall fold wc oc n r depth child fp chain k0 kr c,
  In n all_networks -> In r (nw_prefixes_wif n) -> slip132_network (nw_name n) = true ->
  is_legacy (wr_witness_type r) = false ->
  0 <= depth < 256 -> 0 <= child < 2 ^ 32 -> length fp = 4%nat -> length chain = 32%nat -> row_key_ok oc r k0 kr ->
  lib_hdkey_from_wif fold wc oc (xkey_text r depth fp child chain (k0 :: kr)) (Some (nw_name n)) None c =
  Ok (xkey_obj (wr_private r) (row_key r k0 kr) c (nw_name n) chain depth fp child (wr_witness_type r) (wr_multisig r)).
Proof. exact xkey_from_wif_exact. Qed.

(* the frozen values themselves: signet / segwit / multisig / private is Vprv 02575048 and nothing else is; Uprv is
   p2sh-segwit multisig *)
Example slip132_signet_rows :
  prefix_witness [x02; x57; x50; x48] = ["segwit"]%string /\ prefix_multisig [x02; x57; x50; x48] = [true] /\
  prefix_networks [x02; x57; x50; x48] = ["testnet"; "testnet4"; "signet"]%string /\
  prefix_witness [x02; x42; x85; xb5] = ["p2sh-segwit"]%string /\ prefix_multisig [x02; x42; x85; xb5] = [true] /\
  (match find_network "signet"%string with
   | Some n => lib_network_wif_prefix n true "segwit"%string true
   | None => Err ENetwork
   end) = Ok [x02; x57; x50; x48].
Proof. exact KeyFormatSpecTable.slip132_signet_rows. Qed.

(* the hypotheses of the exact round trip are satisfiable: 48 rows of the table meet them *)
Example slip132_rows_exist :
  length (filter (fun m => slip132_network (hm_network m) && negb (is_legacy (wr_witness_type (hm_row m)))) all_rows) = 48%nat /\
  length all_rows = 116%nat.
Proof. vm_compute. split; reflexivity. Qed.

(* ================= several calls on one object ================= *)
(* A Key / HDKey object is its visible fields (sstate: a keymeta and the current compressed attribute).  [session] runs
   a list of calls — wif(prefix) / wif_key(prefix), HDKey.wif(is_private, child_index, prefix, witness_type, multisig)
   with wif_private / wif_public as special cases, network_change, public(), address(compressed), as_hex, as_bytes, int,
   encrypt — on ONE object.  The model keeps nothing between the calls but the fields: *)
Theorem session_is_map_of_stateless_exports : forall pubser oc s ops,
  session pubser oc s ops =
  map (fun p => sop_answer pubser oc (fst p) (snd p)) (combine (session_states s ops) ops).
Proof. exact session_is_map. Qed.

(* the answer of a call depends on the calls before it only through the fields they leave behind *)
Theorem session_answer_depends_on_fields_only : forall pubser oc s a op b d,
  nth (length a) (session pubser oc s (a ++ op :: b)) d = sop_answer pubser oc (session_final s a) op.
Proof. exact session_nth_answer. Qed.

(* exports — with whatever explicit version bytes, witness type, multisig flag — do not touch the fields ... *)
Theorem exports_leave_fields_unchanged : forall s ops,
  forallb pure_export ops = true -> session_final s ops = s.
Proof. exact pure_exports_keep_fields. Qed.

(* ... so the next call answers as on a fresh object with the same fields (no stored text of an earlier export) *)
Theorem export_after_exports_is_fresh : forall pubser oc s ops op rest d,
  forallb pure_export ops = true ->
  nth (length ops) (session pubser oc s (ops ++ op :: rest)) d = sop_answer pubser oc s op.
Proof. exact export_after_pure_exports. Qed.

(* every export is pure — HDKey.wif with an explicit child_index included (fixes/C03-8): [pure_export] holds of every
   wif / wif_key / HDKey.wif / wif_private / wif_public / raw-form / opaque call and of address() without compressed= *)
Theorem every_xkey_export_is_pure : forall isp child prefix wt ms, pure_export (SXkey isp child prefix wt ms) = true.
Proof. exact xkey_export_is_pure. Qed.

Theorem xkey_after_explicit_child_index_is_default_export : forall pubser oc s isp c prefix wt ms want,
  session pubser oc s [SXkey isp (Some c) prefix wt ms; SXkey (Some want) None None None None] =
  [AText (lib_xkey_with pubser oc (ss_km s) isp (Some c) prefix wt ms); AText (lib_xkey pubser oc (ss_km s) want)].
Proof. exact xkey_after_explicit_child. Qed.

(* the code before fixes/C03-8 stored the argument in the object: wif(child_index=7) left child_index = 7 behind *)
Example child_index_side_effect_old_code_refuted :
  km_child (ss_km (sop_step_pre_c03_8 (fun _ => true) (ss_init session_km) (SXkey (Some true) (Some 7) None None None))) = 7 /\
  km_child (ss_km (sop_step (ss_init session_km) (SXkey (Some true) (Some 7) None None None))) = 0 /\
  pure_export (SXkey (Some true) (Some 7) None None None) = true.
Proof. vm_compute. repeat split; reflexivity. Qed.

Theorem wif_after_explicit_prefix_is_plain_wif : forall pubser oc s p,
  session pubser oc s [SWif (Some p); SWif None] =
  [AText (lib_wif_with oc (ss_wif_view s) (Some p)); AText (lib_wif oc (ss_wif_view s))].
Proof. exact wif_after_explicit_prefix. Qed.

Theorem wif_after_network_change_is_new_network : forall pubser oc s name,
  network_defined name = true ->
  session pubser oc s [SWif None; SNet name; SWif None] =
  [AText (lib_wif oc (ss_wif_view s)); ADone (Ok tt); AText (lib_wif oc (km_set_network (ss_wif_view s) name))].
Proof. exact wif_after_network_change. Qed.

Theorem wif_after_address_follows_compressed_attribute : forall pubser oc s b,
  session pubser oc s [SWif None; SAddr (Some b); SWif None] =
  [AText (lib_wif oc (ss_wif_view s)); AComp b; AText (lib_wif oc (km_set_compressed (ss_km s) b))].
Proof. exact wif_after_address_compressed. Qed.

(* no call changes the public point, the construction-time compressed flag, chain code, depth, fingerprint, witness type
   or multisig flag; the secret is unchanged until public() removes it *)
Theorem session_keeps_key_material : forall s ops,
  key_material (ss_km (session_final s ops)) = key_material (ss_km s).
Proof. exact KeyFormatSession.session_keeps_key_material. Qed.

Theorem session_keeps_secret : forall s ops,
  km_private (ss_km (session_final s ops)) = true ->
  km_private (ss_km s) = true /\ km_secret (ss_km (session_final s ops)) = km_secret (ss_km s).
Proof. exact session_secret. Qed.

(* the default calls are the exporters the round-trip theorems above are about *)
Theorem wif_default_arguments : forall oc k, lib_wif_with oc k None = lib_wif oc k.
Proof. exact lib_wif_with_default. Qed.

Theorem xkey_default_arguments : forall pubser oc k want,
  lib_xkey_with pubser oc k (Some want) None None None None = lib_xkey pubser oc k want.
Proof. exact lib_xkey_with_default. Qed.

Theorem xkey_own_values_as_arguments : forall pubser oc k want,
  lib_xkey_with pubser oc k (Some want) (Some (km_child k)) None (Some (km_witness k)) (Some (km_multisig k)) =
  lib_xkey pubser oc k want.
Proof. exact lib_xkey_with_own_values. Qed.

(* after ANY calls: while the object holds its secret, wif() / wif_key() imports back to the secret, the network the
   object has now and the compressed attribute it has now, and is classified private *)
Theorem session_wif_roundtrip : forall pubser oc fold k ops n,
  let s := session_final (ss_init k) ops in
  In n all_networks -> km_network (ss_km s) = nw_name n -> km_private (ss_km s) = true ->
  length (km_secret k) = 32%nat -> 0 < of_be (km_secret k) < secp256k1_n ->
  exists w,
    nth (length ops) (session pubser oc (ss_init k) (ops ++ [SWif None])) (ADone (Ok tt)) = AText (Ok w) /\
    (forall h c ip, network_defined h = true ->
       lib_key_import fold true oc (KStr w) (Some h) c ip = Ok (wif_key_obj (km_secret k) (ss_compressed s) h)) /\
    (forall ip, exists i, lib_get_key_format fold true (KStr w) ip = KfOk i /\ kf_private i = true /\
                          kf_format i = if ss_compressed s then FWifCompressed else FWif).
Proof. exact KeyFormatSession.session_wif_roundtrip. Qed.

(* after ANY calls, wif_private() / wif_public() / wif() are the default exporter of the current fields: the theorems
   xkey_export_is_row_text and xkey_roundtrip* apply to them *)
Theorem session_xkey_is_stateless_export : forall pubser oc s ops want rest d,
  nth (length ops) (session pubser oc s (ops ++ SXkey (Some want) None None None None :: rest)) d =
  AText (lib_xkey pubser oc (ss_km (session_final s ops)) want).
Proof. exact KeyFormatSession.session_xkey_is_stateless_export. Qed.

(* non-vacuity, computed: litecoin version byte first, then the plain WIF (bitcoin), network_change('testnet'), WIF
   (testnet), address(compressed=False), WIF (uncompressed), public(), WIF (refused); every WIF imported back *)
Example session_concrete :
  match session true (fun _ => true) (ss_init session_km)
          [SWif (Some [xb0]); SWif None; SNet "testnet"%string; SWif None; SAddr (Some false); SWif None; SPublic; SWif None] with
  | [AText (Ok w_ltc); AText (Ok w_btc); ADone (Ok tt); AText (Ok w_test); AComp false; AText (Ok w_unc); ADone (Ok tt);
     AText (Err EKey)] =>
      lib_key_import false true (fun _ => true) (KStr w_ltc) (Some "litecoin"%string) true None =
        Ok (wif_key_obj (km_secret session_km) true "litecoin"%string) /\
      lib_key_import false true (fun _ => true) (KStr w_btc) None true None =
        Ok (wif_key_obj (km_secret session_km) true "bitcoin"%string) /\
      lib_key_import false true (fun _ => true) (KStr w_test) None true None =
        Ok (wif_key_obj (km_secret session_km) true "testnet"%string) /\
      lib_key_import false true (fun _ => true) (KStr w_unc) None true None =
        Ok (wif_key_obj (km_secret session_km) false "testnet"%string)
  | _ => False
  end.
Proof. exact KeyFormatSession.session_concrete. Qed.

(* ================= BIP38 hand-over of the decrypted secret ================= *)
(* Key.__init__ hands the 32-byte result of the BIP38 decryption of a COMPRESSED key to itself as 'bin_compressed'.  In that
   form the compression marker is dropped behind a 32 / 64 / 128-byte key only (33 / 65 / 129 bytes in all): a 32-byte secret
   keeps every byte and gets compressed = true, whatever its last byte is (01 included).  The decryption itself (scrypt, AES)
   is C15; that the implementation follows this on secrets with tail 01 is discharged by the oracle on bip38rt requests
   (frozen texts of corpus/C12/bip38_special.json + the library's own encrypt -> import round trip). *)
Theorem bip38_secret_32_bytes_kept : forall fold wc b compressed,
  length b = 32%nat -> key_private_part fold wc (KBytes b) FBinCompressed compressed = Ok (b, true).
Proof. exact KeyFormatSession.bin_compressed_32_keeps_every_byte. Qed.

Theorem bin_compressed_marker_needs_33_65_129 : forall fold wc b compressed,
  length b <> 33%nat -> length b <> 65%nat -> length b <> 129%nat ->
  key_private_part fold wc (KBytes b) FBinCompressed compressed = Ok (b, true).
Proof. exact KeyFormatSession.bin_compressed_marker_only_at_33_65_129. Qed.

(* hypotheses satisfiable: a 32-byte secret with tail 01; and the marker IS dropped at 33 bytes *)
Example bip38_secret_tail_01_kept :
  key_private_part false true (KBytes (repeat x5a 31 ++ [x01])) FBinCompressed false = Ok (repeat x5a 31 ++ [x01], true).
Proof. apply bip38_secret_32_bytes_kept. reflexivity. Qed.

Example bin_compressed_33_marker_dropped :
  key_private_part false true (KBytes (repeat x5a 32 ++ [x01])) FBinCompressed false = Ok (repeat x5a 32, true).
Proof. vm_compute. reflexivity. Qed.

Print Assumptions wif_roundtrip.
Print Assumptions network_resolution_sound.
Print Assumptions network_resolution_refusal.
Print Assumptions wif_candidates_are_version_sharers.
Print Assumptions xkey_export_is_row_text.
Print Assumptions xkey_roundtrip.
Print Assumptions xkey_roundtrip_from_wif.
Print Assumptions xkey_network_exact_with_hint.
Print Assumptions xkey_network_candidates.
Print Assumptions xkey_row_among_candidates.
Print Assumptions unique_candidate_is_exact.
Print Assumptions from_wif_chooses_table_rows.
Print Assumptions from_wif_with_hint_finds_a_row.
Print Assumptions raw_forms_roundtrip.
Print Assumptions raw_public_bytes_roundtrip.
Print Assumptions raw_public_hex_roundtrip.
Print Assumptions never_cross_classified_xkey.
Print Assumptions prefix_determines_private.
Print Assumptions wif_version_never_starts_hd_prefix.
Print Assumptions hd_prefix_shape.
Print Assumptions never_cross_classified_bip38.
Print Assumptions bip38_payloads_start_6P.
Print Assumptions prefixes_wif_rows_are_frozen_spec.
Print Assumptions wif_version_bytes_are_frozen_spec.
Print Assumptions network_priorities_are_frozen_spec.
Print Assumptions network_names_are_frozen_spec.
Print Assumptions all_rows_are_frozen_rows.
Print Assumptions slip132_prefix_determines_metadata.
Print Assumptions xkey_roundtrip_exact_metadata.
Print Assumptions xkey_roundtrip_exact_witness_legacy.
Print Assumptions xkey_roundtrip_from_wif_exact_metadata.
Print Assumptions session_is_map_of_stateless_exports.
Print Assumptions session_answer_depends_on_fields_only.
Print Assumptions exports_leave_fields_unchanged.
Print Assumptions export_after_exports_is_fresh.
Print Assumptions every_xkey_export_is_pure.
Print Assumptions xkey_after_explicit_child_index_is_default_export.
Print Assumptions wif_after_explicit_prefix_is_plain_wif.
Print Assumptions wif_after_network_change_is_new_network.
Print Assumptions wif_after_address_follows_compressed_attribute.
Print Assumptions session_keeps_key_material.
Print Assumptions session_keeps_secret.
Print Assumptions wif_default_arguments.
Print Assumptions xkey_default_arguments.
Print Assumptions xkey_own_values_as_arguments.
Print Assumptions session_wif_roundtrip.
Print Assumptions session_xkey_is_stateless_export.
Print Assumptions bip38_secret_32_bytes_kept.
Print Assumptions bin_compressed_marker_needs_33_65_129.
