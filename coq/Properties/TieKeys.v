(* Properties/TieKeys.v (C04 part of the second translated set) — the source-to-model tie of the second translated set.
   Each conjunct says: the definition that translator/gen_funcs2.py regenerated from /repo's CURRENT source on
   this run (coq/Gen/GenFuncs2.v; semantics of the Python primitives in Lib/Py.v and Lib/Py2.v) IS the
   hand-written model function the property theorems are stated about, for all inputs.
   None on the generated side = the Python code raises (or, for Block.target, computes a float). *)
From Coq Require Import ZArith List Bool.
From Coq.Strings Require Import Byte.
From Verif Require Import Lib.Bytes Lib.Py Lib.Py2 Gen.GenFuncs2.
From Verif Require Import Model.KeyPoint Model.BlockCodec Model.Base58 Model.Bech32.
From Verif Require Import Glue.KeyGlue Glue.BlockGlue Glue.Base58Glue Glue.Bech32EncGlue Glue.Bech32DecGlue.
Import ListNotations.
Open Scope Z_scope.

(* C04: keys.mod_sqrt *)
Theorem source_is_model_keys :
  forall a, gen_mod_sqrt a = Some (lib_mod_sqrt a).
Proof. exact gen_mod_sqrt_eq. Qed.

(* the statements are not vacuous: concrete evaluations of the regenerated definitions *)
Example tie_mod_sqrt_4 : gen_mod_sqrt 4 = Some 2.
Proof. vm_compute. reflexivity. Qed.

Print Assumptions source_is_model_keys.
