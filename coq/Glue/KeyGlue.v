(* Glue/KeyGlue.v — keys.mod_sqrt as regenerated from /repo's source (Gen/GenFuncs2.v) is the model function
   Model/KeyPoint.lib_mod_sqrt that the C04 decompression theorems are about. *)
From Coq Require Import ZArith List Bool Lia Zpow_facts.
From Verif Require Import Lib.Bytes Lib.Py Lib.Py2 Crypto.Secp256k1 Gen.GenConsts Gen.GenKeyConsts
  Model.KeyPoint Proofs.KeyPointFermat Gen.GenFuncs2.
Import ListNotations.
Open Scope Z_scope.

(* the primitive of Lib/Py2.v is Python's three-argument pow on a non-negative exponent *)
Lemma py_pow3_spec b e m : 0 <= e -> m <> 0 -> py_pow3 b e m = Some (b ^ e mod m).
Proof.
  intros He Hm. unfold py_pow3.
  destruct (m =? 0) eqn:E1; [apply Z.eqb_eq in E1; contradiction|].
  destruct (e <? 0) eqn:E2; [apply Z.ltb_lt in E2; lia|].
  cbn [orb]. rewrite Zpow_mod_correct by exact Hm. reflexivity.
Qed.

Lemma py_pow3_zero_modulus b e : py_pow3 b e 0 = None.
Proof. reflexivity. Qed.

(* keys.mod_sqrt *)
Lemma gen_mod_sqrt_eq a : gen_mod_sqrt a = Some (lib_mod_sqrt a).
Proof.
  unfold gen_mod_sqrt, lib_mod_sqrt. cbv zeta.
  change 28948022309329048855892746252171976963317496166410141009864396001977208667915 with keys_mod_sqrt_k.
  change 115792089237316195423570985008687907853269984665640564039457584007908834671663 with secp256k1_p.
  rewrite py_pow3_spec.
  - rewrite powmod_spec; [reflexivity| |]; unfold secp256k1_p, keys_mod_sqrt_k; lia.
  - unfold keys_mod_sqrt_k; lia.
  - unfold secp256k1_p; lia.
Qed.

Print Assumptions gen_mod_sqrt_eq.
