(* Glue/Base58Glue.v — encoding.base58encode as regenerated from /repo's source (Gen/GenFuncs2.v) is the model
   function Model/Base58.b58_enc of the C11 theorems (a Python str is the list of its code points, the model's
   text is the list of its bytes).  The alphabet literal inside base58encode is thereby tied to
   code_strings[58] (Gen/GenConsts.alphabet_base58), and the declared loop bound 8 * len(inp) is shown to suffice. *)
From Coq Require Import ZArith List Bool Lia.
From Coq.Strings Require Import Byte.
From Verif Require Import Lib.Bytes Lib.Py Lib.Py2 Gen.GenConsts Model.Base58 Proofs.Base58 Gen.GenFuncs2.
Import ListNotations.
Open Scope Z_scope.

Definition b58_code_str : list Z := map bz alphabet_base58.

(* code_str[idx:idx + 1] is the one-character string of digit idx *)
Lemma code_str_slice idx : 0 <= idx < 58 ->
  py_lslice b58_code_str (Some idx) (Some (idx + 1)) = [bz (b58_char idx)].
Proof.
  intros H. rewrite <- (Z2Nat.id idx) by lia.
  assert (Hk : (Z.to_nat idx < 58)%nat) by lia. revert Hk. generalize (Z.to_nat idx) as k. intros k Hk.
  do 58 (destruct k as [|k]; [vm_compute; reflexivity|]). lia.
Qed.

(* the number of digits does not depend on the fuel once it is large enough *)
Lemma digits_le_fuel base f1 f2 n : 2 <= base ->
  0 <= n < 2 ^ Z.of_nat f1 -> n < 2 ^ Z.of_nat f2 -> digits_le base f1 n = digits_le base f2 n.
Proof.
  intros Hb H1 H2.
  pose proof (digits_le_norm base Hb f1 n H1) as Hn.
  pose proof (digits_le_value base Hb f1 n H1) as Hv.
  rewrite <- Hv at 2. symmetry. apply digits_le_of_value; [exact Hb|exact Hn|]. rewrite Hv. exact H2.
Qed.

Lemma lstrip_zero bs : py_lstrip [x00] bs = skipn (lead_count is_zero_byte bs) bs.
Proof.
  induction bs as [|b r IH]; [reflexivity|].
  cbn [py_lstrip existsb lead_count]. unfold is_zero_byte. rewrite orb_false_r.
  destruct (beq b x00); [exact IH|reflexivity].
Qed.

Lemma lead_count_le {A} (p : A -> bool) l : (lead_count p l <= length l)%nat.
Proof. induction l as [|x r IH]; cbn [lead_count length]; [lia|]. destruct (p x); lia. Qed.

Lemma lrepeat_one (c : Z) n : py_lrepeat [c] (Z.of_nat n) = repeat c n.
Proof.
  unfold py_lrepeat. rewrite Nat2Z.id. induction n as [|n IH]; [reflexivity|].
  cbn [repeat concat app]. rewrite IH. reflexivity.
Qed.

(* encoding.base58encode *)
(* the while loop of base58encode, with the alphabet literal named *)
Fixpoint b58_loop (fuel : nat) (st : Z * list Z) : option (Z * list Z) :=
  match fuel with
  | O => None
  | S f =>
      let '(acc, string) := st in
      if negb (acc =? 0)
      then b58_loop f (acc / 58, py_lslice b58_code_str (Some (acc mod 58)) (Some (acc mod 58 + 1)) ++ string)
      else Some st
  end.

(* the generated definition, read back (checked by conversion: any change of the regenerated text that is not
   a change of names breaks this) *)
Lemma gen_base58encode_unfold bs : gen_base58encode bs =
  let body := py_lstrip [x00] bs in
  match b58_loop (S (Z.to_nat (8 * py_len body))) (py_from_bytes false body, []) with
  | Some (_, string) => Some (py_lrepeat [49] (py_len bs - py_len body) ++ string)
  | None => None
  end.
Proof. reflexivity. Qed.

Lemma b58_loop_eq k : forall acc s, 0 <= acc < 2 ^ Z.of_nat k ->
  b58_loop (S k) (acc, s) = Some (0, map (fun d => bz (b58_char d)) (rev (digits_le 58 k acc)) ++ s).
Proof.
  induction k as [|k IH]; intros acc s Hacc.
  - change (2 ^ Z.of_nat 0) with 1 in Hacc. assert (acc = 0) by lia. subst acc. reflexivity.
  - change (b58_loop (S (S k)) (acc, s)) with
      (if negb (acc =? 0)
       then b58_loop (S k) (acc / 58, py_lslice b58_code_str (Some (acc mod 58)) (Some (acc mod 58 + 1)) ++ s)
       else Some (acc, s)).
    cbn [digits_le].
    destruct (acc =? 0) eqn:E0.
    + apply Z.eqb_eq in E0. subst acc. reflexivity.
    + apply Z.eqb_neq in E0. cbn [negb].
      destruct (acc <=? 0) eqn:E1; [apply Z.leb_le in E1; lia|].
      assert (Hm : 0 <= acc mod 58 < 58) by (apply Z.mod_pos_bound; lia).
      rewrite code_str_slice by exact Hm.
      rewrite IH.
      * cbn [rev]. rewrite map_app. cbn [map]. rewrite <- app_assoc. reflexivity.
      * rewrite Nat2Z.inj_succ, Z.pow_succ_r in Hacc by lia.
        split; [apply Z.div_pos; lia|]. apply Z.div_lt_upper_bound; lia.
Qed.

(* encoding.base58encode *)
Lemma gen_base58encode_eq bs : gen_base58encode bs = Some (map bz (b58_enc bs)).
Proof.
  rewrite gen_base58encode_unfold. cbv zeta.
  rewrite lstrip_zero. set (z := lead_count is_zero_byte bs). set (body := skipn z bs).
  assert (Hacc : 0 <= of_be body < 2 ^ Z.of_nat (Z.to_nat (8 * py_len body))).
  { pose proof (of_be_range body) as H. unfold py_len. rewrite Z2Nat.id by lia.
    rewrite Z.pow_mul_r by lia. change (2 ^ 8) with 256. exact H. }
  unfold py_from_bytes. rewrite b58_loop_eq by exact Hacc.
  unfold b58_enc. fold z. fold body. rewrite app_nil_r.
  f_equal. rewrite map_app, map_map, map_repeat_eq. f_equal.
  - unfold py_len, body. rewrite skipn_length.
    pose proof (lead_count_le is_zero_byte bs) as Hz. fold z in Hz.
    replace (Z.of_nat (length bs) - Z.of_nat (length bs - z)) with (Z.of_nat z) by lia.
    apply lrepeat_one.
  - unfold digits_be. f_equal. f_equal. apply digits_le_fuel; [lia|exact Hacc|].
    apply digit_fuel_ok. lia.
Qed.

Print Assumptions gen_base58encode_eq.
