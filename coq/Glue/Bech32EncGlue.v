(* Glue/Bech32EncGlue.v — the body of encoding.pubkeyhash_to_addr_bech32 between the argument normalisation
   (first statement) and the final string assembly (return), as regenerated from /repo's source
   (Gen/GenFuncs2.gen_bech32_enc_core: header stripping, witness version and checksum constant selection,
   8->5 regrouping, HRP expansion, checksum values), is what Model/Bech32.lib_bech32_enc computes (C11):
   hrp_expand, mk_checksum, checksum_values and the version / constant selection are thereby tied to the source.
   A Python str is the list of its code points; the model's text is a byte list. *)
From Coq Require Import ZArith List Bool Lia.
From Coq.Strings Require Import Byte.
From Verif Require Import Lib.Bytes Lib.Py Lib.Py2 Gen.GenConsts Gen.GenFuncs Model.Bech32 Glue.Bech32Glue Gen.GenFuncs2.
Import ListNotations.
Open Scope Z_scope.

(* the generated text after the header stripping, read back *)
Definition enc_tail (pubkeyhash prefix : list Z) (witver checksum_xor : Z) : option (list Z * list Z) :=
  (match (if (witver >? 16) then None else Some tt) with Some _ => (match (if (andb (checksum_xor =? 734539939) (negb (negb (witver =? 0)))) then (let witver := 1 in Some (witver, checksum_xor)) else (match (if (witver >? 0) then (let checksum_xor := 734539939 in Some checksum_xor) else Some checksum_xor) with Some checksum_xor => Some (witver, checksum_xor) | None => None end)) with Some (witver, checksum_xor) => (t4 <- gen_convertbits pubkeyhash 8 5 true ;; (let data := ([witver] ++ t4) in (let hrp_expanded := (((map (fun x => (Z.shiftr x 5)) prefix) ++ [0]) ++ (map (fun x => (Z.land x 31)) prefix)) in (t5 <- gen_bech32_polymod ((hrp_expanded ++ data) ++ [0; 0; 0; 0; 0; 0]) ;; (let polymod := (Z.lxor t5 checksum_xor) in (let checksum := [(Z.land (Z.shiftr polymod (5 * (5 - 0))) 31); (Z.land (Z.shiftr polymod (5 * (5 - 1))) 31); (Z.land (Z.shiftr polymod (5 * (5 - 2))) 31); (Z.land (Z.shiftr polymod (5 * (5 - 3))) 31); (Z.land (Z.shiftr polymod (5 * (5 - 4))) 31); (Z.land (Z.shiftr polymod (5 * (5 - 5))) 31)] in Some (data, checksum))))))) | None => None end) | None => None end).

Definition enc_header (pubkeyhash : list Z) (witver : Z) : option (Z * list Z) :=
  if negb (py_in (py_llen pubkeyhash) [20; 32; 40])
  then t1 <- py_lindex pubkeyhash 0 ;;
       match (if negb (t1 =? 0) then t2 <- py_lindex pubkeyhash 0 ;; Some (t2 - 80) else Some witver) with
       | Some witver =>
           t3 <- py_lindex pubkeyhash 1 ;;
           match (if negb (t3 =? py_llen (py_lslice pubkeyhash (Some 2) None)) then None else Some tt) with
           | Some _ => Some (witver, py_lslice pubkeyhash (Some 2) None)
           | None => None
           end
       | None => None
       end
  else Some (witver, pubkeyhash).

Lemma gen_bech32_enc_core_unfold pubkeyhash prefix witver separator checksum_xor :
  gen_bech32_enc_core pubkeyhash prefix witver separator checksum_xor =
  match enc_header pubkeyhash witver with
  | Some (witver, pubkeyhash) => enc_tail pubkeyhash prefix witver checksum_xor
  | None => None
  end.
Proof. reflexivity. Qed.

(* the model's selection of witness version and checksum constant, then data and checksum values *)
Definition model_tail (prog hrp : bytes) (wv cx : Z) : option (list Z * list Z) :=
  if 16 <? wv then None
  else
    let '(wv, cx) :=
      if (cx =? cfg_BECH32M_CONST) && (wv =? 0) then (1, cx)
      else if 0 <? wv then (wv, cfg_BECH32M_CONST) else (wv, cx) in
    match convertbits (map bz prog) 8 5 true with
    | CbOk d5 => Some (wv :: d5, mk_checksum hrp (wv :: d5) cx)
    | _ => None
    end.

Lemma enc_tail_eq prog hrp wv cx : enc_tail (map bz prog) (map bz hrp) wv cx = model_tail prog hrp wv cx.
Proof.
  unfold enc_tail, model_tail. rewrite !Z.gtb_ltb, negb_involutive.
  change cfg_BECH32M_CONST with 734539939.
  destruct (16 <? wv); [reflexivity|].
  assert (Hcore : forall w c,
    (t4 <- gen_convertbits (map bz prog) 8 5 true ;;
     (let data := [w] ++ t4 in
      let hrp_expanded := (map (fun x => Z.shiftr x 5) (map bz hrp) ++ [0]) ++ map (fun x => Z.land x 31) (map bz hrp) in
      t5 <- gen_bech32_polymod ((hrp_expanded ++ data) ++ [0; 0; 0; 0; 0; 0]) ;;
      (let polymod := Z.lxor t5 c in
       let checksum := [Z.land (Z.shiftr polymod (5 * (5 - 0))) 31; Z.land (Z.shiftr polymod (5 * (5 - 1))) 31;
                        Z.land (Z.shiftr polymod (5 * (5 - 2))) 31; Z.land (Z.shiftr polymod (5 * (5 - 3))) 31;
                        Z.land (Z.shiftr polymod (5 * (5 - 4))) 31; Z.land (Z.shiftr polymod (5 * (5 - 5))) 31] in
       Some (data, checksum)))) =
    match convertbits (map bz prog) 8 5 true with
    | CbOk d5 => Some (w :: d5, mk_checksum hrp (w :: d5) c)
    | _ => None
    end).
  { intros w c. rewrite gen_convertbits_eq by lia.
    destruct (convertbits (map bz prog) 8 5 true) as [d5| |]; cbn [cb_to_option]; try reflexivity.
    cbv zeta. rewrite gen_bech32_polymod_eq.
    unfold mk_checksum, checksum_values, hrp_expand. cbn [map app].
    rewrite !map_map. rewrite <- !app_assoc. reflexivity. }
  destruct ((cx =? 734539939) && (wv =? 0)).
  - cbv zeta. apply Hcore.
  - destruct (0 <? wv); cbv zeta; apply Hcore.
Qed.

Lemma nat_Z_eqb n k : (Z.of_nat n =? Z.of_nat k) = (n =? k)%nat.
Proof.
  destruct (n =? k)%nat eqn:E.
  - apply Nat.eqb_eq in E. subst. apply Z.eqb_refl.
  - apply Nat.eqb_neq in E. apply Z.eqb_neq. lia.
Qed.

Lemma lindex_0 x (l : list Z) : py_lindex (x :: l) 0 = Some x.
Proof.
  unfold py_lindex, py_llen. cbv zeta. cbn [length]. change (0 <? 0) with false. cbv iota.
  destruct (Z.of_nat (S (length l)) <=? 0) eqn:E; [apply Z.leb_le in E; lia|]. reflexivity.
Qed.

Lemma lindex_1 x y (l : list Z) : py_lindex (x :: y :: l) 1 = Some y.
Proof.
  unfold py_lindex, py_llen. cbv zeta. cbn [length]. change (1 <? 0) with false. cbv iota.
  destruct (Z.of_nat (S (S (length l))) <=? 1) eqn:E; [apply Z.leb_le in E; lia|]. reflexivity.
Qed.

Lemma lslice_2 x y (l : list Z) : py_lslice (x :: y :: l) (Some 2) None = l.
Proof.
  unfold py_lslice, py_bound, py_llen. cbv zeta. cbn [length]. change (2 <? 0) with false. cbv iota.
  replace (Z.max 0 (Z.min (Z.of_nat (S (S (length l)))) 2)) with 2 by lia.
  change (Z.to_nat 2) with 2%nat. cbn [skipn].
  replace (Z.to_nat (Z.of_nat (S (S (length l))) - 2)) with (length l) by lia. apply firstn_all.
Qed.

(* the model's header stripping *)
Definition model_header (pkh : bytes) (witver : Z) : option (Z * bytes) :=
  let n := length pkh in
  if negb ((n =? 20)%nat || (n =? 32)%nat || (n =? 40)%nat) then
    match pkh with
    | b0 :: b1 :: rest =>
        if negb (bz b1 =? Z.of_nat (length rest)) then None
        else Some (if bz b0 =? 0 then witver else bz b0 - 80, rest)
    | _ => None
    end
  else Some (witver, pkh).

Lemma enc_header_eq pkh wv :
  enc_header (map bz pkh) wv =
  match model_header pkh wv with Some (w, prog) => Some (w, map bz prog) | None => None end.
Proof.
  unfold enc_header, model_header. cbv zeta.
  unfold py_in, py_llen at 1. rewrite map_length. cbn [existsb].
  change 20 with (Z.of_nat 20). change 32 with (Z.of_nat 32). change 40 with (Z.of_nat 40).
  rewrite !nat_Z_eqb, orb_false_r, orb_assoc.
  destruct (negb ((length pkh =? 20)%nat || (length pkh =? 32)%nat || (length pkh =? 40)%nat)); [|reflexivity].
  destruct pkh as [|b0 [|b1 rest]].
  - reflexivity.
  - cbn [map]. rewrite lindex_0.
    destruct (negb (bz b0 =? 0)); reflexivity.
  - cbn [map]. rewrite lindex_0, lindex_1, lslice_2. unfold py_llen. rewrite map_length.
    destruct (bz b0 =? 0); cbn [negb]; destruct (negb (bz b1 =? Z.of_nat (length rest))); reflexivity.
Qed.

(* encoding.pubkeyhash_to_addr_bech32, statements 2 .. n-1 (the separator argument is only used by the
   string assembly; the model fixes it to '1') *)
Theorem gen_bech32_enc_core_eq pkh hrp wv sep cx :
  lib_bech32_enc pkh hrp wv cx =
  match gen_bech32_enc_core (map bz pkh) (map bz hrp) wv sep cx with
  | Some (data, cks) =>
      if hd 0 data <? 0 then None
      else Some (hrp ++ [x31] ++ map b32_char data ++ map b32_char cks)
  | None => None
  end.
Proof.
  rewrite gen_bech32_enc_core_unfold, enc_header_eq.
  assert (Hlib : lib_bech32_enc pkh hrp wv cx =
     match model_header pkh wv with
     | Some (w, prog) =>
         match model_tail prog hrp w cx with
         | Some (data, cks) =>
             if hd 0 data <? 0 then None else Some (hrp ++ [x31] ++ map b32_char data ++ map b32_char cks)
         | None => None
         end
     | None => None
     end).
  { unfold lib_bech32_enc, model_header. cbv zeta.
    match goal with |- match ?h with _ => _ end = match ?h' with _ => _ end =>
      change h' with h; destruct h as [[w prog]|]; [|reflexivity] end.
    unfold model_tail. destruct (16 <? w); [reflexivity|].
    destruct (if (cx =? cfg_BECH32M_CONST) && (w =? 0) then (1, cx)
              else if 0 <? w then (w, cfg_BECH32M_CONST) else (w, cx)) as [w' c'].
    destruct (convertbits (map bz prog) 8 5 true); reflexivity. }
  rewrite Hlib.
  destruct (model_header pkh wv) as [[w prog]|]; [|reflexivity].
  rewrite enc_tail_eq. reflexivity.
Qed.

(* consequences in the vocabulary of the model: the data part and the checksum the source computes *)
Corollary gen_bech32_enc_core_bare prog hrp wv sep :
  (length prog = 20 \/ length prog = 32 \/ length prog = 40)%nat -> 0 <= wv <= 16 ->
  gen_bech32_enc_core (map bz prog) (map bz hrp) wv sep 1 =
  match convertbits (map bz prog) 8 5 true with
  | CbOk d5 => Some (wv :: d5, mk_checksum hrp (wv :: d5) (bech32_const wv))
  | _ => None
  end.
Proof.
  intros Hlen Hwv. rewrite gen_bech32_enc_core_unfold, enc_header_eq.
  assert (Hh : model_header prog wv = Some (wv, prog)).
  { unfold model_header. cbv zeta.
    destruct Hlen as [H|[H|H]]; rewrite H; reflexivity. }
  rewrite Hh, enc_tail_eq. unfold model_tail, bech32_const.
  destruct (16 <? wv) eqn:E; [apply Z.ltb_lt in E; lia|].
  change (1 =? cfg_BECH32M_CONST) with false. cbn [andb].
  destruct (wv =? 0) eqn:E0.
  - apply Z.eqb_eq in E0. subst wv. reflexivity.
  - apply Z.eqb_neq in E0. destruct (0 <? wv) eqn:E1; [reflexivity|apply Z.ltb_ge in E1; lia].
Qed.

Print Assumptions gen_bech32_enc_core_eq.
Print Assumptions gen_bech32_enc_core_bare.
