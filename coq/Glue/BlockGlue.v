(* Glue/BlockGlue.v — the property Block.target as regenerated from /repo's source (Gen/GenFuncs2.v) is
   Model/BlockCodec.lib_target (C06).  None = no int result: Python computes 256 ** negative, a float. *)
From Coq Require Import ZArith List Bool Lia.
From Coq.Strings Require Import Byte.
From Verif Require Import Lib.Bytes Lib.Py Lib.Py2 Model.BlockCodec Gen.GenFuncs2.
Import ListNotations.
Open Scope Z_scope.

Lemma py_slice_tail x (r : bytes) : py_slice (x :: r) (Some 1) None = r.
Proof.
  unfold py_slice, py_bound, py_len. cbv zeta. cbn [length].
  change (1 <? 0) with false. cbv iota.
  replace (Z.max 0 (Z.min (Z.of_nat (S (length r))) 1)) with 1 by lia.
  change (Z.to_nat 1) with 1%nat. cbn [skipn].
  replace (Z.to_nat (Z.of_nat (S (length r)) - 1)) with (length r) by lia.
  apply firstn_all.
Qed.

Lemma of_be_zero_cons (m : bytes) : of_be (x00 :: m) = of_be m.
Proof.
  unfold of_be. cbn [rev]. generalize (rev m) as l. induction l as [|b l IH]; [reflexivity|].
  cbn [app of_le]. rewrite IH. reflexivity.
Qed.

(* blocks.Block.target *)
Lemma gen_Block_target_eq bits : gen_Block_target bits = lib_target bits.
Proof.
  unfold gen_Block_target, lib_target. destruct bits as [|e m]; [reflexivity|].
  unfold py_len at 1. cbn [length].
  destruct (Z.of_nat (S (length m)) =? 0) eqn:E0; [apply Z.eqb_eq in E0; lia|]. cbn [negb].
  assert (Hi : py_index (e :: m) 0 = Some (bz e)).
  { unfold py_index, py_len. cbv zeta. cbn [length]. change (0 <? 0) with false. cbv iota.
    destruct (Z.of_nat (S (length m)) <=? 0) eqn:E; [apply Z.leb_le in E; lia|]. reflexivity. }
  rewrite Hi. cbv zeta. rewrite py_slice_tail. unfold py_from_bytes, py_pow.
  change ([x00] ++ m) with (x00 :: m). rewrite of_be_zero_cons.
  destruct (bz e <? 3) eqn:E3.
  - apply Z.ltb_lt in E3. destruct (bz e - 3 <? 0) eqn:E4; [reflexivity|apply Z.ltb_ge in E4; lia].
  - apply Z.ltb_ge in E3. destruct (bz e - 3 <? 0) eqn:E4; [apply Z.ltb_lt in E4; lia|reflexivity].
Qed.

Print Assumptions gen_Block_target_eq.
