(* Glue/WireGlue.v — the functions regenerated from /repo's source (Gen/GenFuncs.v) ARE the model
   functions the C18 theorems are about.  A source edit that changes behaviour breaks these lemmas. *)
From Coq Require Import ZArith List Bool Lia.
From Coq.Strings Require Import Byte.
From Verif Require Import Lib.Bytes Lib.Py Model.Wire Gen.GenFuncs.
Import ListNotations.
Open Scope Z_scope.

Lemma py_to_bytes_le len x : 0 <= len -> 0 <= x < 256 ^ len ->
  py_to_bytes len true x = Some (le_bytes (Z.to_nat len) x).
Proof.
  intros Hl [H0 H1]. unfold py_to_bytes.
  destruct (x <? 0) eqn:E1; [apply Z.ltb_lt in E1; lia|].
  destruct (256 ^ len <=? x) eqn:E2; [apply Z.leb_le in E2; lia|].
  destruct (len <? 0) eqn:E3; [apply Z.ltb_lt in E3; lia|]. reflexivity.
Qed.

Lemma py_to_bytes_be len x : 0 <= len -> 0 <= x < 256 ^ len ->
  py_to_bytes len false x = Some (be_bytes (Z.to_nat len) x).
Proof.
  intros Hl [H0 H1]. unfold py_to_bytes.
  destruct (x <? 0) eqn:E1; [apply Z.ltb_lt in E1; lia|].
  destruct (256 ^ len <=? x) eqn:E2; [apply Z.leb_le in E2; lia|].
  destruct (len <? 0) eqn:E3; [apply Z.ltb_lt in E3; lia|]. reflexivity.
Qed.

Lemma py_to_bytes_none len little x : x < 0 \/ 256 ^ len <= x -> py_to_bytes len little x = None.
Proof.
  intros H. unfold py_to_bytes.
  destruct (x <? 0) eqn:E1; [reflexivity|]. apply Z.ltb_ge in E1.
  destruct (256 ^ len <=? x) eqn:E2; [reflexivity|]. apply Z.leb_gt in E2. lia.
Qed.

Lemma lib_cs_enc_eq' n : lib_cs_enc n =
  if n <? 0 then None
  else if n <? 253 then Some (le_bytes 1 n)
  else if n <=? 65535 then Some (xfd :: le_bytes 2 n)
  else if n <=? 4294967295 then Some (xfe :: le_bytes 4 n)
  else if n <? 18446744073709551616 then Some (xff :: le_bytes 8 n)
  else None.
Proof. reflexivity. Qed.

(* encoding.int_to_varbyteint *)
Lemma gen_int_to_varbyteint_eq n : gen_int_to_varbyteint n = lib_cs_enc n.
Proof.
  unfold gen_int_to_varbyteint. rewrite lib_cs_enc_eq'.
  destruct (n <? 253) eqn:E1.
  { apply Z.ltb_lt in E1. destruct (n <? 0) eqn:E0.
    - apply Z.ltb_lt in E0. rewrite py_to_bytes_none by lia. reflexivity.
    - apply Z.ltb_ge in E0. rewrite py_to_bytes_le by (change (256 ^ 1) with 256; lia). reflexivity. }
  apply Z.ltb_ge in E1. destruct (n <? 0) eqn:E0; [apply Z.ltb_lt in E0; lia|].
  destruct (n <=? 65535) eqn:E2.
  { apply Z.leb_le in E2. rewrite py_to_bytes_le by (change (256 ^ 2) with 65536; lia). reflexivity. }
  destruct (n <=? 4294967295) eqn:E3.
  { apply Z.leb_le in E3. rewrite py_to_bytes_le by (change (256 ^ 4) with 4294967296; lia). reflexivity. }
  destruct (n <? 18446744073709551616) eqn:E4.
  - apply Z.ltb_lt in E4. rewrite py_to_bytes_le by (change (256 ^ 8) with 18446744073709551616; lia). reflexivity.
  - apply Z.ltb_ge in E4. rewrite py_to_bytes_none by (change (256 ^ 8) with 18446744073709551616; lia). reflexivity.
Qed.

(* encoding.varstr *)
Lemma gen_varstr_eq s : gen_varstr s = lib_varstr s.
Proof.
  unfold gen_varstr, lib_varstr. cbv zeta. rewrite gen_int_to_varbyteint_eq. unfold py_len.
  destruct (py_bytes_eqb s [x00]) eqn:E.
  - apply bytes_eqb_true in E. subst. reflexivity.
  - assert (Hne : s <> [x00]) by (intros ->; rewrite bytes_eqb_refl in E; discriminate).
    destruct s as [|b [|c r]]; [reflexivity| |destruct b; reflexivity].
    destruct b; try reflexivity. exfalso. apply Hne. reflexivity.
Qed.

Lemma lib_data_pack_eq' d : lib_data_pack d =
  let n := Z.of_nat (length d) in
  if n <=? 75 then Some (zb n :: d)
  else if n <=? 255 then Some (x4c :: zb n :: d)
  else if n <=? 65535 then Some (x4d :: le_bytes 2 n ++ d)
  else None.
Proof. reflexivity. Qed.

(* scripts.data_pack *)
Lemma gen_data_pack_eq d : gen_data_pack d = lib_data_pack d.
Proof.
  unfold gen_data_pack. rewrite lib_data_pack_eq'. unfold py_len. cbv zeta.
  set (n := Z.of_nat (length d)). assert (Hn : 0 <= n) by (unfold n; lia).
  destruct (n <=? 75) eqn:E1.
  { apply Z.leb_le in E1. rewrite py_to_bytes_be by (change (256 ^ 1) with 256; lia). reflexivity. }
  apply Z.leb_gt in E1. destruct (75 <? n) eqn:E1'; [|apply Z.ltb_ge in E1'; lia]. cbn [andb].
  destruct (n <=? 255) eqn:E2.
  { apply Z.leb_le in E2. rewrite py_to_bytes_le by (change (256 ^ 1) with 256; lia). reflexivity. }
  apply Z.leb_gt in E2.
  destruct (n <=? 65535) eqn:E3.
  - apply Z.leb_le in E3. rewrite py_to_bytes_le by (change (256 ^ 2) with 65536; lia).
    change (Z.to_nat 2) with 2%nat. rewrite <- app_assoc. reflexivity.
  - apply Z.leb_gt in E3. rewrite py_to_bytes_none by (change (256 ^ 2) with 65536; lia). reflexivity.
Qed.

Lemma firstn_min (A : Type) (k : nat) (l : list A) : firstn k l = firstn (Nat.min k (length l)) l.
Proof.
  destruct (Nat.le_ge_cases k (length l)) as [H|H].
  - rewrite Nat.min_l by exact H. reflexivity.
  - rewrite Nat.min_r by exact H. rewrite firstn_all. apply firstn_all2. exact H.
Qed.

Lemma py_slice_1 x r size : 0 < size ->
  py_slice (x :: r) (Some 1) (Some (1 + size)) = firstn (Z.to_nat size) r.
Proof.
  intros Hs. unfold py_slice, py_bound, py_len. cbv zeta. cbn [length].
  set (n := Z.of_nat (S (length r))). assert (Hn : n = Z.of_nat (length r) + 1) by (unfold n; lia).
  destruct (1 <? 0) eqn:E1; [discriminate|].
  destruct (1 + size <? 0) eqn:E2; [apply Z.ltb_lt in E2; lia|].
  replace (Z.max 0 (Z.min n 1)) with 1 by lia.
  change (Z.to_nat 1) with 1%nat. cbn [skipn].
  rewrite (firstn_min _ (Z.to_nat size) r).
  rewrite (firstn_min _ (Z.to_nat (Z.max 0 (Z.min n (1 + size)) - 1)) r).
  f_equal. lia.
Qed.

(* encoding.varbyteint_to_int *)
Lemma gen_varbyteint_to_int_eq b :
  gen_varbyteint_to_int b = Some (fst (lib_cs_dec b), Z.of_nat (snd (lib_cs_dec b))).
Proof.
  unfold gen_varbyteint_to_int. destruct b as [|x r]; [reflexivity|].
  change (py_bytes_eqb (x :: r) []) with false. cbv iota.
  assert (Hi : py_index (x :: r) 0 = Some (bz x)).
  { unfold py_index, py_len. cbv zeta. cbn [length]. change (0 <? 0) with false. cbv iota.
    destruct (Z.of_nat (S (length r)) <=? 0) eqn:E; [apply Z.leb_le in E; lia|]. reflexivity. }
  rewrite Hi. cbv zeta. cbn [lib_cs_dec].
  destruct (bz x <? 253) eqn:E1; [reflexivity|].
  assert (Hs : forall size, 0 < size ->
     py_from_bytes false (py_reverse (py_slice (x :: r) (Some 1) (Some (1 + size)))) = of_le (firstn (Z.to_nat size) r)).
  { intros size Hsz. rewrite py_slice_1 by exact Hsz. unfold py_from_bytes, py_reverse, of_be.
    rewrite rev_involutive. reflexivity. }
  destruct (bz x =? 253) eqn:E2; [rewrite Hs by lia; reflexivity|].
  destruct (bz x =? 254) eqn:E3; [rewrite Hs by lia; reflexivity|].
  rewrite Hs by lia. reflexivity.
Qed.

(* ---------- script numbers ---------- *)
From Verif Require Import Proofs.ScriptNum.

Lemma land127 b : Z.land (bz b) 127 = bz b mod 128.
Proof. destruct b; reflexivity. Qed.

Lemma land128 b : (Z.land (bz b) 128 =? 0) = negb (high_set b).
Proof. destruct b; reflexivity. Qed.

Lemma py_index_last e : e <> [] -> py_index e (-1) = Some (bz (last e x00)).
Proof.
  intros Hne. rewrite (snoc_decomp _ e x00 Hne) at 1.
  set (f := removelast e). set (l := last e x00).
  unfold py_index, py_len. cbv zeta. rewrite app_length. cbn [length].
  change (-1 <? 0) with true. cbv iota.
  replace (Z.of_nat (length f + 1) + -1) with (Z.of_nat (length f)) by lia.
  destruct (Z.of_nat (length f) <? 0) eqn:E1; [apply Z.ltb_lt in E1; lia|].
  destruct (Z.of_nat (length f + 1) <=? Z.of_nat (length f)) eqn:E2; [apply Z.leb_le in E2; lia|].
  cbn [orb]. rewrite Nat2Z.id, app_nth2, Nat.sub_diag by lia. reflexivity.
Qed.

Lemma py_slice_init e : py_slice e None (Some (-1)) = removelast e.
Proof.
  unfold py_slice, py_bound, py_len. cbv zeta. change (-1 <? 0) with true. cbv iota.
  change (Z.to_nat 0) with 0%nat. cbn [skipn]. rewrite removelast_firstn_len. f_equal.
  destruct e as [|x r]; [reflexivity|]. cbn [length]. lia.
Qed.

Lemma py_to_bytes_1 v : 0 <= v < 256 -> py_to_bytes 1 false v = Some [zb v].
Proof. intros H. rewrite py_to_bytes_be by (change (256 ^ 1) with 256; lia). reflexivity. Qed.

(* scripts.decode_num *)
Lemma gen_decode_num_eq e : gen_decode_num e = Some (lib_decode_num e).
Proof.
  unfold gen_decode_num. destruct e as [|x r] eqn:Ee; [reflexivity|].
  assert (Hne : e <> []) by (subst; discriminate). rewrite <- Ee in *. clear Ee x r.
  replace (py_bytes_eqb e []) with false by (destruct e; [contradiction|reflexivity]).
  cbv iota zeta. rewrite (py_index_last e Hne). set (l := last e x00).
  pose proof (bz_range l) as Hr.
  assert (Hm : 0 <= Z.land (bz l) 127 < 256).
  { rewrite land127. pose proof (Z.mod_pos_bound (bz l) 128 ltac:(lia)). lia. }
  rewrite (py_to_bytes_1 _ Hm), py_slice_init, land128, land127.
  unfold py_from_bytes.
  assert (Hd : lib_decode_num e =
     let num := of_le (removelast e ++ [clear_high l]) in if high_set l then - num else num).
  { rewrite (snoc_decomp _ e x00 Hne) at 1. apply lib_decode_num_snoc. }
  rewrite Hd. cbv zeta. unfold clear_high.
  destruct (high_set l); reflexivity.
Qed.

Lemma byte_len_bits a : 0 < a -> (py_bit_length a + 7) / 8 = Z.of_nat (byte_len a).
Proof.
  intros Ha. unfold py_bit_length, byte_len. cbv zeta.
  rewrite Z.abs_eq by lia.
  destruct (a =? 0) eqn:E0; [apply Z.eqb_eq in E0; lia|].
  destruct (a <=? 0) eqn:E1; [apply Z.leb_le in E1; lia|].
  pose proof (Z.log2_nonneg a). assert (0 <= Z.log2 a / 8) by (apply Z.div_pos; lia).
  rewrite Z2Nat.id by lia. Z.div_mod_to_equations. lia.
Qed.

(* scripts.encode_num *)
Lemma gen_encode_num_eq z : gen_encode_num z = Some (lib_encode_num z).
Proof.
  unfold gen_encode_num. rewrite lib_encode_num_eq.
  destruct (z =? 0) eqn:Ez; [reflexivity|]. apply Z.eqb_neq in Ez. cbv zeta.
  assert (Ha : 0 < Z.abs z) by lia.
  assert (Hbl : (py_bit_length z + 7) / 8 = Z.of_nat (byte_len (Z.abs z))).
  { rewrite <- byte_len_bits by exact Ha. unfold py_bit_length. rewrite Z.abs_involutive. reflexivity. }
  rewrite Hbl.
  rewrite py_to_bytes_le by (first [lia | split; [lia|apply byte_len_bound; lia]]).
  rewrite Nat2Z.id.
  destruct (enc_shape (Z.abs z) Ha) as (f & l & Hd & Hlen & Hv & Hl1).
  set (enc := le_bytes (byte_len (Z.abs z)) (Z.abs z)) in *.
  assert (Hne : enc <> []) by (rewrite Hd; destruct f; discriminate).
  rewrite (py_index_last enc Hne). rewrite land128.
  assert (Hlast : last enc x00 = l) by (rewrite Hd; apply last_snoc).
  rewrite Hlast. pose proof (bz_range l) as Hr.
  destruct (high_set l) eqn:Eh; cbn [negb].
  - destruct (z <? 0); reflexivity.
  - destruct (z <? 0); [|reflexivity].
    assert (Hlt : bz l < 128) by (destruct (Z_lt_dec (bz l) 128); [assumption|]; exfalso;
        assert (high_set l = true) by (apply high_set_spec; lia); congruence).
    rewrite py_to_bytes_1 by lia. rewrite py_slice_init. reflexivity.
Qed.

Print Assumptions gen_int_to_varbyteint_eq.
Print Assumptions gen_encode_num_eq.
