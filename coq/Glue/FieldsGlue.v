(* Glue/FieldsGlue.v — the tables the C16 model is written against equal the ones regenerated from
   keys.py / wallets.py / db.py (Gen/GenFields.v).  Every lemma is closed by computation; when the source
   changes (a stripping line removed from public(), a new cached attribute, a new dictionary entry, a column
   no longer encrypted, a new write to a DbKey row ...) the corresponding lemma stops checking. *)
From Coq Require Import List String Ascii Bool Arith.
From Verif Require Import Model.PublicView Model.PublicViewPaths Gen.GenFields.
Import ListNotations.
Open Scope string_scope.

Definition first_is (n : nat) (s : string) : bool :=
  match s with String c _ => Nat.eqb (nat_of_ascii c) n | _ => false end.
Definition subset (a b : list string) : bool := forallb (fun x => mem x b) a.
Definition same_set (a b : list string) : bool := subset a b && subset b a.

(* attribute sets: the model's field lists are exactly the attributes the classes can assign
   (HDKey instances carry Key's attributes too) *)
Lemma key_attrs_glue : same_set GenFields.key_attrs PublicView.key_fields = true.
Proof. vm_compute. reflexivity. Qed.
Lemma hdkey_attrs_glue : same_set (GenFields.key_attrs ++ GenFields.hdkey_attrs) PublicView.hd_fields = true.
Proof. vm_compute. reflexivity. Qed.
Lemma walletkey_attrs_glue : same_set GenFields.walletkey_attrs PublicView.wk_fields = true.
Proof. vm_compute. reflexivity. Qed.

(* every regenerated attribute is classified by the model's tables *)
Lemma key_attrs_classified :
  forallb (fun a => match assoc key_class a with Some _ => true | None => false end)
          (GenFields.key_attrs ++ GenFields.hdkey_attrs) = true.
Proof. vm_compute. reflexivity. Qed.
Lemma walletkey_attrs_classified :
  forallb (fun a => match assoc wk_class a with Some _ => true | None => false end) GenFields.walletkey_attrs = true.
Proof. vm_compute. reflexivity. Qed.

(* public(): copy discipline and the exact assignment lists *)
Lemma key_public_glue :
  GenFields.key_public_copy = PublicView.key_public_copy /\ GenFields.key_public_assigns = PublicView.key_public_assigns.
Proof. split; reflexivity. Qed.
Lemma hdkey_public_glue :
  GenFields.hdkey_public_copy = PublicView.hdkey_public_copy /\
  GenFields.hdkey_public_assigns = PublicView.hdkey_public_assigns.
Proof. split; reflexivity. Qed.
Lemma walletkey_public_glue :
  mem GenFields.walletkey_public_copy PublicView.walletkey_public_copies = true /\
  GenFields.walletkey_public_assigns = PublicView.walletkey_public_assigns.
Proof. split; reflexivity. Qed.

(* exports *)
Lemma as_dict_glue :
  GenFields.key_as_dict = PublicView.key_as_dict /\ GenFields.hdkey_as_dict = PublicView.hdkey_as_dict /\
  GenFields.walletkey_as_dict = PublicView.walletkey_as_dict.
Proof. repeat split; reflexivity. Qed.
Lemma repr_glue :
  GenFields.key_repr_args = PublicView.key_repr_args /\ GenFields.key_str_args = PublicView.key_str_args /\
  GenFields.hdkey_repr_args = PublicView.hdkey_repr_args /\ GenFields.hdkey_str_args = [] /\
  GenFields.walletkey_repr_args = PublicView.walletkey_repr_args /\ GenFields.walletkey_str_args = [] /\
  GenFields.wallet_repr_args = PublicView.wallet_repr_args /\ GenFields.wallet_str_args = PublicView.wallet_str_args /\
  GenFields.dbkey_repr_args = PublicView.dbkey_repr_args.
Proof. repeat split; reflexivity. Qed.
Lemma wallet_as_dict_glue :
  (* the only place Wallet.as_dict reads key rows passes include_private through to Wallet.keys *)
  filter (fun e => String.eqb (fst e) "$for" && String.eqb (fst (snd e)) "")
         (filter (fun e => first_is 107 (snd (snd e))) GenFields.wallet_as_dict)
  = [("$for", ("", PublicView.wallet_as_dict_keys_call))] /\
  GenFields.wallet_keys_private_fields = PublicView.wallet_keys_private_fields.
Proof. split; reflexivity. Qed.

(* database *)
Lemma dbkey_encrypted_glue :
  map snd (filter (fun cc => String.eqb (fst cc) "DbKey") GenFields.db_encrypted_columns) = PublicView.dbkey_encrypted_columns /\
  map fst (filter (fun ct => first_is 69 (snd ct)) GenFields.dbkey_columns)
    = PublicView.dbkey_encrypted_columns /\
  filter (fun ct => first_is 69 (snd ct)) GenFields.dbwallet_columns = [].
Proof. repeat split; reflexivity. Qed.
Lemma dbkey_writes_glue : GenFields.dbkey_writes = map fst PublicView.dbkey_writes.
Proof. reflexivity. Qed.
Lemma bind_condition_glue :
  map snd GenFields.encrypted_bind_plain_conditions =
  [PublicView.encrypted_bind_plain_condition; PublicView.encrypted_bind_plain_condition].
Proof. reflexivity. Qed.

(* wallet level: the path tables interpreted by the wallet model are the regenerated ones (Wallet.public_master,
   Wallet.wif), the bodies of HDKey.public_master / WalletKey.key / as_json are the frozen ones, and every
   export / view entry point still leaves the private material out by default (argument lists) *)
Lemma wallet_paths_glue :
  GenFields.wallet_public_master_paths = PublicView.wallet_public_master_paths /\
  GenFields.wallet_wif_paths = PublicView.wallet_wif_paths.
Proof. split; reflexivity. Qed.
Lemma method_bodies_glue :
  GenFields.hdkey_public_master_paths = PublicView.hdkey_public_master_paths /\
  GenFields.walletkey_key_paths = PublicView.walletkey_key_paths /\
  GenFields.as_json_paths = PublicView.as_json_paths.
Proof. repeat split; reflexivity. Qed.
Lemma export_signatures_glue : GenFields.export_signatures = PublicView.export_signatures.
Proof. reflexivity. Qed.

(* ---- view entry points called with arguments ----
   every function whose NAME presents its result as public is known to the model (a new public_* function stops
   this lemma until it is reviewed and either modelled or listed as not being a view of a private key) *)
Lemma public_named_defs_glue :
  GenFields.public_named_defs = PublicView.public_named_defs /\
  forallb (fun q => mem q (map fst PublicView.entry_params) || mem q PublicView.public_named_other)
          GenFields.public_named_defs = true.
Proof. split; vm_compute; reflexivity. Qed.
(* the parameter lists (with defaults) of every entry point are the frozen ones *)
Lemma entry_params_glue :
  GenFields.entry_params = PublicView.entry_params /\ GenFields.entry_properties = PublicView.entry_properties.
Proof. split; reflexivity. Qed.
(* every parameter NAME of every entry point has been reviewed: it either asks for private output (frozen list) or is
   one of the reviewed plain names; a view function that gains a parameter with a new name stops this lemma *)
Lemma private_param_names_reviewed :
  forallb (fun mp => forallb (fun pd => mem (fst pd) asks_private_params || mem (fst pd) reviewed_plain_params) (snd mp))
          GenFields.entry_params = true.
Proof. vm_compute. reflexivity. Qed.
(* by default no entry point asks for private output: the default of every asks-for-private parameter is false / None *)
Lemma defaults_do_not_ask_private :
  forallb (fun mp => forallb (fun pd => negb (mem (fst pd) asks_private_params) || is_tf (a_truth (default_val (snd pd))))
                             (snd mp)) GenFields.entry_params = true.
Proof. vm_compute. reflexivity. Qed.
(* which argument every forwarding call hands to which parameter of its callee, and the bodies of the two helpers
   that only forward *)
Lemma call_forwards_glue :
  GenFields.call_forwards = PublicView.call_forwards /\
  GenFields.hdkey_public_master_multisig_paths = PublicView.hdkey_public_master_multisig_paths /\
  GenFields.hdkey_wif_public_paths = PublicView.hdkey_wif_public_paths /\
  GenFields.hdkey_wif_paths = PublicView.hdkey_wif_paths.
Proof. repeat split; reflexivity. Qed.
(* the two rows the model interprets, found by the model's own lookup in the REGENERATED table *)
Lemma interpreted_forwards_glue :
  find_forward GenFields.call_forwards "HDKey.public_master_multisig" "self.public_master" = Some (snd (snd fw_pmm)) /\
  find_forward GenFields.call_forwards "HDKey.wif_public" "self.wif" = Some (snd (snd fw_wif_public)).
Proof. split; vm_compute; reflexivity. Qed.

(* ---- public views requested by a PATH, and the text of database rows ----
   the body and the argument list of HDKey.subkey_for_path are the frozen ones read by Model/PublicViewPaths.v (an early
   return, a changed start-of-path rule or a new parameter stops this lemma) *)
Lemma subkey_for_path_glue :
  GenFields.hdkey_subkey_for_path_paths = PublicViewPaths.hdkey_subkey_for_path_paths /\
  GenFields.path_entry_params = PublicViewPaths.path_entry_params.
Proof. split; reflexivity. Qed.
(* EVERY class of db.py with the source of each of its presentation methods (__repr__, __str__, ...): a new __repr__
   on a row class, or a changed one, stops this lemma until Model/PublicViewPaths.row_prints has been reviewed *)
Lemma db_presentation_glue : GenFields.db_presentation_methods = PublicViewPaths.db_presentation_methods.
Proof. reflexivity. Qed.
