(* Glue/Bech32DecGlue.v — the validity checks of encoding.addr_bech32_to_pubkeyhash from the HRP expansion to
   the last length check (Gen/GenFuncs2.gen_bech32_dec_core: checksum constant per witness version, removal of
   the checksum symbols, 5->8 regrouping without padding, program length and version limits), as regenerated
   from /repo's source, are the corresponding part of Model/Bech32.lib_bech32_dec; and the last two statements of
   encoding.addr_bech32_checksum are the value of Model/Bech32.lib_bech32_checksum (C11).
   Declared, not derived: at the first statement of the range `hrp` is a str and `data` a list of ints. *)
From Coq Require Import ZArith List Bool Lia.
From Coq.Strings Require Import Byte.
From Verif Require Import Lib.Bytes Lib.Py Lib.Py2 Gen.GenConsts Gen.GenFuncs Model.Base58 Model.Bech32
  Glue.Bech32Glue Glue.Bech32EncGlue Gen.GenFuncs2.
Import ListNotations.
Open Scope Z_scope.

(* the part of lib_bech32_dec below the character decoding *)
Definition model_dec_core (hrp : bytes) (data : list Z) : option (Z * bytes) :=
  let check := polymod (hrp_expand hrp ++ data) in
  let witver := nth 0 data 0 in
  if negb ((check =? 1) || (check =? cfg_BECH32M_CONST)) then None
  else if (witver =? 0) && negb (check =? 1) then None
  else if negb (witver =? 0) && negb (check =? cfg_BECH32M_CONST) then None
  else
    let data' := firstn (length data - 6) data in
    match convertbits (tl data') 5 8 false with
    | CbOk dec =>
        let n := length dec in
        if (n <? 2)%nat || (40 <? n)%nat then None
        else if 16 <? nth 0 data' 0 then None
        else if (nth 0 data' 0 =? 0) && negb ((n =? 20)%nat || (n =? 32)%nat) then None
        else Some (nth 0 data' 0, map zb dec)
    | _ => None
    end.

Lemma lib_bech32_dec_unfold s : lib_bech32_dec s =
  if negb (forallb printable s) || negb (case_ok s) then None
  else
    let b := map lower_byte s in
    match rfind x31 b with
    | None => None
    | Some pos =>
        if (pos <? 1)%nat || (length b <? pos + 7)%nat || (90 <? length b)%nat then None
        else match b32_indices (skipn (S pos) b) with
             | None => None
             | Some data => model_dec_core (firstn pos b) data
             end
    end.
Proof. reflexivity. Qed.

(* ---------- small facts about the primitives ---------- *)
Lemma hrp_expanded_eq (hrp : bytes) :
  (map (fun x => Z.shiftr x 5) (map bz hrp) ++ [0]) ++ map (fun x => Z.land x 31) (map bz hrp) = hrp_expand hrp.
Proof. unfold hrp_expand. rewrite !map_map, <- app_assoc. reflexivity. Qed.

Lemma lslice_drop6 (l : list Z) : py_lslice l None (Some (-6)) = firstn (length l - 6) l.
Proof.
  unfold py_lslice, py_bound, py_llen. cbv zeta. change (-6 <? 0) with true. cbv iota.
  change (Z.to_nat 0) with 0%nat. cbn [skipn]. f_equal. lia.
Qed.

Lemma lslice_tl (l : list Z) : py_lslice l (Some 1) None = tl l.
Proof.
  destruct l as [|x r]; [reflexivity|].
  unfold py_lslice, py_bound, py_llen. cbv zeta. cbn [length tl]. change (1 <? 0) with false. cbv iota.
  replace (Z.max 0 (Z.min (Z.of_nat (S (length r))) 1)) with 1 by lia.
  change (Z.to_nat 1) with 1%nat. cbn [skipn].
  replace (Z.to_nat (Z.of_nat (S (length r)) - 1)) with (length r) by lia. apply firstn_all.
Qed.

Lemma nat_Z_ltb n k : (Z.of_nat n <? Z.of_nat k) = (n <? k)%nat.
Proof.
  destruct (n <? k)%nat eqn:E.
  - apply Nat.ltb_lt in E. apply Z.ltb_lt. lia.
  - apply Nat.ltb_ge in E. apply Z.ltb_ge. lia.
Qed.

(* every symbol convertbits emits is below 2^tobits *)
Lemma cb_emit_range tb : 0 <= tb -> forall fuel acc bits,
  Forall (fun v => 0 <= v < 2 ^ tb) (fst (cb_emit fuel acc bits tb)).
Proof.
  intros Htb. induction fuel as [|f IH]; intros acc bits; cbn [cb_emit]; [constructor|].
  destruct (tb <=? bits); [|constructor].
  specialize (IH acc (bits - tb)). destruct (cb_emit f acc (bits - tb) tb) as [l b]. cbn [fst] in *.
  constructor; [|exact IH]. rewrite Z.land_ones by exact Htb. apply Z.mod_pos_bound. apply Z.pow_pos_nonneg; lia.
Qed.

Lemma cb_loop_range fb tb pad : 0 <= tb -> forall data acc bits l,
  cb_loop fb tb pad data acc bits = CbOk l -> Forall (fun v => 0 <= v < 2 ^ tb) l.
Proof.
  intros Htb. assert (Hp : 0 < 2 ^ tb) by (apply Z.pow_pos_nonneg; lia).
  induction data as [|v r IH]; intros acc bits l H; cbn [cb_loop] in H.
  - destruct pad.
    + destruct (bits =? 0); inversion H; subst; [constructor|].
      constructor; [|constructor]. rewrite Z.land_ones by exact Htb. apply Z.mod_pos_bound. exact Hp.
    + destruct ((fb <=? bits) || negb (Z.land (Z.shiftl acc (tb - bits)) (Z.ones tb) =? 0)); inversion H. constructor.
  - destruct ((v <? 0) || negb (Z.shiftr v fb =? 0)); [discriminate|]. cbv zeta in H.
    pose proof (cb_emit_range tb Htb (S (Z.to_nat (bits + fb)))
                  (Z.land (Z.lor (Z.shiftl acc fb) v) (Z.ones (fb + tb - 1))) (bits + fb)) as He.
    destruct (cb_emit (S (Z.to_nat (bits + fb))) (Z.land (Z.lor (Z.shiftl acc fb) v) (Z.ones (fb + tb - 1)))
                      (bits + fb) tb) as [out b''].
    cbn [fst] in He.
    destruct (cb_loop fb tb pad r (Z.land (Z.lor (Z.shiftl acc fb) v) (Z.ones (fb + tb - 1))) b'') as [l'| |] eqn:El;
      try discriminate.
    inversion H; subst. apply Forall_app. split; [exact He|]. eapply IH. exact El.
Qed.

Lemma bytes_of_range l : Forall (fun v => 0 <= v < 2 ^ 8) l -> py_bytes_of l = Some (map zb l).
Proof.
  induction 1 as [|v r Hv _ IH]; [reflexivity|]. cbn [py_bytes_of map]. change (2 ^ 8) with 256 in Hv.
  destruct (v <? 0) eqn:E1; [apply Z.ltb_lt in E1; lia|].
  destruct (256 <=? v) eqn:E2; [apply Z.leb_le in E2; lia|]. cbn [orb]. rewrite IH. reflexivity.
Qed.

(* ---------- the generated text, read back in two parts ---------- *)
Definition dec_tail (data : list Z) : option (list Z * bytes) :=
  (let data := (py_lslice data None (Some (- 6))) in (t4 <- gen_convertbits (py_lslice data (Some 1) None) 5 8 false ;; (t5 <- py_bytes_of t4 ;; (let decoded := t5 in (match (if (orb (orb false ((py_len decoded) <? 2)) ((py_len decoded) >? 40)) then None else Some tt) with Some _ => (t6 <- py_lindex data 0 ;; (match (if (t6 >? 16) then None else Some tt) with Some _ => (t7 <- py_lindex data 0 ;; (match (if (andb (t7 =? 0) (negb (py_in (py_len decoded) [20; 32]))) then None else Some tt) with Some _ => Some (data, decoded) | None => None end)) | None => None end)) | None => None end))))).

Lemma gen_bech32_dec_core_unfold hrp data : gen_bech32_dec_core hrp data =
  (let hrp_expanded := (map (fun x => Z.shiftr x 5) hrp ++ [0]) ++ map (fun x => Z.land x 31) hrp in
   t1 <- gen_bech32_polymod (hrp_expanded ++ data) ;;
   (let check := t1 in
    match (if negb ((check =? 1) || (check =? 734539939)) then None else Some tt) with
    | Some _ =>
        t2 <- py_lindex data 0 ;;
        match (if (t2 =? 0) && negb (check =? 1) then None else Some tt) with
        | Some _ =>
            t3 <- py_lindex data 0 ;;
            match (if negb (t3 =? 0) && negb (check =? 734539939) then None else Some tt) with
            | Some _ => dec_tail data
            | None => None
            end
        | None => None
        end
    | None => None
    end)).
Proof. reflexivity. Qed.

Definition model_tail_dec (data : list Z) : option (Z * bytes) :=
  let data' := firstn (length data - 6) data in
  match convertbits (tl data') 5 8 false with
  | CbOk dec =>
      let n := length dec in
      if (n <? 2)%nat || (40 <? n)%nat then None
      else if 16 <? nth 0 data' 0 then None
      else if (nth 0 data' 0 =? 0) && negb ((n =? 20)%nat || (n =? 32)%nat) then None
      else Some (nth 0 data' 0, map zb dec)
  | _ => None
  end.

Lemma dec_tail_eq data :
  dec_tail data =
  match model_tail_dec data with
  | Some (_, prog) => Some (firstn (length data - 6) data, prog)
  | None => None
  end.
Proof.
  unfold dec_tail, model_tail_dec. cbv zeta. rewrite lslice_drop6. set (dp := firstn (length data - 6) data).
  rewrite lslice_tl. rewrite gen_convertbits_eq by lia.
  destruct dp as [|e dr] eqn:Edp.
  { cbn [tl]. change (convertbits [] 5 8 false) with (CbOk []). reflexivity. }
  cbn [tl nth]. rewrite lindex_0.
  destruct (convertbits dr 5 8 false) as [dec| |] eqn:Ec; cbn [cb_to_option]; try reflexivity.
  cbn [app]. rewrite bytes_of_range by (eapply cb_loop_range; [lia|exact Ec]).
  unfold py_len. rewrite map_length. cbn [orb].
  rewrite Z.gtb_ltb. change 2 with (Z.of_nat 2). change 40 with (Z.of_nat 40). rewrite !nat_Z_ltb.
  destruct ((length dec <? 2)%nat || (40 <? length dec)%nat); [reflexivity|].
  rewrite Z.gtb_ltb. destruct (16 <? e); [reflexivity|].
  unfold py_in. cbn [existsb]. change 20 with (Z.of_nat 20). change 32 with (Z.of_nat 32).
  rewrite !nat_Z_eqb, orb_false_r.
  destruct ((e =? 0) && negb ((length dec =? 20)%nat || (length dec =? 32)%nat)); reflexivity.
Qed.

(* encoding.addr_bech32_to_pubkeyhash, from `hrp_expanded = ...` up to (not including) `prefix = b''` *)
Theorem gen_bech32_dec_core_eq hrp data :
  gen_bech32_dec_core (map bz hrp) data =
  match model_dec_core hrp data with
  | Some (_, prog) => Some (firstn (length data - 6) data, prog)
  | None => None
  end.
Proof.
  rewrite gen_bech32_dec_core_unfold. cbv zeta. rewrite hrp_expanded_eq, gen_bech32_polymod_eq.
  unfold model_dec_core. cbv zeta. change cfg_BECH32M_CONST with 734539939.
  set (check := polymod (hrp_expand hrp ++ data)).
  fold (model_tail_dec data).
  destruct (negb ((check =? 1) || (check =? 734539939))); [reflexivity|].
  destruct data as [|d0 rest].
  - (* no symbol at all: data[0] raises; the model ends in the length check *)
    change (py_lindex [] 0) with (@None Z). cbn [nth].
    change (0 =? 0) with true. cbn [andb negb].
    destruct (negb (check =? 1)); reflexivity.
  - rewrite lindex_0. cbn [nth].
    destruct ((d0 =? 0) && negb (check =? 1)); [reflexivity|].
    destruct (negb (d0 =? 0) && negb (check =? 734539939)); [reflexivity|].
    apply dec_tail_eq.
Qed.

(* the witness version the model reports is the first remaining symbol *)
Lemma model_dec_core_version hrp data wv prog :
  model_dec_core hrp data = Some (wv, prog) -> wv = nth 0 (firstn (length data - 6) data) 0.
Proof.
  unfold model_dec_core. cbv zeta.
  destruct (negb _); [discriminate|]. destruct (_ && _); [discriminate|]. destruct (_ && _); [discriminate|].
  destruct (convertbits _ 5 8 false); try discriminate.
  destruct (_ || _); [discriminate|]. destruct (16 <? _); [discriminate|]. destruct (_ && _); [discriminate|].
  intros H. inversion H. reflexivity.
Qed.

(* encoding.addr_bech32_checksum, last two statements *)
Lemma gen_bech32_checksum_core_eq hrp data :
  gen_bech32_checksum_core (map bz hrp) data = Some (polymod (hrp_expand hrp ++ data)).
Proof.
  unfold gen_bech32_checksum_core. cbv zeta. rewrite hrp_expanded_eq, gen_bech32_polymod_eq. reflexivity.
Qed.

Lemma lib_bech32_checksum_unfold s : lib_bech32_checksum s =
  let b := map lower_byte s in
  match rfind x31 b with
  | None => None
  | Some pos =>
      match b32_indices (skipn (S pos) b) with
      | None => None
      | Some data => gen_bech32_checksum_core (map bz (firstn pos b)) data
      end
  end.
Proof.
  unfold lib_bech32_checksum. cbv zeta. destruct (rfind x31 (map lower_byte s)); [|reflexivity].
  destruct (b32_indices _); [|reflexivity]. rewrite gen_bech32_checksum_core_eq. reflexivity.
Qed.

Print Assumptions gen_bech32_dec_core_eq.
Print Assumptions gen_bech32_checksum_core_eq.
