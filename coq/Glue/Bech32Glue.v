(* Glue/Bech32Glue.v — _bech32_polymod and convertbits as regenerated from /repo's source are the model
   functions of Model/Bech32.v (C11). *)
From Coq Require Import ZArith List Bool Lia.
From Coq.Strings Require Import Byte.
From Verif Require Import Lib.Bytes Lib.Py Gen.GenFuncs Model.Bech32.
Import ListNotations.
Open Scope Z_scope.

Lemma land1_testbit t i : 0 <= i -> (Z.land (Z.shiftr t i) 1 =? 0) = negb (Z.testbit t i).
Proof.
  intros Hi. change 1 with (Z.ones 1). rewrite Z.land_ones by lia. change (2 ^ 1) with 2.
  assert (Hb : Z.testbit t i = Z.odd (Z.shiftr t i)).
  { rewrite <- Z.bit0_odd, Z.shiftr_spec by lia. f_equal. }
  rewrite Hb, Zmod_odd. destruct (Z.odd (Z.shiftr t i)); reflexivity.
Qed.

Lemma fold_some (A B : Type) (f : A -> B -> A) (g : option A -> B -> option A) (l : list B) :
  (forall a b, g (Some a) b = Some (f a b)) ->
  forall a, fold_left g l (Some a) = Some (fold_left f l a).
Proof.
  intros H. induction l as [|b l IH]; intros a; [reflexivity|]. cbn [fold_left]. rewrite H. apply IH.
Qed.

(* encoding._bech32_polymod *)
Lemma gen_bech32_polymod_eq vs : gen_bech32_polymod vs = Some (polymod vs).
Proof.
  unfold gen_bech32_polymod, polymod. cbv zeta.
  rewrite (fold_some _ _ polymod_step).
  - reflexivity.
  - intros a b. unfold polymod_step, sel, g0, g1, g2, g3, g4. cbv zeta. cbn [nth].
    rewrite !land1_testbit by lia. rewrite !negb_involutive. reflexivity.
Qed.

(* ---------- convertbits ---------- *)
Definition cb_to_option (r : cb_res) (pre : list Z) : option (list Z) :=
  match r with CbOk l => Some (pre ++ l) | _ => None end.

Lemma ones_eq n : Z.shiftl 1 n - 1 = Z.ones n.
Proof. unfold Z.ones. lia. Qed.

Lemma geb_leb a b : (a >=? b) = (b <=? a).
Proof. apply Z.geb_leb. Qed.

Lemma fold_none (B C : Type) (g : option C -> B -> option C) (l : list B) :
  (forall b, g None b = None) -> fold_left g l None = None.
Proof. intros H. induction l as [|b l IH]; [reflexivity|]. cbn [fold_left]. rewrite H. exact IH. Qed.

(* encoding.convertbits (for tobits >= 1, which every caller uses; Python's None result and the
   EncodingError are both "no result") *)
Lemma gen_convertbits_eq data fb tb pad : 0 < tb -> 0 <= fb ->
  gen_convertbits data fb tb pad = cb_to_option (convertbits data fb tb pad) [].
Proof.
  intros Htb Hfb0. unfold gen_convertbits, convertbits. cbv zeta. rewrite !ones_eq.
  match goal with |- context [fold_left ?f _ _] => set (F := f) end.
  assert (HFN : forall v, F None v = None) by reflexivity.
  assert (HF : forall acc bits ret v, 0 <= bits ->
     F (Some (acc, bits, ret)) v =
     if (v <? 0) || negb (Z.shiftr v fb =? 0) then None
     else
       let acc' := Z.land (Z.lor (Z.shiftl acc fb) v) (Z.ones (fb + tb - 1)) in
       let bits' := bits + fb in
       let '(out, bits'') := cb_emit (S (Z.to_nat bits')) acc' bits' tb in
       Some (acc', bits'', ret ++ out)).
  { intros acc bits ret v Hb. subst F. cbv beta iota zeta.
    destruct ((v <? 0) || negb (Z.shiftr v fb =? 0)); [reflexivity|].
    set (acc' := Z.land (Z.lor (Z.shiftl acc fb) v) (Z.ones (fb + tb - 1))).
    match goal with |- context [?l (Z.to_nat (bits + fb)) _] => set (LOOP := l) end.
    assert (HL : forall fuel b r, (Z.to_nat b < fuel)%nat ->
       LOOP fuel (b, r) = let '(out, b'') := cb_emit fuel acc' b tb in Some (b'', r ++ out)).
    { induction fuel as [|fuel IH]; intros b r Hf; [lia|].
      unfold LOOP. cbn [cb_emit]. cbv beta iota zeta. fold LOOP. rewrite geb_leb.
      destruct (tb <=? b) eqn:E.
      - apply Z.leb_le in E.
        rewrite IH by lia.
        destruct (cb_emit fuel acc' (b - tb) tb) as [out b''].
        rewrite <- app_assoc. reflexivity.
      - rewrite app_nil_r. reflexivity. }
    cbn [cb_emit]. rewrite geb_leb.
    destruct (tb <=? bits + fb) eqn:E.
    - apply Z.leb_le in E. rewrite HL by lia.
      destruct (cb_emit (Z.to_nat (bits + fb)) acc' (bits + fb - tb) tb) as [out b''].
      rewrite <- app_assoc. reflexivity.
    - rewrite app_nil_r. reflexivity. }
  (* generalise over the running state *)
  assert (Hgen : forall data acc bits ret, 0 <= bits -> 0 <= fb \/ data = [] ->
    match fold_left F data (Some (acc, bits, ret)) with
    | Some (acc0, bits0, ret0) =>
        if pad then
          if negb (bits0 =? 0) then Some (ret0 ++ [Z.land (Z.shiftl acc0 (tb - bits0)) (Z.ones tb)]) else Some ret0
        else if (bits0 >=? fb) || negb (Z.land (Z.shiftl acc0 (tb - bits0)) (Z.ones tb) =? 0) then None else Some ret0
    | None => None
    end = cb_to_option (cb_loop fb tb pad data acc bits) ret).
  { clear data. induction data as [|v r IH]; intros acc bits ret Hb Hfb.
    - cbn [fold_left cb_loop]. rewrite geb_leb. destruct pad.
      + destruct (bits =? 0); cbn [negb cb_to_option]; [rewrite app_nil_r|]; reflexivity.
      + destruct ((fb <=? bits) || negb (Z.land (Z.shiftl acc (tb - bits)) (Z.ones tb) =? 0));
          cbn [cb_to_option]; [|rewrite app_nil_r]; reflexivity.
    - cbn [fold_left cb_loop]. rewrite HF by exact Hb.
      destruct ((v <? 0) || negb (Z.shiftr v fb =? 0)); [rewrite fold_none by exact HFN; reflexivity|].
      cbv zeta.
      destruct (cb_emit (S (Z.to_nat (bits + fb)))
                  (Z.land (Z.lor (Z.shiftl acc fb) v) (Z.ones (fb + tb - 1))) (bits + fb) tb) as [out b''] eqn:Ee.
      assert (Hb'' : 0 <= b'').
      { destruct Hfb as [Hfb|Hfb]; [|discriminate].
        assert (Hem : forall fuel a b, 0 <= b -> 0 <= snd (cb_emit fuel a b tb)).
        { induction fuel as [|fuel IHf]; intros a b Hb0; [exact Hb0|].
          cbn [cb_emit]. destruct (tb <=? b) eqn:E; [|exact Hb0].
          apply Z.leb_le in E. specialize (IHf a (b - tb) ltac:(lia)).
          destruct (cb_emit fuel a (b - tb) tb). exact IHf. }
        specialize (Hem (S (Z.to_nat (bits + fb))) (Z.land (Z.lor (Z.shiftl acc fb) v) (Z.ones (fb + tb - 1)))
                        (bits + fb) ltac:(lia)).
        rewrite Ee in Hem. exact Hem. }
      assert (Hfb' : 0 <= fb \/ r = []) by (destruct Hfb as [H|H]; [left; exact H|discriminate]).
      rewrite (IH _ _ _ Hb'' Hfb').
      destruct (cb_loop fb tb pad r _ b''); cbn [cb_to_option]; [rewrite app_assoc|..]; reflexivity. }
  apply Hgen; [lia|left; exact Hfb0].
Qed.
