(* Glue/Bech32Glue.v — _bech32_polymod and convertbits as regenerated from /repo's source are the model
   functions of Model/Bech32.v (C11). *)
From Coq Require Import ZArith List Bool Lia.
From Coq.Strings Require Import Byte.
From Verif Require Import Lib.Bytes Lib.Py Gen.GenFuncs Model.Bech32.
Import ListNotations.
Open Scope Z_scope.

Lemma land1_testbit t i : 0 <= i -> (Z.land (Z.shiftr t i) 1 =? 0) = negb (Z.testbit t i).
Proof.
  intros Hi. change 1 with (Z.ones 1). rewrite Z.land_ones by lia. change (2 ^ 1) with 2.
  assert (Hb : Z.testbit t i = Z.odd (Z.shiftr t i)).
  { rewrite <- Z.bit0_odd, Z.shiftr_spec by lia. f_equal. }
  rewrite Hb, Zmod_odd. destruct (Z.odd (Z.shiftr t i)); reflexivity.
Qed.

Lemma fold_some (A B : Type) (f : A -> B -> A) (g : option A -> B -> option A) (l : list B) :
  (forall a b, g (Some a) b = Some (f a b)) ->
  forall a, fold_left g l (Some a) = Some (fold_left f l a).
Proof.
  intros H. induction l as [|b l IH]; intros a; [reflexivity|]. cbn [fold_left]. rewrite H. apply IH.
Qed.

(* encoding._bech32_polymod *)
Lemma gen_bech32_polymod_eq vs : gen_bech32_polymod vs = Some (polymod vs).
Proof.
  unfold gen_bech32_polymod, polymod. cbv zeta.
  rewrite (fold_some _ _ polymod_step).
  - reflexivity.
  - intros a b. unfold polymod_step, sel, g0, g1, g2, g3, g4. cbv zeta. cbn [nth].
    rewrite !land1_testbit by lia. rewrite !negb_involutive. reflexivity.
Qed.
