(* Model/KeyPoint.v — key import, secret -> public point, decompression, key -> address (C04).
   Definitions only.
   lib_*  mirrors bitcoinlib/keys.py: get_key_format + Key.__init__ for the formats
            int, decimal string, hexadecimal string, bytes, point tuple          (arguments is_private=None, password='')
          Key.public_hex / public_byte / public_uncompressed_hex / public_point() / x / y, mod_sqrt,
          Key.address, HDKey.address (HDKey.__init__ hands these formats to Key.__init__ unchanged),
          as repaired by fixes/C04-1 (secret range), C04-2 (integer 0), C04-3 (curve check when strict),
          C04-4 (compressed argument of Key.address).
          The three booleans of [lib_key_import_gen] select the behaviour before each repair.
   Outside the model (answer [ImpOutOfScope]): inputs that reach the base58 / WIF / BIP38 / mnemonic / address
   recognisers of get_key_format (C12), and strict=False for inputs that are not recognised as a public key.
   ec_point uses fastecdsa's own secp256k1 (not config/secp256k1.py): modelled by the textbook curve of
   Crypto/Secp256k1.v; the range check and the decompression use the constants regenerated from
   config/secp256k1.py and keys.py (Gen/GenConsts.v, Gen/GenKeyConsts.v). *)
From Coq Require Import ZArith List Bool.
From Coq.Strings Require Import Byte.
From Verif Require Import Lib.Bytes Crypto.Ripemd160 Crypto.Secp256k1 Gen.GenConsts Gen.GenKeyConsts Gen.GenNetworks Model.AddrEnc.
Import ListNotations.
Open Scope Z_scope.

(* ---------------------------------------------------------------- mod_sqrt, decompression *)

(* keys.mod_sqrt(a) = pow(a, k + 1, secp256k1_p) *)
Definition lib_mod_sqrt (a : Z) : Z := powmod a (keys_mod_sqrt_k + 1) secp256k1_p.

(* ys = pow(self._x, 3, secp256k1_p) + 7 % secp256k1_p   (precedence as written: the sum is not reduced) *)
Definition lib_ys (x : Z) : Z := powmod x keys_decompress_e secp256k1_p + keys_decompress_b mod secp256k1_p.

(* Key.public_uncompressed_hex l.1322-1326: sign = public_hex[:2] == '03' *)
Definition lib_decompress_y (sign : bool) (x : Z) : Z :=
  let y := lib_mod_sqrt (lib_ys x) in
  if Bool.eqb (Z.odd y) sign then y else secp256k1_p - y.

(* ---------------------------------------------------------------- the Key object *)

Record key := mkKey {
  k_private : bool;
  k_secret : Z;                 (* meaningful when k_private *)
  k_compressed : bool;          (* self.compressed after __init__ *)
  k_pubc : bytes;               (* public_compressed_byte *)
  k_pubu : option bytes;        (* _public_uncompressed_byte when __init__ sets it *)
  k_xb : bytes;                 (* bytes.fromhex(x_hex) *)
  k_yb : option bytes           (* bytes.fromhex(y_hex) when __init__ sets it *)
}.

Definition first_is (b : bytes) (v : Z) : bool :=
  match b with c :: _ => bz c =? v | [] => false end.

Definition lib_x (k : key) : Z := of_be (k_xb k).
Definition lib_y (k : key) : Z :=
  match k_yb k with
  | Some yb => of_be yb
  | None => lib_decompress_y (first_is (k_pubc k) 3) (lib_x k)
  end.
(* Key.public_point() *)
Definition lib_public_point (k : key) : Z * Z := (lib_x k, lib_y k).

(* Key.public_uncompressed_byte (lazy decompression) *)
Definition lib_public_uncompressed (k : key) : bytes :=
  match k_pubu k with
  | Some u => u
  | None => x04 :: k_xb k ++ be_bytes 32 (lib_decompress_y (first_is (k_pubc k) 3) (lib_x k))
  end.
Definition lib_public_compressed (k : key) : bytes := k_pubc k.
(* Key.public_byte / bytes.fromhex(Key.public_hex) as set by __init__ *)
Definition lib_public_byte (k : key) : bytes :=
  if k_compressed k then k_pubc k else lib_public_uncompressed k.

(* ---------------------------------------------------------------- Key.__init__ *)

Inductive key_input :=
| KInt (z : Z)            (* a Python int *)
| KDecStr (z : Z)         (* str(z), z >= 0 *)
| KHexStr (b : bytes)     (* b.hex() *)
| KBytes (b : bytes)
| KPoint (x y : Z).       (* (x, y) tuple of ints *)

Inductive import_res :=
| ImpOk (k : key)
| ImpReject               (* any exception *)
| ImpRandom               (* a freshly generated private key is returned *)
| ImpOutOfScope.

(* ec_point(secret) as printed by fastecdsa: the point at infinity reads (0, 0) *)
Definition lib_pub_of_secret (d : Z) : Z * Z :=
  match secp_pub d with Some P => P | None => (0, 0) end.

Definition y_prefix (y : Z) : byte := if Z.odd y then x03 else x02.

Fixpoint dec_digits (fuel : nat) (z : Z) : list Z :=
  match fuel with
  | O => []
  | S f => if z <? 10 then [z] else z mod 10 :: dec_digits f (z / 10)
  end.
Definition dec_str_digits (z : Z) : list Z := dec_digits (S (Z.to_nat (Z.log2 z))) z.

(* number of characters of hex(z)[2:] for z > 0 *)
Definition hex_len (z : Z) : Z := Z.log2 z / 4 + 1.

Section Import.
Variable range_check : bool.     (* fixes/C04-1 *)
Variable zero_check : bool.      (* fixes/C04-2 *)
Variable curve_check : bool.     (* fixes/C04-3 *)

(* l.1181-1204 (private key -> public key); wide = the 128 character hexadecimal form *)
Definition lib_mk_private (wide : bool) (secret : Z) (compressed : bool) : import_res :=
  if range_check && negb ((0 <? secret) && (secret <? secp256k1_n))
     && negb (wide && negb (secret mod secp256k1_n =? 0))
  then ImpReject
  else
    let '(x, y) := lib_pub_of_secret secret in
    ImpOk {| k_private := true; k_secret := secret; k_compressed := compressed;
             k_pubc := y_prefix y :: be_bytes 32 x;
             k_pubu := Some (x04 :: be_bytes 32 x ++ be_bytes 32 y);
             k_xb := be_bytes 32 x; k_yb := Some (be_bytes 32 y) |}.

(* the check added by fixes/C04-3 at the end of the public branch *)
Definition lib_pub_invalid (k : key) : bool :=
  let x := of_be (k_xb k) in
  let y2 := (powmod x 3 secp256k1_p + 7) mod secp256k1_p in
  let y := match k_yb k with Some yb => of_be yb | None => lib_mod_sqrt y2 end in
  negb (first_is (k_pubc k) 2 || first_is (k_pubc k) 3)
  || negb (length (k_pubc k) =? 33)%nat
  || negb (match k_pubu k with Some u => first_is u 4 | None => true end)
  || (secp256k1_p <=? x) || (secp256k1_p <=? y)
  || negb (powmod y 2 secp256k1_p =? y2).

Definition lib_finish_public (strict : bool) (k : key) : import_res :=
  if curve_check && strict && lib_pub_invalid k then ImpReject else ImpOk k.

(* l.1100-1120: a public key given as 33 or 65 bytes (or the hexadecimal string of them) *)
Definition lib_import_public (strict : bool) (b : bytes) : import_res :=
  let xb := firstn 32 (skipn 1 b) in
  if (length b =? 65)%nat then
    let yb := firstn 32 (skipn 33 b) in
    lib_finish_public strict
      {| k_private := false; k_secret := 0; k_compressed := false;
         k_pubc := y_prefix (of_be yb) :: xb; k_pubu := Some b; k_xb := xb; k_yb := Some yb |}
  else
    lib_finish_public strict
      {| k_private := false; k_secret := 0; k_compressed := true;
         k_pubc := b; k_pubu := None; k_xb := xb; k_yb := None |}.

Definition last_is (b : bytes) (v : Z) : bool := first_is (rev b) v.

(* Key(import_key, network, compressed, strict=strict) *)
Definition lib_key_import_gen (inp : key_input) (compressed strict : bool) : import_res :=
  match inp with
  | KInt z =>
      if z =? 0 then (if zero_check then ImpReject else ImpRandom)
      else if z <? 0 then ImpReject                                        (* fromhex('-0x..') *)
      else if (64 <? hex_len z) && Z.odd (hex_len z) then ImpReject         (* fromhex of an odd length *)
      else lib_mk_private false z compressed
  | KDecStr z =>
      if z <? 0 then ImpOutOfScope
      else
        let ds := dec_str_digits z in
        let l := Z.of_nat (length ds) in
        if negb (existsb (Z.eqb 0) ds) then ImpOutOfScope                  (* may be read as base58 *)
        else if existsb (Z.eqb l) [58; 64; 66; 128; 130] then ImpOutOfScope (* read as another format *)
        else if (70 <? l) && (l <? 78) then lib_mk_private false z compressed
        else if strict then ImpReject else ImpOutOfScope
  | KHexStr b =>
      let n := length b in
      match n with
      | O => ImpRandom
      | _ =>
        if (n =? 65)%nat && first_is b 4 then lib_import_public strict b
        else if (n =? 64)%nat then lib_mk_private true (of_be b) compressed
        else if (n =? 33)%nat && (first_is b 2 || first_is b 3) then lib_import_public strict b
        else if (n =? 32)%nat then lib_mk_private false (of_be b) compressed
        else if (n =? 33)%nat && last_is b 1 then lib_mk_private false (of_be (firstn 32 b)) true
        else ImpOutOfScope
      end
  | KBytes b =>
      let n := length b in
      match n with
      | O => ImpRandom
      | _ =>
        if ((n =? 33)%nat || (n =? 65)%nat) && (first_is b 2 || first_is b 3 || first_is b 4)
        then lib_import_public strict b
        else if (n =? 33)%nat && last_is b 1 then lib_mk_private false (of_be (firstn 32 b)) true
        else if (n =? 32)%nat then lib_mk_private false (of_be b) compressed
        else if (n =? 64)%nat || (n =? 128)%nat then ImpReject             (* bytes.fromhex(bytes): TypeError *)
        else ImpOutOfScope
      end
  | KPoint x y =>
      if (x <? 0) || (2 ^ 256 <=? x) || (y <? 0) || (2 ^ 256 <=? y) then ImpReject    (* int.to_bytes(32) *)
      else
        lib_finish_public strict
          {| k_private := false; k_secret := 0; k_compressed := compressed;
             k_pubc := y_prefix y :: be_bytes 32 x;
             k_pubu := Some (x04 :: be_bytes 32 x ++ be_bytes 32 y);
             k_xb := be_bytes 32 x; k_yb := Some (be_bytes 32 y) |}
  end.
End Import.

(* the code as repaired *)
Definition lib_key_import := lib_key_import_gen true true true.
(* the code before fixes/C04-1..3 *)
Definition lib_key_import_unfixed := lib_key_import_gen false false false.

(* ---------------------------------------------------------------- Key.address / HDKey.address *)

Definition opt_bool_is (o : option bool) (v : bool) : bool :=
  match o with Some b => Bool.eqb b v | None => false end.

(* Key.address(compressed=carg, script_type=st, encoding=enc) on a fresh Key object (no cached address).
   [fix4] = fixes/C04-4: a compressed address hashes public_compressed_byte (before: public_byte, which is the
   uncompressed encoding when the key was imported or created uncompressed) *)
(* the arguments Key.address hands to Address(...): (script_type, encoding, data); None = BKeyError *)
Definition lib_key_address_args_gen (fix4 : bool) (k : key) (carg : option bool)
           (st : option script_type) (enc : option encoding) : option (option script_type * encoding * bytes) :=
  let use_c := (k_compressed k && match carg with None => true | Some _ => false end) || opt_bool_is carg true in
  let data := if use_c then (if fix4 then k_pubc k else lib_public_byte k) else lib_public_uncompressed k in
  let e := match enc with Some e => e | None => EncBase58 end in
  if negb use_c && (match e with EncBech32 => true | EncBase58 => false end) then None
  else Some (st, e, data).
Definition lib_key_address_gen (fix4 : bool) (nw : network) (k : key) (carg : option bool)
           (st : option script_type) (enc : option encoding) : option bytes :=
  match lib_key_address_args_gen fix4 k carg st enc with
  | Some (st', e, data) => lib_address nw st' (Some e) 0 data []
  | None => None
  end.
Definition lib_key_address := lib_key_address_gen true.

(* HDKey.address: defaults from the HDKey (witness_type 'segwit': script_type p2wpkh, encoding bech32) *)
Definition lib_hdkey_address_args_gen (fix4 : bool) (k : key) (carg : option bool)
           (st : option script_type) (enc : option encoding) : option (option script_type * encoding * bytes) :=
  lib_key_address_args_gen fix4 k
    (Some (match carg with Some c => c | None => k_compressed k end))
    (Some (match st with Some s => s | None => StP2wpkh end))
    (Some (match enc with Some e => e | None => EncBech32 end)).
Definition lib_hdkey_address_gen (fix4 : bool) (nw : network) (k : key) (carg : option bool)
           (st : option script_type) (enc : option encoding) : option bytes :=
  match lib_hdkey_address_args_gen fix4 k carg st enc with
  | Some (st', e, data) => lib_address nw st' (Some e) 0 data []
  | None => None
  end.
Definition lib_hdkey_address := lib_hdkey_address_gen true.

(* Key.hash160 *)
Definition lib_key_hash160 (k : key) : bytes :=
  hash160 (lib_public_byte k).

(* ---------------------------------------------------------------- specification *)

(* SEC 1: a private key is an integer in [1, n-1]; its public key is d*G *)
Definition spec_valid_secret (d : Z) : bool := (1 <=? d) && (d <? secp_n).
Definition spec_public_point (d : Z) : point := secp_pub d.
(* a public key encoding is valid iff it parses (SEC 1 2.3.4) to a finite point of the curve *)
Definition spec_valid_public (b : bytes) : bool :=
  match parse_point b with Some _ => true | None => false end.
