(* Model/AddrEnc.v — public key / script -> address (C04).  Definitions only.
   lib_*  mirrors bitcoinlib/keys.py  Address.__init__ (l.808-912: witness type / encoding defaults, hashing per
          script type, p2sh-segwit redeem script, prefix per network) and bitcoinlib/encoding.py
          to_bytes, pubkeyhash_to_addr, pubkeyhash_to_addr_base58, pubkeyhash_to_addr_bech32.
          The arguments witness_type, prefix and network_overrides are left at their defaults (None), which is
          how Key.address / HDKey.address call it.
   spec_* is written from the protocol texts: Base58Check P2PKH / BIP13+BIP16 P2SH, BIP141 P2SH-P2WPKH
          (redeem script 00 14 <hash160>), BIP141/BIP173 P2WPKH / P2WSH (witness version 0, bech32),
          BIP341/BIP350 P2TR (witness version 1, bech32m, program = x-only output key; BIP86 key-path tweak).
   The base58 digit conversion [b58_enc] (encoding.base58encode) and the bech32 encoders are those of the C11
   model (Model/Base58.v, Model/Bech32.v); network prefixes come from the regenerated Gen/GenNetworks.v.
   std_address / frozen_address are the same standard encodings over the FROZEN specification table
   (Model/SpecNetworks.v, written from the reference clients' chain parameters, never regenerated). *)
From Coq Require Import ZArith List Bool.
From Coq.Strings Require Import Byte.
From Verif Require Import Lib.Bytes Crypto.Sha256 Crypto.Ripemd160 Crypto.Secp256k1
  Gen.GenConsts Gen.GenNetworks Model.SpecNetworks Model.Wire Model.Base58 Model.Bech32.
Import ListNotations.
Open Scope Z_scope.

(* ---------------------------------------------------------------- encoding.to_bytes on a bytes argument *)

(* Py_ISSPACE: space, \t \n \v \f \r *)
Definition py_isspace (c : byte) : bool := (bz c =? 32) || ((9 <=? bz c) && (bz c <=? 13)).

Definition hex_val (c : byte) : option Z :=
  let v := bz c in
  if (48 <=? v) && (v <=? 57) then Some (v - 48)
  else if (97 <=? v) && (v <=? 102) then Some (v - 87)
  else if (65 <=? v) && (v <=? 70) then Some (v - 55)
  else None.

(* bytes.fromhex: ASCII whitespace is skipped before each pair of hexadecimal digits; None = ValueError *)
Fixpoint py_fromhex (s : bytes) : option bytes :=
  match s with
  | [] => Some []
  | c :: r =>
      if py_isspace c then py_fromhex r
      else
        match r with
        | d :: r' =>
            match hex_val c, hex_val d with
            | Some a, Some b =>
                match py_fromhex r' with
                | Some t => Some (zb (16 * a + b) :: t)
                | None => None
                end
            | _, _ => None
            end
        | [] => None
        end
  end.

(* to_bytes(b) for b : bytes — "if not string: return b''", then the attempt to read the bytes as a
   hexadecimal string (decode + fromhex; UnicodeDecodeError and ValueError are swallowed) *)
Definition lib_to_bytes (b : bytes) : bytes :=
  match b with
  | [] => []
  | _ => match py_fromhex b with Some s => s | None => b end
  end.

(* the bytes would be taken for a hexadecimal string *)
Definition hexlike (b : bytes) : bool :=
  match b with
  | [] => false
  | _ => match py_fromhex b with Some _ => true | None => false end
  end.

(* ---------------------------------------------------------------- Address.__init__ *)

Inductive script_type :=
  StP2pkh | StP2sh | StP2shP2wpkh | StP2shP2wsh | StP2wpkh | StP2wsh | StP2tr | StP2shMultisig | StMultisig | StP2pk.
Inductive encoding := EncBase58 | EncBech32.
Inductive witness_type := WtLegacy | WtSegwit | WtP2shSegwit | WtTaproot.

Definition st_eqb (a b : script_type) : bool :=
  match a, b with
  | StP2pkh, StP2pkh | StP2sh, StP2sh | StP2shP2wpkh, StP2shP2wpkh | StP2shP2wsh, StP2shP2wsh
  | StP2wpkh, StP2wpkh | StP2wsh, StP2wsh | StP2tr, StP2tr | StP2shMultisig, StP2shMultisig
  | StMultisig, StMultisig | StP2pk, StP2pk => true
  | _, _ => false
  end.
Definition st_in (s : option script_type) (l : list script_type) : bool :=
  match s with Some a => existsb (st_eqb a) l | None => false end.
Definition enc_is (e : option encoding) (x : encoding) : bool :=
  match e, x with
  | Some EncBase58, EncBase58 | Some EncBech32, EncBech32 => true
  | _, _ => false
  end.
Definition wt_is (a b : witness_type) : bool :=
  match a, b with
  | WtLegacy, WtLegacy | WtSegwit, WtSegwit | WtP2shSegwit, WtP2shSegwit | WtTaproot, WtTaproot => true
  | _, _ => false
  end.

(* l.849-861 with witness_type=None: (witness_type, witver) *)
Definition lib_witness_type (st : option script_type) (enc : option encoding) (witver : Z) : witness_type * Z :=
  if st_in st [StP2wpkh; StP2wsh] then (WtSegwit, witver)
  else if st_in st [StP2shP2wpkh; StP2shP2wsh] then (WtP2shSegwit, witver)
  else if st_in st [StP2tr] then (WtTaproot, if witver =? 0 then 1 else witver)
  else if enc_is enc EncBase58 then (WtLegacy, witver)
  else (WtSegwit, witver).

(* l.866-871 *)
Definition lib_encoding (st : option script_type) (enc : option encoding) (wt : witness_type) : encoding :=
  match enc with
  | Some e => e
  | None =>
      if st_in st [StP2pkh; StP2sh; StMultisig; StP2pk] || wt_is wt WtLegacy || wt_is wt WtP2shSegwit
      then EncBase58 else EncBech32
  end.

(* l.872-880: hash_bytes *)
Definition lib_hash_bytes (st : option script_type) (e : encoding) (data hashed : bytes) : bytes :=
  match lib_to_bytes hashed with
  | [] =>
      let d := lib_to_bytes data in
      if (match e with EncBech32 => st_in st [StP2sh; StP2shMultisig; StP2tr] | EncBase58 => false end)
         || st_in st [StP2wsh; StP2shP2wsh]
      then sha256 d else hash160 d
  | h => h
  end.

(* pubkeyhash_to_addr_base58(pubkeyhash, prefix) *)
Definition lib_pkh_to_addr_base58 (pkh prefix : bytes) : bytes :=
  let key := lib_to_bytes prefix ++ lib_to_bytes pkh in
  b58_enc (key ++ firstn 4 (sha256d key)).

(* pubkeyhash_to_addr_bech32(pubkeyhash, prefix, witver) with separator '1', checksum_xor 1 *)
Definition lib_pkh_to_addr_bech32 (pkh hrp : bytes) (witver : Z) : option bytes :=
  lib_bech32_enc (lib_to_bytes pkh) hrp witver 1.

(* the final hash_bytes handed to pubkeyhash_to_addr and the prefix, or None when an exception is raised
   (no data at all; varstr of an oversized hash) *)
Definition lib_address_parts (nw : network) (st : option script_type) (enc : option encoding) (witver : Z)
           (data hashed : bytes) : option (encoding * bytes * bytes * Z) :=
  match data, hashed with
  | [], [] => None
  | _, _ =>
      let '(wt, wv) := lib_witness_type st enc witver in
      let e := lib_encoding st enc wt in
      let h := lib_hash_bytes st e data hashed in
      match e with
      | EncBase58 =>
          let st' := match st with Some s => s | None => StP2pkh end in
          let p2sh := st_in (Some st') [StP2sh; StP2shP2wpkh; StP2shP2wsh; StP2shMultisig] || wt_is wt WtP2shSegwit in
          let pfx := if p2sh then nw_prefix_address_p2sh nw else nw_prefix_address nw in
          if wt_is wt WtP2shSegwit then
            match lib_varstr h with
            | Some vs => Some (EncBase58, hash160 (x00 :: vs), pfx, wv)
            | None => None
            end
          else Some (EncBase58, h, pfx, wv)
      | EncBech32 => Some (EncBech32, h, nw_prefix_bech32 nw, wv)
      end
  end.

(* Address(data, hashed_data, script_type=st, encoding=enc, witver=witver, network=nw).address as ASCII bytes *)
Definition lib_address (nw : network) (st : option script_type) (enc : option encoding) (witver : Z)
           (data hashed : bytes) : option bytes :=
  match lib_address_parts nw st enc witver data hashed with
  | None => None
  | Some (EncBase58, h, pfx, _) => Some (lib_pkh_to_addr_base58 h pfx)
  | Some (EncBech32, h, hrp, wv) => lib_pkh_to_addr_bech32 h hrp wv
  end.

(* ---------------------------------------------------------------- the standard encodings *)

Definition spec_b58check (payload : bytes) : bytes := b58_enc (payload ++ firstn 4 (sha256d payload)).

Definition spec_p2pkh (nw : network) (pubkey : bytes) : bytes :=
  spec_b58check (nw_prefix_address nw ++ hash160 pubkey).
Definition spec_p2sh (nw : network) (script : bytes) : bytes :=
  spec_b58check (nw_prefix_address_p2sh nw ++ hash160 script).
(* BIP141: witness program of P2WPKH nested in P2SH: OP_0 <20-byte key hash> *)
Definition spec_redeem_p2wpkh (pubkey : bytes) : bytes := x00 :: x14 :: hash160 pubkey.
Definition spec_p2sh_p2wpkh (nw : network) (pubkey : bytes) : bytes := spec_p2sh nw (spec_redeem_p2wpkh pubkey).
(* BIP141: witness program of P2WSH nested in P2SH: OP_0 <32-byte SHA256 of the witness script> *)
Definition spec_redeem_p2wsh (script : bytes) : bytes := x00 :: x20 :: sha256 script.
Definition spec_p2sh_p2wsh (nw : network) (script : bytes) : bytes := spec_p2sh nw (spec_redeem_p2wsh script).
Definition spec_p2wpkh (nw : network) (pubkey : bytes) : option bytes :=
  spec_bech32_enc (nw_prefix_bech32 nw) 0 (hash160 pubkey).
Definition spec_p2wsh (nw : network) (script : bytes) : option bytes :=
  spec_bech32_enc (nw_prefix_bech32 nw) 0 (sha256 script).
(* BIP341: the witness program is the 32-byte x-only output key itself *)
Definition spec_p2tr (nw : network) (output_key : bytes) : option bytes :=
  spec_bech32_enc (nw_prefix_bech32 nw) 1 output_key.

(* BIP340 tagged hash, BIP341 taproot_tweak_pubkey with an empty script tree (BIP86) *)
Definition tagged_hash (tag msg : bytes) : bytes := sha256 (sha256 tag ++ sha256 tag ++ msg).
Definition tag_TapTweak : bytes := [x54; x61; x70; x54; x77; x65; x61; x6b].
Definition spec_taproot_output_key (P : Z * Z) : option bytes :=
  let x := fst P in
  match decompress false x with                       (* lift_x: the point with even y *)
  | None => None
  | Some P0 =>
      let t := of_be (tagged_hash tag_TapTweak (be_bytes 32 x)) in
      if secp_n <=? t then None
      else match pt_add (Some P0) (pt_mul t secp_G) with
           | Some (qx, _) => Some (be_bytes 32 qx)
           | None => None
           end
  end.
Definition spec_p2tr_of_key (nw : network) (pubkey : bytes) : option bytes :=
  match parse_point pubkey with
  | None => None
  | Some P => match spec_taproot_output_key P with
              | Some q => spec_p2tr nw q
              | None => None
              end
  end.

(* the standard address of a public key (or, for p2sh / p2wsh, of a script) for a script type and encoding;
   None = the combination has no standard form (e.g. p2pkh + bech32, p2wpkh + base58) *)
Definition spec_address (nw : network) (st : script_type) (e : encoding) (data : bytes) : option bytes :=
  match st, e with
  | StP2pkh, EncBase58 => Some (spec_p2pkh nw data)
  | StP2sh, EncBase58 => Some (spec_p2sh nw data)
  | StP2shP2wpkh, EncBase58 => Some (spec_p2sh_p2wpkh nw data)
  | StP2shP2wsh, EncBase58 => Some (spec_p2sh_p2wsh nw data)
  | StP2wpkh, EncBech32 => spec_p2wpkh nw data
  | StP2wsh, EncBech32 => spec_p2wsh nw data
  | StP2tr, EncBech32 => spec_p2tr_of_key nw data
  | _, _ => None
  end.

(* ---------------------------------------------------------------- the standard encodings over the frozen table *)

(* the standard address for given version bytes (P2PKH, P2SH) and human-readable part: written without any
   reference to the regenerated table *)
Definition std_address (pa ps hrp : bytes) (st : script_type) (e : encoding) (data : bytes) : option bytes :=
  match st, e with
  | StP2pkh, EncBase58 => Some (spec_b58check (pa ++ hash160 data))
  | StP2sh, EncBase58 => Some (spec_b58check (ps ++ hash160 data))
  | StP2shP2wpkh, EncBase58 => Some (spec_b58check (ps ++ hash160 (spec_redeem_p2wpkh data)))
  | StP2shP2wsh, EncBase58 => Some (spec_b58check (ps ++ hash160 (spec_redeem_p2wsh data)))
  | StP2wpkh, EncBech32 => spec_bech32_enc hrp 0 (hash160 data)
  | StP2wsh, EncBech32 => spec_bech32_enc hrp 0 (sha256 data)
  | StP2tr, EncBech32 =>
      match parse_point data with
      | None => None
      | Some P => match spec_taproot_output_key P with
                  | Some q => spec_bech32_enc hrp 1 q
                  | None => None
                  end
      end
  | _, _ => None
  end.

(* ... for a row of the frozen specification table *)
Definition frozen_address (sn : spec_network) : script_type -> encoding -> bytes -> option bytes :=
  std_address (sn_prefix_address sn) (sn_prefix_address_p2sh sn) (sn_prefix_bech32 sn).

(* P2TR of a 32-byte output key for a frozen row (BIP341 / BIP350) *)
Definition frozen_p2tr (sn : spec_network) (output_key : bytes) : option bytes :=
  spec_bech32_enc (sn_prefix_bech32 sn) 1 output_key.

(* the frozen row of a network name; None = the name is not in the specification *)
Definition frozen_address_by_name (name : String.string) (st : script_type) (e : encoding) (data : bytes) : option (option bytes) :=
  match spec_network_by_name name with
  | Some sn => Some (frozen_address sn st e data)
  | None => None
  end.
