(* Model/PublicView.v — C16: object-state machine of Key / HDKey / WalletKey attribute contents, the
   exports computed from them, and the database column model.  Definitions only.

   A field holds [Absent] (no such attribute), [VNone], [VPub] (a value computable without the secret
   exponent) or [VSec] (a value from which the secret exponent can be read back).  Every method is a small
   program over fields ([prog]); values flow only through [EFrom] (taint = join of the sources),
   [EPub] (constants / arguments) and [EDeclass] (a one-way function: EC multiplication, or the public()
   of a nested key — the places where one-wayness is an assumption of the model).  [ETop] stands for a
   source expression the model does not know: it evaluates to [VSec] (fail closed).

   public() is NOT written by hand: [prog_of_assigns] interprets the assignment list in the shape the
   translator regenerates from the source (Gen/GenFields.v); Glue/FieldsGlue.v proves the lists used
   here equal the regenerated ones. *)
From Coq Require Import List String Ascii Bool ZArith.
Import ListNotations.
Open Scope string_scope.

Inductive fval := Absent | VNone | VPub | VSec.
(* CPrivate: must be empty in a public view.  CMixed: may hold private or public data (WalletKey.wif);
   must not hold private data in a public view.  CHandle: database handle (session / ORM row), outside
   the claim.  CPublic: never holds private data. *)
Inductive fclass := CPrivate | CMixed | CPublic | CHandle.

Definition fmap := string -> fval.
Definition upd (f : fmap) (a : string) (v : fval) : fmap := fun b => if String.eqb a b then v else f b.
Fixpoint upds (f : fmap) (l : list (string * fval)) : fmap :=
  match l with [] => f | (a, v) :: r => upds (upd f a v) r end.
Definition empty : fmap := fun _ => Absent.

Definition truthy (v : fval) : bool := match v with VPub | VSec => true | _ => false end.
Definition blank (v : fval) : bool := negb (truthy v).
Definition is_sec (v : fval) : bool := match v with VSec => true | _ => false end.

Fixpoint assoc {A} (l : list (string * A)) (a : string) : option A :=
  match l with [] => None | (b, c) :: r => if String.eqb b a then Some c else assoc r a end.
Fixpoint mem (a : string) (l : list string) : bool :=
  match l with [] => false | b :: r => String.eqb b a || mem a r end.

(* kf: attribute contents; kcomp: truth value of self.compressed; kpriv: truth value of self.is_private;
   khd: the object is an HDKey; kwc: the VALUE stored in self._wif_compressed (None, or the compressed flag the
   stored WIF was made with).  The only non-None value the code ever assigns to _wif_compressed is
   self.compressed, so an assignment of a populated value to that attribute records the current flag. *)
Record kobj := { kf : fmap; kcomp : bool; kpriv : bool; khd : bool; kwc : option bool }.
Definition setf (k : kobj) a v :=
  {| kf := upd (kf k) a v; kcomp := kcomp k; kpriv := kpriv k; khd := khd k;
     kwc := if String.eqb a "_wif_compressed"
            then (match v with VPub | VSec => Some (kcomp k) | _ => None end) else kwc k |}.
Definition set_comp (k : kobj) c := {| kf := kf k; kcomp := c; kpriv := kpriv k; khd := khd k; kwc := kwc k |}.
Definition set_priv (k : kobj) c := {| kf := kf k; kcomp := kcomp k; kpriv := c; khd := khd k; kwc := kwc k |}.

(* ------------------------------------------------------------------ the little language *)
Inductive expr :=
| ENone
| EPub
| EFrom (srcs : list string)
| EDeclass (srcs : list string)
| ETop.

(* CWifStale: self._wif_compressed != self.compressed *)
Inductive cond := CSet (a : string) | CBlank (a : string) | CComp | CPriv | CHd | CWifStale.

Inductive prog :=
| Done
| Raise
| Asg (t : string) (e : expr) (rest : prog)
| Comp (b : bool) (rest : prog)          (* self.compressed = b   (the attribute stays populated) *)
| Priv (b : bool) (rest : prog)          (* self.is_private = b *)
| If (c : cond) (th el rest : prog).

Fixpoint seq (p q : prog) : prog :=
  match p with
  | Done => q
  | Raise => Raise
  | Asg t e r => Asg t e (seq r q)
  | Comp b r => Comp b (seq r q)
  | Priv b r => Priv b (seq r q)
  | If c th el r => If c th el (seq r q)
  end.
Infix ";;" := seq (at level 61, right associativity).

Definition any_sec (k : kobj) (srcs : list string) : bool := existsb (fun a => is_sec (kf k a)) srcs.

Definition eval (e : expr) (k : kobj) : fval :=
  match e with
  | ENone => VNone
  | EPub => VPub
  | EFrom srcs => if any_sec k srcs then VSec else VPub
  | EDeclass _ => VPub
  | ETop => VSec
  end.

Definition evalc (c : cond) (k : kobj) : bool :=
  match c with
  | CSet a => truthy (kf k a)
  | CBlank a => blank (kf k a)
  | CComp => kcomp k
  | CPriv => kpriv k
  | CHd => khd k
  | CWifStale => match kwc k with Some b => negb (Bool.eqb b (kcomp k)) | None => true end
  end.

(* result: final state and whether the method returned (true) or raised (false); a raise keeps the
   assignments already performed, as in Python *)
Fixpoint exec (p : prog) (k : kobj) : kobj * bool :=
  match p with
  | Done => (k, true)
  | Raise => (k, false)
  | Asg t e r => exec r (setf k t (eval e k))
  | Comp b r => exec r (set_comp (setf k "compressed" VPub) b)
  | Priv b r => exec r (set_priv (setf k "is_private" VPub) b)
  | If c th el r =>
      let '(k', ok) := exec (if evalc c k then th else el) k in
      if ok then exec r k' else (k', false)
  end.

(* ------------------------------------------------------------------ fields and their classification *)
Definition key_fields : list string :=
  [ "_address_obj"; "_hash160"; "_public_uncompressed_byte"; "_public_uncompressed_hex"; "_wif"; "_wif_compressed";
    "_wif_prefix"; "_x"; "_y"; "compressed"; "is_private"; "key_format"; "network"; "private_byte"; "private_hex";
    "public_byte"; "public_compressed_byte"; "public_compressed_hex"; "public_hex"; "secret";
    "x_bytes"; "x_hex"; "y_bytes"; "y_hex" ].
Definition hd_only_fields : list string :=
  [ "chain"; "child_index"; "depth"; "encoding"; "key_hex"; "key_type"; "multisig"; "parent_fingerprint";
    "script_type"; "witness_type" ].
Definition hd_fields : list string := key_fields ++ hd_only_fields.

Definition key_private_fields : list string := [ "secret"; "private_hex"; "private_byte"; "_wif"; "_wif_prefix" ].

Definition key_class : list (string * fclass) :=
  map (fun a => (a, if mem a key_private_fields then CPrivate else CPublic)) hd_fields.

Definition wk_fields : list string :=
  [ "_balance"; "_dbkey"; "_hdkey_object"; "_name"; "account_id"; "address"; "address_index"; "change";
    "compressed"; "cosigner_id"; "depth"; "encoding"; "is_private"; "key_id"; "key_private"; "key_public";
    "key_type"; "network"; "network_name"; "parent_id"; "path"; "purpose"; "session"; "used"; "wallet";
    "wallet_id"; "wif"; "witness_type" ].
Definition wk_class : list (string * fclass) :=
  map (fun a => (a, if mem a ["key_private"] then CPrivate
                    else if mem a ["wif"; "_hdkey_object"] then CMixed
                    else if mem a ["_dbkey"; "session"; "wallet"] then CHandle
                    else CPublic)) wk_fields.

(* ------------------------------------------------------------------ Key / HDKey: construction *)
Inductive kkind :=
| KPriv (compressed : bool)       (* private key in any import format, or generated *)
| KPubPoint (compressed : bool)   (* public key given as an (x, y) tuple *)
| KPubUncompressed                (* 65-byte public key *)
| KPubCompressed.                 (* 33-byte public key *)

Definition all_none (l : list string) : list (string * fval) := map (fun a => (a, VNone)) l.
Definition all_pub (l : list string) : list (string * fval) := map (fun a => (a, VPub)) l.

Definition key_init_none : list string :=
  [ "public_hex"; "_public_uncompressed_hex"; "public_compressed_hex"; "public_byte"; "_public_uncompressed_byte";
    "public_compressed_byte"; "private_byte"; "private_hex"; "_x"; "_y"; "x_hex"; "y_hex"; "secret"; "_hash160";
    "_address_obj"; "_wif"; "_wif_prefix"; "_wif_compressed" ].
Definition key_init_meta : list string := [ "compressed"; "key_format"; "is_private"; "network" ].
Definition pub_all : list string :=
  [ "_x"; "_y"; "x_hex"; "y_hex"; "public_compressed_hex"; "_public_uncompressed_hex"; "public_hex";
    "public_compressed_byte"; "_public_uncompressed_byte"; "public_byte" ].

Definition kind_fields (kd : kkind) : list (string * fval) :=
  match kd with
  | KPriv _ => [("secret", VSec); ("private_hex", VSec); ("private_byte", VSec)] ++ all_pub pub_all
  | KPubPoint _ => all_pub (["x_bytes"; "y_bytes"] ++ pub_all)
  | KPubUncompressed =>
      all_pub ["_public_uncompressed_hex"; "x_hex"; "y_hex"; "_y"; "public_hex"; "public_compressed_hex";
               "public_compressed_byte"; "_public_uncompressed_byte"; "public_byte"]
  | KPubCompressed =>
      all_pub ["public_hex"; "x_hex"; "_x"; "public_compressed_hex"; "public_compressed_byte"; "public_byte"]
  end.
Definition kind_comp (kd : kkind) : bool :=
  match kd with KPriv c => c | KPubPoint c => c | KPubUncompressed => false | KPubCompressed => true end.
Definition kind_priv (kd : kkind) : bool := match kd with KPriv _ => true | _ => false end.

Definition init (hd : bool) (kd : kkind) : kobj :=
  {| kf := upds empty (all_none key_init_none ++ all_pub key_init_meta ++ kind_fields kd
                       ++ (if hd then all_pub ["script_type"; "encoding"; "witness_type"; "multisig"; "chain"; "depth";
                                               "parent_fingerprint"; "child_index"; "key_type"] else []));
     kcomp := kind_comp kd; kpriv := kind_priv kd; khd := hd; kwc := None |}.

(* ------------------------------------------------------------------ Key / HDKey: methods *)
Definition p_fill_x : prog :=
  If (CBlank "_x") (If (CSet "x_hex") (Asg "_x" (EFrom ["x_hex"]) Done) Done Done) Done Done.
Definition p_unc_hex : prog :=          (* property public_uncompressed_hex *)
  If (CBlank "_public_uncompressed_hex")
     (Asg "_y" (EFrom ["_x"; "public_hex"]) (Asg "y_hex" (EFrom ["_y"])
        (Asg "_public_uncompressed_hex" (EFrom ["x_hex"; "y_hex"]) Done)))
     Done Done.
Definition p_unc_byte : prog :=         (* property public_uncompressed_byte *)
  If (CBlank "_public_uncompressed_byte")
     (p_unc_hex ;; Asg "_public_uncompressed_byte" (EFrom ["_public_uncompressed_hex"]) Done) Done Done.
Definition p_fill_y : prog :=           (* property y *)
  If (CBlank "_y")
     (If (CBlank "y_hex") (p_unc_hex ;; Asg "_public_uncompressed_hex" (EFrom ["_public_uncompressed_hex"]) Done) Done
         (Asg "_y" (EFrom ["y_hex"]) Done))
     Done Done.
Definition p_point : prog := p_fill_x ;; p_fill_y.
Definition p_hash160 : prog :=
  If (CBlank "_hash160")
     (If CComp Done p_unc_byte
         (Asg "_hash160" (EFrom ["public_byte"; "_public_uncompressed_byte"]) Done))
     Done Done.
Definition p_address : prog :=          (* address() with default arguments *)
  If CComp (Comp true Done) (p_unc_byte ;; Comp false Done)
     (Asg "_address_obj" (EFrom ["public_byte"; "_public_uncompressed_byte"; "network"]) Done).
Definition p_address_unc : prog :=      (* Key.address_uncompressed() *)
  p_unc_byte ;; Comp false (Asg "_address_obj" (EFrom ["_public_uncompressed_byte"; "network"]) Done).
(* Key.wif() / HDKey.wif_key():
     if self._wif_compressed != self.compressed: self._wif = None        (before the secret is looked at)
     if not self.secret: raise
     ... self._wif = ...; self._wif_prefix = versionbyte; self._wif_compressed = self.compressed
   (when the stored WIF is returned without recomputing, the three attributes already hold exactly that) *)
Definition p_wif_stale : prog := If CWifStale (Asg "_wif" ENone Done) Done Done.
Definition p_wif_body : prog :=
  Asg "_wif" (EFrom ["secret"; "compressed"; "network"])
      (Asg "_wif_prefix" EPub (Asg "_wif_compressed" (EFrom ["compressed"]) Done)).
Definition p_wif : prog := p_wif_stale ;; If (CSet "secret") p_wif_body Raise Done.
Definition p_export_fills : prog := p_unc_hex ;; p_hash160 ;; p_address ;; p_point.
Definition p_as_dict (incl : bool) : prog :=
  (if incl then If CHd Done p_wif Done else Done) ;; p_export_fills.
Definition p_info : prog := If (CSet "secret") p_wif Done p_export_fills.
Definition p_encrypt : prog := p_address ;; If (CSet "private_hex") Done Raise Done.

(* public(): interpretation of the regenerated assignment list (target, (guard, rhs)) *)
Definition rhs_expr (r : string) : expr :=
  if String.eqb r "None" then ENone
  else if String.eqb r "False" then EPub
  else if String.eqb r "self.public_hex" then EFrom ["public_hex"]
  else if String.eqb r "self.key().wif()" then EDeclass ["_hdkey_object"]
  else if String.eqb r "self._hdkey_object.public()" then EDeclass ["_hdkey_object"]
  else ETop.

(* WalletKey.key(): drops the cached object and re-parses self.wif *)
Definition p_wk_key : prog :=
  Asg "_hdkey_object" ENone (If (CSet "wif") (Asg "_hdkey_object" (EFrom ["wif"]) Done) Done Done).

Definition guard_prog (g : string) (body : prog) : prog :=
  if String.eqb g "" then body
  else if String.eqb g "self.key()" then p_wk_key ;; If (CSet "_hdkey_object") (p_wk_key ;; body) Done Done
  else if String.eqb g "self._hdkey_object" then If (CSet "_hdkey_object") body Done Done
  else Asg "is_private" ETop body.          (* unknown guard: fail closed *)

Fixpoint prog_of_assigns (l : list (string * (string * string))) : prog :=
  match l with
  | [] => Done
  | (t, (g, r)) :: rest =>
      guard_prog g (if String.eqb t "is_private" && String.eqb r "False" then Priv false Done
                    else Asg t (rhs_expr r) Done) ;; prog_of_assigns rest
  end.

Definition key_public_assigns : list (string * (string * string)) :=
  [ ("is_private", ("", "False")); ("private_byte", ("", "None")); ("private_hex", ("", "None"));
    ("secret", ("", "None")); ("_wif", ("", "None")); ("_wif_prefix", ("", "None")) ].
Definition hdkey_public_assigns : list (string * (string * string)) :=
  [ ("is_private", ("", "False")); ("secret", ("", "None")); ("private_hex", ("", "None"));
    ("private_byte", ("", "None")); ("_wif", ("", "None")); ("_wif_prefix", ("", "None"));
    ("key_hex", ("", "self.public_hex")) ].
Definition walletkey_public_assigns : list (string * (string * string)) :=
  [ ("is_private", ("", "False")); ("key_private", ("", "None"));
    ("wif", ("self.key()", "self.key().wif()"));
    ("_hdkey_object", ("self._hdkey_object", "self._hdkey_object.public()"));
    ("_dbkey", ("", "None")) ].
(* how public() obtains the object it returns: Key/HDKey deep-copy, WalletKey returns itself *)
Definition key_public_copy := "deepcopy(self)".
Definition hdkey_public_copy := "deepcopy(self)".
(* WalletKey.public() returned the object itself (in-place stripping); the repaired form deep-copies first.
   Both give the returned object the same attribute contents, which is all this model observes. *)
Definition walletkey_public_copies : list string := ["self"; "deepcopy(self)"].

Definition p_public : prog :=
  If CHd (prog_of_assigns hdkey_public_assigns) (prog_of_assigns key_public_assigns) Done.

Inductive op :=
| OWif | OAddress | OAddressUnc | OHash160 | OUncHex | OUncByte | OPoint
| OAsDict (incl : bool) | OAsJson (incl : bool) | OInfo | ORepr | OStr | OEncrypt
| OPublic | ODeepCopy | OPickle
| OHdWif (priv : bool) | OFingerprint | OChildPriv (hardened : bool) | OChildPub | OPublicMaster.

Definition op_prog (o : op) : prog :=
  match o with
  | OWif => p_wif
  | OAddress => p_address
  | OAddressUnc => p_address_unc
  | OHash160 | OFingerprint => p_hash160
  | OUncHex => p_unc_hex
  | OUncByte => p_unc_byte
  | OPoint => p_point
  | OAsDict i | OAsJson i => p_as_dict i
  | OInfo => p_info
  | OEncrypt => p_encrypt
  | OPublic => p_public
  | ORepr | OStr | ODeepCopy | OPickle | OHdWif _ => Done
  | OChildPriv _ | OChildPub | OPublicMaster => Done
  end.

(* methods returning a NEW object move the focus of the history to it *)
Definition step (o : op) (k : kobj) : kobj * bool :=
  match o with
  | OChildPriv _ =>
      if khd k && kpriv k && truthy (kf k "secret") then (init true (KPriv true), true) else (k, false)
  | OChildPub => if khd k then (init true KPubCompressed, true) else (k, false)
  | OPublicMaster =>
      if khd k then
        if kpriv k && truthy (kf k "secret") then exec p_public (init true (KPriv true))
        else exec p_public (init true KPubCompressed)
      else (k, false)
  | _ => exec (op_prog o) k
  end.

Fixpoint run (h : list op) (k : kobj) : kobj :=
  match h with [] => k | o :: r => run r (fst (step o k)) end.

(* ------------------------------------------------------------------ exports *)
(* model reading of each source expression the export methods interpolate (strings as regenerated) *)
Definition xpub_srcs : list string := ["depth"; "parent_fingerprint"; "child_index"; "chain"; "public_byte"; "network"].
Definition src_table : list (string * expr) :=
  [ ("self.network.name", EFrom ["network"]); ("self.key_format", EFrom ["key_format"]);
    ("self.compressed", EFrom ["compressed"]); ("self.is_private", EFrom ["is_private"]);
    ("self.private_hex", EFrom ["private_hex"]); ("self.secret", EFrom ["secret"]);
    ("self.wif()", EFrom ["_wif"]);
    ("self.public_hex", EFrom ["public_hex"]);
    ("self.public_uncompressed_hex", EFrom ["_public_uncompressed_hex"]);
    ("self.hash160.hex()", EFrom ["_hash160"]); ("self.address()", EFrom ["_address_obj"]);
    ("x", EFrom ["_x"]); ("y", EFrom ["_y"]);
    ("self.fingerprint.hex()", EFrom ["_hash160"]); ("self.chain.hex()", EFrom ["chain"]);
    ("self.parent_fingerprint.hex()", EFrom ["parent_fingerprint"]);
    ("self.child_index", EFrom ["child_index"]); ("self.depth", EFrom ["depth"]);
    ("self.wif_public()", EFrom xpub_srcs);
    ("self.wif(is_private=True)", EFrom ("private_byte" :: xpub_srcs));
    (* WalletKey *)
    ("self.id", EFrom ["key_id"]); ("self.key_id", EFrom ["key_id"]); ("self.key_type", EFrom ["key_type"]); ("self.name", EFrom ["_name"]);
    ("'' if not self.key_public else self.key_public.hex()", EFrom ["key_public"]);
    ("self.account_id", EFrom ["account_id"]); ("self.parent_id", EFrom ["parent_id"]);
    ("self.change", EFrom ["change"]); ("self.address_index", EFrom ["address_index"]);
    ("self.address", EFrom ["address"]); ("self.encoding", EFrom ["encoding"]); ("self.path", EFrom ["path"]);
    ("self.balance()", EFrom ["_balance"]); ("self.balance(as_string=True)", EFrom ["_balance"; "network"]);
    ("self.key_private.hex()", EFrom ["key_private"]); ("self.wif", EFrom ["wif"]);
    ("wif <- self.wif | [self.is_private and self.key_type != 'multisig'] HDKey.from_wif(wif, network=self.network_name, compressed=self.compressed).wif_public()",
     EDeclass ["wif"])
  ].
Definition src_expr (s : string) : expr := match assoc src_table s with Some e => e | None => ETop end.

Definition key_as_dict : list (string * (string * string)) :=
  [ ("$local key_dict", ("", "collections.OrderedDict()"));
    ("network", ("", "self.network.name")); ("key_format", ("", "self.key_format"));
    ("compressed", ("", "self.compressed")); ("is_private", ("", "self.is_private"));
    ("private_hex", ("include_private", "self.private_hex")); ("secret", ("include_private", "self.secret"));
    ("wif", ("include_private", "self.wif()"));
    ("public_hex", ("", "self.public_hex")); ("public_uncompressed_hex", ("", "self.public_uncompressed_hex"));
    ("hash160", ("", "self.hash160.hex()")); ("address", ("", "self.address()"));
    ("$local (x, y)", ("", "self.public_point()")); ("point_x", ("", "x")); ("point_y", ("", "y")) ].
(* HDKey.as_dict calls Key.as_dict() WITHOUT include_private, then adds its own entries *)
Definition hdkey_as_dict : list (string * (string * string)) :=
  [ ("$local key_dict", ("", "super(HDKey, self).as_dict()"));
    ("fingerprint", ("include_private", "self.fingerprint.hex()"));
    ("chain_code", ("include_private", "self.chain.hex()"));
    ("fingerprint_parent", ("include_private", "self.parent_fingerprint.hex()"));
    ("child_index", ("", "self.child_index")); ("depth", ("", "self.depth"));
    ("extended_wif_public", ("", "self.wif_public()"));
    ("extended_wif_private", ("include_private", "self.wif(is_private=True)")) ].
Definition walletkey_as_dict : list (string * (string * string)) :=
  [ ("id", ("", "self.key_id")); ("key_type", ("", "self.key_type")); ("network", ("", "self.network.name"));
    ("is_private", ("", "self.is_private")); ("name", ("", "self.name"));
    ("key_public", ("", "'' if not self.key_public else self.key_public.hex()"));
    ("account_id", ("", "self.account_id")); ("parent_id", ("", "self.parent_id")); ("depth", ("", "self.depth"));
    ("change", ("", "self.change")); ("address_index", ("", "self.address_index"));
    ("address", ("", "self.address")); ("encoding", ("", "self.encoding")); ("path", ("", "self.path"));
    ("balance", ("", "self.balance()")); ("balance_str", ("", "self.balance(as_string=True)"));
    ("key_private", ("include_private", "self.key_private.hex()")); ("wif", ("include_private", "self.wif")) ].
Definition key_repr_args : list string := ["self.public_hex"; "self.network.name"].
Definition key_str_args : list string := ["self.public_hex"].
Definition hdkey_repr_args : list string := ["self.public_hex"; "self.wif_public()"; "self.network.name"].
Definition walletkey_repr_args : list string :=
  [ "self.key_id"; "self.name";
    "wif <- self.wif | [self.is_private and self.key_type != 'multisig'] HDKey.from_wif(wif, network=self.network_name, compressed=self.compressed).wif_public()";
    "self.path" ].

Definition starts_dollar (s : string) : bool := match s with String c _ => Ascii.eqb c (ascii_of_nat 36) | _ => false end.
Fixpoint dict_exprs (incl : bool) (l : list (string * (string * string))) : list (string * expr) :=
  match l with
  | [] => []
  | (k, (g, s)) :: r =>
      if starts_dollar k then dict_exprs incl r
      else if String.eqb g "" then (k, src_expr s) :: dict_exprs incl r
      else if String.eqb g "include_private" then
        (if incl then [(k, src_expr s)] else []) ++ dict_exprs incl r
      else (k, ETop) :: dict_exprs incl r
  end.
Definition args_exprs (l : list string) : list (string * expr) := map (fun s => (s, src_expr s)) l.

(* what the value returned / printed by an operation is computed from (evaluated on the state AFTER the
   operation; nothing is exported when the operation raises) *)
Definition hd_wif_expr (k : kobj) (priv : bool) : expr :=
  if kpriv k && priv then EFrom ("private_byte" :: xpub_srcs) else EFrom xpub_srcs.
Definition info_exprs (k : kobj) : list (string * expr) :=
  (if truthy (kf k "secret") then [("private_hex", EFrom ["private_hex"]); ("secret", EFrom ["secret"]);
                                   ("wif", EFrom ["_wif"])] else [])
  ++ args_exprs ["self.network.name"; "self.compressed"; "self.public_hex"; "self.public_uncompressed_hex";
                 "self.hash160.hex()"; "self.address()"; "x"; "y"]
  ++ (if khd k then args_exprs ["self.chain.hex()"; "self.child_index"; "self.parent_fingerprint.hex()"; "self.depth";
                                "self.wif_public()"]
                    ++ [("key_type", EFrom ["key_type"; "witness_type"; "script_type"; "multisig"]);
                        ("wif_private", hd_wif_expr k true)]
      else []).

Definition export_exprs (o : op) (k : kobj) : list (string * expr) :=
  match o with
  | OWif => [("wif", EFrom ["_wif"])]
  | OAddress | OAddressUnc => [("address", EFrom ["_address_obj"])]
  | OHash160 | OFingerprint => [("hash160", EFrom ["_hash160"])]
  | OUncHex => [("hex", EFrom ["_public_uncompressed_hex"])]
  | OUncByte => [("byte", EFrom ["_public_uncompressed_byte"])]
  | OPoint => [("x", EFrom ["_x"]); ("y", EFrom ["_y"])]
  | OAsDict i | OAsJson i =>
      if khd k then dict_exprs false key_as_dict ++ dict_exprs i hdkey_as_dict else dict_exprs i key_as_dict
  | OInfo => info_exprs k
  | ORepr => args_exprs (if khd k then hdkey_repr_args else key_repr_args)
  | OStr => args_exprs key_str_args
  | OEncrypt => [("bip38", EDeclass ["private_hex"; "_address_obj"])]
  | OHdWif p => [("xkey", hd_wif_expr k p)]
  | OPublic | ODeepCopy | OPickle | OChildPriv _ | OChildPub | OPublicMaster => []
  end.

Definition exports (o : op) (k : kobj) : list (string * fval) :=
  let '(k', ok) := step o k in
  if ok then map (fun le => (fst le, eval (snd le) k')) (export_exprs o k') else [].

Definition default_export (o : op) : bool :=
  match o with OAsDict false | OAsJson false | ORepr | OStr => true | _ => false end.

(* ------------------------------------------------------------------ WalletKey *)
Inductive wkind := WkPrivate (with_hdkey : bool) | WkPublic (with_hdkey : bool) | WkAddressOnly.

Definition wk_meta : list string :=
  [ "_balance"; "_name"; "account_id"; "address"; "address_index"; "change"; "compressed"; "depth";
    "encoding"; "is_private"; "key_id"; "key_type"; "network"; "network_name"; "parent_id"; "path"; "purpose";
    "session"; "used"; "wallet"; "wallet_id"; "witness_type" ].
Definition wk_init (w : wkind) : kobj :=
  {| kf := upds empty (all_pub wk_meta ++ [("cosigner_id", VNone)] ++
           match w with
           | WkPrivate h => [("key_public", VPub); ("key_private", VSec); ("wif", VSec); ("_dbkey", VSec);
                             ("_hdkey_object", if h then VSec else VNone)]
           | WkPublic h => [("key_public", VPub); ("key_private", VNone); ("wif", VPub); ("_dbkey", VPub);
                            ("_hdkey_object", if h then VPub else VNone)]
           | WkAddressOnly => [("key_public", VNone); ("key_private", VNone); ("wif", VNone); ("_dbkey", VPub);
                               ("_hdkey_object", VPub); ("address_index", VNone); ("depth", VNone)]
           end);
     kcomp := true; kpriv := match w with WkPrivate _ => true | _ => false end; khd := false; kwc := None |}.

Inductive wop := WKey | WPublic | WAsDict (incl : bool) | WRepr | WBalance | WName.

Definition wop_prog (o : wop) : prog :=
  match o with
  | WKey => p_wk_key
  | WPublic => prog_of_assigns walletkey_public_assigns
  | WAsDict true => If (CSet "key_private") Done Raise Done      (* None.hex() raises *)
  | _ => Done
  end.
Definition wstep (o : wop) (k : kobj) : kobj * bool := exec (wop_prog o) k.
Fixpoint wrun (h : list wop) (k : kobj) : kobj :=
  match h with [] => k | o :: r => wrun r (fst (wstep o k)) end.
Definition wexport_exprs (o : wop) : list (string * expr) :=
  match o with
  | WKey => [("key", EFrom ["_hdkey_object"])]
  | WPublic => []
  | WAsDict i => dict_exprs i walletkey_as_dict
  | WRepr => args_exprs walletkey_repr_args
  | WBalance => [("balance", EFrom ["_balance"])]
  | WName => [("name", EFrom ["_name"])]
  end.
Definition wexports (o : wop) (k : kobj) : list (string * fval) :=
  let '(k', ok) := wstep o k in
  if ok then map (fun le => (fst le, eval (snd le) k')) (wexport_exprs o) else [].
Definition wdefault_export (o : wop) : bool :=
  match o with WAsDict false | WRepr | WBalance | WName => true | _ => false end.

(* ------------------------------------------------------------------ Wallet exports and the database *)
(* taint of every (column, source expression) written to a DbKey row in wallets.py (strings as regenerated) *)
Definition dbkey_writes : list ((string * string) * fval) :=
  map (fun w => (w, VPub))
    [ ("account_id", "account_id"); ("address", "address"); ("address", "address.address"); ("address", "k.address");
      ("address_index", "address_index"); ("change", "change"); ("compressed", "k.compressed");
      ("cosigner_id", "cosigner_id"); ("depth", "depth"); ("depth", "k.depth"); ("encoding", "encoding");
      ("id", "new_key_id"); ("is_private", "False"); ("is_private", "True"); ("is_private", "k.is_private");
      ("key_type", "'multisig'"); ("key_type", "key_type"); ("latest_txid", "None");
      ("latest_txid", "bytes.fromhex(txs[-1].txid)"); ("name", "name[:80]"); ("name", "value");
      ("network_name", "network"); ("parent_id", "0"); ("parent_id", "parent_id"); ("path", "path") ]
  ++ [ (("private", "k.private_byte"), VSec) ]
  ++ map (fun w => (w, VPub))
    [ ("public", "address.hash_bytes"); ("public", "k.public_byte"); ("purpose", "purpose");
      ("purpose", "self.purpose"); ("used", "False"); ("used", "True"); ("wallet_id", "self.wallet_id");
      ("wallet_id", "wallet_id"); ("wif", "'multisig-%s' % address") ]
  ++ [ (("wif", "k.wif(witness_type=witness_type, multisig=multisig, is_private=True)"), VSec);
       (("witness_type", "witness_type"), VPub) ].
Definition private_write_columns : list string :=
  map (fun w => fst (fst w)) (filter (fun w => is_sec (snd w)) dbkey_writes).

Definition dbkey_encrypted_columns : list string := ["private"; "wif"].
Definition wallet_keys_private_fields : list string := ["private"; "wif"].
Definition encrypted_bind_plain_condition : string :=
  "value is None or self.key is None or (not (DB_FIELD_ENCRYPTION_KEY or DB_FIELD_ENCRYPTION_PASSWORD))".

(* what reaches the file: [Plain v] readable, [Cipher] AES-SIV ciphertext.  key_set = one of the two
   environment variables is present when db.py is imported *)
Inductive cell := Plain (v : fval) | Cipher.
Definition stored (key_set : bool) (col : string) (v : fval) : cell :=
  if mem col dbkey_encrypted_columns && key_set && negb (match v with VNone | Absent => true | _ => false end)
  then Cipher else Plain v.

(* Wallet.keys(as_dict=True, include_private=b): the row dictionaries minus private_fields *)
Definition row_dict_columns (incl : bool) (cols : list string) : list string :=
  filter (fun c => incl || negb (mem c wallet_keys_private_fields)) cols.

Definition wallet_repr_args : list string :=
  ["self.name"; "db_uri <- '' if not self.db_uri else self.db_uri.split('?')[0]"].
Definition wallet_str_args : list string := ["self.name"].
Definition dbkey_repr_args : list string := ["self.id"; "self.name"; "self.wif"].
(* entries of Wallet.as_dict: everything is wallet metadata except the key rows, which are read through
   self.keys(..., include_private=include_private, as_dict=True) *)
Definition wallet_as_dict_keys_call : string :=
  "key in self.keys(network=netw.name, include_private=include_private, as_dict=True)".

(* ------------------------------------------------------------------ observation helpers for the driver *)
Definition codes (fields : list string) (k : kobj) : list fval := map (kf k) fields.
Definition out_taint (l : list (string * fval)) : option bool :=
  match l with [] => None | _ => Some (existsb (fun lv => is_sec (snd lv)) l) end.
Definition key_codes (k : kobj) : list fval := codes (if khd k then hd_fields else key_fields) k.
Definition wk_codes (k : kobj) : list fval := codes wk_fields k.

(* ------------------------------------------------------------------ predicates used by the theorems *)
(* an attribute that is not in the table is treated as CPublic: it must never hold a secret *)
Definition cls_of (tbl : list (string * fclass)) (a : string) : fclass :=
  match assoc tbl a with Some c => c | None => CPublic end.
Definition is_private (tbl : list (string * fclass)) (a : string) : bool :=
  match cls_of tbl a with CPrivate => true | _ => false end.
Definition is_public (tbl : list (string * fclass)) (a : string) : bool :=
  match cls_of tbl a with CPublic => true | _ => false end.
Definition is_handle (tbl : list (string * fclass)) (a : string) : bool :=
  match cls_of tbl a with CHandle => true | _ => false end.

(* the classification is sound for a state: secrets sit only in attributes not classified CPublic *)
Definition Sound (tbl : list (string * fclass)) (k : kobj) : Prop :=
  forall a, kf k a = VSec -> is_public tbl a = false.
(* every CPrivate attribute is None (or absent) *)
Definition Clean (tbl : list (string * fclass)) (k : kobj) : Prop :=
  forall a, is_private tbl a = true -> blank (kf k a) = true.
(* no attribute other than a database handle holds a secret *)
Definition TClean (tbl : list (string * fclass)) (k : kobj) : Prop :=
  forall a, is_handle tbl a = false -> kf k a <> VSec.

(* static checks on programs (decided by computation in the proofs) *)
Definition expr_public (tbl : list (string * fclass)) (e : expr) : bool :=
  match e with EFrom srcs => forallb (is_public tbl) srcs | ETop => false | _ => true end.
Definition expr_closed (tbl : list (string * fclass)) (e : expr) : bool :=
  match e with EFrom srcs => forallb (fun a => negb (is_handle tbl a)) srcs | ETop => false | _ => true end.
Definition is_ENone (e : expr) : bool := match e with ENone => true | _ => false end.

Fixpoint flows_ok (tbl : list (string * fclass)) (p : prog) : bool :=
  match p with
  | Done | Raise => true
  | Asg t e r => (expr_public tbl e || negb (is_public tbl t)) && flows_ok tbl r
  | Comp _ r | Priv _ r => flows_ok tbl r
  | If _ th el r => flows_ok tbl th && flows_ok tbl el && flows_ok tbl r
  end.
Fixpoint closed (tbl : list (string * fclass)) (p : prog) : bool :=
  match p with
  | Done | Raise => true
  | Asg t e r => expr_closed tbl e && closed tbl r
  | Comp _ r | Priv _ r => closed tbl r
  | If _ th el r => closed tbl th && closed tbl el && closed tbl r
  end.
Fixpoint keeps_clean (tbl : list (string * fclass)) (p : prog) : bool :=
  match p with
  | Done | Raise => true
  | Asg t e r => (negb (is_private tbl t) || is_ENone e) && keeps_clean tbl r
  | Comp _ r => negb (is_private tbl "compressed") && keeps_clean tbl r
  | Priv _ r => negb (is_private tbl "is_private") && keeps_clean tbl r
  | If c th el r =>
      ((match c with CSet a => is_private tbl a | _ => false end) || keeps_clean tbl th)
      && ((match c with CBlank a => is_private tbl a | _ => false end) || keeps_clean tbl el)
      && keeps_clean tbl r
  end.

(* ================================================================== Wallet level ====================
   CONFIGURATIONS (how the wallet was created: the depth and the privacy of its main key), HISTORIES on the
   wallet and its cached key objects, and the VIEWS Wallet.public_master() / Wallet.wif() / as_dict ...

   public_master() and wif() are NOT written by hand: [pm_results] / [wif_exports] interpret the path tables in
   the shape the translator regenerates from the source (every path through the method body that ends in a
   return: tests with their polarity, then the statements); Glue/FieldsGlue.v proves the tables used here equal
   the regenerated ones.  A test or a statement list the model does not know is read fail-closed: an unknown
   test may hold either way, an unknown body returns the wallet's main key as it is. *)
Inductive wconf :=
| WcMaster        (* bip32 wallet created from a private depth-0 master key (or passphrase) *)
| WcAcctPriv      (* bip32 wallet created from a PRIVATE account-level key: main key depth = depth_public_master *)
| WcAcctPub       (* bip32 wallet created from a public account-level key (watch-only) *)
| WcSinglePriv    (* single-key wallet, private key *)
| WcSinglePub.    (* single-key wallet, public key *)

Definition conf_single (c : wconf) : bool := match c with WcSinglePriv | WcSinglePub => true | _ => false end.
Definition conf_at_account (c : wconf) : bool := match c with WcAcctPriv | WcAcctPub => true | _ => false end.
Definition conf_private (c : wconf) : bool := match c with WcMaster | WcAcctPriv | WcSinglePriv => true | _ => false end.
Definition conf_kind (c : wconf) (with_hdkey : bool) : wkind :=
  if conf_private c then WkPrivate with_hdkey else WkPublic with_hdkey.

(* one wallet that owns keys: a plain wallet, or one cosigner wallet of a multisig wallet ([sw_cos]).
   sw_main: attribute contents of wallet.main_key (the cached object: Wallet.key(id) hands out the same object)
   sw_acct: attribute contents of the cached account-level WalletKey which key_for_path([], depth_public_master)
            returns when the main key is a depth-0 master key (derived from it, therefore private) *)
Record swallet := { sw_conf : wconf; sw_cos : bool; sw_main : kobj; sw_acct : kobj }.

Definition acct_init (cos with_hdkey : bool) : kobj :=
  let k := wk_init (WkPrivate with_hdkey) in if cos then setf k "cosigner_id" VPub else k.
Definition sw_init (cos : bool) (c : wconf) : swallet :=
  {| sw_conf := c; sw_cos := cos; sw_main := wk_init (conf_kind c true); sw_acct := acct_init cos true |}.
(* closing and opening the wallet again: every cached object is dropped, the rows are read again *)
Definition sw_reopen (s : swallet) : swallet :=
  {| sw_conf := sw_conf s; sw_cos := sw_cos s; sw_main := wk_init (conf_kind (sw_conf s) false);
     sw_acct := acct_init (sw_cos s) false |}.
Definition src_is_main (s : swallet) : bool := conf_single (sw_conf s) || conf_at_account (sw_conf s).
(* the WalletKey key_for_path([], depth_public_master) returns *)
Definition sw_source (s : swallet) : kobj := if src_is_main s then sw_main s else sw_acct s.
Definition set_main (s : swallet) (k : kobj) : swallet :=
  {| sw_conf := sw_conf s; sw_cos := sw_cos s; sw_main := k; sw_acct := sw_acct s |}.
Definition set_acct (s : swallet) (k : kobj) : swallet :=
  {| sw_conf := sw_conf s; sw_cos := sw_cos s; sw_main := sw_main s; sw_acct := k |}.

Inductive wallet := WSimple (s : swallet) | WMulti (cos : list swallet).
Inductive walconf := CSimple (c : wconf) | CMulti (cs : list wconf).
Definition wal_init (c : walconf) : wallet :=
  match c with CSimple c => WSimple (sw_init false c) | CMulti cs => WMulti (map (sw_init true) cs) end.

(* operations of a history *)
Inductive wlop :=
| LMainKey                 (* wallet.main_key.key() and the private exports of the nested key *)
| LSrcKey                  (* wallet.public_master(as_private=True).key() *)
| LMainPublic              (* wallet.main_key.public() *)
| LPm (as_private : bool)  (* wallet.public_master(as_private=...) *)
| LPmKey                   (* wallet.public_master().key() *)
| LWif (is_private : bool) (* wallet.wif(is_private=...) *)
| LAsDict (incl : bool)    (* wallet.as_dict / as_json (include_private=...) *)
| LInfo | LRepr
| LOther                   (* get_key / new_key / new_account / import_key / keys() / signing a transaction: the cached
                              main and account key objects may be parsed again (made definite: they are) *)
| LReopen.
Inductive walop := WTop (o : wlop) | WCos (i : nat) (o : wlop).

Definition sw_step (o : wlop) (s : swallet) : swallet :=
  match o with
  | LMainKey => set_main s (fst (exec p_wk_key (sw_main s)))
  | LSrcKey => if src_is_main s then set_main s (fst (exec p_wk_key (sw_main s)))
               else set_acct s (fst (exec p_wk_key (sw_acct s)))
  | LOther => {| sw_conf := sw_conf s; sw_cos := sw_cos s; sw_main := fst (exec p_wk_key (sw_main s));
                 sw_acct := if src_is_main s then sw_acct s else fst (exec p_wk_key (sw_acct s)) |}
  | LReopen => sw_reopen s
  | _ => s
  end.
Fixpoint map_nth {A} (i : nat) (f : A -> A) (l : list A) : list A :=
  match l, i with
  | [], _ => []
  | x :: r, O => f x :: r
  | x :: r, S j => x :: map_nth j f r
  end.
Definition multi_step (o : wlop) (cos : list swallet) : list swallet :=
  match o with
  | LSrcKey => map (sw_step LSrcKey) cos
  | LOther => map (sw_step LOther) cos
  | LReopen => map (sw_step LReopen) cos
  | _ => cos
  end.
Definition wal_step (o : walop) (w : wallet) : wallet :=
  match w with
  | WSimple s => match o with WTop o => WSimple (sw_step o s) | WCos _ _ => w end
  | WMulti cos => match o with WTop o => WMulti (multi_step o cos) | WCos i o => WMulti (map_nth i (sw_step o) cos) end
  end.
Fixpoint wal_run (h : list walop) (w : wallet) : wallet :=
  match h with [] => w | o :: r => wal_run r (wal_step o w) end.

(* ---- the path tables (strings as regenerated) *)
Definition g_single := "self.main_key and self.main_key.key_type == 'single'".
Definition g_nocos := "not self.cosigner".
Definition g_plain := "not self.multisig or not self.cosigner".
Definition g_priv_main := "is_private and self.main_key".
Definition ret_view := "return key if as_private else key.public()".

Definition pm_body_main : list string := [ "key = self.main_key"; ret_view ].
Definition pm_body_path : list string :=
  [ "witness_type = witness_type if witness_type else self.witness_type";
    "depth = -self.key_depth + self.depth_public_master";
    "key = self.key_for_path([], depth, name=name, account_id=account_id, network=network, cosigner_id=self.cosigner_id, witness_type=witness_type)";
    ret_view ].
Definition pm_body_cos : list string :=
  [ "pm_list = []";
    "for cs in self.cosigner: pm_list.append(cs.public_master(account_id, name, as_private, network))";
    "return pm_list" ].
Definition wallet_public_master_paths : list (list (string * bool) * list string) :=
  [ ([(g_single, true)], pm_body_main);
    ([(g_single, false); (g_nocos, true)], pm_body_path);
    ([(g_single, false); (g_nocos, false)], pm_body_cos) ].

Definition wif_body_main : list string := [ "return self.main_key.wif" ].
Definition wif_body_pm : list string :=
  [ "return self.public_master(account_id=account_id).key().wif(is_private=is_private, witness_type=self.witness_type, multisig=self.multisig)" ].
Definition wif_body_cos : list string :=
  [ "wiflist = []"; "for cs in self.cosigner: wiflist.append(cs.wif(is_private=is_private))"; "return wiflist" ].
Definition wallet_wif_paths : list (list (string * bool) * list string) :=
  [ ([(g_plain, true); (g_priv_main, true)], wif_body_main);
    ([(g_plain, true); (g_priv_main, false)], wif_body_pm);
    ([(g_plain, false)], wif_body_cos) ].

(* frozen copies of further method bodies / signatures the views depend on (compared by Glue only) *)
Definition hdkey_pm_common : list string :=
  [ "if multisig: self.multisig = multisig";
    "if witness_type: self.witness_type = witness_type";
    "path_template, purpose, _ = get_key_structure_data(self.witness_type, self.multisig, purpose)";
    "pm_depth = path_template.index([x for x in path_template if x[-1:] == ""'""][-1]) + 1";
    "path = path_expand(path_template[:pm_depth], path_template, account_id=account_id, purpose=purpose, witness_type=self.witness_type, network=self.network.name)" ].
Definition hdkey_public_master_paths : list (list (string * bool) * list string) :=
  [ ([("as_private", true)], (hdkey_pm_common ++ [ "return self.subkey_for_path(path)" ])%list);
    ([("as_private", false)], (hdkey_pm_common ++ [ "return self.subkey_for_path(path).public()" ])%list) ].
Definition walletkey_key_paths : list (list (string * bool) * list string) :=
  [ ([],
     [ "self._hdkey_object = None";
       "if self.key_type == 'multisig': self._hdkey_object = [] for kc in self._dbkey.multisig_children: self._hdkey_object.append(HDKey.from_wif(kc.child_key.wif, network=kc.child_key.network_name, compressed=self.compressed))";
       "if self._hdkey_object is None and self.wif: self._hdkey_object = HDKey.from_wif(self.wif, network=self.network_name, compressed=self.compressed)";
       "return self._hdkey_object" ]) ].
Definition as_json_paths : list (list (string * bool) * list string) :=
  [ ([], [ "return json.dumps(self.as_dict(include_private=include_private), indent=4)" ]);
    ([], [ "return json.dumps(self.as_dict(include_private=include_private), indent=4)" ]);
    ([], [ "adict = self.as_dict(include_private=include_private)"; "return json.dumps(adict, indent=4, default=str)" ]) ].
(* every export / view entry point leaves the private material out BY DEFAULT *)
Definition export_signatures : list (string * string) :=
  [ ("Key.public", "self");
    ("Key.as_dict", "self, include_private=False");
    ("Key.as_json", "self, include_private=False");
    ("Key.wif", "self, prefix=None");
    ("Key.info", "self");
    ("HDKey.public", "self");
    ("HDKey.as_dict", "self, include_private=False");
    ("HDKey.as_json", "self, include_private=False");
    ("HDKey.wif", "self, is_private=None, child_index=None, prefix=None, witness_type=None, multisig=None");
    ("HDKey.wif_public", "self, prefix=None, witness_type=None, multisig=None");
    ("HDKey.info", "self");
    ("HDKey.public_master", "self, account_id=0, purpose=None, multisig=None, witness_type=None, as_private=False");
    ("HDKey.public_master_multisig", "self, account_id=0, purpose=None, witness_type=None, as_private=False");
    ("Address.as_dict", "self");
    ("Address.as_json", "self");
    ("WalletKey.public", "self");
    ("WalletKey.as_dict", "self, include_private=False");
    ("WalletKey.key", "self");
    ("Wallet.public_master", "self, account_id=None, name=None, as_private=False, witness_type=None, network=None");
    ("Wallet.wif", "self, is_private=False, account_id=0");
    ("Wallet.as_dict", "self, include_private=False");
    ("Wallet.as_json", "self, include_private=False");
    ("Wallet.info", "self, detail=3");
    ("Wallet.keys", "self, account_id=None, name=None, key_id=None, change=None, depth=None, used=None, is_private=None, has_balance=None, is_active=None, witness_type=None, network=None, include_private=False, as_dict=False");
    ("Wallet.account", "self, account_id") ].

(* ---- interpretation of the path tables *)
Fixpoint strs_eqb (a b : list string) : bool :=
  match a, b with
  | [], [] => true
  | x :: r, y :: q => String.eqb x y && strs_eqb r q
  | _, _ => false
  end.

(* what a test can see of the wallet the method is called on *)
Record wctx := { cx_single : bool; cx_parent : bool; cx_main : bool }.
Definition ctx_simple (s : swallet) : wctx :=
  {| cx_single := conf_single (sw_conf s); cx_parent := false; cx_main := true |}.
Definition ctx_parent : wctx := {| cx_single := false; cx_parent := true; cx_main := false |}.

Inductive tri := TT | TF | TU.
Definition tri_of (b : bool) : tri := if b then TT else TF.
Definition guard_val (cx : wctx) (arg : bool) (g : string) : tri :=
  if String.eqb g g_single then tri_of (cx_main cx && cx_single cx)
  else if String.eqb g g_nocos then tri_of (negb (cx_parent cx))
  else if String.eqb g g_plain then tri_of (negb (cx_parent cx))
  else if String.eqb g g_priv_main then tri_of (arg && cx_main cx)
  else TU.
Definition may_hold (cx : wctx) (arg : bool) (gs : list (string * bool)) : bool :=
  forallb (fun gb => match guard_val cx arg (fst gb) with TU => true | TT => snd gb | TF => negb (snd gb) end) gs.

Inductive pm_sem := PmMain | PmPath | PmCos | PmRaw.
Definition pm_body_sem (b : list string) : pm_sem :=
  if strs_eqb b pm_body_main then PmMain
  else if strs_eqb b pm_body_path then PmPath
  else if strs_eqb b pm_body_cos then PmCos
  else PmRaw.

(* `key if as_private else key.public()` *)
Definition view (as_private : bool) (k : kobj) : kobj := if as_private then k else fst (wstep WPublic k).

Definition pm_simple (tbl : list (list (string * bool) * list string)) (s : swallet) (ap : bool) : list kobj :=
  flat_map (fun p =>
    if may_hold (ctx_simple s) ap (fst p) then
      match pm_body_sem (snd p) with
      | PmMain => [view ap (sw_main s)]
      | PmPath => [view ap (sw_source s)]
      | PmCos => []                        (* a wallet that owns keys has no cosigner wallets *)
      | PmRaw => [sw_main s]
      end
    else []) tbl.
Definition pm_results (tbl : list (list (string * bool) * list string)) (w : wallet) (ap : bool) : list kobj :=
  match w with
  | WSimple s => pm_simple tbl s ap
  | WMulti cos =>
      flat_map (fun p =>
        if may_hold ctx_parent ap (fst p) then
          match pm_body_sem (snd p) with
          | PmCos => flat_map (fun s => pm_simple tbl s ap) cos
          | PmMain | PmPath => []          (* no main key: the real call raises *)
          | PmRaw => map sw_main cos
          end
        else []) tbl
  end.
Definition wallet_public_master (w : wallet) (as_private : bool) : list kobj :=
  pm_results wallet_public_master_paths w as_private.

Inductive wif_sem := WfMain | WfPm | WfCos | WfRaw.
Definition wif_body_sem (b : list string) : wif_sem :=
  if strs_eqb b wif_body_main then WfMain
  else if strs_eqb b wif_body_pm then WfPm
  else if strs_eqb b wif_body_cos then WfCos
  else WfRaw.
(* public_master(...).key().wif(is_private=ip): the parse happens on the returned WalletKey; the public
   serialisation of a key is one-way, the private one carries whatever the parsed key carries *)
Definition wif_of_view (ip : bool) (v : kobj) : string * fval :=
  let v' := fst (exec p_wk_key v) in
  ("wif", eval (if ip then EFrom ["_hdkey_object"] else EDeclass ["_hdkey_object"]) v').
Definition wif_simple (pmt wft : list (list (string * bool) * list string)) (s : swallet) (ip : bool)
  : list (string * fval) :=
  flat_map (fun p =>
    if may_hold (ctx_simple s) ip (fst p) then
      match wif_body_sem (snd p) with
      | WfMain | WfRaw => [("wif", eval (EFrom ["wif"]) (sw_main s))]
      | WfPm => map (wif_of_view ip) (pm_simple pmt s false)
      | WfCos => []
      end
    else []) wft.
Definition wif_exports (pmt wft : list (list (string * bool) * list string)) (w : wallet) (ip : bool)
  : list (string * fval) :=
  match w with
  | WSimple s => wif_simple pmt wft s ip
  | WMulti cos =>
      flat_map (fun p =>
        if may_hold ctx_parent ip (fst p) then
          match wif_body_sem (snd p) with
          | WfCos => flat_map (fun s => wif_simple pmt wft s ip) cos
          | WfPm => map (wif_of_view ip) (pm_results pmt w false)
          | WfMain | WfRaw => map (fun s => ("wif", eval (EFrom ["wif"]) (sw_main s))) cos
          end
        else []) wft
  end.

(* ---- what each operation returns / prints *)
(* the key rows of Wallet.as_dict: the columns that survive the private_fields filter, read from the rows of a
   wallet whose keys are private; a multisig parent wallet only holds references ('multisig-<address>') *)
Definition rows_value (private_rows : bool) (col : string) : fval :=
  if mem col private_write_columns && private_rows then VSec else VPub.
Definition as_dict_exports (incl private_rows : bool) : list (string * fval) :=
  map (fun c => (c, rows_value private_rows c)) (row_dict_columns incl ["address"; "path"; "private"; "public"; "wif"]).

Definition key_of_view (v : kobj) : string * fval := ("key", eval (EFrom ["_hdkey_object"]) (fst (exec p_wk_key v))).
Definition sw_exports (o : wlop) (s : swallet) : list (string * fval) :=
  let s' := sw_step o s in
  match o with
  | LMainKey => [("key", eval (EFrom ["_hdkey_object"]) (sw_main s'))]
  | LSrcKey => [("key", eval (EFrom ["_hdkey_object"]) (sw_source s'))]
  | LPmKey => map key_of_view (pm_simple wallet_public_master_paths s' false)
  | LWif ip => wif_simple wallet_public_master_paths wallet_wif_paths s' ip
  | LAsDict incl => as_dict_exports incl (conf_private (sw_conf s'))
  | LInfo | LRepr => [("name", VPub)]
  | LMainPublic | LPm _ | LOther | LReopen => []
  end.
Definition multi_exports (o : wlop) (cos : list swallet) : list (string * fval) :=
  match o with
  | LSrcKey => flat_map (sw_exports LSrcKey) cos
  | LPmKey => map key_of_view (wallet_public_master (WMulti cos) false)
  | LWif ip => wif_exports wallet_public_master_paths wallet_wif_paths (WMulti cos) ip
  | LAsDict incl => as_dict_exports incl false
  | LInfo | LRepr => [("name", VPub)]
  | _ => []
  end.
Definition wal_exports (o : walop) (w : wallet) : list (string * fval) :=
  match w with
  | WSimple s => match o with WTop o => sw_exports o s | WCos _ _ => [] end
  | WMulti cos =>
      match o with
      | WTop o => multi_exports o (multi_step o cos)
      | WCos i o => match nth_error cos i with Some s => sw_exports o s | None => [] end
      end
  end.
(* the WalletKey objects an operation hands out *)
Definition sw_returns (o : wlop) (s : swallet) : list kobj :=
  match o with
  | LPm ap => wallet_public_master (WSimple (sw_step o s)) ap
  | LMainPublic => [view false (sw_main (sw_step o s))]
  | _ => []
  end.
Definition wal_returns (o : walop) (w : wallet) : list kobj :=
  match w with
  | WSimple s => match o with WTop o => sw_returns o s | WCos _ _ => [] end
  | WMulti cos =>
      match o with
      | WTop (LPm ap) => wallet_public_master w ap
      | WTop _ => []
      | WCos i o => match nth_error cos i with Some s => sw_returns o s | None => [] end
      end
  end.
Definition returns_a_view (o : wlop) : bool := match o with LPm false | LMainPublic => true | _ => false end.
Definition lop_of (o : walop) : wlop := match o with WTop o | WCos _ o => o end.
(* operations whose result is presented as public *)
Definition wal_default_export (o : wlop) : bool :=
  match o with LPmKey | LWif false | LAsDict false | LInfo | LRepr => true | _ => false end.
Definition wal_mains (w : wallet) : list kobj :=
  match w with WSimple s => [sw_main s] | WMulti cos => map sw_main cos end.

(* ================================================================== view entry points CALLED WITH ARGUMENTS ========
   Every function that presents its result as public, with its full parameter list (regenerated: [entry_params]),
   called with ARBITRARY argument values.  An argument value is abstracted to what the bodies look at: its Python
   truth value (and, for the record, the constant itself); [ATop] is a value the model knows nothing about.

   The helpers that only forward (HDKey.public_master_multisig -> HDKey.public_master, HDKey.wif_public ->
   HDKey.wif) are NOT written by hand: [forward_env] interprets the regenerated keyword -> argument mapping of the
   call ([call_forwards]: positional arguments resolved to the callee's parameter names), so a keyword that is fed
   from the wrong caller argument changes what the model computes.  Fail closed: an unknown body, an unknown
   argument expression or a missing table row behave like a request for the private key. *)
Inductive aval := ANone | ABool (b : bool) | AInt (z : Z) | AStr (s : string) | ATop.
Definition args := list (string * aval).

Definition a_truth (v : aval) : tri :=
  match v with
  | ANone => TF
  | ABool b => tri_of b
  | AInt z => tri_of (negb (Z.eqb z 0))
  | AStr s => tri_of (negb (String.eqb s ""))
  | ATop => TU
  end.
Definition is_tf (t : tri) : bool := match t with TF => true | _ => false end.

(* parameter NAMES that ask for private output (frozen; Glue/FieldsGlue.v checks that every parameter of every
   public-view entry point is either one of these or one of the reviewed other names) *)
Definition asks_private_params : list string := ["as_private"; "include_private"; "is_private"].
Definition reviewed_plain_params : list string :=
  [ "account_id"; "purpose"; "multisig"; "witness_type"; "prefix"; "child_index"; "name"; "network"; "detail";
    "key_id"; "change"; "depth"; "used"; "has_balance"; "is_active"; "as_dict"; "index" ].
(* a call does not ask for private output: every such argument that is passed is definitely false *)
Definition no_private_request (a : args) : bool :=
  forallb (fun n => match assoc a n with Some v => is_tf (a_truth v) | None => true end) asks_private_params.

(* frozen copies of the regenerated tables *)
Definition public_named_defs : list string :=
  [ "Key.public_uncompressed_hex"; "Key.public_uncompressed_byte"; "Key.public"; "Key.public_point";
    "HDKey.wif_public"; "HDKey.public_master"; "HDKey.public_master_multisig"; "HDKey.child_public"; "HDKey.public";
    "Signature.public_key"; "WalletKey.keys_public"; "WalletKey.public"; "Wallet.public_master" ].
(* public-named functions that are not views of a private key: the public key a signature was made with *)
Definition public_named_other : list string := [ "Signature.public_key" ].
Definition entry_params : list (string * list (string * string)) :=
  [ ("Key.public", []);
    ("Key.as_dict", [("include_private", "False")]);
    ("Key.as_json", [("include_private", "False")]);
    ("Key.wif", [("prefix", "None")]);
    ("Key.info", []);
    ("HDKey.public", []);
    ("HDKey.as_dict", [("include_private", "False")]);
    ("HDKey.as_json", [("include_private", "False")]);
    ("HDKey.wif", [("is_private", "None"); ("child_index", "None"); ("prefix", "None"); ("witness_type", "None"); ("multisig", "None")]);
    ("HDKey.wif_public", [("prefix", "None"); ("witness_type", "None"); ("multisig", "None")]);
    ("HDKey.info", []);
    ("HDKey.public_master", [("account_id", "0"); ("purpose", "None"); ("multisig", "None"); ("witness_type", "None"); ("as_private", "False")]);
    ("HDKey.public_master_multisig", [("account_id", "0"); ("purpose", "None"); ("witness_type", "None"); ("as_private", "False")]);
    ("Address.as_dict", []);
    ("Address.as_json", []);
    ("WalletKey.public", []);
    ("WalletKey.as_dict", [("include_private", "False")]);
    ("WalletKey.key", []);
    ("Wallet.public_master", [("account_id", "None"); ("name", "None"); ("as_private", "False"); ("witness_type", "None"); ("network", "None")]);
    ("Wallet.wif", [("is_private", "False"); ("account_id", "0")]);
    ("Wallet.as_dict", [("include_private", "False")]);
    ("Wallet.as_json", [("include_private", "False")]);
    ("Wallet.info", [("detail", "3")]);
    ("Wallet.keys", [("account_id", "None"); ("name", "None"); ("key_id", "None"); ("change", "None"); ("depth", "None"); ("used", "None"); ("is_private", "None"); ("has_balance", "None"); ("is_active", "None"); ("witness_type", "None"); ("network", "None"); ("include_private", "False"); ("as_dict", "False")]);
    ("Wallet.account", [("account_id", "$required")]);
    ("Key.public_uncompressed_hex", []);
    ("Key.public_uncompressed_byte", []);
    ("Key.public_point", []);
    ("HDKey.child_public", [("index", "0"); ("network", "None")]);
    ("WalletKey.keys_public", []) ].
Definition entry_properties : list string :=
  [ "Key.public_uncompressed_hex"; "Key.public_uncompressed_byte"; "WalletKey.keys_public" ].
(* the forwarding calls the model interprets (the complete regenerated table is compared on these rows and, as a
   whole, with [call_forwards_rest]) *)
Definition fw_pmm : string * (string * list (string * string)) :=
  ("HDKey.public_master_multisig",
   ("self.public_master", [("account_id", "account_id"); ("purpose", "purpose"); ("multisig", "True");
                           ("witness_type", "witness_type"); ("as_private", "as_private")])).
Definition fw_wif_public : string * (string * list (string * string)) :=
  ("HDKey.wif_public",
   ("self.wif", [("is_private", "False"); ("prefix", "prefix"); ("witness_type", "witness_type"); ("multisig", "multisig")])).
Definition call_forwards : list (string * (string * list (string * string))) :=
  [ ("Key.as_dict", ("self.public_point", []));
    ("Key.as_dict", ("self.wif", []));
    ("Key.as_json", ("self.as_dict", [("include_private", "include_private")]));
    ("Key.info", ("self.public_point", []));
    ("Key.info", ("self.wif", []));
    ("HDKey.as_dict", ("super(HDKey, self).as_dict", []));
    ("HDKey.as_dict", ("self.wif_public", []));
    ("HDKey.as_dict", ("self.wif", [("is_private", "True")]));
    ("HDKey.as_json", ("self.as_dict", [("include_private", "include_private")]));
    fw_wif_public;
    ("HDKey.info", ("super(HDKey, self).info", []));
    ("HDKey.info", ("self.wif_public", []));
    ("HDKey.info", ("self.wif", [("is_private", "True")]));
    ("HDKey.public_master", ("self.subkey_for_path(path).public", []));
    fw_pmm;
    ("Address.as_json", ("self.as_dict", []));
    ("WalletKey.public", ("pub_key.key", []));
    ("WalletKey.public", ("pub_key.key().wif", []));
    ("WalletKey.public", ("pub_key._hdkey_object.public", []));
    ("WalletKey.public", ("pub_key.key", []));
    ("Wallet.public_master", ("key.public", []));
    ("Wallet.public_master", ("key.public", []));
    ("Wallet.public_master", ("cs.public_master", [("account_id", "account_id"); ("name", "name"); ("as_private", "as_private"); ("witness_type", "network")]));
    ("Wallet.wif", ("self.public_master(account_id=account_id).key().wif", [("is_private", "is_private"); ("witness_type", "self.witness_type"); ("multisig", "self.multisig")]));
    ("Wallet.wif", ("cs.wif", [("is_private", "is_private")]));
    ("Wallet.wif", ("self.public_master(account_id=account_id).key", []));
    ("Wallet.wif", ("self.public_master", [("account_id", "account_id")]));
    ("Wallet.as_dict", ("self.keys", [("network", "netw.name"); ("include_private", "include_private"); ("as_dict", "True")]));
    ("Wallet.as_dict", ("w.public_master().key().wif", []));
    ("Wallet.as_dict", ("t.as_dict", []));
    ("Wallet.as_dict", ("w.public_master().key", []));
    ("Wallet.as_dict", ("t.as_dict", []));
    ("Wallet.as_dict", ("w.public_master", []));
    ("Wallet.as_json", ("self.as_dict", [("include_private", "include_private")]));
    ("Wallet.info", ("self.keys", [("depth", "d"); ("network", "nw.name"); ("is_active", "is_active")]));
    ("Wallet.info", ("cs.wif", [("is_private", "False")]));
    ("Wallet.account", ("self.key", [("term", "key_id")]));
    ("HDKey.child_public", ("self.public_point", []));
    ("WalletKey.keys_public", ("self.key", [])) ].
Definition pmm_body : list string := [ "return self.public_master(account_id, purpose, True, witness_type, as_private)" ].
Definition hdkey_public_master_multisig_paths : list (list (string * bool) * list string) := [ ([], pmm_body) ].
Definition wif_public_body : list string :=
  [ "return self.wif(is_private=False, prefix=prefix, witness_type=witness_type, multisig=multisig)" ].
Definition hdkey_wif_public_paths : list (list (string * bool) * list string) := [ ([], wif_public_body) ].
(* HDKey.wif: the body the hand-written reading [hd_wif_env_exprs] below was made from (compared by Glue only): the
   private key bytes are serialised only under `self.is_private and is_private` *)
Definition hdkey_wif_paths : list (list (string * bool) * list string) :=
  [ ([],
     [ "if not witness_type: witness_type = DEFAULT_WITNESS_TYPE if not self.witness_type else self.witness_type";
       "if not multisig: multisig = False if not self.multisig else self.multisig";
       "rkey = self.private_byte or self.public_compressed_byte";
       "if prefix and (not isinstance(prefix, bytes)): prefix = bytes.fromhex(prefix)";
       "if self.is_private and is_private: if not prefix: prefix = self.network.wif_prefix(is_private=True, witness_type=witness_type, multisig=multisig) typebyte = b'\x00' else: if not prefix: prefix = self.network.wif_prefix(witness_type=witness_type, multisig=multisig) typebyte = b'' if not is_private: rkey = self.public_compressed_byte";
       "if child_index is None: child_index = self.child_index";
       "raw = prefix + self.depth.to_bytes(1, 'big') + self.parent_fingerprint + child_index.to_bytes(4, 'big') + self.chain + typebyte + rkey";
       "chk = double_sha256(raw)[:4]";
       "ret = raw + chk";
       "return change_base(ret, 256, 58, 111)" ]) ].

(* ---- constants, environments, forwarding *)
Definition digit_of (c : ascii) : option Z :=
  let n := nat_of_ascii c in if Nat.leb 48 n && Nat.leb n 57 then Some (Z.of_nat (n - 48)) else None.
Fixpoint dec_of (s : string) (acc : Z) : option Z :=
  match s with
  | EmptyString => Some acc
  | String c r => match digit_of c with Some d => dec_of r (acc * 10 + d)%Z | None => None end
  end.
Definition const_val (s : string) : option aval :=
  if String.eqb s "None" then Some ANone
  else if String.eqb s "True" then Some (ABool true)
  else if String.eqb s "False" then Some (ABool false)
  else match s with
       | EmptyString => None
       | _ => match dec_of s 0%Z with Some z => Some (AInt z) | None => None end
       end.
Definition default_val (d : string) : aval := match const_val d with Some v => v | None => ATop end.
Definition params_of (tbl : list (string * list (string * string))) (m : string) : list (string * string) :=
  match assoc tbl m with Some l => l | None => [] end.
(* the value a parameter is bound to: the argument that was passed, else its default *)
Definition bind (a : args) (n d : string) : aval := match assoc a n with Some v => v | None => default_val d end.
Definition call_env (tbl : list (string * list (string * string))) (m : string) (a : args) : args :=
  map (fun pd => (fst pd, bind a (fst pd) (snd pd))) (params_of tbl m).
(* an argument expression of a forwarding call, evaluated in the caller's environment *)
Definition eval_arg (env : args) (e : string) : aval :=
  match const_val e with Some v => v | None => match assoc env e with Some v => v | None => ATop end end.
Definition fbind (prs : list (string * string)) (env : args) (n d : string) : aval :=
  match assoc prs n with Some e => eval_arg env e | None => default_val d end.
Fixpoint find_forward (fw : list (string * (string * list (string * string)))) (caller callee_text : string)
  : option (list (string * string)) :=
  match fw with
  | [] => None
  | (c, (t, prs)) :: r =>
      if String.eqb c caller && String.eqb t callee_text then Some prs else find_forward r caller callee_text
  end.
Definition forward_env (ptbl : list (string * list (string * string)))
                       (fw : list (string * (string * list (string * string))))
                       (caller callee_text callee : string) (env : args) : args :=
  match find_forward fw caller callee_text with
  | Some prs => map (fun pd => (fst pd, fbind prs env (fst pd) (snd pd))) (params_of ptbl callee)
  | None => map (fun pd => (fst pd, ATop)) (params_of ptbl callee)
  end.

(* ---- HDKey.public_master(account_id, purpose, multisig, witness_type, as_private): the regenerated return paths *)
Definition env_guard (env : args) (g : string) : tri := match assoc env g with Some v => a_truth v | None => TU end.
Definition env_may_hold (env : args) (gs : list (string * bool)) : bool :=
  forallb (fun gb => match env_guard env (fst gb) with TU => true | TT => snd gb | TF => negb (snd gb) end) gs.
Inductive hpm_sem := HpmPrivate | HpmPublic | HpmRaw.
Definition hpm_body_private : list string := (hdkey_pm_common ++ [ "return self.subkey_for_path(path)" ])%list.
Definition hpm_body_public : list string := (hdkey_pm_common ++ [ "return self.subkey_for_path(path).public()" ])%list.
Definition hpm_body_sem (b : list string) : hpm_sem :=
  if strs_eqb b hpm_body_private then HpmPrivate
  else if strs_eqb b hpm_body_public then HpmPublic
  else HpmRaw.
(* self.subkey_for_path(path): a NEW key object, private exactly when the source holds its secret *)
Definition hd_child (k : kobj) : kobj :=
  if kpriv k && truthy (kf k "secret") then init true (KPriv true) else init true KPubCompressed.
Definition hpm_one (env : args) (k : kobj) (p : list (string * bool) * list string) : list (kobj * bool) :=
  if env_may_hold env (fst p) then
    match hpm_body_sem (snd p) with
    | HpmPublic => [exec p_public (hd_child k)]
    | HpmPrivate | HpmRaw => [(hd_child k, true)]
    end
  else [].
Definition hpm_results (tbl : list (list (string * bool) * list string)) (env : args) (k : kobj) : list (kobj * bool) :=
  flat_map (hpm_one env k) tbl.

(* ---- HDKey.public_master_multisig(account_id, purpose, witness_type, as_private): forwards *)
Definition hpmm_one (ptbl : list (string * list (string * string)))
                    (fw : list (string * (string * list (string * string))))
                    (pmt : list (list (string * bool) * list string)) (env : args) (k : kobj)
                    (p : list (string * bool) * list string) : list (kobj * bool) :=
  if env_may_hold env (fst p) then
    if strs_eqb (snd p) pmm_body then
      hpm_results pmt (forward_env ptbl fw "HDKey.public_master_multisig" "self.public_master" "HDKey.public_master" env) k
    else [(hd_child k, true)]
  else [].
Definition hpmm_results ptbl fw (mpt pmt : list (list (string * bool) * list string)) (env : args) (k : kobj)
  : list (kobj * bool) := flat_map (hpmm_one ptbl fw pmt env k) mpt.

Definition hd_public_master (a : args) (k : kobj) : list (kobj * bool) :=
  hpm_results hdkey_public_master_paths (call_env entry_params "HDKey.public_master" a) k.
Definition hd_public_master_multisig (a : args) (k : kobj) : list (kobj * bool) :=
  hpmm_results entry_params call_forwards hdkey_public_master_multisig_paths hdkey_public_master_paths
               (call_env entry_params "HDKey.public_master_multisig" a) k.

(* ---- HDKey.wif(is_private, ...) and HDKey.wif_public(prefix, witness_type, multisig): what the string is made of *)
Definition hd_wif_env_exprs (k : kobj) (env : args) : list (string * expr) :=
  match env_guard env "is_private" with
  | TF => [("xkey", EFrom xpub_srcs)]
  | TT | TU => [("xkey", hd_wif_expr k true)]
  end.
Definition wif_public_exprs ptbl fw (wpt : list (list (string * bool) * list string)) (a : args) (k : kobj)
  : list (string * expr) :=
  flat_map (fun p =>
    if strs_eqb (snd p) wif_public_body then
      hd_wif_env_exprs k (forward_env ptbl fw "HDKey.wif_public" "self.wif" "HDKey.wif" (call_env ptbl "HDKey.wif_public" a))
    else [("xkey", hd_wif_expr k true)]) wpt.

(* ---- histories whose operations carry arguments *)
Inductive xop :=
| XOp (o : op)
| XPm (a : args)            (* HDKey.public_master(args): the focus moves to the returned key *)
| XPmm (a : args)           (* HDKey.public_master_multisig(args) *)
| XWifPublic (a : args)     (* HDKey.wif_public(args) *)
| XHdWif (a : args).        (* HDKey.wif(args) *)
(* every public-master path has a hardened level: only an HD key that holds its secret can be asked (the call raises
   otherwise, before anything is returned) *)
Definition hd_can_derive (k : kobj) : bool := khd k && kpriv k && truthy (kf k "secret").
Definition first_result (l : list (kobj * bool)) (k : kobj) : kobj * bool :=
  match l with r :: _ => r | [] => (k, false) end.
Definition xstep (o : xop) (k : kobj) : kobj * bool :=
  match o with
  | XOp o => step o k
  | XPm a => if hd_can_derive k then first_result (hd_public_master a k) k else (k, false)
  | XPmm a => if hd_can_derive k then first_result (hd_public_master_multisig a k) k else (k, false)
  | XWifPublic _ | XHdWif _ => (k, khd k)
  end.
Fixpoint xrun (h : list xop) (k : kobj) : kobj :=
  match h with [] => k | o :: r => xrun r (fst (xstep o k)) end.
Definition xexports (o : xop) (k : kobj) : list (string * fval) :=
  match o with
  | XOp o => exports o k
  | XPm _ | XPmm _ => []
  | XWifPublic a =>
      if khd k then map (fun le => (fst le, eval (snd le) k))
                        (wif_public_exprs entry_params call_forwards hdkey_wif_public_paths a k) else []
  | XHdWif a =>
      if khd k then map (fun le => (fst le, eval (snd le) k)) (hd_wif_env_exprs k (call_env entry_params "HDKey.wif" a)) else []
  end.
(* operations that present their result as public, for a call that does not ask for private output *)
Definition xview (o : xop) : bool :=
  match o with
  | XOp OPublic | XOp OPublicMaster => true
  | XPm a | XPmm a => no_private_request a
  | _ => false
  end.

(* ---- Wallet.public_master(account_id, name, as_private, witness_type, network) with arguments: the account /
        network / witness type select WHICH account-level key is the source (every one of them is derived from the
        main key the same way); as_private decides, through its truth value, whether it is stripped *)
Definition wallet_public_master_args (w : wallet) (a : args) : list kobj :=
  match env_guard (call_env entry_params "Wallet.public_master" a) "as_private" with
  | TF => wallet_public_master w false
  | TT => wallet_public_master w true
  | TU => (wallet_public_master w false ++ wallet_public_master w true)%list
  end.
