(* Model/VerifyInput.v — the decision logic of Input.verify / Transaction.verify
   (bitcoinlib/transactions.py), for an ARBITRARY signature relation [sv].
   Definitions only.  [lib_*] mirrors the code as it is (after fixes C02-1, C02-2).

   Input.verify(transaction_hash):
       if script_type == 'coinbase': valid = True; return True
       valid = False                                                   # fix C02-1
       if not signatures: return False
       sig_n = key_n = sigs_verified = 0
       while sigs_verified < sigs_required:
           if key_n >= len(keys): return False
           if sig_n >= len(signatures): return False
           key = keys[key_n]; sig = signatures[sig_n]
           if verify(hash, sig, key):      sigs_verified += 1; sig_n += 1
           key_n += 1
       valid = True; return True

   Before fix C02-2 the loop had a second branch
           elif sig_n > 0:
               prev_sig = deepcopy(signatures[sig_n - 1])              # "try previous signature"
               if verify(hash, prev_sig, key): sigs_verified += 1
   which counted one signature for several keys; [unfixed_verify_loop] keeps that reading so that the recorded
   witness stays checkable.

   In the model the loop state is: the keys not yet visited, the signatures from position sig_n on, and the
   number of verifications still needed. *)
From Coq Require Import List Bool Arith.
Import ListNotations.

Section Verify.
  Context {sigT keyT : Type}.
  Variable sv : sigT -> keyT -> bool.      (* "signature s is valid for key k over this input's digest" *)

  Fixpoint lib_verify_loop (keys : list keyT) (sigs : list sigT) (need : nat) : bool :=
    match need with
    | O => true
    | S need' =>
      match keys with
      | [] => false
      | k :: ks =>
        match sigs with
        | [] => false
        | s :: ss => if sv s k then lib_verify_loop ks ss need' else lib_verify_loop ks sigs need
        end
      end
    end.

  Definition lib_verify_input (coinbase : bool) (keys : list keyT) (sigs : list sigT) (m : nat) : bool :=
    if coinbase then true
    else match sigs with
         | [] => false
         | _ => lib_verify_loop keys sigs m
         end.

  (* the loop as it was before fix C02-2 ([prev] = the signature at sig_n - 1 when sig_n > 0) *)
  Fixpoint unfixed_verify_loop (keys : list keyT) (prev : option sigT) (sigs : list sigT) (need : nat) : bool :=
    match need with
    | O => true
    | S need' =>
      match keys with
      | [] => false
      | k :: ks =>
        match sigs with
        | [] => false
        | s :: ss =>
          if sv s k then unfixed_verify_loop ks (Some s) ss need'
          else match prev with
               | Some p => if sv p k then unfixed_verify_loop ks prev sigs need'
                           else unfixed_verify_loop ks prev sigs need
               | None => unfixed_verify_loop ks prev sigs need
               end
        end
      end
    end.

  (* --- vocabulary of the theorem statements --- *)

  (* [subseq a b]: a is obtained from b by deleting elements (distinct positions, order kept). *)
  Inductive subseq {A : Type} : list A -> list A -> Prop :=
  | subseq_nil : forall l, subseq [] l
  | subseq_skip : forall x a l, subseq a l -> subseq a (x :: l)
  | subseq_take : forall x a l, subseq a l -> subseq (x :: a) (x :: l).

  (* key k has some valid signature among sigs *)
  Definition key_signed (sigs : list sigT) (k : keyT) : bool := existsb (fun s => sv s k) sigs.
  (* signature s is valid for some listed key *)
  Definition sig_useful (keys : list keyT) (s : sigT) : bool := existsb (fun k => sv s k) keys.

  (* an order-preserving matching of signatures to distinct key positions, every pair valid:
     exactly what OP_CHECKMULTISIG accepts *)
  Definition matching (pairs : list (sigT * keyT)) (keys : list keyT) (sigs : list sigT) : Prop :=
    subseq (map snd pairs) keys /\ subseq (map fst pairs) sigs /\
    Forall (fun p => sv (fst p) (snd p) = true) pairs.

  (* the signature list consists of valid signatures of a set of key positions, listed in key order *)
  Inductive signed_in_order : list keyT -> list sigT -> Prop :=
  | sio_nil : forall ks, signed_in_order ks []
  | sio_skip : forall k ks ss, signed_in_order ks ss -> signed_in_order (k :: ks) ss
  | sio_take : forall k ks s ss, sv s k = true -> signed_in_order ks ss -> signed_in_order (k :: ks) (s :: ss).

  (* no signature is valid for two listed keys *)
  Definition sig_unique (keys : list keyT) (sigs : list sigT) : Prop :=
    forall s k1 k2, In s sigs -> In k1 keys -> In k2 keys -> sv s k1 = true -> sv s k2 = true -> k1 = k2.
End Verify.

(* --- Transaction.verify: every input in order, stop at the first failure ---
       for inp in inputs:
           try: h = signature_hash(inp.index_n, inp.hash_type, inp.witness_type)
           except TransactionError: return False
           if not h: return False
           if not inp.verify(h): return False
       return True                                   (a transaction without inputs verifies) *)
Section TxVerify.
  Context {sigT keyT : Type}.
  Record vinput := { vi_coinbase : bool; vi_hash_ok : bool; vi_keys : list keyT; vi_sigs : list sigT; vi_m : nat }.
  Variable svi : nat -> sigT -> keyT -> bool.   (* the relation of the input at position i (its own digest) *)

  Fixpoint lib_tx_verify_from (i : nat) (ins : list vinput) : bool :=
    match ins with
    | [] => true
    | x :: r =>
      if negb (vi_hash_ok x) then false
      else if lib_verify_input (svi i) (vi_coinbase x) (vi_keys x) (vi_sigs x) (vi_m x)
           then lib_tx_verify_from (S i) r else false
    end.
  Definition lib_tx_verify (ins : list vinput) : bool := lib_tx_verify_from 0 ins.
End TxVerify.
