(* Model/Base58.v — Base58 / Base58Check text encodings (C11).  Definitions only.
   lib_*  mirrors bitcoinlib/encoding.py (base58encode, change_base(s, 58, 256, min_length),
          addr_base58_to_pubkeyhash, pubkeyhash_to_addr_base58) and the base58 branch of
          bitcoinlib/keys.py deserialize_address, as repaired by fixes/C11-1..3;
          the two booleans [fold] and [canon] select the behaviour before the repair
          (fold = lower-casing retry of change_base, canon = canonical-form check of the address paths).
   spec_* is written from the Base58Check description (Bitcoin wiki / Core base58.cpp):
          strict alphabet, one leading '1' per leading zero byte, shortest big-endian body.
   The hash is a parameter [H : bytes -> bytes] (instantiated with sha256d for extraction). *)
From Coq Require Import ZArith List Bool.
From Coq Require String.
From Coq.Strings Require Import Byte.
From Verif Require Import Lib.Bytes Gen.GenConsts Gen.GenNetworks.
Import ListNotations.
Open Scope Z_scope.

(* ---------- alphabet ---------- *)
Fixpoint find_idx (c : byte) (l : list byte) : option nat :=
  match l with
  | [] => None
  | x :: r => if beq c x then Some O
              else match find_idx c r with Some i => Some (S i) | None => None end
  end.

Definition b58_char (d : Z) : byte := nth (Z.to_nat d) alphabet_base58 x00.
Definition b58_pos (c : byte) : option Z :=
  match find_idx c alphabet_base58 with Some i => Some (Z.of_nat i) | None => None end.
Definition b58_one : byte := x31.                       (* the literal '1' of base58encode *)

(* ---------- positional digits, least significant first ---------- *)
Fixpoint digits_le (base : Z) (fuel : nat) (n : Z) : list Z :=
  match fuel with
  | O => []
  | S f => if n <=? 0 then [] else n mod base :: digits_le base f (n / base)
  end.
Fixpoint value_le (base : Z) (ds : list Z) : Z :=
  match ds with
  | [] => 0
  | d :: r => d + base * value_le base r
  end.
(* enough fuel for every base >= 2 *)
Definition digit_fuel (n : Z) : nat := S (Z.to_nat (Z.log2 n)).
Definition digits_be (base n : Z) : list Z := rev (digits_le base (digit_fuel n) n).

(* ---------- leading-element accounting ---------- *)
Fixpoint lead_count {A} (p : A -> bool) (l : list A) : nat :=
  match l with
  | x :: r => if p x then S (lead_count p r) else O
  | [] => O
  end.
Definition is_zero_byte (b : byte) : bool := beq b x00.

(* ---------- base58encode ---------- *)
Definition b58_enc (bs : bytes) : bytes :=
  let z := lead_count is_zero_byte bs in
  let acc := of_be (skipn z bs) in
  repeat b58_one z ++ map b58_char (digits_be 58 acc).

(* ---------- strict decoder (specification) ---------- *)
Fixpoint b58_indices (s : bytes) : option (list Z) :=
  match s with
  | [] => Some []
  | c :: r => match b58_pos c, b58_indices r with
              | Some p, Some ps => Some (p :: ps)
              | _, _ => None
              end
  end.
Definition min_be (n : Z) : bytes := be_bytes (byte_len n) n.
Definition spec_b58_dec (s : bytes) : option bytes :=
  match b58_indices s with
  | None => None
  | Some ds =>
      let z := lead_count (fun d => d =? 0) ds in
      Some (repeat x00 z ++ min_be (value_le 58 (rev ds)))
  end.

(* ---------- change_base(s, 58, 256, min_length) ---------- *)
Definition lower_byte (b : byte) : byte :=
  if (65 <=? bz b) && (bz b <=? 90) then zb (bz b + 32) else b.
(* code_str_from.index(item), on ValueError retried with item.lower() when [fold] *)
Definition lib_char_pos (fold : bool) (c : byte) : option Z :=
  match b58_pos c with
  | Some p => Some p
  | None => if fold then b58_pos (lower_byte c) else None
  end.
Definition b58_firstchar : byte := nth 0 alphabet_base58 x00.     (* chr(code_str_from[0]) *)
(* one pass over the string: value (Horner), addzeros = characters of position 0 all of whose
   predecessors are the first alphabet character.  [allfirst] = "inp.strip(firstchar) is empty"
   for the characters seen so far. *)
Fixpoint lib_scan (fold : bool) (s : bytes) (allfirst : bool) (acc : Z) (zeros : nat) : option (Z * nat) :=
  match s with
  | [] => Some (acc, zeros)
  | c :: r =>
      match lib_char_pos fold c with
      | None => None
      | Some p =>
          lib_scan fold r (allfirst && beq c b58_firstchar) (acc * 58 + p)
                   (if (p =? 0) && allfirst then S zeros else zeros)
      end
  end.
(* result None = an exception (EncodingError for an unknown character; AttributeError when the output
   is empty, which only happens for the empty string with min_length 0).
   The float test "expected_length == len(output)" that can suppress a leading zero byte is never true
   for a non-empty input of practical length (checked against the running interpreter in the
   correspondence: no n in 1..300000 makes n / math.log(256, 58) an integer); it is not modelled. *)
Definition lib_b58_dec (fold : bool) (s : bytes) (minlen : nat) : option bytes :=
  match lib_scan fold s true 0 O with
  | None => None
  | Some (n, z) =>
      let out := repeat x00 z ++ min_be n in
      let out := repeat x00 (minlen - length out) ++ out in
      match out with [] => None | _ => Some out end
  end.

(* ---------- Base58Check ---------- *)
Section WithHash.
Variable H : bytes -> bytes.       (* double SHA-256 in the implementation *)

Definition b58check_enc (payload : bytes) : bytes := b58_enc (payload ++ firstn 4 (H payload)).

(* pubkeyhash_to_addr_base58(pubkeyhash, prefix) *)
Definition lib_addr_b58_enc (prefix pkh : bytes) : bytes := b58check_enc (prefix ++ pkh).

Inductive addr_res := AOk (pkh : bytes) | AErr | AAssert.   (* EncodingError / AssertionError *)

(* addr_base58_to_pubkeyhash *)
Definition lib_addr_b58_gen (fold canon : bool) (s : bytes) : addr_res :=
  match lib_b58_dec fold s 25 with
  | None => AErr
  | Some a =>
      if negb (Nat.eqb (length a) 25) then AErr
      else if canon && negb (bytes_eqb (b58_enc a) s) then AErr
      else
        let check := skipn 21 a in
        let pkh := firstn 21 a in
        if bytes_eqb check (firstn 4 (H pkh)) then AOk (skipn 1 pkh) else AAssert
  end.
Definition lib_addr_b58 := lib_addr_b58_gen false true.

(* ---------- deserialize_address, base58 branch ---------- *)
Definition upper_byte (b : byte) : byte :=
  if (97 <=? bz b) && (bz b <=? 122) then zb (bz b - 32) else b.

(* sorted(nws, key=priority, reverse=True): stable, descending *)
Fixpoint insert_prio (x : network) (l : list network) : list network :=
  match l with
  | [] => [x]
  | y :: r => if nw_priority y <=? nw_priority x then x :: l else y :: insert_prio x r
  end.
Definition sort_prio (l : list network) : list network := fold_right insert_prio [] l.
(* network_by_value(field, value): exact match, and when nothing matches a retry with value.upper().
   For the address version columns the value is a hex string, whose case does not matter once parsed
   (retry_upper = false); for prefix_bech32 it is the text of the human-readable part. *)
Definition networks_by (retry_upper : bool) (field : network -> bytes) (v : bytes) : list network :=
  match filter (fun n => bytes_eqb (field n) v) all_networks with
  | [] => if retry_upper
          then sort_prio (filter (fun n => bytes_eqb (field n) (map upper_byte v)) all_networks)
          else []
  | l => sort_prio l
  end.

Inductive script_kind := SkNone | SkP2pkh | SkP2sh | SkP2wpkh | SkP2wsh | SkP2tr.
Inductive wit_kind := WkNone | WkLegacy | WkSegwit | WkTaproot.

Record addr_info := {
  ai_bech32 : bool;                 (* 'encoding': false = base58, true = bech32 *)
  ai_pkh : bytes;                   (* public_key_hash_bytes *)
  ai_prefix : bytes;                (* version byte(s) / human-readable part as written *)
  ai_network : option String.string;       (* 'network' (None or '' when no network matches) *)
  ai_script : script_kind;
  ai_witness : wit_kind;
  ai_networks : list String.string;
  ai_witver : option Z;
  ai_raw : bytes
}.

Inductive b58_branch := BrOk (i : addr_info) | BrChecksum | BrFallthrough.

(* lines 257-301 of keys.py; enc_b58 = (encoding == 'base58').
   BrChecksum = BKeyError "checksum incorrect"; BrFallthrough = control reaches the bech32 branch *)
Definition lib_deser_b58_gen (fold canon : bool) (enc_b58 : bool) (s : bytes) : b58_branch :=
  match lib_b58_dec fold s 25 with
  | None => BrFallthrough
  | Some a =>
      let n := length a in
      let check := skipn (n - 4) a in
      let key_hash := firstn (n - 4) a in
      let ok := bytes_eqb check (firstn 4 (H key_hash)) in
      if negb ok && enc_b58 then BrChecksum
      else if ok && (negb canon || (Nat.eqb n 25 && bytes_eqb (b58_enc a) s)) then
        let pfx := firstn 1 key_hash in
        let n_p2pkh := networks_by false nw_prefix_address pfx in
        let n_p2sh := networks_by false nw_prefix_address_p2sh pfx in
        let '(sk, wk, nws) :=
          match n_p2pkh, n_p2sh with
          | _ :: _, [] => (SkP2pkh, WkLegacy, n_p2pkh)
          | _, _ :: _ => (SkP2sh, WkNone, n_p2sh)
          | _, _ => (SkNone, WkNone, [])
          end in
        BrOk {| ai_bech32 := false; ai_pkh := skipn 1 key_hash; ai_prefix := pfx;
                ai_network := match nws with x :: _ => Some (nw_name x) | [] => None end;
                ai_script := sk; ai_witness := wk; ai_networks := map nw_name nws;
                ai_witver := None; ai_raw := a |}
      else BrFallthrough
  end.
Definition lib_deser_b58 := lib_deser_b58_gen false true.

End WithHash.
