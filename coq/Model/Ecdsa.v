(* Model/Ecdsa.v — ECDSA as bitcoinlib/keys.py drives it (C13): Signature.create / sign, Signature.parse_bytes,
   Signature.__init__ range checks, Signature.verify / verify.  The curve arithmetic, textbook ECDSA and the
   RFC 6979 generator come from Crypto/Secp256k1.v; the DER codec from Model/Der.v.  Definitions only.
   lib_*  mirrors the code (fastecdsa's C signer/verifier is part of the implementation, the model never calls it);
   spec_* is textbook ECDSA (SEC 1 4.1.3/4.1.4) + BIP62/146 low-S + BIP66 strict DER. *)
From Coq Require Import ZArith List Bool.
From Coq.Strings Require Import Byte.
From Verif Require Import Lib.Bytes Crypto.Sha256 Crypto.Hmac Crypto.Secp256k1 Model.Wire Model.Der.
Import ListNotations.
Open Scope Z_scope.

(* ---------------------------------------------------------------- digest handling *)

(* bytes.hex(): lower-case ASCII *)
Definition hex_digit (v : Z) : byte := zb (if v <? 10 then 48 + v else 87 + v).
Definition hex_ascii (b : bytes) : bytes :=
  flat_map (fun x => [hex_digit (bz x / 16); hex_digit (bz x mod 16)]) b.

(* Signature.create: txid as hex; more than 64 hex characters (32 bytes) -> double_sha256 *)
Definition lib_digest (msg : bytes) : bytes :=
  if (32 <? length msg)%nat then sha256d msg else msg.

(* _ecdsa.sign / _ecdsa.verify read the hex digest as an integer and keep its leftmost 256 bits *)
Definition lib_z (dg : bytes) : Z := bits2int dg.

(* nonce source when no k is given: fastecdsa RFC6979(txid, secret, n, sha256).gen_nonce() with
   prehashed=False and msg = the HEX TEXT of the digest, so h1 = SHA256(ascii hex of the digest) *)
Definition lib_nonce (d : Z) (dg : bytes) : Z := rfc6979_nonce d (sha256 (hex_ascii dg)).

(* the same when the caller hands the digest over as UPPER-CASE hex text: the text, not the digest, is hashed *)
Definition hex_digit_upper (v : Z) : byte := zb (if v <? 10 then 48 + v else 55 + v).
Definition hex_ascii_upper (b : bytes) : bytes :=
  flat_map (fun x => [hex_digit_upper (bz x / 16); hex_digit_upper (bz x mod 16)]) b.
Definition lib_nonce_upper (d : Z) (dg : bytes) : Z := rfc6979_nonce d (sha256 (hex_ascii_upper dg)).

(* ---------------------------------------------------------------- signing *)

(* the low-S step as the source had it:  if int(s) > secp256k1_n / 2  — a FLOAT division; the binary64
   nearest to n/2 is 2^255 exactly (n/2 = 2^255 - 2^127.4…, the spacing of doubles there is 2^203), and
   Python compares int with float exactly, so the test is  s > 2^255 *)
Definition lib_low_s_float (s : Z) : Z := if 2 ^ 255 <? s then secp_n - s else s.

(* after fix C13-1 (integer division  secp256k1_n // 2) *)
Definition lib_low_s (s : Z) : Z := if secp_n / 2 <? s then secp_n - s else s.

Definition lib_pick_nonce (d : Z) (dg : bytes) (k : option Z) : Z :=
  match k with
  | Some k0 => if k0 =? 0 then lib_nonce d dg else k0      (* "if not k" *)
  | None => lib_nonce d dg
  end.

(* Signature.create -> (r, s, as_der_encoded()).  None = any exception (BKeyError of Key() for a secret outside
   [1, n-1] — C04 fix 39fdc6f —, BKeyError for r = 0 / s = 0 in Signature.__init__, OverflowError for a hash
   type outside one byte) *)
Definition lib_sign_with (low : Z -> Z) (d : Z) (msg : bytes) (k : option Z) (ht : Z) : option (Z * Z * bytes) :=
  let dg := lib_digest msg in
  if (1 <=? d) && (d <? secp_n) then
    match ecdsa_sign d (lib_z dg) (lib_pick_nonce d dg k) with
    | None => None
    | Some (r, s0) =>
        let s := low s0 in
        if (0 <=? ht) && (ht <? 256) then Some (r, s, der_enc r s ++ [zb ht]) else None
    end
  else None.

Definition lib_sign := lib_sign_with lib_low_s.

(* sign(TXID_IN_UPPER_CASE_HEX, key): everything as lib_sign, but the nonce is derived from the upper-case text
   (finding hex_case_changes_nonce; only digests of at most 32 bytes reach the nonce as the caller's text) *)
Definition lib_sign_upper (d : Z) (msg : bytes) (ht : Z) : option (Z * Z * bytes) :=
  if (32 <? length msg)%nat then lib_sign d msg None ht
  else lib_sign d msg (Some (lib_nonce_upper d msg)) ht.
Definition lib_sign_prefix := lib_sign_with lib_low_s_float.      (* the tree before fix C13-1 *)

(* textbook: sign, then take the smaller of s and n - s *)
Definition spec_normalise (rs : option (Z * Z)) : option (Z * Z) :=
  match rs with
  | Some (r, s) => Some (r, ecdsa_low_s s)
  | None => None
  end.

Definition spec_sign (d z k : Z) : option (Z * Z) := spec_normalise (ecdsa_sign d z k).

(* a signature value together with its serialisation: strict DER followed by the hash-type byte *)
Definition with_der (ht : Z) (rs : option (Z * Z)) : option (Z * Z * bytes) :=
  match rs with
  | Some (r, s) => Some (r, s, der_enc r s ++ [zb ht])
  | None => None
  end.

(* ---------------------------------------------------------------- verification *)

Definition in_range (v : Z) : bool := (1 <=? v) && (v <? secp_n).

(* fastecdsa curve.is_point_on_curve: the congruence only, no range check on the coordinates *)
Definition lib_on_curve (Q : Z * Z) : bool :=
  let (x, y) := Q in (y * y - (x * x * x + secp_b)) mod secp_p =? 0.

Definition reduce_pt (Q : Z * Z) : point := let (x, y) := Q in Some (x mod secp_p, y mod secp_p).

(* verify(txid, signature_bytes, public_key): parse_bytes -> Signature.__init__ (range checks, public key on
   curve) -> Signature.verify (empty txid refused) -> _ecdsa.verify.  None = exception. *)
Definition lib_verify (dg : bytes) (sig : bytes) (Q : Z * Z) : option bool :=
  match lib_parse sig with
  | None => None
  | Some (r, s, _) =>
      if in_range r && in_range s && lib_on_curve Q && negb (length dg =? 0)%nat
      then Some (ecdsa_verify (lib_z dg) r s (reduce_pt Q))
      else None
  end.

(* a public key as standard ECDSA understands it: a finite curve point with coordinates in [0, p) *)
Definition spec_pub_ok (Q : Z * Z) : bool := on_curve (Some Q).

(* standard verification of an encoded signature: strict decoding, ranges, valid public key, SEC 1 4.1.4 *)
Definition spec_verify (z : Z) (sig : bytes) (Q : Z * Z) : option bool :=
  match spec_parse sig with
  | None => None
  | Some (r, s, _) =>
      if in_range r && in_range s && spec_pub_ok Q then Some (ecdsa_verify z r s (Some Q)) else None
  end.

(* ---------------------------------------------------------------- the public key as bytes: Key(bytes) with the
   default strict=True (C04 fix 75f674d) for SEC-shaped input — 33 bytes 02/03 or 65 bytes 04; every other shape
   is refused here (hybrid 06/07: "Unrecognised key format"; other spellings are C04/C12's domain and are not
   generated).  Compressed: y2 = (pow(x, 3, p) + 7) % p, y0 = mod_sqrt(y2); refused when x >= p or y0^2 != y2;
   public_point() then returns y0 or p - y0 by parity.  Uncompressed: refused when x >= p, y >= p or y^2 != y2. *)
Definition lib_pub_point (b : bytes) : option (Z * Z) :=
  match b with
  | pfx :: rest =>
      if ((bz pfx =? 2) || (bz pfx =? 3)) && (length rest =? 32)%nat then
        let x := of_be rest in
        let y2 := (x * x * x + secp_b) mod secp_p in
        let y0 := mod_sqrt y2 in
        if (secp_p <=? x) || negb ((y0 * y0) mod secp_p =? y2) then None
        else Some (x, if Bool.eqb (Z.odd y0) (bz pfx =? 3) then y0 else secp_p - y0)
      else if (bz pfx =? 4) && (length rest =? 64)%nat then
        let x := of_be (firstn 32 rest) in
        let y := of_be (skipn 32 rest) in
        let y2 := (x * x * x + secp_b) mod secp_p in
        if (secp_p <=? x) || (secp_p <=? y) || negb ((y * y) mod secp_p =? y2) then None
        else Some (x, y)
      else None
  | [] => None
  end.

(* the tolerant reading Key(bytes, strict=False) keeps (the code before C04 fix 75f674d): no range check, no
   residue check *)
Definition lib_pub_point_lax (b : bytes) : option (Z * Z) :=
  match b with
  | pfx :: rest =>
      if ((bz pfx =? 2) || (bz pfx =? 3)) && (length rest =? 32)%nat then
        let x := of_be rest in
        let y0 := mod_sqrt (powmod x 3 secp_p + 7) in
        Some (x, if Bool.eqb (Z.odd y0) (bz pfx =? 3) then y0 else secp_p - y0)
      else if (bz pfx =? 4) && (length rest =? 64)%nat then
        Some (of_be (firstn 32 rest), of_be (skipn 32 rest))
      else None
  | [] => None
  end.

(* verify(txid, signature_bytes, public_key_bytes) — the public entry point with a key given in SEC form *)
Definition lib_verify_key (dg sig pk : bytes) : option bool :=
  match lib_pub_point pk with
  | Some Q => lib_verify dg sig Q
  | None => None
  end.

(* standard ECDSA on the same three byte strings: SEC 1 2.3.4 for the key, then spec_verify *)
Definition spec_verify_key (z : Z) (sig pk : bytes) : option bool :=
  match parse_point pk with
  | Some Q => spec_verify z sig Q
  | None => None
  end.

(* guard of the point-level statement lib_verify_exact: coordinates reduced modulo p.  Points with unreduced
   coordinates reach Signature.verify only through Key(..., strict=False) since C04 fix 75f674d *)
Definition coords_reduced (Q : Z * Z) : bool :=
  let (x, y) := Q in (0 <=? x) && (x <? secp_p) && (0 <=? y) && (y <? secp_p).
