(* Model/Ecdsa.v — ECDSA as bitcoinlib/keys.py drives it (C13): Signature.create / sign, Signature.parse_bytes,
   Signature.__init__ range checks, Signature.verify / verify.  The curve arithmetic, textbook ECDSA and the
   RFC 6979 generator come from Crypto/Secp256k1.v; the DER codec from Model/Der.v.  Definitions only.
   lib_*  mirrors the code (fastecdsa's C signer/verifier is part of the implementation, the model never calls it);
   spec_* is textbook ECDSA (SEC 1 4.1.3/4.1.4) + BIP62/146 low-S + BIP66 strict DER. *)
From Coq Require Import ZArith List Bool.
From Coq.Strings Require Import Byte.
From Verif Require Import Lib.Bytes Crypto.Sha256 Crypto.Hmac Crypto.Secp256k1 Model.Wire Model.Der.
Import ListNotations.
Open Scope Z_scope.

(* ---------------------------------------------------------------- digest handling *)

(* bytes.hex(): lower-case ASCII *)
Definition hex_digit (v : Z) : byte := zb (if v <? 10 then 48 + v else 87 + v).
Definition hex_ascii (b : bytes) : bytes :=
  flat_map (fun x => [hex_digit (bz x / 16); hex_digit (bz x mod 16)]) b.

(* Signature.create: txid as hex; more than 64 hex characters (32 bytes) -> double_sha256 *)
Definition lib_digest (msg : bytes) : bytes :=
  if (32 <? length msg)%nat then sha256d msg else msg.

(* _ecdsa.sign / _ecdsa.verify read the hex digest as an integer and keep its leftmost 256 bits *)
Definition lib_z (dg : bytes) : Z := bits2int dg.

(* nonce source when no k is given: fastecdsa RFC6979(txid, secret, n, sha256).gen_nonce() with
   prehashed=False and msg = the HEX TEXT of the digest, so h1 = SHA256(ascii hex of the digest) *)
Definition lib_nonce (d : Z) (dg : bytes) : Z := rfc6979_nonce d (sha256 (hex_ascii dg)).

(* the same when the caller hands the digest over as UPPER-CASE hex text: the text, not the digest, is hashed *)
Definition hex_digit_upper (v : Z) : byte := zb (if v <? 10 then 48 + v else 55 + v).
Definition hex_ascii_upper (b : bytes) : bytes :=
  flat_map (fun x => [hex_digit_upper (bz x / 16); hex_digit_upper (bz x mod 16)]) b.
Definition lib_nonce_upper (d : Z) (dg : bytes) : Z := rfc6979_nonce d (sha256 (hex_ascii_upper dg)).

(* ---------------------------------------------------------------- signing *)

(* the low-S step as the source had it:  if int(s) > secp256k1_n / 2  — a FLOAT division; the binary64
   nearest to n/2 is 2^255 exactly (n/2 = 2^255 - 2^127.4…, the spacing of doubles there is 2^203), and
   Python compares int with float exactly, so the test is  s > 2^255 *)
Definition lib_low_s_float (s : Z) : Z := if 2 ^ 255 <? s then secp_n - s else s.

(* after fix C13-1 (integer division  secp256k1_n // 2) *)
Definition lib_low_s (s : Z) : Z := if secp_n / 2 <? s then secp_n - s else s.

Definition lib_pick_nonce (d : Z) (dg : bytes) (k : option Z) : Z :=
  match k with
  | Some k0 => if k0 =? 0 then lib_nonce d dg else k0      (* "if not k" *)
  | None => lib_nonce d dg
  end.

(* Signature.create -> (r, s, as_der_encoded()).  None = any exception (BKeyError of Key() for a secret outside
   [1, n-1] — C04 fix 39fdc6f —, BKeyError for r = 0 / s = 0 in Signature.__init__, OverflowError for a hash
   type outside one byte) *)
Definition lib_sign_with (low : Z -> Z) (d : Z) (msg : bytes) (k : option Z) (ht : Z) : option (Z * Z * bytes) :=
  let dg := lib_digest msg in
  if (1 <=? d) && (d <? secp_n) then
    match ecdsa_sign d (lib_z dg) (lib_pick_nonce d dg k) with
    | None => None
    | Some (r, s0) =>
        let s := low s0 in
        if (0 <=? ht) && (ht <? 256) then Some (r, s, der_enc r s ++ [zb ht]) else None
    end
  else None.

Definition lib_sign := lib_sign_with lib_low_s.

(* sign(TXID_IN_UPPER_CASE_HEX, key): everything as lib_sign, but the nonce is derived from the upper-case text
   (finding hex_case_changes_nonce; only digests of at most 32 bytes reach the nonce as the caller's text) *)
Definition lib_sign_upper (d : Z) (msg : bytes) (ht : Z) : option (Z * Z * bytes) :=
  if (32 <? length msg)%nat then lib_sign d msg None ht
  else lib_sign d msg (Some (lib_nonce_upper d msg)) ht.
Definition lib_sign_prefix := lib_sign_with lib_low_s_float.      (* the tree before fix C13-1 *)

(* textbook: sign, then take the smaller of s and n - s *)
Definition spec_normalise (rs : option (Z * Z)) : option (Z * Z) :=
  match rs with
  | Some (r, s) => Some (r, ecdsa_low_s s)
  | None => None
  end.

Definition spec_sign (d z k : Z) : option (Z * Z) := spec_normalise (ecdsa_sign d z k).

(* a signature value together with its serialisation: strict DER followed by the hash-type byte *)
Definition with_der (ht : Z) (rs : option (Z * Z)) : option (Z * Z * bytes) :=
  match rs with
  | Some (r, s) => Some (r, s, der_enc r s ++ [zb ht])
  | None => None
  end.

(* ---------------------------------------------------------------- verification *)

Definition in_range (v : Z) : bool := (1 <=? v) && (v <? secp_n).

(* fastecdsa curve.is_point_on_curve: the congruence only, no range check on the coordinates *)
Definition lib_on_curve (Q : Z * Z) : bool :=
  let (x, y) := Q in (y * y - (x * x * x + secp_b)) mod secp_p =? 0.

Definition reduce_pt (Q : Z * Z) : point := let (x, y) := Q in Some (x mod secp_p, y mod secp_p).

(* verify(txid, signature_bytes, public_key): parse_bytes -> Signature.__init__ (range checks, public key on
   curve) -> Signature.verify (empty txid refused) -> _ecdsa.verify.  None = exception. *)
Definition lib_verify (dg : bytes) (sig : bytes) (Q : Z * Z) : option bool :=
  match lib_parse sig with
  | None => None
  | Some (r, s, _) =>
      if in_range r && in_range s && lib_on_curve Q && negb (length dg =? 0)%nat
      then Some (ecdsa_verify (lib_z dg) r s (reduce_pt Q))
      else None
  end.

(* a public key as standard ECDSA understands it: a finite curve point with coordinates in [0, p) *)
Definition spec_pub_ok (Q : Z * Z) : bool := on_curve (Some Q).

(* standard verification of an encoded signature: strict decoding, ranges, valid public key, SEC 1 4.1.4 *)
Definition spec_verify (z : Z) (sig : bytes) (Q : Z * Z) : option bool :=
  match spec_parse sig with
  | None => None
  | Some (r, s, _) =>
      if in_range r && in_range s && spec_pub_ok Q then Some (ecdsa_verify z r s (Some Q)) else None
  end.

(* ---------------------------------------------------------------- the public key as bytes: Key(bytes) with the
   default strict=True (C04 fix 75f674d) for SEC-shaped input — 33 bytes 02/03 or 65 bytes 04; every other shape
   is refused here (hybrid 06/07: "Unrecognised key format"; other spellings are C04/C12's domain and are not
   generated).  Compressed: y2 = (pow(x, 3, p) + 7) % p, y0 = mod_sqrt(y2); refused when x >= p or y0^2 != y2;
   public_point() then returns y0 or p - y0 by parity.  Uncompressed: refused when x >= p, y >= p or y^2 != y2. *)
Definition lib_pub_point (b : bytes) : option (Z * Z) :=
  match b with
  | pfx :: rest =>
      if ((bz pfx =? 2) || (bz pfx =? 3)) && (length rest =? 32)%nat then
        let x := of_be rest in
        let y2 := (x * x * x + secp_b) mod secp_p in
        let y0 := mod_sqrt y2 in
        if (secp_p <=? x) || negb ((y0 * y0) mod secp_p =? y2) then None
        else Some (x, if Bool.eqb (Z.odd y0) (bz pfx =? 3) then y0 else secp_p - y0)
      else if (bz pfx =? 4) && (length rest =? 64)%nat then
        let x := of_be (firstn 32 rest) in
        let y := of_be (skipn 32 rest) in
        let y2 := (x * x * x + secp_b) mod secp_p in
        if (secp_p <=? x) || (secp_p <=? y) || negb ((y * y) mod secp_p =? y2) then None
        else Some (x, y)
      else None
  | [] => None
  end.

(* the tolerant reading Key(bytes, strict=False) keeps (the code before C04 fix 75f674d): no range check, no
   residue check *)
Definition lib_pub_point_lax (b : bytes) : option (Z * Z) :=
  match b with
  | pfx :: rest =>
      if ((bz pfx =? 2) || (bz pfx =? 3)) && (length rest =? 32)%nat then
        let x := of_be rest in
        let y0 := mod_sqrt (powmod x 3 secp_p + 7) in
        Some (x, if Bool.eqb (Z.odd y0) (bz pfx =? 3) then y0 else secp_p - y0)
      else if (bz pfx =? 4) && (length rest =? 64)%nat then
        Some (of_be (firstn 32 rest), of_be (skipn 32 rest))
      else None
  | [] => None
  end.

(* verify(txid, signature_bytes, public_key_bytes) — the public entry point with a key given in SEC form *)
Definition lib_verify_key (dg sig pk : bytes) : option bool :=
  match lib_pub_point pk with
  | Some Q => lib_verify dg sig Q
  | None => None
  end.

(* standard ECDSA on the same three byte strings: SEC 1 2.3.4 for the key, then spec_verify *)
Definition spec_verify_key (z : Z) (sig pk : bytes) : option bool :=
  match parse_point pk with
  | Some Q => spec_verify z sig Q
  | None => None
  end.

(* guard of the point-level statement lib_verify_exact: coordinates reduced modulo p.  Points with unreduced
   coordinates reach Signature.verify only through Key(..., strict=False) since C04 fix 75f674d *)
Definition coords_reduced (Q : Z * Z) : bool :=
  let (x, y) := Q in (0 <=? x) && (x <? secp_p) && (0 <=? y) && (y <? secp_p).

(* ================================================================ sessions: many calls in ONE process / on ONE object
   The property speaks of sign and verify as FUNCTIONS of their arguments.  The code is a long-lived Python process
   with module-level names and Signature / Key objects that are reused between calls; a function-level model says
   nothing about what such a process does on the second call.  Here the process is modelled as it is: a fold over
   the list of calls that carries the state the code really keeps — none for signing, the attributes _txid, x, y,
   _public_key of the Signature object for verifying — and Proofs/EcdsaSession.v proves that the fold is the map of
   the stateless functions above.  The correspondence runs whole sessions (requests signseq / vseq). *)

(* a process: [call] answers one request and hands the state on *)
Fixpoint run_session {St Rq An : Type} (call : St -> Rq -> St * An) (st : St) (reqs : list Rq) : list An :=
  match reqs with
  | [] => []
  | q :: rest => let (st', a) := call st q in a :: run_session call st' rest
  end.

(* ---------------------------------------------------------------- signing sessions *)

Record sign_req : Type := mk_sign_req { sq_d : Z; sq_msg : bytes; sq_k : option Z; sq_ht : Z }.

Definition lib_sign_req (q : sign_req) : option (Z * Z * bytes) := lib_sign (sq_d q) (sq_msg q) (sq_k q) (sq_ht q).

(* what Signature.create keeps between two calls: nothing (no module-level cache, no counter, nothing written to the
   Key object); rfc6979_warning_given is only touched without fastecdsa *)
Definition sign_state : Type := unit.
Definition lib_sign_call (st : sign_state) (q : sign_req) : sign_state * option (Z * Z * bytes) := (st, lib_sign_req q).
Definition lib_sign_session (reqs : list sign_req) : list (option (Z * Z * bytes)) := run_session lib_sign_call tt reqs.

(* ---------------------------------------------------------------- verifying on a Signature object *)

(* Signature.verify on an object holding (r, s): what lib_verify does after parsing *)
Definition lib_verify_rs (dg : bytes) (r s : Z) (Q : Z * Z) : option bool :=
  if in_range r && in_range s && lib_on_curve Q && negb (length dg =? 0)%nat
  then Some (ecdsa_verify (lib_z dg) r s (reduce_pt Q))
  else None.

(* the ways a caller hands over the public key *)
Inductive key_arg : Type :=
  | KObj (pk : bytes)      (* a Key / HDKey object the caller built from SEC bytes: Key(pk), HDKey(pk) *)
  | KBytes (pk : bytes)    (* the SEC bytes themselves: the public_key setter builds HDKey(pk) *)
  | KPriv (d : Z)          (* a private Key / HDKey object: the setter takes its public() *)
  | KText (pk : bytes)     (* the SEC bytes as hex text (either case): the setter builds HDKey(text), which reads
                              the text as it reads the bytes (fix C13-3; before it the setter had no branch for
                              str and raised AttributeError: lib_key_arg_prefix) *)
  | KPoint (Q : Z * Z).    (* an (x, y) tuple: not an accepted type — AttributeError *)

Definition lib_key_arg (a : key_arg) : option (Z * Z) :=
  match a with
  | KObj pk => lib_pub_point pk
  | KBytes pk => lib_pub_point pk
  | KPriv d => if in_range d then secp_pub d else None
  | KText pk => lib_pub_point pk
  | KPoint _ => None
  end.

(* the tree before fix C13-3: a key given as text is refused (finding text_key_rejected, fixed) *)
Definition lib_key_arg_prefix (a : key_arg) : option (Z * Z) :=
  match a with
  | KText _ => None
  | _ => lib_key_arg a
  end.

(* the caller builds the object before the call: when that fails, the library is not called at all *)
Definition built_by_caller (a : key_arg) : bool :=
  match a with KObj _ => true | KPriv _ => true | _ => false end.

(* the stateless function of the three arguments (signature value, digest, key): THE function the property names *)
Definition lib_verify_step (r s : Z) (dg : bytes) (a : key_arg) : option bool :=
  match lib_key_arg a with
  | Some Q => lib_verify_rs dg r s Q
  | None => None
  end.

Definition lib_verify_step_prefix (r s : Z) (dg : bytes) (a : key_arg) : option bool :=      (* before fix C13-3 *)
  match lib_key_arg_prefix a with
  | Some Q => lib_verify_rs dg r s Q
  | None => None
  end.

(* the same with the signature given in encoded form: keys.verify(txid, signature_bytes, key) *)
Definition lib_verify_arg (dg sig : bytes) (a : key_arg) : option bool :=
  match lib_key_arg a with
  | Some Q => lib_verify dg sig Q
  | None => None
  end.

(* the attributes of a Signature object that Signature.verify reads and writes *)
Record sig_obj : Type := mk_sig_obj {
  so_r : Z; so_s : Z;
  so_txid : option bytes;          (* _txid: None, or the digest last handed over ('' is kept as '') *)
  so_xy : option (Z * Z);          (* x, y: written by the public_key setter BEFORE its curve check *)
  so_haskey : bool }.              (* _public_key is not None: written after the curve check *)

Definition obj_with_txid (o : sig_obj) (dg : option bytes) : sig_obj :=
  match dg with
  | Some d => mk_sig_obj (so_r o) (so_s o) (Some d) (so_xy o) (so_haskey o)
  | None => o
  end.

(* Signature.public_key = value: (object afterwards, False = an exception was raised) *)
Definition obj_set_key (o : sig_obj) (a : key_arg) : sig_obj * bool :=
  match lib_key_arg a with
  | None => (o, false)                                              (* HDKey(bytes) raised / AttributeError *)
  | Some Q =>
      if lib_on_curve Q then (mk_sig_obj (so_r o) (so_s o) (so_txid o) (Some Q) true, true)
      else (mk_sig_obj (so_r o) (so_s o) (so_txid o) (Some Q) (so_haskey o), false)
  end.

(* the tail of Signature.verify: "if not self.txid or not self.public_key: raise", then _ecdsa.verify on the
   stored attributes *)
Definition obj_verdict (o : sig_obj) : option bool :=
  match so_txid o, so_xy o with
  | Some dg, Some Q => if so_haskey o then lib_verify_rs dg (so_r o) (so_s o) Q else None
  | _, _ => None
  end.

(* one call  obj.verify(txid, public_key)  /  keys.verify(txid, obj, public_key); None = the argument is omitted *)
Definition verify_step : Type := (option bytes * option key_arg)%type.

Definition obj_verify (o : sig_obj) (st : verify_step) : sig_obj * option bool :=
  let (dg, ka) := st in
  match ka with
  | Some a =>
      if built_by_caller a && (match lib_key_arg a with None => true | Some _ => false end) then (o, None)
      else
        let (o2, ok) := obj_set_key (obj_with_txid o dg) a in
        (o2, if ok then obj_verdict o2 else None)
  | None => let o1 := obj_with_txid o dg in (o1, obj_verdict o1)
  end.

(* where Signature objects come from *)
Inductive sig_src : Type :=
  | SrcSign (q : sign_req)                                            (* keys.sign / Signature.create *)
  | SrcBytes (sig : bytes) (key : option key_arg)                    (* Signature.parse / parse_bytes / parse_hex *)
  | SrcValues (r s : Z) (dg : option bytes) (key : option key_arg).  (* Signature(r, s, txid=, public_key=) *)

Definition new_obj (r s : Z) (dg : option bytes) (key : option key_arg) : option sig_obj :=
  if in_range r && in_range s then
    let o := mk_sig_obj r s dg None false in
    match key with
    | None => Some o
    | Some a => let (o2, ok) := obj_set_key o a in if ok then Some o2 else None
    end
  else None.

Definition lib_new_obj (src : sig_src) : option sig_obj :=
  match src with
  | SrcSign q =>
      match lib_sign_req q with
      | Some (r, s, _) => Some (mk_sig_obj r s (Some (lib_digest (sq_msg q))) (secp_pub (sq_d q)) true)
      | None => None
      end
  | SrcBytes sig key =>
      match lib_parse sig with
      | Some (r, s, _) => new_obj r s None key
      | None => None
      end
  | SrcValues r s dg key => new_obj r s dg key
  end.

(* a verification session: build ONE object, then call verify on it again and again; None = no object *)
Definition lib_verify_session (src : sig_src) (steps : list verify_step) : option (list (option bool)) :=
  match lib_new_obj src with
  | Some o => Some (run_session obj_verify o steps)
  | None => None
  end.

(* a step with both arguments present *)
Definition explicit_step (st : verify_step) : bool :=
  match st with (Some _, Some _) => true | _ => false end.

(* the stateless reading of an explicit step (an omitted argument has no stateless reading: refused) *)
Definition stateless_step (r s : Z) (st : verify_step) : option bool :=
  match st with
  | (Some dg, Some a) => lib_verify_step r s dg a
  | _ => None
  end.

(* ================================================================ argument forms: bytes or text
   Every digest / signature / key argument of sign, verify, Signature.create / parse / parse_hex / Signature(...) /
   Signature.verify and of the txid / public_key setters is documented "bytes, str (hexstring)".  The property speaks
   of the VALUE: the meaning of a bytes argument is its bytes, the meaning of a str argument is the bytes its
   base-16 text (either case, two digits per byte, nothing else) decodes to.  The library's helpers to_bytes /
   to_hexstring GUESS the form from the content (bytes that happen to read as hex text are un-hexlified by to_bytes;
   text that does not read as hex is taken as UTF-8 by to_hexstring), so every such argument is a place where a
   value can be re-interpreted.  Here the code paths are modelled on the argument AS GIVEN (a [parg]);
   Proofs/EcdsaForms.v proves that for every argument that has a meaning the answer is the stateless function of
   the meaning (verify_argument_form_irrelevant, sign_argument_form_irrelevant), and exhibits what happens outside. *)

Inductive parg : Type :=
  | PBytes (b : bytes)       (* a Python bytes object *)
  | PText (s : bytes).       (* a Python str; s = its characters (ASCII) *)

Definition hex_val (c : byte) : option Z :=
  let v := bz c in
  if (48 <=? v) && (v <=? 57) then Some (v - 48)
  else if (97 <=? v) && (v <=? 102) then Some (v - 87)
  else if (65 <=? v) && (v <=? 70) then Some (v - 55)
  else None.

(* ASCII whitespace as bytes.fromhex (Python >= 3.7) and C isspace() skip it: space, \t \n \v \f \r *)
Definition is_ws (c : byte) : bool := let v := bz c in ((9 <=? v) && (v <=? 13)) || (v =? 32).

(* base-16 text: two digits per byte, either case, nothing else *)
Fixpoint unhex (s : bytes) : option bytes :=
  match s with
  | [] => Some []
  | a :: s1 =>
      match s1 with
      | b :: rest =>
          match hex_val a, hex_val b, unhex rest with
          | Some h, Some l, Some t => Some (zb (16 * h + l) :: t)
          | _, _, _ => None
          end
      | [] => None
      end
  end.

(* THE meaning of an argument *)
Definition arg_meaning (a : parg) : option bytes :=
  match a with
  | PBytes b => Some b
  | PText s => unhex s
  end.

(* bytes.fromhex: whitespace between the pairs is skipped, the two digits of a pair are adjacent; None = ValueError *)
Fixpoint py_fromhex (s : bytes) : option bytes :=
  match s with
  | [] => Some []
  | a :: s1 =>
      if is_ws a then py_fromhex s1
      else
        match s1 with
        | b :: rest =>
            match hex_val a, hex_val b, py_fromhex rest with
            | Some h, Some l, Some t => Some (zb (16 * h + l) :: t)
            | _, _, _ => None
            end
        | [] => None
        end
  end.

(* encoding.to_hexstring: '' for anything false; a str that bytes.fromhex accepts is returned AS IT IS (case and
   whitespace kept); any other str is taken as UTF-8 text and hexlified; bytes are hexlified (bytes.fromhex(bytes)
   raises TypeError, which is caught) *)
Definition lib_to_hexstring (a : parg) : bytes :=
  match a with
  | PBytes b => hex_ascii b
  | PText s =>
      match s with
      | [] => []
      | _ => match py_fromhex s with Some _ => s | None => hex_ascii s end
      end
  end.

(* the txid setter of Signature (also what Signature.create does first): bytes -> .hex(), str kept as it is *)
Definition lib_txid_set (a : parg) : bytes :=
  match a with
  | PBytes b => hex_ascii b
  | PText s => s
  end.

(* how fastecdsa's C code (_ecdsa.sign / _ecdsa.verify) reads the digest text: mpz_init_set_str(e, text, 16) — GMP
   ignores white space anywhere in the string and leaves 0 when any other character is not a base-16 digit — then,
   when strlen(text) * 4 exceeds the 256 bits of n, e is shifted right by the excess: strlen counts the white space *)
Definition is_hexdigit (c : byte) : bool := match hex_val c with Some _ => true | None => false end.
Definition clean_text (t : bytes) : bool := forallb (fun c => is_ws c || is_hexdigit c) t.
Definition hex_int (t : bytes) : Z :=
  fold_left (fun acc c => match hex_val c with Some v => 16 * acc + v | None => acc end) t 0.
Definition c_digest (t : bytes) : Z :=
  if clean_text t then
    let n := 4 * Z.of_nat (length t) in
    if 256 <? n then Z.shiftr (hex_int t) (n - 256) else hex_int t
  else 0.

(* the digest text an object holds, as digest BYTES the rest of the model understands: Signature.verify looks at the
   text twice — "if not self.txid" and the integer the C code reads from it — and c_digest t < 2^256 *)
Definition eff_digest (t : bytes) : bytes :=
  match t with
  | [] => []
  | _ => be_bytes 32 (c_digest t)
  end.

(* the digest argument of verify(txid, ..) / Signature.verify(txid, ..): through to_hexstring *)
Definition dg_via_verify (a : parg) : bytes := eff_digest (lib_to_hexstring a).
(* the digest argument of Signature(r, s, txid=..) / obj.txid = ..: through the setter only *)
Definition dg_via_set (a : parg) : bytes := eff_digest (lib_txid_set a).

(* the signature argument of verify / Signature.parse: bytes -> parse_bytes; str -> parse_hex = bytes.fromhex *)
Definition sig_of_form (a : parg) : option bytes :=
  match a with
  | PBytes b => Some b
  | PText s => py_fromhex s
  end.

(* the public-key argument: bytes -> HDKey(bytes), str -> HDKey(str).  HDKey reads base-16 text of a SEC key in
   either case and refuses the other texts this model speaks about (white space inside, odd length, other
   characters; WIF / extended-key texts are C04/C12's domain and are not generated) *)
Definition key_of_form (a : parg) : key_arg :=
  match a with
  | PBytes b => KBytes b
  | PText s => match unhex s with Some b => KText b | None => KPoint (0, 0) end
  end.

(* keys.verify(txid, signature, public_key) with all three arguments as given *)
Definition lib_verify_forms (dg sg key : parg) : option bool :=
  match sig_of_form sg with
  | Some sig => lib_verify_arg (dg_via_verify dg) sig (key_of_form key)
  | None => None
  end.

(* Signature.verify(txid, public_key) on an object holding (r, s) *)
Definition lib_verify_step_forms (r s : Z) (dg key : parg) : option bool :=
  lib_verify_step r s (dg_via_verify dg) (key_of_form key).

(* ---------------------------------------------------------------- signing with the digest as given
   Signature.create: txid.hex() for bytes; more than 64 CHARACTERS -> double_sha256(bytes.fromhex(txid)) as hex;
   the RFC 6979 generator hashes the TEXT; the C signer reads the text as c_digest does *)
Definition lib_create_text (a : parg) : option bytes :=
  let t := lib_txid_set a in
  if (64 <? length t)%nat then
    match py_fromhex t with
    | Some m => Some (hex_ascii (sha256d m))
    | None => None
    end
  else Some t.

Definition lib_sign_forms (d : Z) (a : parg) (k : option Z) (ht : Z) : option (Z * Z * bytes) :=
  match lib_create_text a with
  | None => None
  | Some t =>
      if (1 <=? d) && (d <? secp_n) then
        match ecdsa_sign d (c_digest t)
                (match k with
                 | Some k0 => if k0 =? 0 then rfc6979_nonce d (sha256 t) else k0
                 | None => rfc6979_nonce d (sha256 t)
                 end) with
        | None => None
        | Some (r, s0) =>
            let s := lib_low_s s0 in
            if (0 <=? ht) && (ht <? 256) then Some (r, s, der_enc r s ++ [zb ht]) else None
        end
      else None
  end.

(* no upper-case letter: the text bytes.hex() would have produced for the same value *)
Definition lower_text (a : parg) : bool :=
  match a with
  | PBytes _ => true
  | PText s => forallb (fun c => negb ((65 <=? bz c) && (bz c <=? 70))) s
  end.

(* ---------------------------------------------------------------- sessions with the arguments as given *)
Inductive fkey : Type :=
  | FK (k : key_arg)         (* an object the caller built (Key, HDKey, tuple) *)
  | FP (a : parg).           (* bytes or text handed to the library *)

Definition key_of_fkey (k : fkey) : key_arg := match k with FK a => a | FP a => key_of_form a end.

(* one call on the object: (by attribute assignment?, digest, key).  false: obj.verify(txid, public_key) /
   keys.verify(txid, obj, public_key); true: obj.txid = ..; obj.public_key = ..; obj.verify() *)
Definition form_step : Type := (bool * option parg * option fkey)%type.

Definition step_of_form (st : form_step) : verify_step :=
  match st with
  | (by_attr, dg, key) =>
      (option_map (if by_attr : bool then dg_via_set else dg_via_verify) dg, option_map key_of_fkey key)
  end.

Inductive form_src : Type :=
  | FSign (d : Z) (a : parg) (k : option Z) (ht : Z)                         (* keys.sign / Signature.create *)
  | FBytes (sg : parg) (key : option fkey)                                   (* Signature.parse / parse_bytes / parse_hex *)
  | FValues (r s : Z) (dg : option parg) (key : option fkey).                (* Signature(r, s, txid=, public_key=) *)

Definition lib_new_obj_forms (src : form_src) : option sig_obj :=
  match src with
  | FSign d a k ht =>
      match lib_create_text a, lib_sign_forms d a k ht with
      | Some t, Some (r, s, _) => Some (mk_sig_obj r s (Some (eff_digest t)) (secp_pub d) true)
      | _, _ => None
      end
  | FBytes sg key =>
      match sig_of_form sg with
      | Some b => lib_new_obj (SrcBytes b (option_map key_of_fkey key))
      | None => None
      end
  | FValues r s dg key => lib_new_obj (SrcValues r s (option_map dg_via_set dg) (option_map key_of_fkey key))
  end.

Definition lib_verify_session_forms (src : form_src) (steps : list form_step) : option (list (option bool)) :=
  match lib_new_obj_forms src with
  | Some o => Some (run_session obj_verify o (map step_of_form steps))
  | None => None
  end.

(* the same session on the meanings: None when some argument has no meaning *)
Definition fkey_meaning (k : fkey) : option key_arg :=
  match k with
  | FK a => Some a
  | FP (PBytes b) => Some (KBytes b)
  | FP (PText s) => match unhex s with Some b => Some (KText b) | None => None end
  end.

Definition opt_meaning {A B : Type} (f : A -> option B) (x : option A) : option (option B) :=
  match x with
  | None => Some None
  | Some a => match f a with Some b => Some (Some b) | None => None end
  end.

Definition step_meaning (st : form_step) : option verify_step :=
  match st with
  | (_, dg, key) =>
      match opt_meaning arg_meaning dg, opt_meaning fkey_meaning key with
      | Some d, Some k => Some (d, k)
      | _, _ => None
      end
  end.

(* keys.verify with the key possibly an object the caller built *)
Definition lib_verify_fkey (dg sg : parg) (key : fkey) : option bool :=
  match sig_of_form sg with
  | Some sig => lib_verify_arg (dg_via_verify dg) sig (key_of_fkey key)
  | None => None
  end.

(* signing sessions with the digests as given: one process, no state *)
Record sign_req_f : Type := mk_sign_req_f { sf_d : Z; sf_dg : parg; sf_k : option Z; sf_ht : Z }.
Definition lib_sign_req_f (q : sign_req_f) : option (Z * Z * bytes) := lib_sign_forms (sf_d q) (sf_dg q) (sf_k q) (sf_ht q).
Definition lib_sign_call_f (st : sign_state) (q : sign_req_f) : sign_state * option (Z * Z * bytes) := (st, lib_sign_req_f q).
Definition lib_sign_session_forms (reqs : list sign_req_f) : list (option (Z * Z * bytes)) :=
  run_session lib_sign_call_f tt reqs.

(* Signature.parse_bytes / parse_hex / parse with the argument as given: parse_bytes wants bytes, parse_hex wants a
   str (the other type raises TypeError), parse takes both *)
Inductive parse_how : Type := HowBytes | HowHex | HowAny.
Definition lib_parse_forms (how : parse_how) (a : parg) : option (Z * Z * Z) :=
  match how, a with
  | HowBytes, PBytes b => lib_parse b
  | HowBytes, PText _ => None
  | HowHex, PBytes _ => None
  | HowHex, PText s => match py_fromhex s with Some b => lib_parse b | None => None end
  | HowAny, _ => match sig_of_form a with Some b => lib_parse b | None => None end
  end.
