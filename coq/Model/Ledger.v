(* Model/Ledger.v — C08: the wallet ledger as a state machine (definitions only).

   Mirrors bitcoinlib/wallets.py: Wallet._balance_update (which cache entries it touches), balance(), utxos(),
   utxos_update / utxo_add, WalletTransaction.store / send / delete, Wallet.__init__ (reload).
   Persisted component: keys (DbKey rows with their cached balance) and transactions (DbTransaction rows with
   their DbTransactionInput / DbTransactionOutput rows).  In-memory component: Wallet._balances.
   Identifiers (key ids, txids, network ids, account ids) are integers; raw transactions are byte lists.

   What comes from the environment is part of the operation: the provider's answer to getutxos, the inputs a
   created transaction selected, the transaction data (id, inputs, outputs, raw) produced by signing. *)
From Coq Require Import ZArith List Bool.
From Coq.Strings Require Import Byte.
From Verif Require Import Lib.Bytes.
Import ListNotations.
Open Scope Z_scope.

(* (network id, account id): the key of Wallet._balances entries *)
Definition grp := (Z * Z)%type.
Definition grp_eqb (a b : grp) : bool := (fst a =? fst b) && (snd a =? snd b).

Record key := mkKey { k_id : Z; k_grp : grp; k_depth : Z; k_bal : Z }.
Record outp := mkOut { o_n : Z; o_value : Z; o_key : option Z; o_spent : bool }.
Record inp := mkIn { i_idx : Z; i_prev : Z; i_n : Z; i_value : Z; i_key : option Z }.
Record tx := mkTx { t_txid : Z; t_grp : grp; t_conf : Z; t_sent : bool;
                    t_ins : list inp; t_outs : list outp; t_raw : list byte }.

Record ledger := mkL { l_keys : list key; l_txs : list tx;      (* persisted *)
                       l_cache : list (grp * Z);                (* Wallet._balances *)
                       l_default : grp;                         (* wallet network, default account *)
                       l_bip32 : bool }.                        (* scheme == 'bip32' *)

Definition init (d : grp) (bip32 : bool) : ledger := mkL [] [] [] d bip32.

(* ---------------------------------------------------------------- small helpers *)
Definition zsum (l : list Z) : Z := fold_right Z.add 0 l.

Definition opt_eqb (a : option Z) (b : Z) : bool := match a with Some x => x =? b | None => false end.
Definition is_some {A} (a : option A) : bool := match a with Some _ => true | None => false end.

Definition has_key (ks : list key) (id : Z) : bool := existsb (fun k => k_id k =? id) ks.

(* filter arguments of _balance_update(account_id, network, key_id) *)
Record bfilter := mkF { f_acct : option Z; f_nw : option Z; f_key : option Z }.
Definition f_all : bfilter := mkF None None None.
Definition opt_match (f : option Z) (v : Z) : bool := match f with None => true | Some x => x =? v end.
Definition grp_match (f : bfilter) (g : grp) : bool := opt_match (f_nw f) (fst g) && opt_match (f_acct f) (snd g).

(* the rows of the query in _balance_update: unspent outputs with a key, of transactions passing the filter *)
Definition out_counts (f : bfilter) (o : outp) : bool :=
  negb (o_spent o) && match f_key f with None => is_some (o_key o) | Some k => opt_eqb (o_key o) k end.

Definition tx_rows (f : bfilter) (t : tx) : list outp :=
  if grp_match f (t_grp t) && (0 <=? t_conf t) then filter (out_counts f) (t_outs t) else [].

(* sum per key id *)
Definition key_sum (f : bfilter) (txs : list tx) (k : Z) : Z :=
  zsum (map (fun t => zsum (map o_value (filter (fun o => opt_eqb (o_key o) k) (tx_rows f t)))) txs).
Definition key_has_rows (f : bfilter) (txs : list tx) (k : Z) : bool :=
  existsb (fun t => existsb (fun o => opt_eqb (o_key o) k) (tx_rows f t)) txs.

(* sum per (network, account) *)
Definition grp_sum (f : bfilter) (txs : list tx) (g : grp) : Z :=
  zsum (map (fun t => if grp_eqb (t_grp t) g then zsum (map o_value (tx_rows f t)) else 0) txs).
Definition grp_has_rows (f : bfilter) (txs : list tx) (g : grp) : bool :=
  existsb (fun t => grp_eqb (t_grp t) g && negb (match tx_rows f t with [] => true | _ => false end)) txs.

(* the (network, account) groups that occur in the query result, without repetition *)
Fixpoint dedup (l : list grp) : list grp :=
  match l with
  | [] => []
  | g :: r => if existsb (grp_eqb g) r then dedup r else g :: dedup r
  end.
Definition groups_present (f : bfilter) (txs : list tx) : list grp :=
  dedup (map t_grp (filter (fun t => negb (match tx_rows f t with [] => true | _ => false end)) txs)).

(* ---------------------------------------------------------------- Wallet._balances *)
Fixpoint cache_lookup (c : list (grp * Z)) (g : grp) : option Z :=
  match c with
  | [] => None
  | (g', v) :: r => if grp_eqb g' g then Some v else cache_lookup r g
  end.

(* "for bl in balance_list: update the first matching entry, else append" *)
Fixpoint cache_set (c : list (grp * Z)) (g : grp) (v : Z) : list (grp * Z) :=
  match c with
  | [] => [(g, v)]
  | (g', v') :: r => if grp_eqb g' g then (g', v) :: r else (g', v') :: cache_set r g v
  end.

Definition cache_merge (c : list (grp * Z)) (bl : list (grp * Z)) : list (grp * Z) :=
  fold_left (fun c e => cache_set c (fst e) (snd e)) bl c.

(* the repair (fixes/C08-1): entries selected by the filter are reset before the merge *)
Definition cache_reset (f : bfilter) (c : list (grp * Z)) : list (grp * Z) :=
  map (fun e => if grp_match f (fst e) then (fst e, 0) else e) c.

(* Wallet.keys(account_id, network, key_id): which keys get a zero when they have no row *)
Definition key_listed (bip32 : bool) (f : bfilter) (k : key) : bool :=
  opt_match (f_nw f) (fst (k_grp k)) && opt_match (f_acct f) (snd (k_grp k)) &&
  (if is_some (f_acct f) && bip32 then 3 <=? k_depth k else true) &&
  opt_match (f_key f) (k_id k).

Definition key_update (bip32 : bool) (f : bfilter) (txs : list tx) (k : key) : key :=
  if key_has_rows f txs (k_id k) then mkKey (k_id k) (k_grp k) (k_depth k) (key_sum f txs (k_id k))
  else if key_listed bip32 f k then mkKey (k_id k) (k_grp k) (k_depth k) 0
  else k.

(* Wallet._balance_update.  [repaired = false] is the code before fixes/C08-1 (no reset). *)
Definition balance_update (repaired : bool) (f : bfilter) (s : ledger) : ledger :=
  let bl := map (fun g => (g, grp_sum f (l_txs s) g)) (groups_present f (l_txs s)) in
  let c0 := if repaired then cache_reset f (l_cache s) else l_cache s in
  let c := if is_some (f_key f) then l_cache s else cache_merge c0 bl in
  mkL (map (key_update (l_bip32 s) f (l_txs s)) (l_keys s)) (l_txs s) c (l_default s) (l_bip32 s).

(* ---------------------------------------------------------------- utxos() *)
Record utxo := mkU { u_txid : Z; u_n : Z; u_value : Z; u_key : Z; u_conf : Z }.

Definition tx_utxos (ks : list key) (g : grp) (minconf : Z) (t : tx) : list utxo :=
  if grp_eqb (t_grp t) g && (minconf <=? t_conf t) then
    flat_map (fun o => match o_key o with
                       | Some k => if negb (o_spent o) && has_key ks k
                                   then [mkU (t_txid t) (o_n o) (o_value o) k (t_conf t)] else []
                       | None => [] end) (t_outs t)
  else [].

Definition utxos (s : ledger) (g : grp) (minconf : Z) : list utxo :=
  flat_map (tx_utxos (l_keys s) g minconf) (l_txs s).

Definition usum (s : ledger) (g : grp) : Z := zsum (map u_value (utxos s g 0)).
Definition ksum (s : ledger) (g : grp) : Z :=
  zsum (map k_bal (filter (fun k => grp_eqb (k_grp k) g) (l_keys s))).
Definition reported (s : ledger) (g : grp) : Z :=
  match cache_lookup (l_cache s) g with Some v => v | None => 0 end.

(* ---------------------------------------------------------------- utxos_update / utxo_add *)
Record putxo := mkP { p_key : Z; p_txid : Z; p_n : Z; p_value : Z; p_conf : Z }.

Definition spent_in_db (txs : list tx) (txid n : Z) : bool :=
  existsb (fun t => existsb (fun i => (i_prev i =? txid) && (i_n i =? n)) (t_ins t)) txs.

Definition has_out (t : tx) (n : Z) : bool := existsb (fun o => o_n o =? n) (t_outs t).
Definition has_tx (txs : list tx) (txid : Z) : bool := existsb (fun t => t_txid t =? txid) txs.
Definition out_in_db (txs : list tx) (txid n : Z) : bool :=
  existsb (fun t => (t_txid t =? txid) && has_out t n) txs.

Definition set_tx (t : tx) (conf : Z) (outs : list outp) : tx :=
  mkTx (t_txid t) (t_grp t) conf (t_sent t) (t_ins t) outs (t_raw t).

(* one element of the provider's list *)
Definition apply_putxo (g : grp) (txs : list tx) (u : putxo) : list tx :=
  let sp := spent_in_db txs (p_txid u) (p_n u) in
  if out_in_db txs (p_txid u) (p_n u) then
    map (fun t => if t_txid t =? p_txid u then
                    if has_out t (p_n u) then
                      set_tx t (p_conf u)
                        (map (fun o => if o_n o =? p_n u then mkOut (o_n o) (o_value o) (Some (p_key u)) sp else o)
                             (t_outs t))
                    else t
                  else t) txs
  else if has_tx txs (p_txid u) then
    map (fun t => if t_txid t =? p_txid u
                  then set_tx t (t_conf t) (t_outs t ++ [mkOut (p_n u) (p_value u) (Some (p_key u)) sp])
                  else t) txs
  else txs ++ [mkTx (p_txid u) g (p_conf u) false [] [mkOut (p_n u) (p_value u) (Some (p_key u)) sp] []].

(* "Remove current UTXO's": every unspent output of the (network, account) is marked spent *)
Definition rescan_mark (g : grp) (txs : list tx) : list tx :=
  map (fun t => if grp_eqb (t_grp t) g
                then set_tx t (t_conf t) (map (fun o => mkOut (o_n o) (o_value o) (o_key o) true) (t_outs t))
                else t) txs.

Definition with_txs (s : ledger) (txs : list tx) : ledger :=
  mkL (l_keys s) txs (l_cache s) (l_default s) (l_bip32 s).

Definition utxos_update (repaired : bool) (rescan : bool) (g : grp) (kf : option Z) (us : list putxo)
           (s : ledger) : ledger :=
  let txs0 := if rescan && negb (is_some kf) then rescan_mark g (l_txs s) else l_txs s in
  let txs1 := fold_left (apply_putxo g) us txs0 in
  balance_update repaired (mkF (Some (snd g)) (Some (fst g)) kf) (with_txs s txs1).

(* ---------------------------------------------------------------- WalletTransaction.store / send *)
Record txdata := mkD { d_txid : Z; d_grp : grp; d_conf : Z; d_ins : list inp;
                       d_outs : list (outp * bool);     (* (row, whether Output.spent is not None) *)
                       d_raw : list byte }.

Definition has_in (ins : list inp) (idx : Z) : bool := existsb (fun i => i_idx i =? idx) ins.

Definition store_in (ins : list inp) (ti : inp) : list inp :=
  if has_in ins (i_idx ti) then
    match i_key ti with
    | Some k => map (fun i => if i_idx i =? i_idx ti
                              then mkIn (i_idx i) (i_prev ti) (i_n i)
                                        (if i_value ti =? 0 then i_value i else i_value ti) (Some k)
                              else i) ins
    | None => ins
    end
  else ins ++ [ti].

Definition store_out (outs : list outp) (to : outp * bool) : list outp :=
  let o := fst to in
  if existsb (fun x => o_n x =? o_n o) outs then
    match o_key o with
    | Some k => map (fun x => if o_n x =? o_n o
                              then mkOut (o_n x) (o_value x) (Some k) (if snd to then o_spent o else o_spent x)
                              else x) outs
    | None => outs
    end
  else outs ++ [mkOut (o_n o) (o_value o) (o_key o) (if snd to then o_spent o else false)].

Definition store_tx (sent : bool) (d : txdata) (txs : list tx) : list tx :=
  if has_tx txs (d_txid d) then
    map (fun t => if t_txid t =? d_txid d then
                    mkTx (t_txid t) (t_grp t) (if d_conf d =? 0 then t_conf t else d_conf d)
                         (t_sent t || sent)
                         (fold_left store_in (d_ins d) (t_ins t))
                         (fold_left store_out (d_outs d) (t_outs t))
                         (match d_raw d with [] => t_raw t | _ => d_raw d end)
                  else t) txs
  else txs ++ [mkTx (d_txid d) (d_grp d) (d_conf d) sent
                    (fold_left store_in (d_ins d) []) (fold_left store_out (d_outs d) []) (d_raw d)].

(* send(): every unspent output (prev_txid, output_n) of an input is marked spent *)
Definition consumed (ins : list inp) (txid n : Z) : bool :=
  existsb (fun i => (i_prev i =? txid) && (i_n i =? n)) ins.

Definition mark_spent (ins : list inp) (txs : list tx) : list tx :=
  map (fun t => set_tx t (t_conf t)
                 (map (fun o => if consumed ins (t_txid t) (o_n o)
                                then mkOut (o_n o) (o_value o) (o_key o) true else o) (t_outs t))) txs.

Definition store_send (repaired : bool) (sent : bool) (d : txdata) (s : ledger) : ledger :=
  let txs1 := store_tx sent d (l_txs s) in
  if sent then
    balance_update repaired (mkF None (Some (fst (d_grp d))) None) (with_txs s (mark_spent (d_ins d) txs1))
  else with_txs s txs1.

(* ---------------------------------------------------------------- WalletTransaction.delete *)
Definition find_tx (txs : list tx) (txid : Z) : option tx := find (fun t => t_txid t =? txid) txs.

(* [strict = false]: the code as it is — the "spent in another transaction?" test looks at the transaction being
   deleted, so it always succeeds.  [strict = true]: the test looks at the other transactions (fixes/C08-2). *)
Definition unmark (strict : bool) (ins : list inp) (txs : list tx) : list tx :=
  map (fun t => set_tx t (t_conf t)
                 (map (fun o => if o_spent o && consumed ins (t_txid t) (o_n o)
                                     && negb (strict && spent_in_db txs (t_txid t) (o_n o))
                                then mkOut (o_n o) (o_value o) (o_key o) false else o) (t_outs t))) txs.

Definition delete_tx (strict : bool) (txid : Z) (s : ledger) : ledger :=
  match find_tx (l_txs s) txid with
  | None => s
  | Some d =>
      let rest := filter (fun t => negb (t_txid t =? txid)) (l_txs s) in
      with_txs s (unmark strict (t_ins d) rest)
  end.

(* ---------------------------------------------------------------- input selection check *)
Definition spendable (s : ledger) (g : grp) (minconf : Z) (txid n : Z) : bool :=
  existsb (fun u => (u_txid u =? txid) && (u_n u =? n)) (utxos s g minconf).

(* ---------------------------------------------------------------- operations *)
Inductive op :=
| NewKey (id : Z) (g : grp) (depth : Z)
| UtxosUpdate (rescan : bool) (g : grp) (kf : option Z) (us : list putxo)
| Select (g : grp) (minconf : Z) (sel : list (Z * Z))
| Store (sent : bool) (d : txdata)
| Delete (txid : Z)
| Reopen
| Balance
| Utxos
| BalanceOf (fa fn : option Z)            (* balance(account_id=fa, network=fn) *)
| UtxosOf (g : grp) (minconf : Z).        (* utxos(account_id, network, min_confirms) *)

Inductive out :=
| ONone
| OBal (b : Z)
| OUtxos (l : list utxo)
| OSel (ok : bool).

(* the entry balance(account_id, network) reads after its update: an argument left empty is the wallet's default
   (an account left empty together with a non-default network is resolved from the key table by the library and
   is not modelled: the histories always name the account then) *)
Definition lookup_grp (s : ledger) (fa fn : option Z) : grp :=
  (match fn with Some n => n | None => fst (l_default s) end,
   match fa with Some a => a | None => snd (l_default s) end).

(* The two switches select the variant of the code: (repaired _balance_update, strict delete). *)
Definition step_gen (repaired strict : bool) (s : ledger) (o : op) : ledger * out :=
  match o with
  | NewKey id g depth =>
      (mkL (l_keys s ++ [mkKey id g depth 0]) (l_txs s) (l_cache s) (l_default s) (l_bip32 s), ONone)
  | UtxosUpdate rescan g kf us => (utxos_update repaired rescan g kf us s, ONone)
  | Select g minconf sel =>
      (s, OSel (forallb (fun p => spendable s g minconf (fst p) (snd p)) sel))
  | Store sent d => (store_send repaired sent d s, ONone)
  | Delete txid => (delete_tx strict txid s, ONone)
  | Reopen => (mkL (l_keys s) (l_txs s) [] (l_default s) (l_bip32 s), ONone)
  | Balance => let s' := balance_update repaired f_all s in (s', OBal (reported s' (l_default s')))
  | Utxos => (s, OUtxos (utxos s (l_default s) 0))
  | BalanceOf fa fn =>
      let s' := balance_update repaired (mkF fa fn None) s in (s', OBal (reported s' (lookup_grp s' fa fn)))
  | UtxosOf g minconf => (s, OUtxos (utxos s g minconf))
  end.

(* The model the theorems are about mirrors the repository with fixes/C08-1 and fixes/C08-2 applied;
   [step_orig] is the code before them (used by the _refuted witnesses). *)
Definition step := step_gen true true.
Definition step_orig := step_gen false false.

Definition run_gen (r st : bool) (s : ledger) (ops : list op) : ledger :=
  fold_left (fun s o => fst (step_gen r st s o)) ops s.
Definition run := run_gen true true.

(* ---------------------------------------------------------------- preconditions of an operation
   Facts the database and the transaction hash guarantee but integers do not: key ids are fresh; the keys an
   operation mentions exist and live in the (network, account) of the transaction that holds their outputs; no
   transaction already sent consumes an output of the transaction being stored (a transaction id is the hash of
   its content, so a spender is created after what it spends); after store() the input rows are the inputs of
   the transaction object.  The driver evaluates [op_ok] on every step of every real history. *)
Definition key_in_grp (ks : list key) (id : Z) (g : grp) : bool :=
  existsb (fun k => (k_id k =? id) && grp_eqb (k_grp k) g) ks.
Definition spent_by_sent (txs : list tx) (txid n : Z) : bool :=
  existsb (fun t => t_sent t && consumed (t_ins t) txid n) txs.
Definition tx_grp_of (txs : list tx) (txid : Z) (dflt : grp) : grp :=
  match find_tx txs txid with Some t => t_grp t | None => dflt end.

(* every transaction row carrying this txid satisfies P *)
Definition all_with_txid (txs : list tx) (txid : Z) (P : tx -> bool) : bool :=
  forallb (fun t => negb (t_txid t =? txid) || P t) txs.

(* class predicate of the recorded finding "store() of an object whose output a sent transaction consumed" *)
Definition store_respends (s : ledger) (o : op) : bool :=
  match o with
  | Store _ d => existsb (fun to => spent_by_sent (l_txs s) (d_txid d) (o_n (fst to))) (d_outs d)
  | _ => false
  end.

(* class predicate of the recorded finding "cross_account_output": the ledger holds an output of one of its keys in
   a transaction filed under another (network, account) than the key's.  A transaction row has ONE account, the
   balance per account and utxos(account) go by the row, the per-key balances by the key. *)
Definition has_cross (s : ledger) : bool :=
  existsb (fun t => existsb (fun o => match o_key o with
                                      | Some k => has_key (l_keys s) k && negb (key_in_grp (l_keys s) k (t_grp t))
                                      | None => false end) (t_outs t)) (l_txs s).

Definition store_keys_ok (s : ledger) (d : txdata) : bool :=
  forallb (fun to => match o_key (fst to) with
                     | Some k => all_with_txid (l_txs s) (d_txid d) (fun t => key_in_grp (l_keys s) k (t_grp t))
                                 && (has_tx (l_txs s) (d_txid d) || key_in_grp (l_keys s) k (d_grp d))
                     | None => true end) (d_outs d).

(* the input rows after store(): those of the object when it is being sent; not more than before when an
   already sent transaction is stored again *)
Definition store_ins_ok (sent : bool) (s : ledger) (d : txdata) : bool :=
  if sent then
    all_with_txid (store_tx sent d (l_txs s)) (d_txid d)
      (fun x => forallb (fun i => consumed (d_ins d) (i_prev i) (i_n i)) (t_ins x))
  else
    all_with_txid (l_txs s) (d_txid d)
      (fun t => negb (t_sent t) ||
                forallb (fun i => consumed (t_ins t) (i_prev i) (i_n i)) (fold_left store_in (d_ins d) (t_ins t))).

Definition op_ok (s : ledger) (o : op) : bool :=
  match o with
  | NewKey id g _ => negb (has_key (l_keys s) id)
  | UtxosUpdate _ g kf us =>
      forallb (fun u => key_in_grp (l_keys s) (p_key u) g
                        && all_with_txid (l_txs s) (p_txid u) (fun t => grp_eqb (t_grp t) g)) us
  | Store sent d => store_keys_ok s d && negb (store_respends s o) && store_ins_ok sent s d
  | _ => true
  end.

(* persisted component (what a reopened wallet reads back) *)
Definition persisted (s : ledger) : list key * list tx := (l_keys s, l_txs s).

(* ---------------------------------------------------------------- the database file: several wallets, session and file
   One sqlite file holds the rows of several wallets (DbTransaction.wallet_id, DbKey.wallet_id).  A Wallet object
   works through its own session: [wl_live] is what that session sees (its rows, pending changes included, and the
   in-memory Wallet._balances), [wl_disk] the committed rows of the wallet, i.e. what a second Wallet object opened
   on the file, another process, or the same wallet after close + reopen reads.  An operation changes the live
   component and ends in a commit (disk := persisted live) or not; closing the session drops what is pending.

   The variant record selects the code variant:
     v_repaired, v_strict  as for [step_gen];
     v_del_commits         WalletTransaction.delete() ends in a commit (the code: yes);
     v_mark_all            send() looks the consumed outputs up by (txid, output_n) only, so the records of EVERY
                           wallet in the file are marked spent (the code: yes);
     v_del_own             delete() looks up the transaction row of its own wallet (fixes/C08-8); the code before it
                           looks the row up by txid only and raises when another wallet holds the same txid. *)
Record variant := mkVar { v_repaired : bool; v_strict : bool; v_del_commits : bool; v_mark_all : bool;
                          v_del_own : bool }.
Definition lib_variant : variant := mkVar true true true true false.
Definition own_variant : variant := mkVar true true true true true.

Record wal := mkWal { wl_id : Z; wl_live : ledger; wl_disk : list key * list tx }.
Definition dbase := list wal.

(* what a fresh Wallet object on the file starts from *)
Definition open_disk (w : wal) : ledger :=
  mkL (fst (wl_disk w)) (snd (wl_disk w)) [] (l_default (wl_live w)) (l_bip32 (wl_live w)).

Definition find_wal (D : dbase) (wid : Z) : option wal := find (fun w => wl_id w =? wid) D.

Definition db_create (D : dbase) (wid : Z) (d : grp) (bip32 : bool) : dbase :=
  D ++ [mkWal wid (init d bip32) ([], [])].

(* operations whose code path ends in session.commit() *)
Definition commits (v : variant) (o : op) : bool :=
  match o with
  | Delete _ => v_del_commits v
  | Select _ _ _ => false
  | Utxos => false
  | UtxosOf _ _ => false
  | Reopen => false
  | _ => true
  end.

(* send() of another wallet: the consumed outpoints are marked in this wallet's rows too *)
Definition mark_wal (ins : list inp) (w : wal) : wal :=
  mkWal (wl_id w) (with_txs (wl_live w) (mark_spent ins (l_txs (wl_live w))))
        (fst (wl_disk w), mark_spent ins (snd (wl_disk w))).

(* an unspent output of the list is consumed by the inputs *)
Definition unspent_consumed (ins : list inp) (txs : list tx) : bool :=
  existsb (fun t => existsb (fun o => negb (o_spent o) && consumed ins (t_txid t) (o_n o)) (t_outs t)) txs.

(* class predicate: the operation on wallet wid reaches into the rows of another wallet *)
Definition touches_others (v : variant) (D : dbase) (wid : Z) (o : op) : bool :=
  match o with
  | Store true d =>
      v_mark_all v &&
      existsb (fun x => negb (wl_id x =? wid) &&
                        (unspent_consumed (d_ins d) (l_txs (wl_live x)) || unspent_consumed (d_ins d) (snd (wl_disk x)))) D
  | _ => false
  end.

(* delete() finds two transaction rows with the txid (its own and another wallet's) and raises *)
Definition delete_blocked (v : variant) (D : dbase) (wid : Z) (o : op) : bool :=
  match o with
  | Delete txid =>
      negb (v_del_own v) &&
      existsb (fun x => negb (wl_id x =? wid) && has_tx (snd (wl_disk x)) txid) D
  | _ => false
  end.

Inductive dbout :=
| DOut (o : out)
| DRefused
| DNoWallet.

Definition db_step_gen (v : variant) (D : dbase) (wid : Z) (o : op) : dbase * dbout :=
  match find_wal D wid with
  | None => (D, DNoWallet)
  | Some w =>
      if delete_blocked v D wid o && (match o with Delete txid => has_tx (l_txs (wl_live w)) txid | _ => false end)
      then (D, DRefused)
      else
        let live0 := match o with Reopen => open_disk w | _ => wl_live w end in
        let r := step_gen (v_repaired v) (v_strict v) live0 o in
        let w' := mkWal wid (fst r) (if commits v o then persisted (fst r) else wl_disk w) in
        let D1 := map (fun x => if wl_id x =? wid then w' else x) D in
        let D2 := match o with
                  | Store true d =>
                      if v_mark_all v
                      then map (fun x => if wl_id x =? wid then x else mark_wal (d_ins d) x) D1
                      else D1
                  | _ => D1
                  end in
        (D2, DOut (snd r))
  end.

Definition db_step := db_step_gen lib_variant.

(* the precondition of the operation, in the wallet it is applied to *)
Definition db_op_ok (D : dbase) (wid : Z) (o : op) : bool :=
  match find_wal D wid with
  | Some w => op_ok (match o with Reopen => open_disk w | _ => wl_live w end) o
  | None => false
  end.

(* histories over the file *)
Inductive dbop :=
| DCreate (wid : Z) (d : grp) (bip32 : bool)
| DOp (wid : Z) (o : op).

Definition db_apply (v : variant) (D : dbase) (x : dbop) : dbase :=
  match x with
  | DCreate wid d b => db_create D wid d b
  | DOp wid o => fst (db_step_gen v D wid o)
  end.

Definition db_run (v : variant) (D : dbase) (xs : list dbop) : dbase := fold_left (db_apply v) xs D.
