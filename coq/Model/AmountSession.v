(* Model/AmountSession.v — SEQUENCES of amount conversions in one process / on one Value object
   (bitcoinlib/values.py), and Transaction.add_output called with a Value object.  Definitions only.

   The library keeps no state between conversions: a session is the list of the stand-alone answers, and
   the observations made on a Value object (value_sat, str(), to_bytes()) leave the object as it is.  The
   model is therefore a plain [map] / a fold that threads only the object the arithmetic operators return;
   the implementation is compared with it step by step (requests `seq` and `vobj`), so any cache or
   mutated attribute that makes a later answer depend on an earlier call shows up as a disagreement. *)
From Coq Require Import ZArith List Bool String.
From Coq Require Import Floats.PrimFloat Floats.SpecFloat Floats.FloatOps.
From Coq.Strings Require Import Byte.
From Verif Require Import Lib.Bytes Float.DecRound Float.B64 Model.Amount.
Import ListNotations.
Open Scope Z_scope.

(* ---- conversion requests answered without any state ---- *)
Inductive conv_req :=
| CVts (s : str) (network : option str)             (* value_to_satoshi(s, network) *)
| CVal (s : str) (nw : str)                         (* Value(s, network=nw).value_sat *)
| CStr (n : Z) (d1 d2 : dspec) (dec : option Z) (nw : str)   (* Value.from_satoshi(n, d1, nw).str(d2, dec) *)
| CRt (n : Z) (d : dspec) (nw : str).               (* value_to_satoshi(Value.from_satoshi(n, network=nw).str(d)) *)

Inductive conv_ans := AZ (r : res Z) | AS (r : res str) | ASZ (r : res (str * res Z)).

Definition lib_conv (r : conv_req) : conv_ans :=
  match r with
  | CVts s nw => AZ (lib_value_to_satoshi s nw)
  | CVal s nm =>
      AZ (match find_by_name nm with
          | Some nw => match lib_value_init_str s None nw with Ok v => lib_value_sat v | Err => Err end
          | None => Err
          end)
  | CStr n d1 d2 dec nm =>
      AS (match find_by_name nm with
          | Some nw => match lib_from_satoshi n d1 nw with Ok v => lib_str v d2 dec | Err => Err end
          | None => Err
          end)
  | CRt n d nm =>
      ASZ (match find_by_name nm with
           | Some nw => match lib_from_satoshi n DNone nw with
                        | Ok v => match lib_str v d None with
                                  | Ok s => Ok (s, lib_value_to_satoshi s None)
                                  | Err => Err
                                  end
                        | Err => Err
                        end
           | None => Err
           end)
  end.

(* a session in one process *)
Definition lib_conv_session (l : list conv_req) : list conv_ans := map lib_conv l.

(* ---- one Value object: observations and the arithmetic operators ---- *)
Inductive vop :=
| VSat                                   (* v.value_sat *)
| VStr (d : dspec) (dec : option Z)      (* v.str(d, dec) *)
| VBytes                                 (* v.to_bytes() *)
| VAdd (b : str)                         (* v = v + Value(b)    (also v += Value(b)) *)
| VSub (b : str)                         (* v = v - Value(b)    (also v -= Value(b)) *)
| VMul (k : Z)                           (* v = v * k *)
| VDiv (k : Z)                           (* v = v / k *)
| VAddK (b : str)                        (* v + Value(b), result shown and dropped: v stays bound to the old object *)
| VSubK (b : str)
| VMulK (k : Z)
| VDivK (k : Z).

Inductive vans := RSat (r : res Z) | RStr (r : res str) | RBytes (r : res (list byte)) | RVal (r : res value).

(* operations after which the variable still refers to the same object *)
Definition is_observation (o : vop) : bool :=
  match o with VSat | VStr _ _ | VBytes | VAddK _ | VSubK _ | VMulK _ | VDivK _ => true | _ => false end.

(* Value(b) with the default network *)
Definition lib_value_default (b : str) : res value :=
  match find_by_name default_network_name with
  | Some nw => lib_value_init_str b None nw
  | None => Err
  end.

(* the object an arithmetic operator returns *)
Definition vop_result (v : value) (o : vop) : res value :=
  match o with
  | VAdd b | VAddK b => match lib_value_default b with Ok vb => lib_arith 0 v vb 0 | Err => Err end
  | VSub b | VSubK b => match lib_value_default b with Ok vb => lib_arith 1 v vb 0 | Err => Err end
  | VMul k | VMulK k => lib_arith 2 v v k
  | VDiv k | VDivK k => lib_arith 3 v v k
  | _ => Ok v
  end.

(* the object the variable is bound to afterwards; a raised exception leaves it bound to the old object *)
Definition vop_next (v : value) (o : vop) : res value :=
  if is_observation o then Ok v else vop_result v o.

Definition vop_answer (v : value) (o : vop) : vans :=
  match o with
  | VSat => RSat (lib_value_sat v)
  | VStr d k => RStr (lib_str v d k)
  | VBytes => RBytes (lib_to_bytes v)
  | _ => RVal (vop_result v o)
  end.

Fixpoint lib_vsession (v : value) (ops : list vop) : list vans :=
  match ops with
  | [] => []
  | o :: r => vop_answer v o :: lib_vsession (match vop_next v o with Ok v' => v' | Err => v end) r
  end.

(* ---- Transaction.add_output(<Value object>) ----
   float(value) is Value.__float__ (main units, rounded to the decimals of the network when above one
   smallest unit) and int(value) is Value.__int__ = int(self.value): the integrality test and the amount
   are taken in MAIN units, so add_output(Value('1 BTC')) stores 1 smallest unit (finding
   addoutput_value_units).  [rep = true] is the repair fixes/C17-1: a Value object is first converted with
   value_to_satoshi(value, network=self.network). *)
Definition lib_value_float (v : value) : res float :=
  let d := n_den (v_net v) in
  if (d <? v_value v)%float then
    match log10_trunc d with
    | Some l => Ok (b64_round_nd (v_value v) (- l))
    | None => Err
    end
  else Ok (v_value v).

Definition lib_add_output_value (rep : bool) (v : value) (name : str) : res num :=
  if rep then
    if str_eqb (n_name (v_net v)) name
    then match lib_value_sat v with Ok z => lib_add_output (NInt z) name | Err => Err end
    else Err
  else
    match lib_value_float v with
    | Err => Err
    | Ok f =>
        if b64_is_integer f
        then match b64_trunc (v_value v) with Some z => lib_output_value (NInt z) name | None => Err end
        else Err
    end.
