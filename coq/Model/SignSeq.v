(* Model/SignSeq.v — vocabulary of the sign_then_verify theorems (Proofs/SignPlaceSeq.v, Properties/C02.v):
   a history of Transaction.sign / Transaction.verify calls on ONE input, run through the functions of
   Model/SignPlace.v that are extracted and compared with the library (lib_sign_input, lib_verify_input_run),
   next to the protocol-side account of which listed keys have signed.  Definitions only. *)
From Coq Require Import List Bool Arith ZArith.
From Verif Require Import Model.VerifyInput Model.SignPlace.
Import ListNotations.

(* one call on the input *)
Inductive icall :=
| CSign (replace fail_unknown : bool) (signers : list Z)     (* Transaction.sign(keys, replace_signatures, fail_on_unknown_key) *)
| CVerify (m : nat).                                         (* Input.verify with sigs_required = m (re-tags signatures) *)

Section Seq.
  Context {B : Type}.
  Variable sv : B -> Z -> bool.
  Variable mk : Z -> B.

  (* the signature a listed key produces, as Transaction.sign stores it *)
  Definition own_sig (k : Z) : sg B := {| body := mk k; tag := Some k |}.

  (* the library side: a call that raises or signs nothing leaves the input as it is; a verification leaves the
     re-tagged signatures behind (Model/SignPlace.v: lib_sign_tx_at, lib_tx_verify_run_from) *)
  Definition lib_icall (pubs : list Z) (sigs : list (sg B)) (c : icall) : list (sg B) :=
    match c with
    | CSign r f signers =>
      match lib_sign_input mk pubs sigs r f signers with
      | SignDone l => l
      | _ => sigs
      end
    | CVerify m => snd (lib_verify_input_run sv pubs sigs m)
    end.

  Definition lib_icalls (pubs : list Z) (sigs : list (sg B)) (cs : list icall) : list (sg B) :=
    fold_left (lib_icall pubs) cs sigs.
End Seq.

(* excludes the recorded class dup_point_keys: no listed key's signature verifies for another listed key
   (two encodings of one curve point in the key list) *)
Definition dup_point_free {B : Type} (sv : B -> Z -> bool) (mk : Z -> B) (pubs : list Z) : Prop :=
  forall k k', In k pubs -> In k' pubs -> sv (mk k) k' = true -> k = k'.

(* ---------- protocol side: the keys that have signed ---------- *)
Definition zmem (k : Z) (l : list Z) : bool := existsb (Z.eqb k) l.

(* fail_on_unknown_key and some signer is not a listed key: TransactionError, nothing is signed *)
Definition call_raises (pubs : list Z) (fail : bool) (signers : list Z) : bool :=
  fail && negb (forallb (fun k => zmem k pubs) signers).

(* the state is the list of all keys named in successful sign() calls so far *)
Definition spec_icall (pubs : list Z) (acc : list Z) (c : icall) : list Z :=
  match c with
  | CSign _ f signers => if call_raises pubs f signers then acc else signers ++ acc
  | CVerify _ => acc
  end.

Definition spec_icalls (pubs : list Z) (acc : list Z) (cs : list icall) : list Z := fold_left (spec_icall pubs) cs acc.

(* the listed keys among them, in key-list order *)
Definition signed_listed (pubs acc : list Z) : list Z := filter (fun k => zmem k acc) pubs.

(* ---------- guards ---------- *)

(* excludes the recorded class resign_keeps_stale: a call with replace_signatures=True that names a listed key
   which has already signed, while some key slot stays free after the call (the old signatures are then
   re-inserted into the free slots of OTHER keys).  A replace call that raises, names no already-signed listed
   key, or completes the key list is admitted. *)
Definition resign_free (pubs acc : list Z) (c : icall) : bool :=
  match c with
  | CSign true f signers =>
    call_raises pubs f signers
    || forallb (fun k => negb (zmem k pubs && zmem k acc)) signers
    || forallb (fun k => zmem k (signers ++ acc)) pubs
  | _ => true
  end.

Fixpoint resign_free_all (pubs acc : list Z) (cs : list icall) : bool :=
  match cs with
  | [] => true
  | c :: r => resign_free pubs acc c && resign_free_all pubs (spec_icall pubs acc c) r
  end.

Definition only_signs (cs : list icall) : bool :=
  forallb (fun c => match c with CSign _ _ _ => true | CVerify _ => false end) cs.

(* ====================================================================================================
   whole transactions: histories of Transaction.sign (all inputs or one) and Transaction.verify, run through
   lib_sign_tx / lib_tx_verify_run of Model/SignPlace.v exactly as the correspondence driver does (run_op, cases
   OSign and OVerify)
   ==================================================================================================== *)
Inductive tcall :=
| TSign (target : option nat) (replace fail_unknown : bool) (signers : list Z)
| TVerify.

Section TxSeq.
  Context {B : Type}.
  Variable svi : nat -> B -> Z -> bool.
  Variable mki : nat -> Z -> B.

  Definition lib_tcall (ins : list (@sinput B)) (c : tcall) : list (@sinput B) :=
    match c with
    | TSign target r f signers => fst (lib_sign_tx mki target ins r f signers)
    | TVerify => snd (lib_tx_verify_run svi ins)
    end.

  Definition lib_tcalls (ins : list (@sinput B)) (cs : list tcall) : list (@sinput B) := fold_left lib_tcall cs ins.

  (* input x is input s (same kind, keys, threshold, digest computable) possibly with other signatures / flag *)
  Definition same_shape (s x : @sinput B) : Prop :=
    si_segwit x = si_segwit s /\ si_keys x = si_keys s /\ si_m x = si_m s /\ si_hash_ok x = si_hash_ok s /\
    si_ht x = si_ht s.

  (* the inputs from position i on carry exactly the own signatures of the listed keys in accs, in key order *)
  Inductive tx_signed_by : nat -> list (@sinput B) -> list (list Z) -> list (@sinput B) -> Prop :=
  | tsb_nil : forall i, tx_signed_by i [] [] []
  | tsb_cons : forall i s sh acc accs x ins,
      same_shape s x ->
      si_sigs x = map (own_sig (mki i)) (signed_listed (si_keys s) acc) ->
      tx_signed_by (S i) sh accs ins ->
      tx_signed_by i (s :: sh) (acc :: accs) (x :: ins).

  (* dup_point_free for every input, each under its own digest *)
  Fixpoint tx_dup_point_free (i : nat) (sh : list (@sinput B)) : Prop :=
    match sh with
    | [] => True
    | s :: r => dup_point_free (svi i) (mki i) (si_keys s) /\ tx_dup_point_free (S i) r
    end.
End TxSeq.

(* protocol side: one list of named keys per input.  sign() over all inputs stops at the first input for which
   the call raises (the inputs before it stay signed) *)
Fixpoint spec_sign_from (keys accs : list (list Z)) (f : bool) (signers : list Z) : list (list Z) :=
  match keys, accs with
  | pubs :: kr, acc :: ar =>
    if call_raises pubs f signers then accs else (signers ++ acc) :: spec_sign_from kr ar f signers
  | _, _ => accs
  end.

Fixpoint spec_sign_at (t : nat) (keys accs : list (list Z)) (f : bool) (signers : list Z) : list (list Z) :=
  match keys, accs with
  | pubs :: kr, acc :: ar =>
    match t with
    | O => (if call_raises pubs f signers then acc else signers ++ acc) :: ar
    | S t' => acc :: spec_sign_at t' kr ar f signers
    end
  | _, _ => accs
  end.

Definition spec_tcall (keys accs : list (list Z)) (c : tcall) : list (list Z) :=
  match c with
  | TSign None _ f signers => spec_sign_from keys accs f signers
  | TSign (Some t) _ f signers => spec_sign_at t keys accs f signers
  | TVerify => accs
  end.

Definition spec_tcalls (keys accs : list (list Z)) (cs : list tcall) : list (list Z) :=
  fold_left (spec_tcall keys) cs accs.

(* resign_free at every input the call reaches *)
Fixpoint tx_resign_free_from (keys accs : list (list Z)) (r f : bool) (signers : list Z) : bool :=
  match keys, accs with
  | pubs :: kr, acc :: ar =>
    resign_free pubs acc (CSign r f signers)
    && (call_raises pubs f signers || tx_resign_free_from kr ar r f signers)
  | _, _ => true
  end.

Fixpoint tx_resign_free_at (t : nat) (keys accs : list (list Z)) (r f : bool) (signers : list Z) : bool :=
  match keys, accs with
  | pubs :: kr, acc :: ar =>
    match t with
    | O => resign_free pubs acc (CSign r f signers)
    | S t' => tx_resign_free_at t' kr ar r f signers
    end
  | _, _ => true
  end.

Definition tx_resign_free (keys accs : list (list Z)) (c : tcall) : bool :=
  match c with
  | TSign None r f signers => tx_resign_free_from keys accs r f signers
  | TSign (Some t) r f signers => tx_resign_free_at t keys accs r f signers
  | TVerify => true
  end.

Fixpoint tx_resign_free_all (keys accs : list (list Z)) (cs : list tcall) : bool :=
  match cs with
  | [] => true
  | c :: r => tx_resign_free keys accs c && tx_resign_free_all keys (spec_tcall keys accs c) r
  end.

Definition tx_only_signs (cs : list tcall) : bool :=
  forallb (fun c => match c with TSign _ _ _ _ => true | TVerify => false end) cs.

(* the verdict the property asks for: every digest computable, every input signed by at least m (and at least
   one) of its listed keys *)
Fixpoint tx_verdict {B : Type} (sh : list (@sinput B)) (accs : list (list Z)) : bool :=
  match sh, accs with
  | s :: sr, acc :: ar =>
    si_hash_ok s
    && (Nat.leb (si_m s) (length (signed_listed (si_keys s) acc)) && Nat.leb 1 (length (signed_listed (si_keys s) acc)))
    && tx_verdict sr ar
  | _, _ => true
  end.
