(* Model/Bech32.v — Bech32 / Bech32m segwit addresses (C11).  Definitions only.
   lib_*  mirrors bitcoinlib/encoding.py: _bech32_polymod, convertbits, _codestring_to_array,
          addr_bech32_to_pubkeyhash (include_witver=True), pubkeyhash_to_addr_bech32, addr_to_pubkeyhash
          and bitcoinlib/keys.py deserialize_address (both branches).
   spec_* is written from BIP173 / BIP350 (reference decoder: segwit_addr.decode). *)
From Coq Require Import ZArith List Bool.
From Coq Require String.
From Coq.Strings Require Import Byte.
From Verif Require Import Lib.Bytes Gen.GenConsts Gen.GenNetworks Model.Base58.
Import ListNotations.
Open Scope Z_scope.

(* ---------- checksum ---------- *)
Definition g0 : Z := 0x3b6a57b2.
Definition g1 : Z := 0x26508e6d.
Definition g2 : Z := 0x1ea119fa.
Definition g3 : Z := 0x3d4233dd.
Definition g4 : Z := 0x2a1462b3.
Definition sel (b : bool) (g : Z) : Z := if b then g else 0.

(* one iteration of the loop body of _bech32_polymod *)
Definition polymod_step (chk v : Z) : Z :=
  let top := Z.shiftr chk 25 in
  let c := Z.lxor (Z.shiftl (Z.land chk 0x1ffffff) 5) v in
  let c := Z.lxor c (sel (Z.testbit top 0) g0) in
  let c := Z.lxor c (sel (Z.testbit top 1) g1) in
  let c := Z.lxor c (sel (Z.testbit top 2) g2) in
  let c := Z.lxor c (sel (Z.testbit top 3) g3) in
  let c := Z.lxor c (sel (Z.testbit top 4) g4) in
  c.
Definition polymod (values : list Z) : Z := fold_left polymod_step values 1.

Definition hrp_expand (hrp : bytes) : list Z :=
  map (fun c => Z.shiftr (bz c) 5) hrp ++ [0] ++ map (fun c => Z.land (bz c) 31) hrp.

Definition bech32_const (witver : Z) : Z := if witver =? 0 then 1 else cfg_BECH32M_CONST.

(* [(polymod >> 5 * (5 - i)) & 31 for i in range(6)] *)
Definition checksum_values (pm : Z) : list Z :=
  map (fun i => Z.land (Z.shiftr pm (5 * (5 - i))) 31) [0; 1; 2; 3; 4; 5].
Definition mk_checksum (hrp : bytes) (data : list Z) (const : Z) : list Z :=
  checksum_values (Z.lxor (polymod (hrp_expand hrp ++ data ++ [0; 0; 0; 0; 0; 0])) const).

(* ---------- character set ---------- *)
Definition b32_char (d : Z) : byte := nth (Z.to_nat d) alphabet_bech32 x00.
Definition b32_pos (c : byte) : option Z :=
  match find_idx c alphabet_bech32 with Some i => Some (Z.of_nat i) | None => None end.
Fixpoint b32_indices (s : bytes) : option (list Z) :=          (* _codestring_to_array(s, 'bech32') *)
  match s with
  | [] => Some []
  | c :: r => match b32_pos c, b32_indices r with
              | Some p, Some ps => Some (p :: ps)
              | _, _ => None
              end
  end.

(* ---------- convertbits ---------- *)
Inductive cb_res := CbOk (l : list Z) | CbNone | CbErr.       (* list / None / EncodingError *)

(* while bits >= tobits: bits -= tobits; ret.append((acc >> bits) & maxv) *)
Fixpoint cb_emit (fuel : nat) (acc bits tobits : Z) : list Z * Z :=
  match fuel with
  | O => ([], bits)
  | S f =>
      if tobits <=? bits then
        let bits' := bits - tobits in
        let '(l, b) := cb_emit f acc bits' tobits in
        (Z.land (Z.shiftr acc bits') (Z.ones tobits) :: l, b)
      else ([], bits)
  end.

Fixpoint cb_loop (frombits tobits : Z) (pad : bool) (data : list Z) (acc bits : Z) : cb_res :=
  match data with
  | [] =>
      if pad then
        if bits =? 0 then CbOk [] else CbOk [Z.land (Z.shiftl acc (tobits - bits)) (Z.ones tobits)]
      else if (frombits <=? bits) || negb (Z.land (Z.shiftl acc (tobits - bits)) (Z.ones tobits) =? 0)
           then CbErr else CbOk []
  | v :: r =>
      if (v <? 0) || negb (Z.shiftr v frombits =? 0) then CbNone
      else
        let acc' := Z.land (Z.lor (Z.shiftl acc frombits) v) (Z.ones (frombits + tobits - 1)) in
        let bits' := bits + frombits in
        let '(out, bits'') := cb_emit (S (Z.to_nat bits')) acc' bits' tobits in
        match cb_loop frombits tobits pad r acc' bits'' with
        | CbOk l => CbOk (out ++ l)
        | e => e
        end
  end.
Definition convertbits (data : list Z) (frombits tobits : Z) (pad : bool) : cb_res :=
  cb_loop frombits tobits pad data 0 0.

(* ---------- decoder: addr_bech32_to_pubkeyhash(bech, include_witver=True) ---------- *)
Fixpoint rfind (c : byte) (s : bytes) : option nat :=
  match s with
  | [] => None
  | x :: r => match rfind c r with
              | Some j => Some (S j)
              | None => if beq x c then Some O else None
              end
  end.
Definition printable (c : byte) : bool := (33 <=? bz c) && (bz c <=? 126).
Definition case_ok (s : bytes) : bool :=
  bytes_eqb (map lower_byte s) s || bytes_eqb (map upper_byte s) s.

(* result: (witness version, witness program) *)
Definition lib_bech32_dec (s : bytes) : option (Z * bytes) :=
  if negb (forallb printable s) || negb (case_ok s) then None
  else
    let b := map lower_byte s in
    match rfind x31 b with
    | None => None
    | Some pos =>
        if (pos <? 1)%nat || (length b <? pos + 7)%nat || (90 <? length b)%nat then None
        else
          let hrp := firstn pos b in
          match b32_indices (skipn (S pos) b) with
          | None => None
          | Some data =>
              let check := polymod (hrp_expand hrp ++ data) in
              let witver := nth 0 data 0 in
              if negb ((check =? 1) || (check =? cfg_BECH32M_CONST)) then None
              else if (witver =? 0) && negb (check =? 1) then None
              else if negb (witver =? 0) && negb (check =? cfg_BECH32M_CONST) then None
              else
                let data' := firstn (length data - 6) data in
                match convertbits (tl data') 5 8 false with
                | CbOk dec =>
                    let n := length dec in
                    if (n <? 2)%nat || (40 <? n)%nat then None
                    else if 16 <? nth 0 data' 0 then None
                    else if (nth 0 data' 0 =? 0) && negb ((n =? 20)%nat || (n =? 32)%nat) then None
                    else Some (nth 0 data' 0, map zb dec)
                | _ => None
                end
          end
    end.

(* bytes([data[0] + 0x50 if data[0] else 0, datalen]) + decoded *)
Definition witver_op (witver : Z) : Z := if witver =? 0 then 0 else witver + 80.
Definition lib_bech32_raw (r : Z * bytes) : bytes :=
  zb (witver_op (fst r)) :: zb (Z.of_nat (length (snd r))) :: snd r.

(* ---------- encoder: pubkeyhash_to_addr_bech32(pubkeyhash, prefix, witver, '1', checksum_xor) ---------- *)
(* None = an exception (EncodingError, or IndexError for inputs shorter than two bytes) *)
Definition lib_bech32_enc (pkh : bytes) (hrp : bytes) (witver : Z) (checksum_xor : Z) : option bytes :=
  let n := length pkh in
  let hdr := negb ((n =? 20)%nat || (n =? 32)%nat || (n =? 40)%nat) in
  match (if hdr then
           match pkh with
           | b0 :: b1 :: rest =>
               if negb (bz b1 =? Z.of_nat (length rest)) then None
               else Some (if bz b0 =? 0 then witver else bz b0 - 80, rest)
           | _ => None
           end
         else Some (witver, pkh)) with
  | None => None
  | Some (wv, prog) =>
      if 16 <? wv then None
      else
        let '(wv, cx) :=
          if (checksum_xor =? cfg_BECH32M_CONST) && (wv =? 0) then (1, checksum_xor)
          else if 0 <? wv then (wv, cfg_BECH32M_CONST) else (wv, checksum_xor) in
        match convertbits (map bz prog) 8 5 true with
        | CbOk d5 =>
            let data := wv :: d5 in
            (* a negative witver indexes the code string from its end in Python; refused here *)
            if wv <? 0 then None
            else Some (hrp ++ [x31] ++ map b32_char data ++ map b32_char (mk_checksum hrp data cx))
        | _ => None
        end
  end.

(* ---------- BIP173 / BIP350 reference (specification) ---------- *)
Definition spec_bech32_enc (hrp : bytes) (witver : Z) (prog : bytes) : option bytes :=
  match convertbits (map bz prog) 8 5 true with
  | CbOk d5 =>
      let data := witver :: d5 in
      Some (hrp ++ [x31] ++ map b32_char data ++ map b32_char (mk_checksum hrp data (bech32_const witver)))
  | _ => None
  end.

(* ---------- addr_to_pubkeyhash(address) with encoding=None ---------- *)
Section WithHash.
Variable H : bytes -> bytes.

Inductive a2p_res := PkOk (pkh : bytes) | PkErr | PkAssert.
Definition lib_addr_to_pkh_gen (fold canon : bool) (s : bytes) : a2p_res :=
  match lib_addr_b58_gen H fold canon s with
  | AOk p => PkOk p
  | AAssert => PkAssert
  | AErr => match lib_bech32_dec s with Some (_, prog) => PkOk prog | None => PkErr end
  end.
Definition lib_addr_to_pkh := lib_addr_to_pkh_gen false true.

(* ---------- deserialize_address(address, encoding) ---------- *)
Inductive enc_arg := EncNone | EncB58 | EncBech32.
Inductive deser_res := DOk (i : addr_info) | DErrKey | DErrEnc.     (* BKeyError / EncodingError *)

(* p2tr_any mirrors fixes/C05-1 (script type 'p2tr' for every version 1..16 program, whatever its length);
   false = the code without that patch (a 20-byte program is always reported as 'p2wpkh') *)
Definition lib_deser_bech32_gen (lowpfx p2tr_any : bool) (s : bytes) : deser_res :=
  match lib_bech32_dec s with
  | None => DErrEnc
  | Some (witver, prog) =>
      (* prefix = address[:address.rfind('1')].lower()  (fix C11-7; before it the case was preserved and an
         upper-case address matched no network: lowpfx = false) *)
      let pfx := match rfind x31 s with Some p => firstn p s | None => removelast s end in
      let pfx := if lowpfx then map lower_byte pfx else pfx in
      let nws := networks_by true nw_prefix_bech32 pfx in
      DOk {| ai_bech32 := true; ai_pkh := prog; ai_prefix := pfx;
             ai_network := match nws with x :: _ => Some (nw_name x) | [] => Some String.EmptyString end;
             ai_script := if p2tr_any && negb (witver =? 0) then SkP2tr
                          else if (length prog =? 20)%nat then SkP2wpkh
                          else if witver =? 0 then SkP2wsh else SkP2tr;
             ai_witness := if witver =? 0 then WkSegwit else WkTaproot;
             ai_networks := map nw_name nws;
             ai_witver := Some witver; ai_raw := lib_bech32_raw (witver, prog) |}
  end.

Definition lib_deser_bech32 (lowpfx : bool) := lib_deser_bech32_gen lowpfx false.

Definition lib_deserialize_gen (fold canon lowpfx p2tr_any : bool) (enc : enc_arg) (s : bytes) : deser_res :=
  let bech := match enc with EncB58 => DErrEnc | _ => lib_deser_bech32_gen lowpfx p2tr_any s end in
  match enc with
  | EncBech32 => bech
  | _ =>
      match lib_deser_b58_gen H fold canon (match enc with EncB58 => true | _ => false end) s with
      | BrOk i => DOk i
      | BrChecksum => DErrKey
      | BrFallthrough => bech
      end
  end.
Definition lib_deserialize := lib_deserialize_gen false true true false.

End WithHash.

(* ---------- addr_bech32_checksum(bech) (strings that contain the separator) ---------- *)
Definition lib_bech32_checksum (s : bytes) : option Z :=
  let b := map lower_byte s in
  match rfind x31 b with
  | None => None
  | Some pos =>
      match b32_indices (skipn (S pos) b) with
      | None => None
      | Some data => Some (polymod (hrp_expand (firstn pos b) ++ data))
      end
  end.
