(* Model/AmountTx.v — the amounts of ONE Transaction object through a sequence of amount-changing operations
   (bitcoinlib/transactions.py): Transaction.bumpfee, add_output (number, text, Value object), update_totals,
   sign_and_update, estimate_size, calculate_fee.  Definitions only.

   The fee-bump arithmetic is the C07 model (Model/BumpFee.v: bump_amounts, bump_loop — the repaired loop that
   deducts the REMAINING extra fee); this file adds the attributes the other operations read and write
   (fee, fee_per_kb, the output list) and threads them through a session.  The size of the (re-)signed
   transaction is supplied with each operation: it depends on script and signature lengths, which are not
   amounts; the check validates the supplied value against the bytes raw() returns. *)
From Coq Require Import ZArith List Bool.
From Verif Require Import Lib.Bytes Gen.GenNetworks Gen.GenConsts Model.CoinSelect Model.TxCreate Model.BumpFee.
From Verif Require Float.B64 Model.Amount Model.AmountSession.
Import ListNotations.
Open Scope Z_scope.

(* the amount attributes of a Transaction object; x_next numbers the outputs ever created (identity tags) *)
Record xstate := {
  x_ins : list utxo;
  x_outs : list txout;
  x_fee : Z;
  x_fpk : option Z;        (* Transaction.fee_per_kb; None = never set *)
  x_next : Z
}.

Definition with_outs (s : xstate) (outs : list txout) (fee : Z) : xstate :=
  {| x_ins := x_ins s; x_outs := outs; x_fee := fee; x_fpk := x_fpk s; x_next := x_next s |}.
Definition with_fpk (s : xstate) (f : option Z) : xstate :=
  {| x_ins := x_ins s; x_outs := x_outs s; x_fee := x_fee s; x_fpk := f; x_next := x_next s |}.

Definition to_btx (s : xstate) (vsize : Z) : btx :=
  {| b_inputs := x_ins s; b_outputs := x_outs s; b_fee := x_fee s; b_vsize := vsize |}.

(* error tokens *)
Inductive xerr := XeBump (e : err) | XeBadValue | XeAddOut | XeNoRate | XeCtor.

Inductive xres := XOk (r : option Z) | XErr (e : xerr).

(* int((fee / float(vsize)) * 1000) *)
Definition rate2_of (fee vsize : Z) : Z := qtrunc (fmul (fdiv (f_int fee) (f_int vsize)) (qint 1000)).

(* Transaction(inputs, outputs): the fee is derived from the totals and must be positive *)
Definition x_init (ins : list Z) (outs : list (Z * bool)) : option xstate :=
  let it := fold_right Z.add 0 ins in
  let ot := fold_right (fun o a => fst o + a) 0 outs in
  if (0 <? it) && (0 <? ot) && (ot <? it) && forallb (fun v => 0 <=? v) ins && forallb (fun o => 0 <=? fst o) outs then
    Some {| x_ins := map (fun p => {| u_id := fst p; u_value := snd p; u_conf := 1; u_spent := false |})
                         (combine (map Z.of_nat (seq 0 (length ins))) ins);
            x_outs := map (fun p => {| o_dest := ToChange (fst p); o_value := fst (snd p); o_change := snd (snd p) |})
                          (combine (map Z.of_nat (seq 0 (length outs))) outs);
            x_fee := it - ot; x_fpk := None; x_next := Z.of_nat (length outs) |}
  else None.

(* update_totals(); vs = the vsize attribute (0 = unset) *)
Definition x_update (s : xstate) (vs : Z) : xstate :=
  let it := sum_values (x_ins s) in
  if it =? 0 then s
  else
    let fee := it - sum_outs (x_outs s) in
    {| x_ins := x_ins s; x_outs := x_outs s; x_fee := fee;
       x_fpk := if vs =? 0 then x_fpk s else Some (rate2_of fee vs); x_next := x_next s |}.

(* what raw() accepts *)
Definition outs_serialisable (outs : list txout) : bool :=
  forallb (fun o => (0 <=? o_value o) && (o_value o <? 2 ^ 64)) outs.

(* sign_and_update(); vs' = vsize of the re-signed transaction *)
Definition x_sign (s : xstate) (vs' : Z) : xres * xstate :=
  if negb (outs_serialisable (x_outs s)) then (XErr XeBadValue, s)
  else
    let s1 := x_update s vs' in
    (XOk None, if x_fee s1 =? 0 then s1 else with_fpk s1 (Some (rate2_of (x_fee s1) vs'))).

Inductive xop :=
| XBump (fee extra vs : Z) (mult : q) (vs' : Z)     (* bumpfee(fee, extra_fee); vs = vsize it works with *)
| XAdd (v : Amount.num) (chg : bool)                 (* add_output(v, change=chg) *)
| XAddValue (rep : bool) (v : B64.str) (chg : bool)  (* add_output(Value(v, network=<network of the transaction>), change=chg) *)
| XUpdate (vs : Z)                                   (* update_totals() *)
| XSign (vs' : Z)                                    (* sign_and_update() *)
| XEst                                               (* estimate_size(k): no amount is touched *)
| XCalc (fpk vs : Z).                                (* fee_per_kb = fpk; calculate_fee() *)

Definition x_append (s : xstate) (z : Z) (chg : bool) : xstate :=
  {| x_ins := x_ins s; x_outs := x_outs s ++ [{| o_dest := ToChange (x_next s); o_value := z; o_change := chg |}];
     x_fee := x_fee s; x_fpk := x_fpk s; x_next := x_next s + 1 |}.

Definition x_step (nw : network) (name : B64.str) (s : xstate) (o : xop) : xres * xstate :=
  match o with
  | XBump fee extra vs mult vs' =>
      match bump_amounts (to_btx s vs) fee extra mult with
      | Err e => (XErr (XeBump e), s)
      | Ok (nf, ex) =>
          let '(rem, outs') := bump_loop true ex ex (x_outs s) in
          if negb (rem =? 0) then (XErr (XeBump EBumpNoChange), s)
          else x_sign (with_outs s outs' nf) vs'        (* self.fee = fee; outputs deleted; sign_and_update() *)
      end
  | XAdd v chg =>
      match Amount.lib_add_output v name with
      | Amount.Ok (Amount.NInt z) => (XOk None, x_append s z chg)
      | _ => (XErr XeAddOut, s)
      end
  | XAddValue rep v chg =>
      match Amount.find_by_name name with
      | None => (XErr XeAddOut, s)
      | Some anw =>
          match Amount.lib_value_init_str v None anw with
          | Amount.Err => (XErr XeAddOut, s)
          | Amount.Ok val =>
              match AmountSession.lib_add_output_value rep val name with
              | Amount.Ok (Amount.NInt z) => (XOk None, x_append s z chg)
              | _ => (XErr XeAddOut, s)
              end
          end
      end
  | XUpdate vs => (XOk None, x_update s vs)
  | XSign vs' => x_sign s vs'
  | XEst => (XOk None, s)
  | XCalc fpk vs =>
      if fpk =? 0 then (XErr XeNoRate, with_fpk s (Some 0))
      else
        let f' := if fpk <? nw_fee_min nw then nw_fee_min nw else if nw_fee_max nw <? fpk then nw_fee_max nw else fpk in
        (XOk (Some (fee_of vs f')), with_fpk s (Some f'))
  end.

(* the session: answer and attributes after every operation *)
Fixpoint x_run (nw : network) (name : B64.str) (s : xstate) (ops : list xop) : list (xres * xstate) :=
  match ops with
  | [] => []
  | o :: r => let a := x_step nw name s o in a :: x_run nw name (snd a) r
  end.

Definition x_net (name : B64.str) : option network :=
  find (fun nw => B64.str_eqb (B64.cps (nw_name nw)) name) all_networks.
