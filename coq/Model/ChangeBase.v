(* Model/ChangeBase.v — encoding.change_base as Mnemonic uses it, and encoding.to_bytes.  Definitions only.

   change_base(chars, base_from, base_to, min_length) (encoding.py l.164-316) does, for the conversions that
   do not take one of its int/bytes shortcuts:
     1. input_dec := sum pos_i * base_from^i                       (l.246-273)  -> [val]
        addzeros  := number of positions whose digit is 0 while everything before it is the zero digit
                     (str/bytes input: the leading zero digits; list input: compares ints with the *bytes*
                     object firstchar, so only the very first element can count)          (l.265-272)
     2. output := minimal digits of input_dec in base_to           (l.278-280)  -> [digits]
     3. zeros := int(addzeros / log(base_to, base_from)); if addzeros == 1: zeros = 1     (l.283-288)
        for _ in range(zeros): if expected_length != len(output): output = [0] + output   (l.297-299)
        with expected_length = len(str(chars)) / log(base_to, base_from)
     4. while len(output) < min_length: output = [0] + output      (l.306-307)  -> [pad_left]
   Digits are integers; the final chr/encode step to str / bytes is the identity on digit values.

   Floating point: for the pairs used here log(base_to, base_from) is 0.125, 11.0, 8.0 exactly and
   0.7272727272727273 (256 from 2048, where addzeros <= 1); int(addzeros / that) equals the integer quotient
   used below for every addzeros < 600 (checked in Python; the correspondence on change_base re-validates it
   on every run).  When chars is a str, expected_length = len(chars)/w is an integer exactly when w divides
   len(chars).  When chars is bytes or a list, str(chars) is the Python repr, at least len+3 (resp. 3*len)
   characters long, so expected_length exceeds any reachable len(output): the guard never fires ([no_hit]). *)
From Coq Require Import ZArith List Bool.
From Coq.Strings Require Import Byte.
From Verif Require Import Lib.Bytes Lib.BitRegroup.
Import ListNotations.
Open Scope Z_scope.

(* while input_dec != 0: input_dec, remainder = divmod(input_dec, base_to); output = [remainder] + output *)
Fixpoint digits_fuel (fuel : nat) (B n : Z) (acc : list Z) : list Z :=
  match fuel with
  | O => acc
  | S f => if n =? 0 then acc else digits_fuel f B (n / B) (n mod B :: acc)
  end.

(* fuel = bit length of n: enough for every base >= 2 *)
Definition digits (B n : Z) : list Z := digits_fuel (S (Z.to_nat (Z.log2 n))) B n [].

Definition pad_left (m : nat) (ds : list Z) : list Z := repeat 0 (m - length ds) ++ ds.

(* for _ in range(z): if not hit(len(output)): output = [0] + output *)
Fixpoint prepend_loop (z : nat) (hit : nat -> bool) (out : list Z) : list Z :=
  match z with
  | O => out
  | S z' => prepend_loop z' hit (if hit (length out) then out else 0 :: out)
  end.

Definition no_hit (_ : nat) : bool := false.

(* zeros for pos_fact = num/den *)
Definition lib_zeros (num den a : Z) : nat :=
  if a =? 1 then 1%nat else Z.to_nat ((a * den) / num).

Definition addzeros_seq (ds : list Z) : Z := Z.of_nat (clz ds).
Definition addzeros_list (ds : list Z) : Z := match ds with d :: _ => if d =? 0 then 1 else 0 | [] => 0 end.

(* change_base(n, 10, 2, min_length): int input, no leading-zero bookkeeping; min_length 0 is refused *)
Definition lib_cb_10_2 (n : Z) (minlen : nat) : option (list Z) :=
  match minlen with
  | O => None
  | _ => Some (pad_left minlen (digits 2 n))
  end.

(* change_base(bytes, 256, 2, min_length) on byte values *)
Definition lib_cb_256_2 (ds : list Z) (minlen : nat) : list Z :=
  let out := digits 2 (val 256 ds) in
  let z := lib_zeros 1 8 (addzeros_seq ds) in
  pad_left minlen (prepend_loop z no_hit out).

(* change_base(bitstring, 2, 2048): list output, no min_length *)
Definition lib_cb_2_2048 (bits : list Z) : list Z :=
  let out := digits 2048 (val 2 bits) in
  let z := lib_zeros 11 1 (addzeros_seq bits) in
  prepend_loop z (fun n => Z.of_nat (length bits) =? 11 * Z.of_nat n) out.

(* change_base(index list, 2048, 256, min_length, output_even=False) *)
Definition lib_cb_2048_256 (wi : list Z) (minlen : nat) : list Z :=
  let out := digits 256 (val 2048 wi) in
  let z := lib_zeros 8 11 (addzeros_list wi) in
  pad_left minlen (prepend_loop z no_hit out).

(* change_base(bitstring, 2, 256, min_length) *)
Definition lib_cb_2_256 (bits : list Z) (minlen : nat) : list Z :=
  let out := digits 256 (val 2 bits) in
  let z := lib_zeros 8 1 (addzeros_seq bits) in
  pad_left minlen (prepend_loop z (fun n => Z.of_nat (length bits) =? 8 * Z.of_nat n) out).

(* ---- encoding.to_bytes(string, unhexlify=True) on a bytes argument (l.797-821):
   empty -> b''; if the bytes decode as text that bytes.fromhex accepts, the unhexlified bytes; else unchanged.
   bytes.fromhex (CPython 3.12): skips ASCII whitespace between pairs, needs two hex digits per pair, anything
   else (including every non-ASCII character) is an error. *)
Definition is_space (b : byte) : bool :=
  let z := bz b in ((9 <=? z) && (z <=? 13)) || (z =? 32).

Definition hexval (b : byte) : option Z :=
  let z := bz b in
  if (48 <=? z) && (z <=? 57) then Some (z - 48)
  else if (97 <=? z) && (z <=? 102) then Some (z - 87)
  else if (65 <=? z) && (z <=? 70) then Some (z - 55)
  else None.

Fixpoint fromhex (s : bytes) : option bytes :=
  match s with
  | [] => Some []
  | c :: r =>
      if is_space c then fromhex r
      else match hexval c, r with
           | Some h, d :: r' =>
               match hexval d with
               | Some l => match fromhex r' with Some t => Some (zb (16 * h + l) :: t) | None => None end
               | None => None
               end
           | _, _ => None
           end
  end.

Definition lib_to_bytes (s : bytes) : bytes :=
  match s with
  | [] => []
  | _ => match fromhex s with Some b => b | None => s end
  end.

(* the entropy is read as hex text *)
Definition hexlike (s : bytes) : bool :=
  match s with
  | [] => false
  | _ => match fromhex s with Some _ => true | None => false end
  end.
