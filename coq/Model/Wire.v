(* Model/Wire.v — C18: CompactSize, script numbers, data pushes, script serialize / parse.
   Definitions only (no proofs), so the model extracts and runs even when a proof breaks.
   lib_*  mirrors /repo (bitcoinlib/encoding.py, bitcoinlib/scripts.py);
   core_* is written from the protocol definition (Bitcoin Core serialize.h / script.h). *)
From Coq Require Import ZArith List Bool.
From Coq.Strings Require Import Byte.
From Verif Require Import Lib.Bytes.
Import ListNotations.
Open Scope Z_scope.

(* ---------- CompactSize ---------- *)

(* encoding.int_to_varbyteint; None = the OverflowError of int.to_bytes (n < 0 or n >= 2^64) *)
Definition lib_cs_enc (n : Z) : option bytes :=
  if n <? 0 then None
  else if n <? 253 then Some (le_bytes 1 n)
  else if n <=? 65535 then Some (xfd :: le_bytes 2 n)
  else if n <=? 4294967295 then Some (xfe :: le_bytes 4 n)
  else if n <? 18446744073709551616 then Some (xff :: le_bytes 8 n)
  else None.

(* encoding.varbyteint_to_int: lax reader, never rejects; returns (value, bytes consumed) *)
Definition lib_cs_dec (l : bytes) : Z * nat :=
  match l with
  | [] => (0, O)
  | b :: r =>
      let ni := bz b in
      if ni <? 253 then (ni, 1%nat)
      else
        let size := if ni =? 253 then 2%nat else if ni =? 254 then 4%nat else 8%nat in
        (of_le (firstn size r), S size)
  end.

(* Bitcoin Core WriteCompactSize *)
Definition core_cs_enc (n : Z) : bytes :=
  if n <? 253 then [zb n]
  else if n <=? 65535 then xfd :: le_bytes 2 n
  else if n <=? 4294967295 then xfe :: le_bytes 4 n
  else xff :: le_bytes 8 n.

(* Bitcoin Core ReadCompactSize (range_check off): rejects truncated and non-canonical forms *)
Definition core_cs_dec (l : bytes) : option (Z * bytes) :=
  match l with
  | [] => None
  | b :: r =>
      let ni := bz b in
      if ni <? 253 then Some (ni, r)
      else if ni =? 253 then
        if (length r <? 2)%nat then None
        else let v := of_le (firstn 2 r) in if v <? 253 then None else Some (v, skipn 2 r)
      else if ni =? 254 then
        if (length r <? 4)%nat then None
        else let v := of_le (firstn 4 r) in if v <? 65536 then None else Some (v, skipn 4 r)
      else
        if (length r <? 8)%nat then None
        else let v := of_le (firstn 8 r) in if v <? 4294967296 then None else Some (v, skipn 8 r)
  end.

(* encoding.varstr: length prefix + data, with the special case b"\0" -> b"\0" *)
Definition lib_varstr (s : bytes) : option bytes :=
  match s with
  | [x00] => Some [x00]
  | _ => match lib_cs_enc (Z.of_nat (length s)) with
         | Some p => Some (p ++ s)
         | None => None
         end
  end.

(* ---------- script numbers ---------- *)

Definition set_high (b : byte) : byte := zb (bz b + 128).
Definition clear_high (b : byte) : byte := zb (bz b mod 128).
Definition high_set (b : byte) : bool := 128 <=? bz b.

(* scripts.encode_num *)
Definition lib_encode_num (z : Z) : bytes :=
  if z =? 0 then []
  else
    let a := Z.abs z in
    let neg := z <? 0 in
    let enc := le_bytes (byte_len a) a in
    let l := last enc x00 in
    if high_set l then enc ++ [if neg then x80 else x00]
    else if neg then removelast enc ++ [set_high l]
    else enc.

(* scripts.decode_num *)
Definition lib_decode_num (e : bytes) : Z :=
  match e with
  | [] => 0
  | _ =>
      let l := last e x00 in
      let num := of_le (removelast e ++ [clear_high l]) in
      if high_set l then - num else num
  end.

(* Bitcoin Core CScriptNum::serialize, with the byte loop on explicit fuel *)
Fixpoint core_abs_bytes (fuel : nat) (a : Z) : bytes :=
  match fuel with
  | O => []
  | S f => if a <=? 0 then [] else zb a :: core_abs_bytes f (a / 256)
  end.

Definition core_scriptnum_ser (z : Z) : bytes :=
  if z =? 0 then []
  else
    let a := Z.abs z in
    let neg := z <? 0 in
    let r := core_abs_bytes (S (Z.to_nat (Z.log2 a))) a in
    let l := last r x00 in
    if high_set l then r ++ [if neg then x80 else x00]
    else if neg then removelast r ++ [set_high l]
    else r.

(* Bitcoin Core CScriptNum::set_vch *)
Definition core_scriptnum_dec (e : bytes) : Z :=
  match e with
  | [] => 0
  | _ =>
      let r := of_le e in
      if high_set (last e x00)
      then - (r - 128 * 256 ^ Z.of_nat (length e - 1))
      else r
  end.

(* Bitcoin Core CScriptNum::IsMinimallyEncoded (without the size limit) *)
Definition core_minimal (e : bytes) : bool :=
  match rev e with
  | [] => true
  | l :: rest =>
      if bz l mod 128 =? 0 then
        match rest with
        | [] => false
        | p :: _ => high_set p
        end
      else true
  end.

(* ---------- data pushes ---------- *)

(* scripts.data_pack; None = OverflowError of len.to_bytes(2) *)
Definition lib_data_pack (d : bytes) : option bytes :=
  let n := Z.of_nat (length d) in
  if n <=? 75 then Some (zb n :: d)
  else if n <=? 255 then Some (x4c :: zb n :: d)
  else if n <=? 65535 then Some (x4d :: le_bytes 2 n ++ d)
  else None.

(* Bitcoin Core CScript::operator<<(vector) restricted to the sizes a script can hold *)
Definition core_push (d : bytes) : bytes :=
  let n := Z.of_nat (length d) in
  if n <? 76 then zb n :: d
  else if n <=? 255 then x4c :: zb n :: d
  else if n <=? 65535 then x4d :: le_bytes 2 n ++ d
  else x4e :: le_bytes 4 n ++ d.

(* ---------- scripts ---------- *)

Inductive cmd := Op (b : byte) | Data (d : bytes).

Definition cmd_eqb (a b : cmd) : bool :=
  match a, b with
  | Op x, Op y => beq x y
  | Data x, Data y => bytes_eqb x y
  | _, _ => false
  end.

(* Script.serialize *)
Fixpoint lib_serialize (cs : list cmd) : option bytes :=
  match cs with
  | [] => Some []
  | c :: r =>
      match (match c with Op b => Some [b] | Data d => lib_data_pack d end), lib_serialize r with
      | Some x, Some y => Some (x ++ y)
      | _, _ => None
      end
  end.

(* The opcode loop of Script.parse_bytesio (strict=True) without the whole-script heuristic and
   without sub-script re-parsing.  None = ScriptError "not enough data".  Fuel = input length + 1. *)
Fixpoint parse_plain_f (fuel : nat) (s : bytes) : option (list cmd) :=
  match fuel with
  | O => None
  | S f =>
      match s with
      | [] => Some []
      | b :: r =>
          let ch := bz b in
          let '(dl, r1) :=
            if (1 <=? ch) && (ch <=? 75) then (ch, r)
            else if ch =? 76 then (of_le (firstn 1 r), skipn 1 r)
            else if ch =? 77 then (of_le (firstn 2 r), skipn 2 r)
            else (0, r) in
          if dl =? 0 then
            match parse_plain_f f r1 with
            | Some cs => Some (Op b :: cs)
            | None => None
            end
          else
            let n := Z.to_nat dl in
            if (length r1 <? n)%nat then None
            else
              match parse_plain_f f (skipn n r1) with
              | Some cs => Some (Data (firstn n r1) :: cs)
              | None => None
              end
      end
  end.

Definition parse_plain (s : bytes) : option (list cmd) := parse_plain_f (S (length s)) s.

(* well-formed command: what "a sequence of opcodes and data items" may contain.
   An opcode command is not one of the push opcodes 0x01..0x4e; a data item is non-empty
   (the empty item is OP_0, i.e. [Op x00]) and fits PUSHDATA2. *)
Definition wf_cmd (c : cmd) : bool :=
  match c with
  | Op b => (bz b =? 0) || (79 <=? bz b)
  | Data d => (1 <=? Z.of_nat (length d)) && (Z.of_nat (length d) <=? 65535)
  end.

(* ---------- the real parser's extra layers ---------- *)

(* scripts.get_data_type on bytes *)
Inductive dtype := DSig | DKey | DData | DOther.

Definition starts_with (d : bytes) (v : Z) : bool :=
  match d with b :: _ => bz b =? v | [] => false end.

Definition get_data_type (d : bytes) : dtype :=
  let n := Z.of_nat (length d) in
  if starts_with d 48 && (69 <=? n) && (n <=? 74) then DSig
  else if ((starts_with d 2 || starts_with d 3) && (n =? 33)) || (starts_with d 4 && (n =? 65)) then DKey
  else if (n =? 20) || (n =? 32) || (n =? 64) || ((1 <=? n) && (n <=? 4)) then DData
  else DOther.

(* items as Script.commands holds them after parsing: ints, bytes, or a nested command list *)
Inductive item := IOp (b : byte) | IData (d : bytes) | IList (l : list item).

(* whole-script heuristic of parse_bytesio (l.330-336): the first byte and the data_length
   argument decide whether the entire input is taken as one data item *)
Definition whole_script_data (first : Z) (data_length : Z) : bool :=
  ((first =? 48) && (69 <=? data_length) && (data_length <=? 74))
  || (((first =? 2) || (first =? 3)) && (data_length =? 33))
  || ((first =? 4) && (data_length =? 65))
  || (data_length =? 64).

(* parse_bytesio's post-processing for script type 'multisig' (blueprint exactly OP_m key.. OP_n CHECKMULTISIG):
   ScriptError when m > #keys or #keys <> n *)
Definition is_opn (b : byte) : bool := (81 <=? bz b) && (bz b <=? 96).

Fixpoint count_keys (l : list item) : nat * list item :=
  match l with
  | IData d :: r =>
      match get_data_type d with
      | DKey => let '(n, r') := count_keys r in (S n, r')
      | _ => (O, l)
      end
  | _ => (O, l)
  end.

Definition multisig_ok (l : list item) : bool :=
  match l with
  | IOp m :: r =>
      if is_opn m then
        let '(k, r') := count_keys r in
        match k, r' with
        | S _, [IOp n; IOp c] =>
            if is_opn n && (bz c =? 174)
            then (bz m - 80 <=? Z.of_nat k) && (Z.of_nat k =? bz n - 80)
            else true
        | _, _ => true
        end
      else true
  | _ => true
  end.

(* result of the real parser: items, ScriptError/IndexError (caught by an enclosing level, which
   then keeps the bytes as plain data), or any other exception (propagates to the caller) *)
Inductive pres := POk (l : list item) | PSoft | PHard.

Section LibParse.
  (* oracles: does Signature.parse_bytes / Key(...) accept this item?  (they raise otherwise:
     a signature failure is re-raised as ScriptError, a key failure propagates as it is) *)
  Variable sig_ok : bytes -> bool.
  Variable key_ok : bytes -> bool.

  (* One pass of the loop at nesting level [lvl] (0 or 1) given the plain command list.
     [sub] is the level-1 parser used for "other" data at level 0. *)
  Fixpoint classify (lvl : nat) (sub : bytes -> pres) (prev_is_return : bool)
           (cs : list cmd) : pres :=
    match cs with
    | [] => POk []
    | Op b :: r =>
        match classify lvl sub (bz b =? 106) r with
        | POk t => POk (IOp b :: t)
        | e => e
        end
    | Data d :: r =>
        let this :=
          match get_data_type d with
          | DSig => if sig_ok d then POk [IData d] else PSoft
          | DKey => if key_ok d then POk [IData d] else PHard
          | DData => POk [IData d]
          | DOther =>
              if prev_is_return then POk [IData d]
              else match lvl with
                   | O => match sub d with
                          | POk l => POk [IList l]
                          | PSoft => POk [IData d]
                          | PHard => PHard
                          end
                   | _ => POk [IData d]
                   end
          end in
        match this with
        | POk i =>
            match classify lvl sub false r with
            | POk t => POk (i ++ t)
            | e => e
            end
        | e => e
        end
    end.

  (* parse_bytesio at a given level with a given data_length argument *)
  Definition parse_level (lvl : nat) (sub : bytes -> pres) (data_length : Z)
             (s : bytes) : pres :=
    match s with
    | [] => POk []
    | b :: r =>
        if whole_script_data (bz b) data_length then
          (* reads data_length-1 further bytes as one item, then continues plainly *)
          let n := Z.to_nat (data_length - 1) in
          let d := b :: firstn n r in
          match parse_plain (skipn n r) with
          | Some cs => classify lvl sub false (Data d :: cs)
          | None => PSoft
          end
        else
          match parse_plain s with
          | Some cs => classify lvl sub false cs
          | None => PSoft
          end
    end.

  Definition unwrap1 (l : list item) : list item :=
    match l with
    | [IList x] => x
    | _ => l
    end.

  Definition unwrap_res (r : pres) : pres :=
    match r with
    | POk l => let u := unwrap1 l in if multisig_ok u then POk u else PSoft
    | e => e
    end.

  (* level 1: Script.parse_bytes(data, _level=1) *)
  Definition parse_sub (d : bytes) : pres :=
    unwrap_res (parse_level 1 (fun _ => PSoft) (Z.of_nat (length d)) d).

  (* Script.parse_bytes / parse_hex (data_length = len) and Script.parse(bytes) (data_length = len/2) *)
  Definition lib_parse_dl (data_length : Z) (s : bytes) : pres :=
    unwrap_res (parse_level 0 parse_sub data_length s).

  Definition lib_parse_bytes (s : bytes) : pres := lib_parse_dl (Z.of_nat (length s)) s.
  Definition lib_parse_generic (s : bytes) : pres := lib_parse_dl (Z.of_nat (length s) / 2) s.
End LibParse.

Definition items_of_cmds (cs : list cmd) : list item :=
  map (fun c => match c with Op b => IOp b | Data d => IData d end) cs.

(* Script.serialize on parsed items: a nested list is passed through bytes(list), which works only
   for a list of ints (opcodes) and raises TypeError otherwise (None) *)
Fixpoint ops_only (l : list item) : option bytes :=
  match l with
  | [] => Some []
  | IOp b :: r => match ops_only r with Some t => Some (b :: t) | None => None end
  | _ :: _ => None
  end.

Fixpoint lib_serialize_items (l : list item) : option bytes :=
  match l with
  | [] => Some []
  | i :: r =>
      let this :=
        match i with
        | IOp b => Some [b]
        | IData d => lib_data_pack d
        | IList x => match ops_only x with Some d => lib_data_pack d | None => None end
        end in
      match this, lib_serialize_items r with
      | Some x, Some y => Some (x ++ y)
      | _, _ => None
      end
  end.

(* guard under which the real parser is the plain parser: every data item is of a recognised
   plain-data length, or follows OP_RETURN; and the whole-script heuristic does not fire *)
Fixpoint inert_from (prev_is_return : bool) (cs : list cmd) : bool :=
  match cs with
  | [] => true
  | Op b :: r => inert_from (bz b =? 106) r
  | Data d :: r =>
      (match get_data_type d with
       | DData => true
       | DOther => prev_is_return
       | _ => false
       end) && inert_from false r
  end.
