(* Model/Multisig.v — C10: multisig cosigner wallets (bitcoinlib/wallets.py, transactions.py, scripts.py).
   Definitions only.  [lib_*] / [ms_*] mirror the code as it is, [spec_*] is written from BIP11 / BIP67.

   Wallet.create(keys=[...], sigs_required=m, sort_keys, cosigner_id):
       if sort_keys: hdkey_list.sort(key=lambda x: x.public_byte)            # the SUPPLIED keys
       cos_prv_lst = [hdkey_list.index(cw) for cw in hdkey_list if cw.is_private]
       if cosigner_id is None: (error unless exactly one private key)  cosigner_id = cos_prv_lst[0]
       one cosigner sub-wallet per key, in hdkey_list order
   Wallet.keys_for_path -> every cosigner sub-wallet derives its child key for the path (same cosigner_id,
   change, address_index in all of them), then
   Wallet._new_key_multisig(public_keys, ...):
       if self.sort_keys: public_keys.sort(key=lambda pubk: pubk.key_public)  # the DERIVED child keys
       redeemscript = Script(script_types=['multisig'], keys=[...], sigs_required=m).serialize()
       address = Address(redeemscript, script_type = p2sh | p2sh_p2wsh | p2wsh)
   Python compares bytes lexicographically by unsigned byte value, a proper prefix being smaller; list.sort is
   stable.  *)
From Coq Require Import ZArith List Bool Arith Sorted.
From Coq.Strings Require Import Byte.
From Verif Require Import Lib.Bytes Model.Wire.
Import ListNotations.
Open Scope Z_scope.

(* ---------- order on byte strings (bytes.__le__) and the stable sort (list.sort(key=...)) ---------- *)
Fixpoint bytes_leb (a b : bytes) : bool :=
  match a, b with
  | [], _ => true
  | _ :: _, [] => false
  | x :: a', y :: b' =>
      if bz x <? bz y then true else if bz y <? bz x then false else bytes_leb a' b'
  end.

Section Sort.
  Context {A : Type}.
  Variable key : A -> bytes.
  (* x is put in front of the first element whose key is not smaller: equal keys keep their input order *)
  Fixpoint ms_insert (x : A) (l : list A) : list A :=
    match l with
    | [] => [x]
    | y :: r => if bytes_leb (key x) (key y) then x :: y :: r else y :: ms_insert x r
    end.
  Fixpoint ms_sort (l : list A) : list A :=
    match l with
    | [] => []
    | x :: r => ms_insert x (ms_sort r)
    end.
End Sort.

(* ---------- Wallet.create: order of the supplied keys, cosigner_id ---------- *)
Record cosigner := { co_master : bytes;       (* public_byte of the key as SUPPLIED to this wallet *)
                     co_private : bool;       (* supplied with its private part *)
                     co_who : Z }.            (* which participant it belongs to (bookkeeping only) *)

Definition lib_cosigner_order (keys : list cosigner) (sort_keys : bool) : list cosigner :=
  if sort_keys then ms_sort co_master keys else keys.

Fixpoint private_positions (i : Z) (l : list cosigner) : list Z :=
  match l with
  | [] => []
  | c :: r => if co_private c then i :: private_positions (i + 1) r else private_positions (i + 1) r
  end.

(* None = WalletError ("does not contain any private keys" / "more then 1 private key") *)
Definition lib_cosigner_id (keys : list cosigner) (sort_keys : bool) (given : option Z) : option Z :=
  match given with
  | Some c => Some c
  | None => match private_positions 0 (lib_cosigner_order keys sort_keys) with
            | [p] => Some p
            | _ => None
            end
  end.

(* position that a wallet assigns to participant [who] *)
Fixpoint position_of (who : Z) (i : Z) (l : list cosigner) : option Z :=
  match l with
  | [] => None
  | c :: r => if co_who c =? who then Some i else position_of who (i + 1) r
  end.
Definition lib_position (keys : list cosigner) (sort_keys : bool) (who : Z) : option Z :=
  position_of who 0 (lib_cosigner_order keys sort_keys).

(* ---------- key structure (WALLET_KEY_STRUCTURES / path_expand) ---------- *)
Inductive wkind := Legacy | P2shSegwit | Segwit.      (* witness_type legacy / p2sh-segwit / segwit *)
Definition lib_purpose (k : wkind) : Z := match k with Legacy => 45 | _ => 48 end.
Definition lib_script_type_id (k : wkind) : Z := match k with P2shSegwit => 1 | _ => 2 end.
Inductive pelem := Hard (i : Z) | Soft (i : Z).
(*  KEY_PATH_P2SH  = m / purpose' / cosigner_index / change / address_index
    KEY_PATH_P2WSH = m / purpose' / coin_type' / account' / script_type' / change / address_index       *)
Definition lib_key_path (k : wkind) (coin account cosigner_id change idx : Z) : list pelem :=
  match k with
  | Legacy => [Hard 45; Soft cosigner_id; Soft change; Soft idx]
  | _ => [Hard 48; Hard coin; Hard account; Hard (lib_script_type_id k); Soft change; Soft idx]
  end.

(* ---------- redeem script ---------- *)
Definition op_n (k : Z) : byte := zb (80 + k).
Definition x_checkmultisig : byte := xae.

(* Script(script_types=['multisig'], keys, sigs_required).serialize():
   template ['op_n', 'key', 'op_n', OP_CHECKMULTISIG]; ints -> bytes([c]); data -> data_pack *)
Definition lib_multisig_script (m : Z) (ks : list bytes) : option bytes :=
  lib_serialize (Op (op_n m) :: map Data ks ++ [Op (op_n (Z.of_nat (length ks))); Op x_checkmultisig]).

Definition lib_redeemscript (child_pubs : list bytes) (m : Z) (sort_keys : bool) : option bytes :=
  lib_multisig_script m (if sort_keys then ms_sort (fun k => k) child_pubs else child_pubs).

(* a participant as seen by one wallet for one path: supplied key + derived child public key *)
Definition lib_wallet_child_order (keys : list (cosigner * bytes)) (sort_keys : bool) : list (cosigner * bytes) :=
  let cos := if sort_keys then ms_sort (fun cb => co_master (fst cb)) keys else keys in   (* Wallet.create *)
  if sort_keys then ms_sort snd cos else cos.                                             (* _new_key_multisig *)
Definition lib_wallet_redeemscript (keys : list (cosigner * bytes)) (m : Z) (sort_keys : bool) : option bytes :=
  lib_multisig_script m (map snd (lib_wallet_child_order keys sort_keys)).

(* BIP11: OP_m <pubkey 1> ... <pubkey n> OP_n OP_CHECKMULTISIG with minimal pushes;
   BIP67: the public keys in lexicographical order of their byte strings *)
Definition spec_multisig_script (m : Z) (sorted_keys : list bytes) : bytes :=
  [op_n m] ++ concat (map core_push sorted_keys) ++ [op_n (Z.of_nat (length sorted_keys)); x_checkmultisig].

Inductive lex_lt : bytes -> bytes -> Prop :=
| lex_nil : forall y b, lex_lt [] (y :: b)
| lex_head : forall x y a b, bz x < bz y -> lex_lt (x :: a) (y :: b)
| lex_tail : forall x a b, lex_lt a b -> lex_lt (x :: a) (x :: b).
Definition lex_le (a b : bytes) : Prop := a = b \/ lex_lt a b.
Definition bip67_sorted (l : list bytes) : Prop := StronglySorted lex_le l.

(* a compressed / uncompressed SEC public key: 33 or 65 bytes *)
Definition is_pubkey (k : bytes) : Prop := length k = 33%nat \/ length k = 65%nat.

(* ---------- the three address kinds, as functions of the redeem script ----------
   Address(redeemscript, script_type=...): p2sh -> hash160(rs); p2wsh -> sha256(rs);
   p2sh_p2wsh -> hash160(00 ‖ varstr(sha256(rs))) *)
Section Addr.
  Variable H160 H256 : bytes -> bytes.
  Definition lib_script_hash (k : wkind) (rs : bytes) : option bytes :=
    match k with
    | Legacy => Some (H160 rs)
    | Segwit => Some (H256 rs)
    | P2shSegwit => match lib_varstr (H256 rs) with
                    | Some v => Some (H160 (x00 :: v))
                    | None => None
                    end
    end.
  Definition lib_wallet_address_hash (k : wkind) (keys : list (cosigner * bytes)) (m : Z) (sort_keys : bool)
    : option bytes :=
    match lib_wallet_redeemscript keys m sort_keys with
    | Some rs => lib_script_hash k rs
    | None => None
    end.
End Addr.

(* =====================================================================================================
   Signature collection.  Within one input a key is named by the participant it belongs to; the input's
   key list [keys] gives the participants in redeem-script order.  A signature is (signer, tag):
   tag = Signature.public_key (None after parsing from dict / raw).  A signature of participant b is valid
   for the key of participant k iff b = k (distinct participants have distinct keys).
   ===================================================================================================== *)
Record msig := { sg_by : Z; sg_tag : option Z }.
Definition ms_mk (c : Z) : msig := {| sg_by := c; sg_tag := Some c |}.      (* sign(): public_key = signer *)
Definition ms_retag (s : msig) (k : Z) : msig := {| sg_by := sg_by s; sg_tag := Some k |}.
Definition ms_untag (s : msig) : msig := {| sg_by := sg_by s; sg_tag := None |}.
Definition ms_tag_is (k : Z) (s : msig) : bool := match sg_tag s with Some t => t =? k | None => false end.

(* Input.verify, with its side effect: keys.verify(hash, sig, key) assigns sig.public_key = key before
   checking.  The "try previous signature" retry (see C02, dup_point_keys) can only succeed when two listed
   keys are the same curve point; cosigner keys are pairwise distinct, so it is omitted here. *)
Fixpoint ms_verify_run (keys : list Z) (sigs : list msig) (need : nat) {struct keys} : bool * list msig :=
  match need with
  | O => (true, sigs)
  | S need' =>
    match keys with
    | [] => (false, sigs)
    | k :: ks =>
      match sigs with
      | [] => (false, [])
      | s :: ss =>
        if sg_by s =? k then let (r, l) := ms_verify_run ks ss need' in (r, ms_retag s k :: l)
        else ms_verify_run ks (ms_retag s k :: ss) need
      end
    end
  end.

Definition ms_input_verify (keys : list Z) (sigs : list msig) (m : nat) : bool * list msig :=
  match sigs with
  | [] => (false, [])
  | _ => ms_verify_run keys sigs m
  end.

Record minput := { mi_keys : list Z; mi_sigs : list msig }.
Definition mi_with (x : minput) (l : list msig) : minput := {| mi_keys := mi_keys x; mi_sigs := l |}.

(* Transaction.verify: inputs in order, stop at the first one that fails (later inputs are not visited,
   so their signatures are not re-tagged) *)
Fixpoint ms_tx_verify (m : nat) (ins : list minput) : bool * list minput :=
  match ins with
  | [] => (true, [])
  | x :: r =>
    let (ok, l) := ms_input_verify (mi_keys x) (mi_sigs x) m in
    if ok then let (b, r') := ms_tx_verify m r in (b, mi_with x l :: r')
    else (false, mi_with x l :: r)
  end.

(* ---------- Transaction.sign for one input and the one private key of participant c ---------- *)
Fixpoint ms_index_of (x : Z) (l : list Z) : option nat :=
  match l with
  | [] => None
  | y :: r => if x =? y then Some O else option_map S (ms_index_of x r)
  end.

Fixpoint ms_set_nth {A : Type} (n : nat) (x : A) (l : list A) : list A :=
  match l, n with
  | [], _ => []
  | _ :: r, O => x :: r
  | y :: r, S n' => y :: ms_set_nth n' x r
  end.

(*  n_sigs_to_insert = len(signatures)
    for sig in signatures:
        if not sig.public_key: break
        newsig_pos = pub_key_list.index(sig.public_key.public_byte)          # ValueError when absent
        if sig_domain[newsig_pos] == '': sig_domain[newsig_pos] = sig; n_sigs_to_insert -= 1          *)
Fixpoint ms_place_known (keys : list Z) (old : list msig) (dom : list (option msig)) (n_ins : nat)
  : option (list (option msig) * nat) :=
  match old with
  | [] => Some (dom, n_ins)
  | s :: r =>
    match sg_tag s with
    | None => Some (dom, n_ins)
    | Some t =>
      match ms_index_of t keys with
      | None => None
      | Some pos =>
        match nth pos dom None with
        | None => ms_place_known keys r (ms_set_nth pos (Some s) dom) (pred n_ins)
        | Some _ => ms_place_known keys r dom n_ins
        end
      end
    end
  end.

(*  if n_sigs_to_insert:
        for sig in signatures:                    # all of them, also those already placed
            free_positions = [i for i, s in enumerate(sig_domain) if s == '']
            for pos in free_positions: sig_domain[pos] = sig; n_sigs_to_insert -= 1; break            *)
Fixpoint ms_fill_first (s : msig) (dom : list (option msig)) : list (option msig) :=
  match dom with
  | [] => []
  | None :: r => Some s :: r
  | Some x :: r => Some x :: ms_fill_first s r
  end.
Fixpoint ms_fill_free (old : list msig) (dom : list (option msig)) : list (option msig) :=
  match old with
  | [] => dom
  | s :: r => ms_fill_free r (ms_fill_first s dom)
  end.
Fixpoint ms_somes {A : Type} (l : list (option A)) : list A :=
  match l with
  | [] => []
  | Some x :: r => x :: ms_somes r
  | None :: r => ms_somes r
  end.

(* WalletTransaction.sign -> Transaction.sign(priv_keys_of_this_wallet, index_n, fail_on_unknown_key=False,
   replace_signatures=False).  [c] = the participant whose private key this wallet holds (None: watch-only).
   Unknown key -> continue; already signed (key in [x.public_key ...]) -> break; n_signs = 0 -> nothing
   happens.  None = ValueError from pub_key_list.index. *)
Definition ms_sign_input (keys : list Z) (sigs : list msig) (c : option Z) : option (list msig) :=
  match c with
  | None => Some sigs
  | Some c =>
    match ms_index_of c keys with
    | None => Some sigs
    | Some pos =>
      if existsb (ms_tag_is c) sigs then Some sigs
      else
        let dom0 := ms_set_nth pos (Some (ms_mk c)) (repeat None (length keys)) in
        match ms_place_known keys sigs dom0 (length sigs) with
        | None => None
        | Some (dom1, n_ins) =>
          Some (ms_somes (match n_ins with O => dom1 | S _ => ms_fill_free sigs dom1 end))
        end
    end
  end.

Fixpoint ms_sign_all (ins : list minput) (c : option Z) : option (list minput) :=
  match ins with
  | [] => Some []
  | x :: r =>
    match ms_sign_input (mi_keys x) (mi_sigs x) c, ms_sign_all r c with
    | Some l, Some r' => Some (mi_with x l :: r')
    | _, _ => None
    end
  end.

(* ---------- hand-off channels ---------- *)
Inductive handoff := HObject | HDict | HRaw.

(* Input.__init__: a signature is appended only if its DER form is not already present *)
Fixpoint ms_dedup (seen : list Z) (l : list msig) : list msig :=
  match l with
  | [] => []
  | s :: r => if existsb (Z.eqb (sg_by s)) seen then ms_dedup seen r else s :: ms_dedup (sg_by s :: seen) r
  end.

(* what the importing wallet's Input receives:
   object: the Signature objects themselves (tags kept);
   dict:   Input.as_dict()['signatures'] = r‖s hex of every signature -> Signature.parse: no public key;
   raw:    update_scripts writes signatures[:m] into the unlocking script / witness only once there are at
           least m of them; a partially signed input serialises without any signature *)
Definition ms_channel (h : handoff) (m : nat) (sigs : list msig) : list msig :=
  match h with
  | HObject => ms_dedup [] sigs
  | HDict => ms_dedup [] (map ms_untag sigs)
  | HRaw => if Nat.leb m (length sigs) then ms_dedup [] (map ms_untag (firstn m sigs)) else []
  end.

(* ---------- ceremonies ---------- *)
Inductive mop :=
| MSign (c : option Z)                 (* WalletTransaction.sign() in the current wallet; ends with verify() *)
| MHand (h : handoff)                  (* import into another wallet; ends with verify() *)
| MSend.                               (* send(): pushed iff verified or verify() *)

Inductive mobs :=
| ObState (verified : bool) (ins : list (list msig))
| ObPushed (b : bool)
| ObRaise.

Record mstate := { st_ins : list minput; st_verified : bool }.

Definition ms_step (m : nat) (st : mstate) (o : mop) : mstate * mobs :=
  match o with
  | MSign c =>
    match ms_sign_all (st_ins st) c with
    | None => (st, ObRaise)
    | Some ins1 =>
      let (v, ins2) := ms_tx_verify m ins1 in
      ({| st_ins := ins2; st_verified := v |}, ObState v (map mi_sigs ins2))
    end
  | MHand h =>
    let ins1 := map (fun x => mi_with x (ms_channel h m (mi_sigs x))) (st_ins st) in
    let (v, ins2) := ms_tx_verify m ins1 in
    ({| st_ins := ins2; st_verified := v |}, ObState v (map mi_sigs ins2))
  | MSend =>
    if st_verified st then (st, ObPushed true)
    else let (v, ins2) := ms_tx_verify m (st_ins st) in
         ({| st_ins := ins2; st_verified := v |}, ObPushed v)
  end.

Fixpoint ms_run (m : nat) (st : mstate) (ops : list mop) : list mobs :=
  match ops with
  | [] => []
  | o :: r => let (st', ob) := ms_step m st o in ob :: ms_run m st' r
  end.

Fixpoint ms_final (m : nat) (st : mstate) (ops : list mop) : mstate :=
  match ops with
  | [] => st
  | o :: r => ms_final m (fst (ms_step m st o)) r
  end.

(* a freshly created, unsigned transaction (transaction_create ends without verify(): verified = False) *)
Definition ms_init (keyss : list (list Z)) : mstate :=
  {| st_ins := map (fun ks => {| mi_keys := ks; mi_sigs := [] |}) keyss; st_verified := false |}.

(* participants in redeem-script order for one input: who owns the i-th key of the script *)
Definition lib_script_owners (keys : list (cosigner * bytes)) (sort_keys : bool) : list Z :=
  map (fun cb => co_who (fst cb)) (lib_wallet_child_order keys sort_keys).

(* ---------- vocabulary of the signature-collection theorems ---------- *)
Definition ms_mem (k : Z) (S : list Z) : bool := existsb (Z.eqb k) S.
(* the signatures of the participants in S that own a key of the input, in key order, each carrying its key *)
Definition ms_sigs_of (keys S : list Z) : list msig := map ms_mk (filter (fun k => ms_mem k S) keys).

(* participants that have called sign() so far (S = those before [ops]) *)
Fixpoint ms_signers (S : list Z) (ops : list mop) : list Z :=
  match ops with
  | [] => S
  | MSign (Some c) :: r => ms_signers (c :: S) r
  | _ :: r => ms_signers S r
  end.

(* the chains covered by m_signers_suffice: hand-offs by object at any time, by dict while at most m
   signatures have been collected (one input), never by raw *)
Fixpoint ms_chain_ok (keys : list Z) (m : nat) (S : list Z) (ops : list mop) : bool :=
  match ops with
  | [] => true
  | MSign (Some c) :: r => ms_chain_ok keys m (c :: S) r
  | MHand HDict :: r => Nat.leb (length (ms_sigs_of keys S)) m && ms_chain_ok keys m S r
  | MHand HRaw :: r => false
  | _ :: r => ms_chain_ok keys m S r
  end.

(* =====================================================================================================
   The fields a signature commits to, how a spend is created, and what each hand-off channel does to them.

   Wallet.transaction_create(output_arr, input_arr, fee, min_confirms, locktime, number_of_change_outputs,
                             random_output_order=False, replace_by_fee):
       transaction = WalletTransaction(locktime=locktime, replace_by_fee=...)           # version 1
       if not locktime and self.anti_fee_sniping:
           blockcount = srv.blockcount();  if blockcount: transaction.locktime = blockcount
       sequence = 0xffffffff
       if replace_by_fee: sequence = SEQUENCE_REPLACE_BY_FEE (0xfffffffd)
       elif 0 < transaction.locktime < 0xffffffff: sequence = SEQUENCE_ENABLE_LOCKTIME (0xfffffffe)
       inputs: selected UTXOs / tuples get [sequence]; an Input OBJECT keeps its own inp.sequence
       change = total_in - total_out - fee;  < 0 -> WalletError;  <= dust_amount -> added to the fee, no change
       else number_of_change_outputs outputs to fresh change keys (amounts random when more than one: only their
       number and sum are modelled; the minimum-size test for several change outputs is not modelled)
   An outpoint, a script code and a destination are abstract names here (Z); the amounts are real.
   ===================================================================================================== *)
Record mtxin := { ti_prev : Z;      (* which unspent output *)
                  ti_seq : Z;       (* nSequence *)
                  ti_value : Z;     (* amount of the output being spent (committed to by BIP143) *)
                  ti_code : Z }.    (* script code = redeem script of the address row it spends *)
Record mtxout := { to_dest : Z;     (* j >= 0: j-th requested destination; -1-j: j-th change output *)
                   to_value : Z }.
Record mfields := { tf_version : Z; tf_locktime : Z; tf_ins : list mtxin; tf_outs : list mtxout }.

Definition x_seq_final : Z := 4294967295.
Definition x_seq_locktime : Z := 4294967294.
Definition x_seq_rbf : Z := 4294967293.

Definition lib_tx_locktime (afs : bool) (blockcount locktime : Z) : Z :=
  if (locktime =? 0) && afs then (if blockcount =? 0 then locktime else blockcount) else locktime.

Definition lib_default_sequence (rbf : bool) (tx_locktime : Z) : Z :=
  if rbf then x_seq_rbf
  else if (0 <? tx_locktime) && (tx_locktime <? 4294967295) then x_seq_locktime else x_seq_final.

Record menv := { ev_blockcount : Z;      (* Service.blockcount() *)
                 ev_dust : Z;            (* network.dust_amount *)
                 ev_confirms : Z }.      (* confirmations of every unspent output the provider reports *)

Record mspend := { sp_rbf : bool; sp_locktime : Z; sp_fee : Z;
                   sp_outs : list Z;                 (* requested outputs: amounts, destination j = position *)
                   sp_nchange : nat;                 (* number_of_change_outputs (>= 1) *)
                   sp_ins : list (Z * Z * Z);        (* (outpoint, amount, script code) of the inputs used *)
                   sp_minconf : option Z }.          (* Some c: inputs chosen by select_inputs(min_confirms=c) *)

Definition zsum (l : list Z) : Z := fold_right Z.add 0 l.

Fixpoint lib_change_outs (j : nat) (n : nat) (first rest : Z) : list mtxout :=
  match n with
  | O => []
  | S n' => {| to_dest := -1 - Z.of_nat j; to_value := match j with O => first | _ => rest end |}
            :: lib_change_outs (S j) n' first rest
  end.

Fixpoint lib_requested_outs (j : Z) (l : list Z) : list mtxout :=
  match l with
  | [] => []
  | v :: r => {| to_dest := j; to_value := v |} :: lib_requested_outs (j + 1) r
  end.

(* None = WalletError *)
Definition lib_create_fields (ev : menv) (afs : bool) (sp : mspend) : option mfields :=
  let lt := lib_tx_locktime afs (ev_blockcount ev) (sp_locktime sp) in
  let sq := lib_default_sequence (sp_rbf sp) lt in
  let change := zsum (map (fun i => snd (fst i)) (sp_ins sp)) - zsum (sp_outs sp) - sp_fee sp in
  let starved := match sp_minconf sp with Some c => ev_confirms ev <? c | None => false end in
  if starved then None
  else if change <? 0 then None
  else
    let n := Z.of_nat (sp_nchange sp) in
    let cho := if change <=? ev_dust ev then []
               else lib_change_outs 0 (sp_nchange sp) (change - (n - 1) * (change / n)) (change / n) in
    Some {| tf_version := 1; tf_locktime := lt;
            tf_ins := map (fun i => {| ti_prev := fst (fst i); ti_seq := sq; ti_value := snd (fst i);
                                       ti_code := snd i |}) (sp_ins sp);
            tf_outs := lib_requested_outs 0 (sp_outs sp) ++ cho |}.

Definition tf_with_seq (sq : Z) (f : mfields) : mfields :=
  {| tf_version := tf_version f; tf_locktime := tf_locktime f;
     tf_ins := map (fun i => {| ti_prev := ti_prev i; ti_seq := sq; ti_value := ti_value i; ti_code := ti_code i |})
                   (tf_ins f);
     tf_outs := tf_outs f |}.
Definition tf_with_locktime (lt : Z) (f : mfields) : mfields :=
  {| tf_version := tf_version f; tf_locktime := lt; tf_ins := tf_ins f; tf_outs := tf_outs f |}.

(* what the importing wallet (anti_fee_sniping = afs) rebuilds:
   object: transaction_create(t.outputs, t.inputs, fee=t.fee): Input objects keep their sequence, values and
           scripts; locktime, version are copied from t afterwards;
   dict:   inputs become tuples (prev_txid, output_n, None, value, signatures, script, address, sequence);
           locktime, version copied afterwards;
   raw:    transaction_create(parsed outputs, parsed inputs, locktime=t.locktime): sequences come with the parsed
           Input objects, amounts from this wallet's own records; locktime, version are copied afterwards.
   Every channel carries every committed field (since fixes C10-3 and C10-4). *)
Definition ms_channel_fields (h : handoff) (afs : bool) (blockcount : Z) (f : mfields) : mfields := f.

Definition mtxin_eqb (a b : mtxin) : bool :=
  (ti_prev a =? ti_prev b) && (ti_seq a =? ti_seq b) && (ti_value a =? ti_value b) && (ti_code a =? ti_code b).
Definition mtxout_eqb (a b : mtxout) : bool := (to_dest a =? to_dest b) && (to_value a =? to_value b).
Fixpoint list_eqb {A : Type} (eqb : A -> A -> bool) (l1 l2 : list A) : bool :=
  match l1, l2 with
  | [], [] => true
  | x :: r1, y :: r2 => eqb x y && list_eqb eqb r1 r2
  | _, _ => false
  end.
Definition mfields_eqb (a b : mfields) : bool :=
  (tf_version a =? tf_version b) && (tf_locktime a =? tf_locktime b) &&
  list_eqb mtxin_eqb (tf_ins a) (tf_ins b) && list_eqb mtxout_eqb (tf_outs a) (tf_outs b).

(* ---------- ceremonies over committed fields ----------
   A signature is valid for a key only over the fields it was made for.  Every distinct value of the fields met
   in a chain gets an epoch number (position in [cs_seen]); the signature of participant c made in epoch e is
   stored with sg_by = c + 16 * e (at most 15 cosigners).  A step in epoch e is the plain step of above applied
   to the state whose key names are shifted into the epoch (k + 16 * e): a signature of another epoch then
   matches no key.  Tags (public keys, the same in every epoch) are stored unshifted. *)
Definition ep_shift (d : Z) (s : msig) : msig :=
  {| sg_by := sg_by s; sg_tag := option_map (fun t => t + d) (sg_tag s) |}.
Definition ep_input (d : Z) (x : minput) : minput :=
  {| mi_keys := map (fun k => k + d) (mi_keys x); mi_sigs := map (ep_shift d) (mi_sigs x) |}.
Definition ep_state (d : Z) (st : mstate) : mstate :=
  {| st_ins := map (ep_input d) (st_ins st); st_verified := st_verified st |}.
Definition ep_obs (d : Z) (o : mobs) : mobs :=
  match o with
  | ObState v ins => ObState v (map (map (ep_shift d)) ins)
  | o => o
  end.

(* WalletTransaction.sign(keys=[child private key]) in a wallet without private keys: Transaction.sign is called for
   every input with that one key; an input whose key list does not contain it is skipped (fail_on_unknown_key =
   False).  A child key belongs to ONE address: [mask] says which inputs spend that address. *)
Fixpoint ms_sign_some (ins : list minput) (mask : list bool) (c : Z) : option (list minput) :=
  match ins with
  | [] => Some []
  | x :: r =>
    let hit := match mask with b :: _ => b | [] => false end in
    match (if hit then ms_sign_input (mi_keys x) (mi_sigs x) (Some c) else Some (mi_sigs x)),
          ms_sign_some r (tl mask) c with
    | Some l, Some r' => Some (mi_with x l :: r')
    | _, _ => None
    end
  end.

Definition ms_step_key (m : nat) (st : mstate) (c : Z) (mask : list bool) : mstate * mobs :=
  match ms_sign_some (st_ins st) mask c with
  | None => (st, ObRaise)
  | Some ins1 =>
    let (v, ins2) := ms_tx_verify m ins1 in
    ({| st_ins := ins2; st_verified := v |}, ObState v (map mi_sigs ins2))
  end.

Inductive cop :=
| CSign (c : option Z)
| CHand (h : handoff) (afs : bool)       (* afs: anti_fee_sniping of the importing wallet *)
| CSend
| CSignKey (c : Z) (mask : list bool).   (* sign(keys=[one child key of participant c]) in a watch-only wallet *)
(* the op of the plain ceremony (no meaning for CSignKey, which the plain ceremony does not have) *)
Definition cop_plain (o : cop) : mop :=
  match o with CSign c => MSign c | CHand h _ => MHand h | CSend => MSend | CSignKey _ _ => MSign None end.
Definition cs_plain_step (m : nat) (d : Z) (st : mstate) (o : cop) : mstate * mobs :=
  match o with
  | CSign (Some c) => ms_step m st (MSign (Some (c + d)))
  | CSignKey c mask => ms_step_key m st (c + d) mask
  | o => ms_step m st (cop_plain o)
  end.

Record cstate := { cs_st : mstate; cs_fields : mfields; cs_seen : list mfields; cs_epoch : nat }.

Fixpoint ep_find (f : mfields) (seen : list mfields) : option nat :=
  match seen with
  | [] => None
  | g :: r => if mfields_eqb f g then Some O else option_map S (ep_find f r)
  end.

Definition cs_step (m : nat) (blockcount : Z) (cs : cstate) (o : cop) : cstate * mobs :=
  let f' := match o with CHand h afs => ms_channel_fields h afs blockcount (cs_fields cs) | _ => cs_fields cs end in
  let (e', seen') := match ep_find f' (cs_seen cs) with
                     | Some e => (e, cs_seen cs)
                     | None => (length (cs_seen cs), cs_seen cs ++ [f'])
                     end in
  let d := 16 * Z.of_nat e' in
  let (st', ob) := cs_plain_step m d (ep_state d (cs_st cs)) o in
  ({| cs_st := ep_state (- d) st'; cs_fields := f'; cs_seen := seen'; cs_epoch := e' |}, ep_obs (- d) ob).

Fixpoint cs_run (m : nat) (bc : Z) (cs : cstate) (ops : list cop) : list (mobs * mfields * nat) :=
  match ops with
  | [] => []
  | o :: r => let (cs', ob) := cs_step m bc cs o in (ob, cs_fields cs', cs_epoch cs') :: cs_run m bc cs' r
  end.

Fixpoint cs_final (m : nat) (bc : Z) (cs : cstate) (ops : list cop) : cstate :=
  match ops with
  | [] => cs
  | o :: r => cs_final m bc (fst (cs_step m bc cs o)) r
  end.

Definition cs_init (f : mfields) (keyss : list (list Z)) : cstate :=
  {| cs_st := ms_init keyss; cs_fields := f; cs_seen := [f]; cs_epoch := O |}.

(* the chains covered by m_signers_suffice_committed: those of ms_chain_ok (no per-address key signing) *)
Fixpoint cs_chain_ok (bc : Z) (f : mfields) (ops : list cop) : bool :=
  match ops with
  | [] => true
  | CSignKey _ _ :: r => false
  | _ :: r => cs_chain_ok bc f r
  end.
