(* Model/KeyFormat.v — key export / import formats (C12).  Definitions only.

   lib_* mirrors bitcoinlib/keys.py (get_key_format, check_network_and_key, Key.__init__, Key.wif,
   HDKey.__init__, HDKey.from_wif, HDKey.wif / wif_public / wif_private / wif_key) and
   bitcoinlib/networks.py (wif_prefix_search, network_by_value('prefix_wif', .), Network.wif_prefix),
   main.script_type_default, over the tables regenerated into Gen/GenNetworks.v.

   The model is a pure codec over bytes: text strings are [bytes] holding ASCII codes, the public point
   of a private key is never computed here (where an exporter needs it, it is a field of [keymeta] that the
   caller supplies).  Base58 comes from Model/Base58.v (b58_enc = base58encode,
   lib_b58_dec fold s 0 = change_base(s, 58, 256) and, read as bytes, change_base(s, 58, 16): the hex form is
   the even-padded digits of the same number behind two '0' characters per leading '1').

   The model follows the tree after the C11 repairs (Key() refuses a WIF whose key part is not 32 bytes; HDKey()
   and HDKey.from_wif check length 82 and the checksum; Base58 has no lower-casing retry: [fold] = false).
   [wifcheck] selects how the WIF branches decide "compressed":
     false = the code before fixes/C12-1 (last payload byte == 01, whatever the length)
     true  = the repaired code (payload longer than version + 32 bytes and last byte == 01).
   [pubser] selects what HDKey.wif() writes for a public key:
     false = the code before fixes/C12-2 (public_byte: 65 bytes for an uncompressed key)
     true  = the repaired code (always the 33-byte compressed point, as BIP32 prescribes).

   Sessions (several calls on ONE object): [lib_wif_with] / [lib_xkey_with] are the exporters with their explicit
   arguments (prefix=, is_private=, child_index=, witness_type=, multisig=); [session] threads the object's VISIBLE fields
   through a list of calls ([sop]: exports, network_change, public(), address(compressed=), raw forms, opaque calls) and
   answers each call by the stateless exporter on the current fields.  The library's stored WIF text (_wif / _wif_prefix)
   is deliberately NOT part of the model: after fixes/C12-3 (the stored text is dropped when the compressed attribute has
   changed) it never shows.  Faithful oddities kept: as_hex(private=True) returns private_byte (bytes, not text);
   HDKey.wif(child_index=c) uses c for that one serialisation only (since fixes/C03-8; the code before stored c in the object:
   [sop_step_pre_c03_8]); HDKey.wif(multisig=False) cannot override a multisig key;
   address(compressed=b) overwrites the compressed attribute but public_byte / public_hex stay as __init__ made them.

   After the C04 repairs Key.__init__ refuses a private key whose number is not in 1 .. n-1 ([secret_in_range], n from
   Gen.GenConsts) and, being strict, a public key that is not a curve point.  The model has no curve: the shape part
   of that test (02/03 + 32 bytes, 04 + 64 bytes) is modelled, the numeric part (x < p, y < p, y^2 = x^3 + 7, resp.
   x^3 + 7 a square) is the oracle [curve_ok : bytes -> bool] on the public key bytes, answered by the harness.
   A [keymeta] stands for an existing key object, so the exporters refuse what Key.__init__ refuses.

   Not modelled (the functions answer [EUnmodelled]): BIP38 decryption (C15), tuple/point input, bytes input
   of lengths other than 32/33/65, integers outside 1 .. 2^256-1, non-hex text in the hex formats,
   whitespace inside hex text, Python's extended integer syntax in decimal strings, addresses (C05/C11: the
   answer is "not a key").  The table columns are compared as parsed bytes (the code compares hex text after
   .upper(); equivalent while every prefix in networks.json is written in one case). *)
From Coq Require Import ZArith List Bool.
From Coq Require String.
From Coq.Strings Require Import Byte.
From Verif Require Import Lib.Bytes Gen.GenConsts Gen.GenNetworks Crypto.Sha256 Model.Base58.
Import ListNotations.
Import Coq.Strings.String.StringSyntax.
Delimit Scope string_scope with string.
Open Scope Z_scope.

Notation str := String.string.

(* ---------- small helpers ---------- *)
Definition default_network : str := "bitcoin"%string.          (* config.DEFAULT_NETWORK *)
Definition testnet_name : str := "testnet"%string.
Definition default_witness : str := cfg_DEFAULT_WITNESS_TYPE.

Definition str_in (x : str) (l : list str) : bool := existsb (String.eqb x) l.

(* list(dict.fromkeys(l)) : first occurrences, original order *)
Fixpoint dedup {A} (eqb : A -> A -> bool) (seen l : list A) : list A :=
  match l with
  | [] => []
  | x :: r => if existsb (eqb x) seen then dedup eqb seen r else x :: dedup eqb (x :: seen) r
  end.
Definition dedup_str (l : list str) : list str := dedup String.eqb [] l.
Definition dedup_bool (l : list bool) : list bool := dedup Bool.eqb [] l.

Definition starts (p s : bytes) : bool := bytes_eqb (firstn (length p) s) p.
Definition ends (p s : bytes) : bool := bytes_eqb (skipn (length s - length p) s) p.
Definition lastn (k : nat) (s : bytes) : bytes := skipn (length s - k) s.
Definition droplast (k : nat) (s : bytes) : bytes := firstn (length s - k) s.
Definition len_is (s : bytes) (n : Z) : bool := Z.of_nat (length s) =? n.

Definition hexval (b : byte) : option Z :=
  let z := bz b in
  if (48 <=? z) && (z <=? 57) then Some (z - 48)
  else if (97 <=? z) && (z <=? 102) then Some (z - 87)
  else if (65 <=? z) && (z <=? 70) then Some (z - 55)
  else None.
(* bytes.fromhex on text without whitespace *)
Fixpoint hex_decode (s : bytes) : option bytes :=
  match s with
  | [] => Some []
  | c :: d :: r =>
      match hexval c, hexval d, hex_decode r with
      | Some h, Some l, Some t => Some (zb (16 * h + l) :: t)
      | _, _, _ => None
      end
  | _ => None
  end.
Definition hexchar (d : Z) : byte := if d <? 10 then zb (48 + d) else zb (87 + d).
Fixpoint hex_encode (b : bytes) : bytes :=
  match b with
  | [] => []
  | x :: r => hexchar (bz x / 16) :: hexchar (bz x mod 16) :: hex_encode r
  end.

Definition is_digit (b : byte) : bool := (48 <=? bz b) && (bz b <=? 57).
Definition all_digits (s : bytes) : bool := forallb is_digit s.
Fixpoint dec_value (acc : Z) (s : bytes) : Z :=
  match s with [] => acc | c :: r => dec_value (acc * 10 + (bz c - 48)) r end.

(* ---------- networks.py ---------- *)
Definition find_network (name : str) : option network :=
  find (fun n => String.eqb (nw_name n) name) all_networks.
Definition network_defined (name : str) : bool :=
  match find_network name with Some _ => true | None => false end.

Record hd_match := { hm_network : str; hm_row : wif_row }.

Definition row_matches (prefix : bytes) (wt : option str) (ms : option bool) (r : wif_row) : bool :=
  bytes_eqb (wr_prefix r) prefix &&
  (match ms with None => true | Some m => Bool.eqb (wr_multisig r) m end) &&
  (match wt with None => true | Some w => String.eqb (wr_witness_type r) w end).

(* wif_prefix_search(prefix_hex, witness_type, multisig, network) *)
Definition lib_wif_prefix_search (prefix : bytes) (wt : option str) (ms : option bool) (nw : option str)
  : list hd_match :=
  flat_map (fun n =>
    if (match nw with None => true | Some x => String.eqb (nw_name n) x end)
    then map (fun r => {| hm_network := nw_name n; hm_row := r |})
             (filter (row_matches prefix wt ms) (nw_prefixes_wif n))
    else []) all_networks.

(* network_by_value('prefix_wif', hex of one byte): table order, then stable sort by priority, descending *)
Definition lib_networks_by_wif (v : bytes) : list str :=
  map nw_name (sort_prio (filter (fun n => bytes_eqb (nw_prefix_wif n) v) all_networks)).

(* main.script_type_default(witness_type, multisig, locking_script=True) followed by the adjustment in
   Network.wif_prefix; None = ValueError *)
Definition wif_script_type (wt : str) (ms : bool) : option str :=
  if String.eqb wt "legacy" then Some (if ms then "p2sh" else "p2pkh")%string
  else if String.eqb wt "segwit" then Some (if ms then "p2wsh" else "p2wpkh")%string
  else if String.eqb wt "p2sh-segwit" then Some (if ms then "p2sh_p2wsh" else "p2sh_p2wpkh")%string
  else None.

Inductive err := EKey | EAmbiguous | ENetwork | EOther | EUnmodelled.
Inductive res (A : Type) := Ok (a : A) | Err (e : err).
Arguments Ok {A} a.
Arguments Err {A} e.

(* Network.wif_prefix(is_private, witness_type, multisig) *)
Definition lib_network_wif_prefix (n : network) (priv : bool) (wt : str) (ms : bool) : res bytes :=
  match wif_script_type wt ms with
  | None => Err EOther
  | Some st =>
      match filter (fun r => Bool.eqb (wr_private r) priv && String.eqb (wr_script_type r) st) (nw_prefixes_wif n) with
      | r :: _ => Ok (wr_prefix r)
      | [] => Err ENetwork
      end
  end.

(* ---------- get_key_format ---------- *)
Inductive key_input := KInt (z : Z) | KBytes (b : bytes) | KStr (s : bytes).

Inductive kformat := FDecimal | FBinCompressed | FBin | FPublicUncompressed | FHex | FPublic | FHexCompressed
                   | FWifProtected | FMnemonic | FHdPublic | FHdPrivate | FWifCompressed | FWif.

Record kf_info := {
  kf_format : kformat;
  kf_networks : option (list str);
  kf_private : bool;
  kf_scripts : list str;
  kf_witness : list str;
  kf_multisig : list bool }.

(* KfEmpty "Key empty"; KfAmbiguous "Cannot determine if key is private or public";
   KfNoKey: an address or "Unrecognised key format" (not a key either way) *)
Inductive kf_res := KfOk (i : kf_info) | KfEmpty | KfAmbiguous | KfNoKey | KfUnmodelled.

Definition kf_plain (f : kformat) (p : bool) : kf_res :=
  KfOk {| kf_format := f; kf_networks := None; kf_private := p; kf_scripts := [];
          kf_witness := [default_witness]; kf_multisig := [false] |}.

Definition ip_not (ip : option bool) : bool := match ip with Some true => false | _ => true end.
Definition ip_not_false (ip : option bool) : bool := match ip with Some false => false | _ => true end.
Definition ip_default_true (ip : option bool) : bool := match ip with Some b => b | None => true end.

Definition c_space : byte := x20.
Definition s_04 : bytes := [x30; x34].
Definition s_02 : bytes := [x30; x32].
Definition s_03 : bytes := [x30; x33].
Definition s_01 : bytes := [x30; x31].
Definition s_6P : bytes := [x36; x50].

Section Lib.
Variable fold : bool.          (* change_base's lower-casing retry (see Model/Base58.v) *)
Variable wifcheck : bool.      (* fixes/C12-1 applied *)
Variable pubser : bool.        (* fixes/C12-2 applied *)
Variable curve_ok : bytes -> bool.   (* numeric part of the strict public-key check (oracle, see header) *)

(* 0 < secret < n *)
Definition secret_in_range (kb : bytes) : bool := (0 <? of_be kb) && (of_be kb <? secp256k1_n).

(* the strict test of Key.__init__ on public key bytes *)
Definition pub_strict_ok (b : bytes) : bool :=
  (if Nat.eqb (length b) 65 then bytes_eqb (firstn 1 b) [x04]
   else Nat.eqb (length b) 33 && (bytes_eqb (firstn 1 b) [x02] || bytes_eqb (firstn 1 b) [x03]))
  && curve_ok b.

Definition b58_bytes (s : bytes) : option bytes := lib_b58_dec fold s 0.

(* "compressed" test of the WIF branches on the payload without checksum: key[-1:] == b'\1' *)
Definition wif_payload_compressed (payload : bytes) : bool :=
  (if wifcheck then Nat.ltb 33 (length payload) else true) && bytes_eqb (lastn 1 payload) [x01].

(* the Base58 branch: inl = decided, inr nets = still no format (networks as left by the branch) *)
Definition gkf_b58 (s : bytes) (ip : option bool) : kf_res + option (list str) :=
  match b58_bytes s with
  | None => inr None
  | Some kb =>
      match lib_wif_prefix_search (firstn 4 kb) None None None with
      | m :: ms =>
          let pd := m :: ms in
          let privs := map (fun x => wr_private (hm_row x)) pd in
          if (match ip with None => true | Some _ => false end) && Nat.ltb 1 (length (dedup_bool privs))
          then inl KfAmbiguous
          else
            let p := wr_private (hm_row m) in
            inl (KfOk {| kf_format := if p then FHdPrivate else FHdPublic;
                         kf_networks := Some (dedup_str (map hm_network pd));
                         kf_private := p;
                         kf_scripts := dedup_str (map (fun x => wr_script_type (hm_row x)) pd);
                         kf_witness := dedup_str (map (fun x => wr_witness_type (hm_row x)) pd);
                         kf_multisig := dedup_bool (map (fun x => wr_multisig (hm_row x)) pd) |})
      | [] =>
          match lib_networks_by_wif (firstn 1 kb) with
          | [] => inr (Some [])
          | nws =>
              (* key_hex[-10:-8] == '01' : the byte in front of the 4 checksum bytes *)
              let c := wif_payload_compressed (droplast 4 kb) && Nat.leb 5 (length kb) in
              inl (KfOk {| kf_format := if c then FWifCompressed else FWif;
                           kf_networks := Some nws; kf_private := true; kf_scripts := [];
                           kf_witness := [default_witness]; kf_multisig := [false] |})
          end
      end
  end.

Definition gkf_str (s : bytes) (ip : option bool) : kf_res :=
  if len_is s 0 then KfEmpty
  else if len_is s 130 && starts s_04 s && ip_not ip then kf_plain FPublicUncompressed false
  else if len_is s 128 then kf_plain FHex (ip_default_true ip)
  else if len_is s 66 && (starts s_02 s || starts s_03 s) && ip_not ip then kf_plain FPublic false
  else if len_is s 64 then kf_plain FHex (ip_default_true ip)
  else if len_is s 66 && ends s_01 s && ip_not_false ip then kf_plain FHexCompressed true
  else if len_is s 58 && starts s_6P s then kf_plain FWifProtected true
  else if existsb (beq c_space) s then kf_plain FMnemonic true
  else
    match gkf_b58 s ip with
    | inl r => r
    | inr nets =>
        if all_digits s && (70 <? Z.of_nat (length s)) && (Z.of_nat (length s) <? 78)
        then KfOk {| kf_format := FDecimal; kf_networks := nets; kf_private := true; kf_scripts := [];
                     kf_witness := [default_witness]; kf_multisig := [false] |}
        else KfNoKey
    end.

Definition gkf_bytes (b : bytes) : kf_res :=
  let n := Z.of_nat (length b) in
  let first := firstn 1 b in
  if n =? 0 then KfEmpty
  else if ((n =? 33) || (n =? 65)) && (bytes_eqb first [x02] || bytes_eqb first [x03]) then kf_plain FBinCompressed false
  else if ((n =? 33) || (n =? 65)) && bytes_eqb first [x04] then kf_plain FBin false
  else if (n =? 33) && bytes_eqb (lastn 1 b) [x01] then kf_plain FBinCompressed true
  else if n =? 32 then kf_plain FBin true
  else KfUnmodelled.

Definition lib_get_key_format (k : key_input) (ip : option bool) : kf_res :=
  match k with
  | KInt z => if z =? 0 then KfEmpty else if z <? 0 then KfUnmodelled else kf_plain FDecimal true
  | KBytes b => gkf_bytes b
  | KStr s => gkf_str s ip
  end.

(* ---------- check_network_and_key with the network list already extracted ---------- *)
Definition resolve_networks (l : list str) : res str :=
  match l with
  | [] => Ok default_network
  | [n] => Ok n
  | _ => if str_in default_network l then Ok default_network
         else if str_in testnet_name l then Ok testnet_name
         else Err EAmbiguous
  end.

Definition lib_check_network (hint : option str) (nets : option (list str)) : res str :=
  match nets with
  | Some (n :: r) =>
      match hint with
      | Some h => if str_in h (n :: r) then Ok h else Err EKey
      | None => resolve_networks (n :: r)
      end
  | _ => match hint with Some h => Ok h | None => Ok default_network end
  end.

(* ---------- Key.__init__ ---------- *)
Record key_obj := {
  ko_private : bool;
  ko_key : bytes;             (* private_byte when private, public_byte otherwise *)
  ko_compressed : bool;
  ko_network : str;
  ko_format : kformat }.

Definition b58_checksum_ok (payload check : bytes) : bool := bytes_eqb check (firstn 4 (sha256d payload)).

(* the private-key bytes and the compressed flag, per format *)
Definition key_private_part (k : key_input) (f : kformat) (compressed : bool) : res (bytes * bool) :=
  match f, k with
  | FDecimal, KInt z => if 2 ^ 256 <=? z then Err EUnmodelled else Ok (be_bytes 32 z, compressed)
  | FDecimal, KStr s => let z := dec_value 0 s in
                        if 2 ^ 256 <=? z then Err EUnmodelled else Ok (be_bytes 32 z, compressed)
  | FHex, KStr s => match hex_decode s with
                    | Some b => if Nat.eqb (length b) 32 then Ok (b, compressed) else Err EUnmodelled
                    | None => Err EUnmodelled
                    end
  | FHexCompressed, KStr s => match hex_decode (droplast 2 s) with
                              | Some b => Ok (b, true)
                              | None => Err EUnmodelled
                              end
  | FBin, KBytes b => Ok (b, compressed)
  | FBinCompressed, KBytes b =>
      let n := length b in
      if (Nat.eqb n 33 || Nat.eqb n 65 || Nat.eqb n 129) && bytes_eqb (lastn 1 b) [x01]
      then Ok (droplast 1 b, true) else Ok (b, true)
  | FWif, KStr s | FWifCompressed, KStr s =>
      match b58_bytes s with
      | None => Err EOther
      | Some raw =>
          let check := lastn 4 raw in
          let key := droplast 4 raw in
          if negb (b58_checksum_ok key check) then Err EKey
          else match lib_networks_by_wif (firstn 1 key) with
               | [] => Err EKey
               | _ => let '(kb, c) := if wif_payload_compressed key
                                      then (skipn 1 (droplast 1 key), true)
                                      else (skipn 1 key, false) in
                      if Nat.eqb (length kb) 32 then Ok (kb, c) else Err EKey
               end
      end
  | FWifProtected, _ => Err EUnmodelled
  | FHdPrivate, _ | FMnemonic, _ | FPublic, _ | FPublicUncompressed, _ | FHdPublic, _ => Err EKey
  | _, _ => Err EUnmodelled
  end.

Definition pub_checked (b : bytes) : res (bytes * bool) :=
  if pub_strict_ok b then Ok (b, negb (Nat.eqb (length b) 65)) else Err EKey.

Definition key_public_part (k : key_input) (f : kformat) : res (bytes * bool) :=
  match f, k with
  | FWifProtected, _ => Err EUnmodelled
  | FHdPublic, _ => Err EUnmodelled         (* Key(xpub): the text itself is hexlified *)
  | _, KBytes b => pub_checked b
  | _, KStr s => match hex_decode s with
                 | Some b => pub_checked b
                 | None => Err EUnmodelled
                 end
  | _, KInt _ => Err EUnmodelled
  end.

(* the private part followed by the range check "0 < secret < n" *)
Definition key_private_checked (k : key_input) (f : kformat) (compressed : bool) : res (bytes * bool) :=
  match key_private_part k f compressed with
  | Ok (kb, c) => if secret_in_range kb then Ok (kb, c) else Err EKey
  | Err e => Err e
  end.

(* Key(import_key, network=hint, compressed=compressed, is_private=ip) for a non-empty import_key *)
Definition lib_key_import (k : key_input) (hint : option str) (compressed : bool) (ip : option bool)
  : res key_obj :=
  match lib_get_key_format k None with
  | KfEmpty => match k with KInt _ => Err EKey | _ => Err EUnmodelled end   (* 0 is refused; '' / b'' : a fresh random key *)
  | KfUnmodelled => Err EUnmodelled
  | KfNoKey | KfAmbiguous => Err EKey
  | KfOk i =>
      let priv := match ip with Some true => true | _ => kf_private i end in
      let net :=
        match hint with
        | Some h => if network_defined h then Ok h else Err ENetwork
        | None => match kf_networks i with
                  | Some (n :: r) => resolve_networks (n :: r)
                  | _ => Ok default_network
                  end
        end in
      match net with
      | Err e => Err e
      | Ok nw =>
          match (if priv then key_private_checked k (kf_format i) compressed else key_public_part k (kf_format i)) with
          | Err e => Err e
          | Ok (kb, c) => Ok {| ko_private := priv; ko_key := kb; ko_compressed := c; ko_network := nw;
                                ko_format := kf_format i |}
          end
      end
  end.

(* ---------- HDKey ---------- *)
Record hd_obj := {
  ho_key : key_obj;
  ho_chain : bytes;
  ho_depth : Z;
  ho_fp : bytes;
  ho_child : Z;
  ho_witness : str;
  ho_multisig : bool }.

Definition slice (a b : nat) (s : bytes) : bytes := firstn (b - a) (skipn a s).
Definition zero32 : bytes := repeat x00 32.
Definition zero4 : bytes := repeat x00 4.

(* the field extraction shared by HDKey.__init__ and HDKey.from_wif; None = ord(b'') TypeError.
   result: (is_public_marker, key bytes, depth, fingerprint, child, chain) *)
Definition xkey_fields (bkey : bytes) : option (bool * bytes * Z * bytes * Z * bytes) :=
  if Nat.leb (length bkey) 45 then None
  else
    let pub := negb (bytes_eqb (slice 45 46 bkey) [x00]) in
    Some (pub, (if pub then slice 45 78 bkey else slice 46 78 bkey),
          of_be (slice 4 5 bkey), slice 5 9 bkey, of_be (slice 9 13 bkey), slice 13 45 bkey).

(* HDKey(import_key=k, network=hint, witness_type=wt, multisig=ms, compressed=compressed) *)
Definition lib_hdkey_import (k : key_input) (hint : option str) (wt : option str) (ms : bool) (compressed : bool)
  : res hd_obj :=
  match lib_get_key_format k None with
  | KfEmpty => match k with KInt _ => Err EKey | _ => Err EUnmodelled end
  | KfUnmodelled => Err EUnmodelled
  | KfNoKey | KfAmbiguous => Err EKey
  | KfOk i =>
      let wt1 := match kf_witness i, wt with
                 | [w], None => Some w
                 | _, _ => wt
                 end in
      let ms1 := match kf_multisig i with [m] => m | _ => ms end in
      let witness := match wt1 with Some w => w | None => default_witness end in
      match lib_check_network hint (kf_networks i) with
      | Err e => Err e
      | Ok nw =>
          if negb (network_defined nw) then Err ENetwork
          else
            match kf_format i with
            | FHdPrivate | FHdPublic =>
                match b58_bytes (match k with KStr s => s | _ => [] end) with
                | None => Err EOther
                | Some bkey =>
                    if negb (Nat.eqb (length bkey) 82 && b58_checksum_ok (droplast 4 bkey) (lastn 4 bkey)) then Err EKey
                    else
                    match xkey_fields bkey with
                    | None => Err EOther
                    | Some (pub, key, depth, fp, child, chain) =>
                        match lib_key_import (KBytes key) (Some nw) compressed (Some (negb pub)) with
                        | Err e => Err e
                        | Ok ko => Ok {| ho_key := ko; ho_chain := chain; ho_depth := depth; ho_fp := fp;
                                         ho_child := child; ho_witness := witness; ho_multisig := ms1 |}
                        end
                    end
                end
            | FMnemonic => Err EKey
            | FWifProtected => Err EUnmodelled
            | _ =>
                match lib_key_import k (Some nw) compressed (Some (kf_private i)) with
                | Err e => Err e
                | Ok ko => Ok {| ho_key := ko; ho_chain := zero32; ho_depth := 0; ho_fp := zero4;
                                 ho_child := 0; ho_witness := witness; ho_multisig := ms1 |}
                end
            end
      end
  end.

(* HDKey.from_wif(text, network=hint, compressed=compressed, multisig=ms) *)
Definition lib_hdkey_from_wif (s : bytes) (hint : option str) (ms : option bool) (compressed : bool)
  : res hd_obj :=
  match b58_bytes s with
  | None => Err EOther
  | Some bkey =>
      if negb (Nat.eqb (length bkey) 82) then Err EKey
      else if negb (b58_checksum_ok (droplast 4 bkey) (lastn 4 bkey)) then Err EKey
      else
        match xkey_fields bkey with
        | None => Err EOther
        | Some (pub, key, depth, fp, child, chain) =>
            match lib_wif_prefix_search (firstn 4 bkey) None ms hint with
            | [] => Err EKey
            | m :: r =>
                let pd := m :: r in
                let nw := match hint with Some h => h | None => hm_network m end in
                let witness := wr_witness_type (hm_row m) in
                let ms1 := match ms with Some true => true | _ => wr_multisig (hm_row m) end in
                match lib_key_import (KBytes key) (Some nw) compressed (Some (negb pub)) with
                | Err e => Err e
                | Ok ko => Ok {| ho_key := ko; ho_chain := chain; ho_depth := depth; ho_fp := fp;
                                 ho_child := child; ho_witness := witness; ho_multisig := ms1 |}
                end
            end
        end
  end.

(* ---------- exporters ---------- *)
Record keymeta := {
  km_private : bool;
  km_secret : bytes;          (* private_byte (32 bytes) when private *)
  km_pubc : bytes;            (* public_compressed_byte, 33 bytes (supplied, never derived here) *)
  km_pubu : bytes;            (* public_uncompressed_byte, 65 bytes *)
  km_compressed : bool;
  km_chain : bytes;
  km_depth : Z;
  km_fp : bytes;
  km_child : Z;
  km_network : str;
  km_witness : str;
  km_multisig : bool }.

Definition km_public_byte (k : keymeta) : bytes := if km_compressed k then km_pubc k else km_pubu k.

(* would Key.__init__ have built this object?  (private: range of the secret; public: the strict point test) *)
Definition km_constructible (k : keymeta) : bool :=
  if km_private k then secret_in_range (km_secret k) else pub_strict_ok (km_public_byte k).

(* Key.wif() / HDKey.wif_key() with the network's own version byte *)
Definition lib_wif (k : keymeta) : res bytes :=
  if negb (km_constructible k) then Err EKey
  else if negb (km_private k) then Err EKey
  else
    let v := of_be (km_secret k) in
    if v =? 0 then Err EKey
    else if 2 ^ 256 <=? v then Err EOther
    else match find_network (km_network k) with
         | None => Err ENetwork
         | Some n =>
             Ok (b58check_enc sha256d (nw_prefix_wif n ++ be_bytes 32 v ++ (if km_compressed k then [x01] else [])))
         end.

(* the 78-byte body: prefix, depth, fingerprint, child, chain, key data *)
Definition xkey_raw (prefix : bytes) (depth : Z) (fp : bytes) (child : Z) (chain keydata : bytes) : bytes :=
  prefix ++ be_bytes 1 depth ++ fp ++ be_bytes 4 child ++ chain ++ keydata.

(* HDKey.wif(is_private=want_private) : wif_private() = true, wif_public() / wif() = false *)
Definition lib_xkey (k : keymeta) (want_private : bool) : res bytes :=
  if negb (km_constructible k) then Err EKey else
  match find_network (km_network k) with
  | None => Err ENetwork
  | Some n =>
      let wt := if String.eqb (km_witness k) "" then default_witness else km_witness k in
      let as_private := km_private k && want_private in
      match lib_network_wif_prefix n as_private wt (km_multisig k) with
      | Err e => Err e
      | Ok prefix =>
          if (km_depth k <? 0) || (256 <=? km_depth k) || (km_child k <? 0) || (2 ^ 32 <=? km_child k)
          then Err EOther
          else
            let keydata :=
              if as_private then x00 :: km_secret k
              else if want_private then km_pubc k
              else (if pubser then km_pubc k else km_public_byte k) in
            let raw := xkey_raw prefix (km_depth k) (km_fp k) (km_child k) (km_chain k) keydata in
            Ok (b58check_enc sha256d raw)
      end
  end.

(* ---------- the exporters with their explicit arguments ---------- *)
(* Key.wif(prefix) / HDKey.wif_key(prefix): None = the version byte of the key's current network; Some p = the bytes
   given (bytes, or hex text through bytes.fromhex), any length, the empty string included (prefix is tested with
   "is None").  The stored text of an earlier call ([_wif], [_wif_prefix]) is not part of the model: the answer is a
   function of the current fields and the argument only (obligation "session/no-hidden-state", see [session]). *)
Definition lib_wif_with (k : keymeta) (prefix : option bytes) : res bytes :=
  if negb (km_constructible k) then Err EKey
  else if negb (km_private k) then Err EKey
  else
    let v := of_be (km_secret k) in
    if v =? 0 then Err EKey
    else if 2 ^ 256 <=? v then Err EOther
    else match prefix with
         | Some p => Ok (b58check_enc sha256d (p ++ be_bytes 32 v ++ (if km_compressed k then [x01] else [])))
         | None =>
             match find_network (km_network k) with
             | None => Err ENetwork
             | Some n =>
                 Ok (b58check_enc sha256d (nw_prefix_wif n ++ be_bytes 32 v ++ (if km_compressed k then [x01] else [])))
             end
         end.

(* the effective arguments of HDKey.wif(is_private, child_index, prefix, witness_type, multisig):
   "if not witness_type" / "if not multisig" / "if not prefix" — None, '' , False and b'' mean "take the object's own
   value"; "if child_index is None" — only None means the object's own child number, 0 is honoured (fixes/C03-8) *)
Definition xk_want (isp : option bool) : bool := match isp with Some true => true | _ => false end.
Definition xk_witness (k : keymeta) (wt : option str) : str :=
  let own := if String.eqb (km_witness k) "" then default_witness else km_witness k in
  match wt with Some w => if String.eqb w "" then own else w | None => own end.
Definition xk_multisig (k : keymeta) (ms : option bool) : bool :=
  match ms with Some true => true | _ => km_multisig k end.
Definition xk_child (k : keymeta) (child : option Z) : Z :=
  match child with Some c => c | None => km_child k end.

(* the four version bytes: the explicit ones, else Network.wif_prefix.  An explicit prefix that is not four bytes or
   starts with 00 is not modelled (the text is then padded to 111 characters by change_base) *)
Definition xk_prefix (k : keymeta) (n : network) (isp : option bool) (prefix : option bytes) (wt : option str)
  (ms : option bool) : res bytes :=
  match prefix with
  | Some (p0 :: pr) =>
      if Nat.eqb (length pr) 3 && negb (beq p0 x00) then Ok (p0 :: pr) else Err EUnmodelled
  | _ => lib_network_wif_prefix n (km_private k && xk_want isp) (xk_witness k wt) (xk_multisig k ms)
  end.

Definition lib_xkey_with (k : keymeta) (isp : option bool) (child : option Z) (prefix : option bytes)
  (wt : option str) (ms : option bool) : res bytes :=
  if negb (km_constructible k) then Err EKey else
  match find_network (km_network k) with
  | None => Err ENetwork
  | Some n =>
      let as_private := km_private k && xk_want isp in
      match xk_prefix k n isp prefix wt ms with
      | Err e => Err e
      | Ok p =>
          let c := xk_child k child in
          if (km_depth k <? 0) || (256 <=? km_depth k) || (c <? 0) || (2 ^ 32 <=? c)
          then Err EOther
          else
            let keydata :=
              if as_private then x00 :: km_secret k
              else if xk_want isp then km_pubc k
              else (if pubser then km_pubc k else km_public_byte k) in
            Ok (b58check_enc sha256d (xkey_raw p (km_depth k) (km_fp k) c (km_chain k) keydata))
      end
  end.

(* ---------- sessions: several calls on ONE Key / HDKey object ---------- *)
(* The object's visible fields are a [keymeta] (is_private, private_byte, the public point in both forms as computed by
   __init__, chain, depth, fingerprint, child_index, network, witness_type, multisig; [km_compressed] is the flag
   __init__ saw: it fixed public_byte / public_hex for good) plus the CURRENT attribute [compressed], which
   Key.address(compressed=...) overwrites.  Nothing else is state: every answer is computed from these fields. *)
Record sstate := { ss_km : keymeta; ss_compressed : bool }.

Inductive sop :=
  | SWif (prefix : option bytes)                     (* Key.wif(prefix) / HDKey.wif_key(prefix) *)
  | SXkey (isp : option bool) (child : option Z) (prefix : option bytes) (wt : option str) (ms : option bool)
                                                     (* HDKey.wif(...); wif_private = Some true, wif_public = Some false *)
  | SNet (name : str)                                (* HDKey.network_change(name) *)
  | SPublic                                          (* obj = obj.public() *)
  | SAddr (compressed : option bool)                 (* address(compressed=...): only its effect on the fields *)
  | SHex (private : bool)                            (* as_hex(private) *)
  | SBytes (private : bool)                          (* as_bytes(private) *)
  | SInt                                             (* int(obj) *)
  | SOpaque.                                         (* encrypt(password) [BIP38: C15], as_dict(), repr(): composite or foreign
                                                        outputs, judged by the harness oracle; no effect on the fields *)

Inductive raw_val := RBytes (b : bytes) | RText (s : bytes) | RInt (z : Z) | RNone.

Inductive sanswer :=
  | AText (r : res bytes)       (* an exported string *)
  | ARaw (v : raw_val)          (* a raw form *)
  | ADone (r : res unit)        (* a call without an export: done / refused *)
  | AComp (c : bool)            (* address(): the compressed attribute afterwards (the address text is C04 / C05) *)
  | AUnmodelled.                (* encrypt() / as_dict() / repr(): only "the fields stay" is modelled *)

Definition km_set_compressed (k : keymeta) (c : bool) : keymeta :=
  {| km_private := km_private k; km_secret := km_secret k; km_pubc := km_pubc k; km_pubu := km_pubu k;
     km_compressed := c; km_chain := km_chain k; km_depth := km_depth k; km_fp := km_fp k; km_child := km_child k;
     km_network := km_network k; km_witness := km_witness k; km_multisig := km_multisig k |}.
Definition km_set_network (k : keymeta) (nw : str) : keymeta :=
  {| km_private := km_private k; km_secret := km_secret k; km_pubc := km_pubc k; km_pubu := km_pubu k;
     km_compressed := km_compressed k; km_chain := km_chain k; km_depth := km_depth k; km_fp := km_fp k;
     km_child := km_child k; km_network := nw; km_witness := km_witness k; km_multisig := km_multisig k |}.
Definition km_set_child (k : keymeta) (c : Z) : keymeta :=
  {| km_private := km_private k; km_secret := km_secret k; km_pubc := km_pubc k; km_pubu := km_pubu k;
     km_compressed := km_compressed k; km_chain := km_chain k; km_depth := km_depth k; km_fp := km_fp k;
     km_child := c; km_network := km_network k; km_witness := km_witness k; km_multisig := km_multisig k |}.
Definition km_strip_private (k : keymeta) : keymeta :=
  {| km_private := false; km_secret := []; km_pubc := km_pubc k; km_pubu := km_pubu k;
     km_compressed := km_compressed k; km_chain := km_chain k; km_depth := km_depth k; km_fp := km_fp k;
     km_child := km_child k; km_network := km_network k; km_witness := km_witness k; km_multisig := km_multisig k |}.

(* the fields Key.wif reads: the CURRENT compressed attribute decides the 01 flag *)
Definition ss_wif_view (s : sstate) : keymeta := km_set_compressed (ss_km s) (ss_compressed s).

(* the stateless answer of one call on the current fields *)
Definition sop_answer (s : sstate) (op : sop) : sanswer :=
  let k := ss_km s in
  match op with
  | SWif p => AText (lib_wif_with (ss_wif_view s) p)
  | SXkey isp child prefix wt ms => AText (lib_xkey_with k isp child prefix wt ms)
  | SNet name => ADone (if network_defined name then Ok tt else Err ENetwork)
  | SPublic => ADone (Ok tt)
  | SAddr c => AComp (match c with Some b => b | None => ss_compressed s end)
  | SHex private => ARaw (if private then (if km_private k then RBytes (km_secret k) else RNone)   (* sic: private_byte *)
                          else RText (hex_encode (km_public_byte k)))
  | SBytes private => ARaw (if private then (if km_private k then RBytes (km_secret k) else RNone)
                            else RBytes (km_public_byte k))
  | SInt => ARaw (if km_private k then RInt (of_be (km_secret k)) else RNone)
  | SOpaque => AUnmodelled
  end.

(* what the call does to the fields: network_change sets the network (when it exists), public() drops the secret,
   address(compressed=b) sets the compressed attribute.  Every export — HDKey.wif(child_index=c) included, since
   fixes/C03-8 — leaves the fields alone *)
Definition sop_step (s : sstate) (op : sop) : sstate :=
  let k := ss_km s in
  match op with
  | SNet name => if network_defined name then {| ss_km := km_set_network k name; ss_compressed := ss_compressed s |} else s
  | SPublic => {| ss_km := km_strip_private k; ss_compressed := ss_compressed s |}
  | SAddr (Some b) => {| ss_km := k; ss_compressed := b |}
  | _ => s
  end.

(* the code before fixes/C03-8: "if child_index: self.child_index = child_index" — HDKey.wif(child_index=c) with c <> 0
   stored c in the object once the version bytes were found (before the serialisation, which could still refuse) *)
Definition sop_step_pre_c03_8 (s : sstate) (op : sop) : sstate :=
  let k := ss_km s in
  match op with
  | SXkey isp child prefix wt ms =>
      if negb (km_constructible k) then s else
      match find_network (km_network k) with
      | None => s
      | Some n => match xk_prefix k n isp prefix wt ms with
                  | Ok _ => match child with
                            | Some c => if c =? 0 then s else {| ss_km := km_set_child k c; ss_compressed := ss_compressed s |}
                            | None => s
                            end
                  | Err _ => s
                  end
      end
  | _ => sop_step s op
  end.

(* a session: the answers of the calls in order, each on the fields as the earlier calls left them *)
Fixpoint session (s : sstate) (ops : list sop) : list sanswer :=
  match ops with
  | [] => []
  | op :: r => sop_answer s op :: session (sop_step s op) r
  end.

(* the fields in front of each call *)
Fixpoint session_states (s : sstate) (ops : list sop) : list sstate :=
  match ops with
  | [] => []
  | op :: r => s :: session_states (sop_step s op) r
  end.

Definition session_final (s : sstate) (ops : list sop) : sstate := fold_left sop_step ops s.

Definition ss_init (k : keymeta) : sstate := {| ss_km := k; ss_compressed := km_compressed k |}.

End Lib.

(* ---------- raw forms ---------- *)
Definition raw_hex (k : keymeta) : bytes := hex_encode (km_secret k).                 (* private_hex *)
Definition raw_int (k : keymeta) : Z := of_be (km_secret k).                          (* secret *)
Definition raw_pub_hex (k : keymeta) : bytes := hex_encode (km_public_byte k).        (* public_hex *)
