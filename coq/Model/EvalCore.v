(* Model/EvalCore.v — Bitcoin Core's EvalScript (src/script/interpreter.cpp) for the opcodes bitcoinlib
   dispatches, transcribed from the reference semantics, plus the final truth test of VerifyScript.
   Definitions only.  Written from the protocol side; never from scripts.py.

   * stack: top first (stacktop(-1) is the head, stacktop(-2) the second element ...);
   * CastToBool, CScriptNum(vch, fRequireMinimal, nMaxNumSize) with the 4-byte operand limit (5 for
     CLTV / CSV), MINIMALDATA as flag, vfExec condition stack, disabled opcodes, NULLDUMMY as flag;
   * BIP65 / BIP112 with LOCKTIME_THRESHOLD = 500000000;
   * signature checking and hash functions are the same oracles the library model uses.  [SigRaise]
     stands for "CheckSignatureEncoding / CheckPubKeyEncoding failed" (script error).
   * opcodes outside the modelled set that are reached while executing give [Unimplemented]
     (= outside the scope of the comparison); resource limits are a separate static predicate. *)
From Coq Require Import ZArith List Bool Lia.
From Coq.Strings Require Import Byte.
From Verif Require Import Lib.Bytes Model.Wire Model.EvalLib.
Import ListNotations.
Open Scope Z_scope.

Record flags := mkFlags { f_minimaldata : bool; f_nulldummy : bool }.
(* consensus on the main chain: MINIMALDATA is policy only; NULLDUMMY is consensus since BIP147 *)
Definition consensus_flags := mkFlags false true.

Fixpoint cast_to_bool (v : bytes) : bool :=
  match v with
  | [] => false
  | b :: r =>
      match r with
      | [] => negb ((bz b =? 0) || (bz b =? 128))
      | _ => negb (bz b =? 0) || cast_to_bool r
      end
  end.

Definition LOCKTIME_THRESHOLD : Z := 500000000.
Definition SEQUENCE_FINAL : Z := 4294967295.
Definition SEQUENCE_DISABLE_FLAG : Z := 2147483648.     (* 1 << 31 *)
Definition SEQUENCE_TYPE_FLAG : Z := 4194304.           (* 1 << 22 *)
Definition SEQUENCE_MASK : Z := 65535.

Definition core_kinds : list (Z * opk) := [
  (97, K_NOP); (105, K_VERIFY); (106, K_RETURN); (109, K_2DROP); (110, K_2DUP); (111, K_3DUP);
  (112, K_2OVER); (113, K_2ROT); (114, K_2SWAP); (115, K_IFDUP); (116, K_DEPTH); (117, K_DROP);
  (118, K_DUP); (119, K_NIP); (120, K_OVER); (121, K_PICK); (122, K_ROLL); (123, K_ROT); (124, K_SWAP);
  (125, K_TUCK); (130, K_SIZE); (135, K_EQUAL); (136, K_EQUALVERIFY); (139, K_1ADD); (140, K_1SUB);
  (143, K_NEGATE); (144, K_ABS); (145, K_NOT); (146, K_0NOTEQUAL); (147, K_ADD); (148, K_SUB);
  (154, K_BOOLAND); (155, K_BOOLOR); (156, K_NUMEQUAL); (157, K_NUMEQUALVERIFY); (158, K_NUMNOTEQUAL);
  (163, K_MIN); (164, K_MAX); (165, K_WITHIN); (166, K_RIPEMD160); (167, K_SHA1); (168, K_SHA256);
  (169, K_HASH160); (170, K_HASH256); (172, K_CHECKSIG); (173, K_CHECKSIGVERIFY); (174, K_CHECKMULTISIG);
  (175, K_CHECKMULTISIGVERIFY); (176, K_NOP); (177, K_CLTV); (178, K_CSV); (179, K_NOP); (180, K_NOP);
  (181, K_NOP); (182, K_NOP); (183, K_NOP); (184, K_NOP); (185, K_NOP)].

(* OP_CAT .. OP_RSHIFT: fail even in a branch that is not executed *)
Definition core_disabled (n : Z) : bool :=
  existsb (Z.eqb n) [126; 127; 128; 129; 131; 132; 133; 134; 141; 142; 149; 150; 151; 152; 153].

Section Core.
  Variable h_ripemd160 h_sha1 h_sha256 : bytes -> bytes.
  Variable sigcheck : bytes -> bytes -> sigres.
  Variable e : env.             (* tx.nLockTime, txin.nSequence, tx.nVersion *)
  Variable fl : flags.

  (* CScriptNum(vch, fRequireMinimal, nMaxNumSize): None = scriptnum_error *)
  Definition core_num (maxsz : nat) (v : bytes) : option Z :=
    if (maxsz <? length v)%nat then None
    else if f_minimaldata fl && negb (core_minimal v) then None
    else Some (core_scriptnum_dec v).

  Definition ser := core_scriptnum_ser.
  Definition ser_bool (b : bool) : bytes := if b then [x01] else [].

  Definition core_unary (f : Z -> bytes) (s : stack) : option stack :=
    match s with
    | [] => None
    | x :: r => match core_num 4 x with None => None | Some a => Some (f a :: r) end
    end.

  (* bn1 = stacktop(-2), bn2 = stacktop(-1) *)
  Definition core_binary (f : Z -> Z -> bytes) (s : stack) : option stack :=
    match s with
    | x2 :: x1 :: r =>
        match core_num 4 x1, core_num 4 x2 with
        | Some bn1, Some bn2 => Some (f bn1 bn2 :: r)
        | _, _ => None
        end
    | _ => None
    end.

  Definition core_verify_top (s : stack) : option stack :=
    match s with
    | [] => None
    | x :: r => if cast_to_bool x then Some r else None
    end.

  Definition core_hash (h : bytes -> bytes) (s : stack) : option stack :=
    match s with [] => None | x :: r => Some (h x :: r) end.

  Definition core_checksig (s : stack) : option stack :=
    match s with
    | pk :: sg :: r =>
        match sigcheck sg pk with
        | SigRaise => None
        | SigValid => Some (ser_bool true :: r)
        | SigInvalid => Some (ser_bool false :: r)
        end
    | _ => None
    end.

  (* the key/signature walk of OP_CHECKMULTISIG; both lists top-most element first *)
  Fixpoint core_ms (pks sigs : list bytes) {struct pks} : option bool :=
    match sigs with
    | [] => Some true
    | sg :: sigs' =>
        match pks with
        | [] => Some false
        | pk :: pks' =>
            match sigcheck sg pk with
            | SigRaise => None
            | SigValid => if (length pks' <? length sigs')%nat then Some false else core_ms pks' sigs'
            | SigInvalid => if (length pks' <? length sigs)%nat then Some false else core_ms pks' sigs
            end
        end
    end.

  Definition core_checkmultisig (s : stack) : option stack :=
    match s with
    | [] => None
    | nb :: s1 =>
        match core_num 4 nb with
        | None => None
        | Some n =>
            if (n <? 0) || (n >? 20) then None
            else if Z.of_nat (length s1) <? n then None
            else
              let pks := firstn (Z.to_nat n) s1 in
              match skipn (Z.to_nat n) s1 with
              | [] => None
              | mb :: s3 =>
                  match core_num 4 mb with
                  | None => None
                  | Some m =>
                      if (m <? 0) || (m >? n) then None
                      else if Z.of_nat (length s3) <? m then None
                      else
                        let sigs := firstn (Z.to_nat m) s3 in
                        match core_ms pks sigs with
                        | None => None
                        | Some ok =>
                            match skipn (Z.to_nat m) s3 with
                            | [] => None                                   (* the dummy element is required *)
                            | dummy :: s5 =>
                                if f_nulldummy fl && negb (is_empty dummy) then None
                                else Some (ser_bool ok :: s5)
                            end
                        end
                  end
              end
        end
    end.

  Definition core_cltv (s : stack) : option stack :=
    match s with
    | [] => None
    | top :: _ =>
        match core_num 5 top, e_locktime e, e_sequence e with
        | Some n, Some txl, Some sq =>
            let T := LOCKTIME_THRESHOLD in
            if n <? 0 then None
            else if negb (((txl <? T) && (n <? T)) || ((txl >=? T) && (n >=? T))) then None
            else if n >? txl then None
            else if sq =? SEQUENCE_FINAL then None
            else Some s
        | _, _, _ => None
        end
    end.

  (* a missing transaction context (no nSequence / nVersion in env) makes the check fail *)
  Definition core_csv (s : stack) : option stack :=
    match s with
    | [] => None
    | top :: _ =>
        match core_num 5 top, e_sequence e, e_version e with
        | Some n, Some sq, Some ver =>
            if n <? 0 then None
            else if negb (Z.land n SEQUENCE_DISABLE_FLAG =? 0) then Some s
            else if ver <? 2 then None
            else if negb (Z.land sq SEQUENCE_DISABLE_FLAG =? 0) then None
            else
              let mask := Z.lor SEQUENCE_TYPE_FLAG SEQUENCE_MASK in
              let nm := Z.land n mask in
              let sm := Z.land sq mask in
              let F := SEQUENCE_TYPE_FLAG in
              if negb (((sm <? F) && (nm <? F)) || ((sm >=? F) && (nm >=? F))) then None
              else if nm >? sm then None
              else Some s
        | _, _, _ => None
        end
    end.

  Definition core_op (k : opk) (s : stack) : option stack :=
    match k with
    | K_NOP => Some s
    | K_VERIFY => core_verify_top s
    | K_RETURN => None
    | K_2DROP => match s with _ :: _ :: r => Some r | _ => None end
    | K_2DUP => match s with a :: b :: r => Some (a :: b :: a :: b :: r) | _ => None end
    | K_3DUP => match s with a :: b :: c :: r => Some (a :: b :: c :: a :: b :: c :: r) | _ => None end
    | K_2OVER => match s with a :: b :: c :: d :: r => Some (c :: d :: a :: b :: c :: d :: r) | _ => None end
    | K_2ROT =>
        match s with
        | a :: b :: c :: d :: x :: f :: r => Some (x :: f :: a :: b :: c :: d :: r)
        | _ => None
        end
    | K_2SWAP => match s with a :: b :: c :: d :: r => Some (c :: d :: a :: b :: r) | _ => None end
    | K_IFDUP => match s with [] => None | x :: r => if cast_to_bool x then Some (x :: x :: r) else Some s end
    | K_DEPTH => Some (ser (Z.of_nat (length s)) :: s)
    | K_DROP => match s with [] => None | _ :: r => Some r end
    | K_DUP => match s with [] => None | x :: r => Some (x :: x :: r) end
    | K_NIP => match s with a :: _ :: r => Some (a :: r) | _ => None end
    | K_OVER => match s with a :: b :: r => Some (b :: a :: b :: r) | _ => None end
    | K_PICK =>
        match s with
        | x :: ((_ :: _) as r) =>
            match core_num 4 x with
            | None => None
            | Some n => if (n <? 0) || (n >=? Z.of_nat (length r)) then None
                        else Some (nth (Z.to_nat n) r [] :: r)
            end
        | _ => None
        end
    | K_ROLL =>
        match s with
        | x :: ((_ :: _) as r) =>
            match core_num 4 x with
            | None => None
            | Some n => if (n <? 0) || (n >=? Z.of_nat (length r)) then None
                        else Some (nth (Z.to_nat n) r [] :: remove_at (Z.to_nat n) r)
            end
        | _ => None
        end
    | K_ROT => match s with a :: b :: c :: r => Some (c :: a :: b :: r) | _ => None end
    | K_SWAP => match s with a :: b :: r => Some (b :: a :: r) | _ => None end
    | K_TUCK => match s with a :: b :: r => Some (a :: b :: a :: r) | _ => None end
    | K_SIZE => match s with [] => None | x :: r => Some (ser (Z.of_nat (length x)) :: x :: r) end
    | K_EQUAL => match s with a :: b :: r => Some (ser_bool (bytes_eqb b a) :: r) | _ => None end
    | K_EQUALVERIFY => match s with a :: b :: r => if bytes_eqb b a then Some r else None | _ => None end
    | K_1ADD => core_unary (fun a => ser (a + 1)) s
    | K_1SUB => core_unary (fun a => ser (a - 1)) s
    | K_NEGATE => core_unary (fun a => ser (- a)) s
    | K_ABS => core_unary (fun a => ser (if a <? 0 then - a else a)) s
    | K_NOT => core_unary (fun a => ser_bool (a =? 0)) s
    | K_0NOTEQUAL => core_unary (fun a => ser_bool (negb (a =? 0))) s
    | K_ADD => core_binary (fun bn1 bn2 => ser (bn1 + bn2)) s
    | K_SUB => core_binary (fun bn1 bn2 => ser (bn1 - bn2)) s
    | K_BOOLAND => core_binary (fun bn1 bn2 => ser_bool (negb (bn1 =? 0) && negb (bn2 =? 0))) s
    | K_BOOLOR => core_binary (fun bn1 bn2 => ser_bool (negb (bn1 =? 0) || negb (bn2 =? 0))) s
    | K_NUMEQUAL => core_binary (fun bn1 bn2 => ser_bool (bn1 =? bn2)) s
    | K_NUMEQUALVERIFY =>
        match core_binary (fun bn1 bn2 => ser_bool (bn1 =? bn2)) s with
        | None => None
        | Some s' => core_verify_top s'
        end
    | K_NUMNOTEQUAL => core_binary (fun bn1 bn2 => ser_bool (negb (bn1 =? bn2))) s
    | K_MIN => core_binary (fun bn1 bn2 => ser (if bn1 <? bn2 then bn1 else bn2)) s
    | K_MAX => core_binary (fun bn1 bn2 => ser (if bn1 >? bn2 then bn1 else bn2)) s
    | K_WITHIN =>
        match s with
        | x3 :: x2 :: x1 :: r =>
            match core_num 4 x1, core_num 4 x2, core_num 4 x3 with
            | Some bn1, Some bn2, Some bn3 => Some (ser_bool ((bn2 <=? bn1) && (bn1 <? bn3)) :: r)
            | _, _, _ => None
            end
        | _ => None
        end
    | K_RIPEMD160 => core_hash h_ripemd160 s
    | K_SHA1 => core_hash h_sha1 s
    | K_SHA256 => core_hash h_sha256 s
    | K_HASH160 => core_hash (fun x => h_ripemd160 (h_sha256 x)) s
    | K_HASH256 => core_hash (fun x => h_sha256 (h_sha256 x)) s
    | K_CHECKSIG => core_checksig s
    | K_CHECKSIGVERIFY => match core_checksig s with None => None | Some s' => core_verify_top s' end
    | K_CHECKMULTISIG => core_checkmultisig s
    | K_CHECKMULTISIGVERIFY =>
        match core_checkmultisig s with None => None | Some s' => core_verify_top s' end
    | K_CLTV => core_cltv s
    | K_CSV => core_csv s
    end.

  (* result of the run: None = script error; vf = vfExec, innermost condition first *)
  Inductive crun := CFail | COut | CDone (s : stack) (vf : list bool).

  Fixpoint core_run (cmds : list scmd) (s : stack) (vf : list bool) : crun :=
    match cmds with
    | [] => CDone s vf
    | c :: rest =>
        let fexec := forallb (fun b => b) vf in
        match c with
        | CPush d => if fexec then core_run rest (d :: s) vf else core_run rest s vf
        | COp n =>
            if core_disabled n then CFail
            else if (99 <=? n) && (n <=? 104) then
              if (n =? 99) || (n =? 100) then
                if fexec then
                  match s with
                  | [] => CFail
                  | x :: r =>
                      let v := cast_to_bool x in
                      core_run rest r ((if n =? 100 then negb v else v) :: vf)
                  end
                else core_run rest s (false :: vf)
              else if n =? 103 then
                match vf with [] => CFail | b :: vf' => core_run rest s (negb b :: vf') end
              else if n =? 104 then
                match vf with [] => CFail | _ :: vf' => core_run rest s vf' end
              else CFail                                            (* OP_VERIF, OP_VERNOTIF *)
            else if fexec then
              if n =? 0 then core_run rest ([] :: s) vf
              else if n =? 79 then core_run rest (ser (-1) :: s) vf
              else if (81 <=? n) && (n <=? 96) then core_run rest (ser (n - 80) :: s) vf
              else
                match zassoc n core_kinds with
                | None => COut
                | Some k =>
                    match core_op k s with
                    | None => CFail
                    | Some s' => core_run rest s' vf
                    end
                end
            else core_run rest s vf
        end
    end.

  (* the final test of VerifyScript on what EvalScript left: verdict and final stack *)
  Definition core_finish (r : crun) : verdict * stack :=
    match r with
    | CFail => (Invalid, [])
    | COut => (Unimplemented, [])
    | CDone s vf =>
        match vf with
        | _ :: _ => (Invalid, s)                     (* SCRIPT_ERR_UNBALANCED_CONDITIONAL *)
        | [] =>
            match s with
            | [] => (Invalid, [])
            | top :: _ => if cast_to_bool top then (Valid, s) else (Invalid, s)
            end
        end
    end.

  Definition core_eval (cmds : list scmd) : verdict * stack := core_finish (core_run cmds [] []).

End Core.

(* CheckSequence reads the transaction version as uint32_t (static_cast<uint32_t>(txTo->nVersion) < 2): what that
   cast makes of a version handed over as a signed 32-bit number.  The identity on 0 .. 2^32-1, the reading the
   library's own Transaction.version_int produces. *)
Definition core_u32 (z : Z) : Z := z mod 4294967296.
Definition env_u32_version (e : env) : env :=
  mkEnv (e_redeem e) (e_sequence e) (e_locktime e) (option_map core_u32 (e_version e)).

(* static resource limits of EvalScript the library does not have: at most 201 non-push opcodes
   (opcodes above OP_16, executed or not) and pushes of at most 520 bytes *)
Definition core_limits_ok (cmds : list scmd) : bool :=
  (length (filter (fun c => match c with COp n => Z.ltb 96 n | CPush _ => false end) cmds) <=? 201)%nat
  && forallb (fun c => match c with CPush d => (length d <=? 520)%nat | COp _ => true end) cmds.
