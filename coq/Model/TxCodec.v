(* Model/TxCodec.v — C06: transaction wire codec.
   Definitions only.
   spec_*  is written from the protocol (Bitcoin Core serialize.h / primitives/transaction.h, BIP144):
           strict CompactSize reader (core_cs_dec), marker 00 / flag 01, witness section, no
           superfluous witness record.
   lib_*   mirrors /repo bitcoinlib at the byte level: encoding.to_bytes / varstr / int_to_varbyteint /
           varbyteint_to_int, transactions.Input.parse / Output.parse / Transaction.parse_bytesio /
           Transaction.raw / Transaction.__init__ (txid).  The script-interpreting layer of the real
           parser (Script.parse_bytes, Input.update_scripts) is modelled as the identity on bytes; the two
           places where it decides a byte-level flag (script_type 'nonstandard_0001', the input's
           witness_type) are mirrored. *)
From Coq Require Import ZArith List Bool.
From Coq.Strings Require Import Byte.
From Verif Require Import Lib.Bytes Model.Wire Crypto.Sha256.
Import ListNotations.
Open Scope Z_scope.

(* ---------- abstract transactions ---------- *)

Record txin := mk_txin {
  ti_prev : bytes;          (* 32 bytes, wire order *)
  ti_vout : Z;
  ti_script : bytes;        (* scriptSig *)
  ti_seq : Z;
  ti_wit : list bytes       (* witness stack; [] = no witness *)
}.

Record txout := mk_txout { to_value : Z; to_script : bytes }.

Record tx := mk_tx {
  tx_version : Z;
  tx_ins : list txin;
  tx_outs : list txout;
  tx_locktime : Z;
  tx_segwit : bool          (* extended (BIP144) serialization *)
}.

Definition is_nil {A} (l : list A) : bool := match l with [] => true | _ => false end.

Definition has_witness (ins : list txin) : bool := existsb (fun i => negb (is_nil (ti_wit i))) ins.

Definition strip_in (i : txin) : txin := mk_txin (ti_prev i) (ti_vout i) (ti_script i) (ti_seq i) [].
Definition strip_witness (t : tx) : tx :=
  mk_tx (tx_version t) (map strip_in (tx_ins t)) (tx_outs t) (tx_locktime t) false.

(* ---------- protocol serialization ---------- *)

Definition ser_list {A} (f : A -> bytes) (l : list A) : bytes :=
  core_cs_enc (Z.of_nat (length l)) ++ concat (map f l).

Definition ser_varbytes (s : bytes) : bytes := core_cs_enc (Z.of_nat (length s)) ++ s.

Definition ser_in (i : txin) : bytes :=
  ti_prev i ++ le_bytes 4 (ti_vout i) ++ ser_varbytes (ti_script i) ++ le_bytes 4 (ti_seq i).

Definition ser_out (o : txout) : bytes := le_bytes 8 (to_value o) ++ ser_varbytes (to_script o).

Definition ser_wit (i : txin) : bytes := ser_list ser_varbytes (ti_wit i).

Definition spec_ser (t : tx) : bytes :=
  le_bytes 4 (tx_version t) ++
  (if tx_segwit t then [x00; x01] else []) ++
  ser_list ser_in (tx_ins t) ++
  ser_list ser_out (tx_outs t) ++
  (if tx_segwit t then concat (map ser_wit (tx_ins t)) else []) ++
  le_bytes 4 (tx_locktime t).

Definition spec_txid (t : tx) : bytes := rev (sha256d (spec_ser (strip_witness t))).
Definition spec_wtxid (t : tx) : bytes := rev (sha256d (spec_ser t)).

(* ---------- protocol parser (total, option, explicit rest) ---------- *)

Definition read_n (k : nat) (l : bytes) : option (bytes * bytes) :=
  if (length l <? k)%nat then None else Some (firstn k l, skipn k l).

Definition read_le (k : nat) (l : bytes) : option (Z * bytes) :=
  match read_n k l with Some (b, r) => Some (of_le b, r) | None => None end.

(* a length prefix larger than what is left fails immediately *)
Definition read_varbytes (l : bytes) : option (bytes * bytes) :=
  match core_cs_dec l with
  | Some (n, r) => if Z.of_nat (length r) <? n then None else read_n (Z.to_nat n) r
  | None => None
  end.

Fixpoint parse_n {A} (p : bytes -> option (A * bytes)) (n : nat) (l : bytes) : option (list A * bytes) :=
  match n with
  | O => Some ([], l)
  | S k =>
      match p l with
      | Some (a, r) =>
          match parse_n p k r with
          | Some (t, r') => Some (a :: t, r')
          | None => None
          end
      | None => None
      end
  end.

(* every element occupies at least one byte, so a count above the remaining length fails at once *)
Definition parse_list {A} (p : bytes -> option (A * bytes)) (l : bytes) : option (list A * bytes) :=
  match core_cs_dec l with
  | Some (n, r) => if Z.of_nat (length r) <? n then None else parse_n p (Z.to_nat n) r
  | None => None
  end.

Definition parse_in (l : bytes) : option (txin * bytes) :=
  match read_n 32 l with
  | Some (prev, l1) =>
      match read_le 4 l1 with
      | Some (vout, l2) =>
          match read_varbytes l2 with
          | Some (s, l3) =>
              match read_le 4 l3 with
              | Some (q, l4) => Some (mk_txin prev vout s q [], l4)
              | None => None
              end
          | None => None
          end
      | None => None
      end
  | None => None
  end.

Definition parse_out (l : bytes) : option (txout * bytes) :=
  match read_le 8 l with
  | Some (v, l1) =>
      match read_varbytes l1 with
      | Some (s, l2) => Some (mk_txout v s, l2)
      | None => None
      end
  | None => None
  end.

Definition set_wit (i : txin) (w : list bytes) : txin :=
  mk_txin (ti_prev i) (ti_vout i) (ti_script i) (ti_seq i) w.

Fixpoint parse_wits (ins : list txin) (l : bytes) : option (list txin * bytes) :=
  match ins with
  | [] => Some ([], l)
  | i :: r =>
      match parse_list read_varbytes l with
      | Some (w, l1) =>
          match parse_wits r l1 with
          | Some (r', l2) => Some (set_wit i w :: r', l2)
          | None => None
          end
      | None => None
      end
  end.

(* everything after the version (and marker/flag) *)
Definition parse_tail (sw : bool) (ver : Z) (l : bytes) : option (tx * bytes) :=
  match parse_list parse_in l with
  | Some (ins, l3) =>
      match parse_list parse_out l3 with
      | Some (outs, l4) =>
          match (if sw then parse_wits ins l4 else Some (ins, l4)) with
          | Some (ins', l5) =>
              if sw && negb (has_witness ins') then None      (* superfluous witness record *)
              else
                match read_le 4 l5 with
                | Some (lt, l6) => Some (mk_tx ver ins' outs lt sw, l6)
                | None => None
                end
          | None => None
          end
      | None => None
      end
  | None => None
  end.

Definition spec_parse (l : bytes) : option (tx * bytes) :=
  match read_le 4 l with
  | None => None
  | Some (ver, l1) =>
      match l1 with
      | [] => None
      | b0 :: l1' =>
          if bz b0 =? 0 then
            (* zero-length vin = marker; the flag byte must be exactly 01 *)
            match l1' with
            | b1 :: l2 => if bz b1 =? 1 then parse_tail true ver l2 else None
            | [] => None
            end
          else parse_tail false ver l1
      end
  end.

(* ---------- well-formedness (the property's domain) ---------- *)

Definition len_ok {A} (l : list A) : Prop := Z.of_nat (length l) < 2 ^ 64.

Definition wf_in (i : txin) : Prop :=
  length (ti_prev i) = 32%nat /\ 0 <= ti_vout i < 2 ^ 32 /\ 0 <= ti_seq i < 2 ^ 32 /\
  len_ok (ti_script i) /\ len_ok (ti_wit i) /\ Forall (fun w : bytes => len_ok w) (ti_wit i).

Definition wf_out (o : txout) : Prop := 0 <= to_value o < 2 ^ 64 /\ len_ok (to_script o).

Definition wf_tx (t : tx) : Prop :=
  0 <= tx_version t < 2 ^ 32 /\ 0 <= tx_locktime t < 2 ^ 32 /\
  tx_ins t <> [] /\ len_ok (tx_ins t) /\ len_ok (tx_outs t) /\
  Forall wf_in (tx_ins t) /\ Forall wf_out (tx_outs t) /\
  tx_segwit t = has_witness (tx_ins t).

(* ---------- the library, byte level ---------- *)

(* bytes.fromhex(s.decode()): ASCII whitespace is skipped between pairs; two hex digits per byte *)
Definition is_space (b : byte) : bool :=
  let v := bz b in (v =? 32) || ((9 <=? v) && (v <=? 13)).

Definition hexval (b : byte) : option Z :=
  let v := bz b in
  if (48 <=? v) && (v <=? 57) then Some (v - 48)
  else if (97 <=? v) && (v <=? 102) then Some (v - 87)
  else if (65 <=? v) && (v <=? 70) then Some (v - 55)
  else None.

Fixpoint unhex (s : bytes) : option bytes :=
  match s with
  | [] => Some []
  | a :: r =>
      if is_space a then unhex r
      else
        match hexval a, r with
        | Some h, b :: r' =>
            match hexval b with
            | Some lo => match unhex r' with Some t => Some (zb (16 * h + lo) :: t) | None => None end
            | None => None
            end
        | _, _ => None
        end
  end.

(* encoding.to_bytes on a bytes argument: a value that reads as hexadecimal text is unhexlified *)
Definition lib_to_bytes (s : bytes) : bytes :=
  match s with
  | [] => []
  | _ => match unhex s with Some r => r | None => s end
  end.

Definition hexlike (s : bytes) : bool :=
  match s with
  | [] => false
  | _ => match unhex s with Some _ => true | None => false end
  end.

(* prev_txid is held in display order: to_bytes acts on the reversed wire bytes *)
Definition lib_prev (p : bytes) : bytes := rev (lib_to_bytes (rev p)).

(* what the library holds for one input after parsing / construction *)
Record linput := mk_linput {
  l_in : txin;
  l_ns : bool;     (* script_type = 'nonstandard_0001' *)
  l_leg : bool     (* witness_type = 'legacy' *)
}.

Record ltx := mk_ltx {
  l_version : Z;
  l_ins : list linput;
  l_outs : list txout;
  l_locktime : Z;
  l_segwit : bool;   (* Transaction.witness_type = 'segwit' *)
  l_txid : bytes     (* Transaction.txid, display order *)
}.

(* int.to_bytes(k, 'little'): OverflowError outside [0, 256^k) *)
Definition le_bytes_opt (k : nat) (n : Z) : option bytes :=
  if (0 <=? n) && (n <? 256 ^ Z.of_nat k) then Some (le_bytes k n) else None.

Definition obind {A B} (o : option A) (f : A -> option B) : option B :=
  match o with Some a => f a | None => None end.

Fixpoint oconcat {A} (f : A -> option bytes) (l : list A) : option bytes :=
  match l with
  | [] => Some []
  | a :: r => match f a, oconcat f r with Some x, Some y => Some (x ++ y) | _, _ => None end
  end.

Definition lib_raw_in (i : linput) : option bytes :=
  obind (le_bytes_opt 4 (ti_vout (l_in i))) (fun vo =>
  obind (lib_varstr (ti_script (l_in i))) (fun s =>
  obind (le_bytes_opt 4 (ti_seq (l_in i))) (fun q =>
  Some (ti_prev (l_in i) ++ vo ++ (if l_ns i then [x01] else []) ++ s ++ q)))).

Definition lib_raw_out (o : txout) : option bytes :=
  obind (le_bytes_opt 8 (to_value o)) (fun v =>
  obind (lib_varstr (to_script o)) (fun s => Some (v ++ s))).

(* witness section of Transaction.raw: inputs without witnesses, or of witness_type 'legacy', write 00 *)
Definition lib_raw_wit (i : linput) : option bytes :=
  if negb (is_nil (ti_wit (l_in i))) && negb (l_leg i) then
    obind (lib_cs_enc (Z.of_nat (length (ti_wit (l_in i))))) (fun c =>
    obind (oconcat lib_varstr (ti_wit (l_in i))) (fun w => Some (c ++ w)))
  else Some [x00].

(* Transaction.raw(sign_id=None, witness_type=sw) *)
Definition lib_raw_w (sw : bool) (t : ltx) : option bytes :=
  obind (le_bytes_opt 4 (l_version t)) (fun ver =>
  obind (lib_cs_enc (Z.of_nat (length (l_ins t)))) (fun ci =>
  obind (oconcat lib_raw_in (l_ins t)) (fun ins =>
  obind (lib_cs_enc (Z.of_nat (length (l_outs t)))) (fun co =>
  obind (oconcat lib_raw_out (l_outs t)) (fun outs =>
  obind (if sw then oconcat lib_raw_wit (l_ins t) else Some []) (fun wit =>
  obind (le_bytes_opt 4 (l_locktime t)) (fun lt =>
  Some (ver ++ (if sw then [x00; x01] else []) ++ ci ++ ins ++ co ++ outs ++ wit ++ lt)))))))).

Definition lib_raw (t : ltx) : option bytes := lib_raw_w (l_segwit t) t.

(* Transaction.signature_hash()[::-1]: id computed from the object (txid argument empty) *)
Definition lib_calc_txid (t : ltx) : option bytes :=
  match lib_raw_w false t with Some r => Some (rev (sha256d r)) | None => None end.

(* -- parsing: every read must be satisfied (the real BytesIO reads return short data at the end of
      the buffer; those truncated inputs are outside the model: None) -- *)

(* read_varbyteint: lax CompactSize, then seek *)
Definition lib_read_cs (l : bytes) : option (Z * bytes) :=
  let '(v, k) := lib_cs_dec (firstn 9 l) in
  if (k =? 0)%nat then None
  else if (length l <? k)%nat then None else Some (v, skipn k l).

Definition lib_read_var (l : bytes) : option (Z * bytes * bytes) :=
  match lib_read_cs l with
  | Some (n, r) =>
      if Z.of_nat (length r) <? n then None
      else Some (n, firstn (Z.to_nat n) r, skipn (Z.to_nat n) r)
  | None => None
  end.

(* scriptSig that is exactly the push of a v0 witness program: the script layer types it p2wpkh / p2wsh
   and the witness loop then switches the input to witness_type 'p2sh-segwit' *)
Definition is_wp_push (s : bytes) : bool :=
  match s with
  | b0 :: b1 :: b2 :: r =>
      ((bz b0 =? 22) && (bz b1 =? 0) && (bz b2 =? 20) && (length r =? 20)%nat) ||
      ((bz b0 =? 34) && (bz b1 =? 0) && (bz b2 =? 32) && (length r =? 32)%nat)
  | _ => false
  end.

(* Input.parse + the byte-level part of Input.__init__ *)
Definition lib_parse_in (sw : bool) (l : bytes) : option (linput * bytes) :=
  match read_n 32 l with
  | Some (prev, l1) =>
      match read_le 4 l1 with
      | Some (vout, l2) =>
          match lib_read_var l2 with
          | Some (n, s, l3) =>
              match read_le 4 l3 with
              | Some (q, l4) =>
                  let ns := (n =? 1) && bytes_eqb s [x00] in
                  let leg := negb (sw && (n =? 0)) in
                  Some (mk_linput (mk_txin (lib_prev prev) vout (lib_to_bytes s) q []) ns leg, l4)
              | None => None
              end
          | None => None
          end
      | None => None
      end
  | None => None
  end.

Definition lib_parse_out (l : bytes) : option (txout * bytes) :=
  match read_le 8 l with
  | Some (v, l1) =>
      match lib_read_var l1 with
      | Some (_, s, l2) => Some (mk_txout v (lib_to_bytes s), l2)
      | None => None
      end
  | None => None
  end.

(* one witness item: size 0 is stored as b'\0' *)
Definition lib_parse_item (l : bytes) : option (bytes * bytes) :=
  match lib_read_var l with
  | Some (n, s, r) => Some (if n =? 0 then [x00] else s, r)
  | None => None
  end.

Definition lib_count (l : bytes) : option (nat * bytes) :=
  match lib_read_cs l with
  | Some (n, r) => if Z.of_nat (length r) <? n then None else Some (Z.to_nat n, r)
  | None => None
  end.

Definition is_coinbase_prev (p : bytes) : bool := bytes_eqb p (repeat x00 32).

Definition l_set_wit (i : linput) (w : list bytes) : linput :=
  let j := l_in i in
  (* a stack was read for this input: a recognised witness-program scriptSig becomes 'p2sh-segwit', a
     coinbase input becomes 'segwit' (fix C06-1); any other non-empty scriptSig leaves the input
     'legacy' (raw() then drops the stack) *)
  mk_linput (set_wit j w) (l_ns i)
            (if is_wp_push (ti_script j) || is_coinbase_prev (ti_prev j) then false else l_leg i).

Fixpoint lib_parse_wits (ins : list linput) (l : bytes) : option (list linput * bytes) :=
  match ins with
  | [] => Some ([], l)
  | i :: r =>
      match lib_count l with
      | Some (n, l1) =>
          match parse_n lib_parse_item n l1 with
          | Some (w, l2) =>
              match lib_parse_wits r l2 with
              | Some (r', l3) => Some ((if is_nil w then i else l_set_wit i w) :: r', l3)
              | None => None
              end
          | None => None
          end
      | None => None
      end
  end.

(* body of Transaction.parse_bytesio up to the locktime; the id is filled in by the callers *)
Definition lib_parse_body (l : bytes) : option (ltx * bytes) :=
  match read_le 4 l with
  | None => None
  | Some (ver, l1) =>
      (* a zero byte after the version consumes the following byte as "flag" whatever its value *)
      let '(sw, l2) :=
        match l1 with
        | b0 :: b1 :: r => if bz b0 =? 0 then (bz b1 =? 1, r) else (false, l1)
        | _ => (false, l1)
        end in
      match lib_count l2 with
      | Some (ni, l3) =>
          match parse_n (lib_parse_in sw) ni l3 with
          | Some (ins, l4) =>
              match lib_count l4 with
              | Some (no, l5) =>
                  match parse_n lib_parse_out no l5 with
                  | Some (outs, l6) =>
                      if is_nil outs then None
                      else
                        match (if sw then lib_parse_wits ins l6 else Some (ins, l6)) with
                        | Some (ins', l7) =>
                            match read_le 4 l7 with
                            | Some (lt, l8) => Some (mk_ltx ver ins' outs lt sw [], l8)
                            | None => None
                            end
                        | None => None
                        end
                  | None => None
                  end
              | None => None
              end
          | None => None
          end
      | None => None
      end
  end.

Definition with_txid (t : ltx) (id : bytes) : ltx :=
  mk_ltx (l_version t) (l_ins t) (l_outs t) (l_locktime t) (l_segwit t) id.

(* txid: legacy = hash of the bytes handed in / consumed; segwit = computed from the object *)
Definition lib_finish (t : ltx) (raw_bytes : bytes) : option ltx :=
  if l_segwit t then
    match lib_calc_txid t with Some id => Some (with_txid t id) | None => None end
  else Some (with_txid t (rev (sha256d raw_bytes))).

(* Transaction.parse(bytes) / parse_bytes / parse_hex: raw_bytes is the whole argument *)
Definition lib_parse (whole : bytes) : option ltx :=
  match lib_parse_body whole with
  | Some (t, _) => lib_finish t whole
  | None => None
  end.

(* Transaction.parse_bytesio on a stream (block readers): raw_bytes = what was consumed *)
Definition lib_parse_stream (l : bytes) : option (ltx * bytes) :=
  match lib_parse_body l with
  | Some (t, r) =>
      match lib_finish t (firstn (length l - length r) l) with
      | Some t' => Some (t', r)
      | None => None
      end
  | None => None
  end.

Definition is_zero1 (s : bytes) : bool := bytes_eqb s [x00].

(* a transaction assembled through the API from explicit fields:
   Transaction(version, locktime, witness_type); add_input(prev, n, unlocking_script, sequence,
   witnesses, witness_type = segwit iff witnesses); add_output(value, lock_script) *)
Definition api_in (i : txin) : linput :=
  mk_linput (mk_txin (lib_prev (ti_prev i)) (ti_vout i) (lib_to_bytes (ti_script i)) (ti_seq i) (ti_wit i))
            (is_zero1 (lib_to_bytes (ti_script i))) (is_nil (ti_wit i)).

Definition api_out (o : txout) : txout := mk_txout (to_value o) (lib_to_bytes (to_script o)).

(* Transaction.__init__: "if not version: version = 1"; add_input: version 1 becomes 2 as soon as an
   input carries a relative-locktime sequence (0 < sequence < SEQUENCE_LOCKTIME_DISABLE_FLAG) *)
Definition api_version (v : Z) (ins : list txin) : Z :=
  let v0 := if v =? 0 then 1 else v in
  if (v0 =? 1) && existsb (fun i => (0 <? ti_seq i) && (ti_seq i <? 2147483648)) ins then 2 else v0.

Definition api_build (t : tx) : ltx :=
  mk_ltx (api_version (tx_version t) (tx_ins t)) (map api_in (tx_ins t)) (map api_out (tx_outs t))
         (tx_locktime t) (tx_segwit t) [].

(* the library's view as an abstract transaction (fields as the object reports them; Input.witnesses of a
   'legacy' input is bookkeeping, not a witness stack) *)
Definition view_in (i : linput) : txin := if l_leg i then strip_in (l_in i) else l_in i.
Definition view (t : ltx) : tx :=
  mk_tx (l_version t) (map view_in (l_ins t)) (l_outs t) (l_locktime t) (l_segwit t).

(* how the object represents a parsed transaction: an empty witness item is held as b'\0' *)
Definition repr_item (w : bytes) : bytes := match w with [] => [x00] | _ => w end.
Definition repr_in (i : txin) : txin :=
  mk_txin (ti_prev i) (ti_vout i) (ti_script i) (ti_seq i) (map repr_item (ti_wit i)).
Definition repr (t : tx) : tx :=
  mk_tx (tx_version t) (map repr_in (tx_ins t)) (tx_outs t) (tx_locktime t) (tx_segwit t).

(* ---------- the guard: classes on which the faithful model does not round-trip ---------- *)

Definition qf_in (i : txin) : Prop :=
  hexlike (rev (ti_prev i)) = false /\ hexlike (ti_script i) = false /\
  forallb (fun w => negb (is_zero1 w)) (ti_wit i) = true /\
  (* scriptSig and witness together only in the recognised P2SH-wrapped form or on a coinbase input *)
  (is_nil (ti_script i) || is_nil (ti_wit i) || is_wp_push (ti_script i) || is_coinbase_prev (ti_prev i)) = true.

Definition qf_out (o : txout) : Prop := is_zero1 (to_script o) = false /\ hexlike (to_script o) = false.

Definition quirk_free (t : tx) : Prop :=
  Forall qf_in (tx_ins t) /\ Forall qf_out (tx_outs t) /\ tx_outs t <> [].

(* API direction (the script layer types a scriptSig 00 'nonstandard_0001' here as well) *)
Definition qf_api_in (i : txin) : Prop :=
  hexlike (rev (ti_prev i)) = false /\ hexlike (ti_script i) = false /\
  forallb (fun w => negb (is_zero1 w)) (ti_wit i) = true.

Definition quirk_free_api (t : tx) : Prop :=
  Forall qf_api_in (tx_ins t) /\ Forall qf_out (tx_outs t) /\
  api_version (tx_version t) (tx_ins t) = tx_version t.
