(* Model/BlockCodec.v — C06: block header / block codec, target from bits, the library's two
   transaction readers.  Definitions only.
   spec_* from the protocol (80-byte header, CompactSize count, transactions; arith_uint256::SetCompact);
   lib_*  mirrors bitcoinlib/blocks.py (Block.__init__, parse_bytesio(parse_transactions=True),
          parse_transaction_dict, serialize, target) at the byte level. *)
From Coq Require Import ZArith List Bool.
From Coq.Strings Require Import Byte.
From Verif Require Import Lib.Bytes Model.Wire Crypto.Sha256 Model.TxCodec.
Import ListNotations.
Open Scope Z_scope.

Record header := mk_header {
  h_version : Z;
  h_prev : bytes;      (* 32 bytes, wire order *)
  h_merkle : bytes;    (* 32 bytes, wire order *)
  h_time : Z;
  h_bits : Z;
  h_nonce : Z
}.

Record block := mk_block { b_hdr : header; b_txs : list tx }.

Definition ser_header (h : header) : bytes :=
  le_bytes 4 (h_version h) ++ h_prev h ++ h_merkle h ++ le_bytes 4 (h_time h) ++
  le_bytes 4 (h_bits h) ++ le_bytes 4 (h_nonce h).

Definition spec_block_ser (b : block) : bytes := ser_header (b_hdr b) ++ ser_list spec_ser (b_txs b).

Definition spec_block_hash (h : header) : bytes := rev (sha256d (ser_header h)).

Definition parse_header (l : bytes) : option (header * bytes) :=
  match read_le 4 l with
  | Some (v, l1) =>
      match read_n 32 l1 with
      | Some (p, l2) =>
          match read_n 32 l2 with
          | Some (m, l3) =>
              match read_le 4 l3 with
              | Some (t, l4) =>
                  match read_le 4 l4 with
                  | Some (b, l5) =>
                      match read_le 4 l5 with
                      | Some (n, l6) => Some (mk_header v p m t b n, l6)
                      | None => None
                      end
                  | None => None
                  end
              | None => None
              end
          | None => None
          end
      | None => None
      end
  | None => None
  end.

Definition spec_block_parse (l : bytes) : option (block * bytes) :=
  match parse_header l with
  | Some (h, r) =>
      match parse_list spec_parse r with
      | Some (txs, r') => Some (mk_block h txs, r')
      | None => None
      end
  | None => None
  end.

(* arith_uint256::SetCompact, for a non-negative target (sign bit 0x00800000 clear) *)
Definition spec_target (bits : Z) : Z :=
  let size := bits / 16777216 in
  let word := bits mod 8388608 in
  if size <=? 3 then word / 256 ^ (3 - size) else word * 256 ^ (size - 3).

(* pfNegative of SetCompact: the sign bit 0x00800000 on a non-zero mantissa word; the number the compact form
   encodes is then minus the magnitude (Bitcoin Core refuses such a header) *)
Definition spec_target_negative (bits : Z) : bool :=
  negb (bits mod 8388608 =? 0) && (8388608 <=? bits mod 16777216).

Definition spec_target_signed (bits : Z) : Z :=
  if spec_target_negative bits then - spec_target bits else spec_target bits.

Definition wf_header (h : header) : Prop :=
  0 <= h_version h < 2 ^ 32 /\ length (h_prev h) = 32%nat /\ length (h_merkle h) = 32%nat /\
  0 <= h_time h < 2 ^ 32 /\ 0 <= h_bits h < 2 ^ 32 /\ 0 <= h_nonce h < 2 ^ 32.

(* ---------- the library ---------- *)

(* Block object: header fields are kept as bytes in display (big-endian) order after encoding.to_bytes *)
Record lblock := mk_lblock {
  lb_hash : bytes;       (* display order *)
  lb_version : bytes;
  lb_prev : bytes;
  lb_merkle : bytes;
  lb_time : Z;
  lb_bits : bytes;
  lb_nonce : bytes;
  lb_txs : list ltx;
  lb_tx_count : Z
}.

(* Block.target; None = the expression is a Python float (256 ** negative) *)
Definition lib_target (bits : bytes) : option Z :=
  match bits with
  | [] => Some 0
  | e :: m => if bz e <? 3 then None else Some (of_be m * 256 ^ (bz e - 3))
  end.

(* the while-loop of parse_bytesio: transactions are read until the data is exhausted *)
Fixpoint lib_parse_txs (fuel : nat) (l : bytes) : option (list ltx) :=
  match l with
  | [] => Some []
  | _ =>
      match fuel with
      | O => None
      | S f =>
          match lib_parse_stream l with
          | Some (t, r) => match lib_parse_txs f r with Some ts => Some (t :: ts) | None => None end
          | None => None
          end
      end
  end.

(* Block.parse_bytes(raw, parse_transactions=True) *)
Definition lib_block_parse (l : bytes) : option lblock :=
  match read_n 80 l with
  | None => None
  | Some (hdr, body) =>
      match parse_header hdr with
      | None => None
      | Some (h, _) =>
          match lib_read_cs body with
          | None => None
          | Some (cnt, txdata) =>
              match lib_parse_txs (length txdata) txdata with
              | None => None
              | Some txs =>
                  if cnt =? Z.of_nat (length txs) then
                    Some (mk_lblock (rev (sha256d hdr))
                                    (lib_to_bytes (be_bytes 4 (h_version h)))
                                    (lib_to_bytes (rev (h_prev h)))
                                    (lib_to_bytes (rev (h_merkle h)))
                                    (h_time h)
                                    (lib_to_bytes (be_bytes 4 (h_bits h)))
                                    (lib_to_bytes (be_bytes 4 (h_nonce h)))
                                    txs cnt)
                  else None
              end
          end
      end
  end.

(* Block.serialize *)
Definition lib_block_serialize (b : lblock) : option bytes :=
  if negb (Z.of_nat (length (lb_txs b)) =? lb_tx_count b) || is_nil (lb_txs b) then None
  else
    obind (le_bytes_opt 4 (lb_time b)) (fun tm =>
    let rb := rev (lb_version b) ++ rev (lb_prev b) ++ rev (lb_merkle b) ++ tm ++
              rev (lb_bits b) ++ rev (lb_nonce b) in
    if negb (length rb =? 80)%nat then None
    else
      obind (lib_cs_enc (Z.of_nat (length (lb_txs b)))) (fun c =>
      obind (oconcat lib_raw (lb_txs b)) (fun ts => Some (rb ++ c ++ ts)))).

(* ---- second reader: Block.parse_transaction_dict keeps the raw pieces ---- *)

Definition consumed (l r : bytes) : bytes := firstn (length l - length r) l.

Definition dict_in (l : bytes) : option bytes :=      (* returns the rest *)
  match read_n 32 l with
  | Some (_, l1) =>
      match read_n 4 l1 with
      | Some (_, l2) =>
          match lib_read_var l2 with
          | Some (_, _, l3) => match read_n 4 l3 with Some (_, l4) => Some l4 | None => None end
          | None => None
          end
      | None => None
      end
  | None => None
  end.

Definition dict_out (l : bytes) : option bytes :=
  match read_n 8 l with
  | Some (_, l1) => match lib_read_var l1 with Some (_, _, l2) => Some l2 | None => None end
  | None => None
  end.

Fixpoint skip_n (p : bytes -> option bytes) (n : nat) (l : bytes) : option bytes :=
  match n with
  | O => Some l
  | S k => match p l with Some r => skip_n p k r | None => None end
  end.

Definition dict_item (l : bytes) : option bytes :=
  match lib_read_var l with Some (_, _, r) => Some r | None => None end.

Definition dict_stack (l : bytes) : option bytes :=
  match lib_count l with Some (n, r) => skip_n dict_item n r | None => None end.

(* one transaction: (txid in display order, rawtx as the reader re-assembles it, rest) *)
Definition lib_dict_tx (l : bytes) : option (bytes * bytes * bytes) :=
  match read_n 4 l with
  | None => None
  | Some (ver, l1) =>
      let '(marker, sw, l2) :=
        match l1 with
        | b0 :: b1 :: r => if bz b0 =? 0 then (true, bz b1 =? 1, r) else (false, false, l1)
        | _ => (false, false, l1)
        end in
      match lib_count l2 with
      | None => None
      | Some (ni, l3) =>
          match skip_n dict_in ni l3 with
          | None => None
          | Some l4 =>
              match lib_count l4 with
              | None => None
              | Some (no, l5) =>
                  if (no =? 0)%nat then None
                  else
                    match skip_n dict_out no l5 with
                    | None => None
                    | Some l6 =>
                        match (if sw then skip_n dict_stack ni l6 else Some l6) with
                        | None => None
                        | Some l7 =>
                            match read_n 4 l7 with
                            | None => None
                            | Some (lt, l8) =>
                                let body := consumed l2 l6 in      (* counts, inputs, outputs *)
                                let wit := consumed l6 l7 in
                                let rawtx := ver ++ (if marker then [x00; x01] else []) ++ body ++ wit ++ lt in
                                Some (rev (sha256d (ver ++ body ++ lt)), rawtx, l8)
                            end
                        end
                    end
              end
          end
      end
  end.

Fixpoint lib_dict_txs (fuel : nat) (l : bytes) : option (list (bytes * bytes)) :=
  match l with
  | [] => Some []
  | _ =>
      match fuel with
      | O => None
      | S f =>
          match lib_dict_tx l with
          | Some (id, raw, r) =>
              match lib_dict_txs f r with Some ts => Some ((id, raw) :: ts) | None => None end
          | None => None
          end
      end
  end.

(* Block.parse_bytes(raw, parse_transactions=False).parse_transactions_dict() *)
Definition lib_block_dict (l : bytes) : option (list (bytes * bytes)) :=
  match read_n 80 l with
  | None => None
  | Some (_, body) =>
      match lib_read_cs body with
      | None => None
      | Some (cnt, txdata) => if cnt =? 0 then Some [] else lib_dict_txs (length txdata) txdata
      end
  end.

(* ====================================================================================================
   Sessions: reader calls on ONE Block object.
   The object keeps the stream it was parsed from (Block.txs_data, a BytesIO with a position) and the list
   Block.transactions.  State of the model: the header fields / transactions / tx_count (an lblock) and the
   bytes from the current position to the end of the stream.
   A read of a transaction at the end of the stream (only reachable after parse_transaction_dict has moved the
   position without adding to Block.transactions) is outside the model: None. *)

Record bstate := mk_bstate { bs_blk : lblock; bs_rest : bytes }.

Inductive bop :=
| BTxs (k : nat)        (* parse_transactions(limit=k) *)
| BTx                   (* parse_transaction() *)
| BDictAll              (* parse_transactions_dict() *)
| BDictOne              (* parse_transaction_dict() *)
| BSer.                 (* serialize() *)

Inductive bout :=
| OOk
| OTx (id : option bytes)                  (* the txid of the returned object; None = False *)
| ODicts (l : list (bytes * bytes))        (* (txid, rawtx) of every dictionary returned *)
| ODict (d : option (bytes * bytes))       (* None = False *)
| OSer (r : option bytes).                 (* None = ValueError *)

Definition set_txs (b : lblock) (txs : list ltx) : lblock :=
  mk_lblock (lb_hash b) (lb_version b) (lb_prev b) (lb_merkle b) (lb_time b) (lb_bits b) (lb_nonce b) txs
            (lb_tx_count b).

(* how many transactions the object still misses: the guard `len(self.transactions) < self.tx_count` *)
Definition b_todo (b : lblock) : nat := Z.to_nat (lb_tx_count b - Z.of_nat (length (lb_txs b))).

Definition lib_bstep (s : bstate) (o : bop) : option (bstate * bout) :=
  let b := bs_blk s in
  match o with
  | BTxs k =>
      let m := if (k =? 0)%nat then b_todo b else Nat.min k (b_todo b) in
      match parse_n lib_parse_stream m (bs_rest s) with
      | Some (ts, r) => Some (mk_bstate (set_txs b (lb_txs b ++ ts)) r, OOk)
      | None => None
      end
  | BTx =>
      match b_todo b with
      | O => Some (s, OTx None)
      | S _ =>
          match lib_parse_stream (bs_rest s) with
          | Some (t, r) => Some (mk_bstate (set_txs b (lb_txs b ++ [t])) r, OTx (Some (l_txid t)))
          | None => None
          end
      end
  | BDictAll =>
      (* the position is saved (deepcopy of the stream) and restored: the state does not change *)
      match b_todo b with
      | O => Some (s, ODicts [])
      | S _ =>
          match lib_dict_txs (length (bs_rest s)) (bs_rest s) with
          | Some l => Some (s, ODicts l)
          | None => None
          end
      end
  | BDictOne =>
      match b_todo b with
      | O => Some (s, ODict None)
      | S _ =>
          match bs_rest s with
          | [] => Some (s, ODict None)          (* the version read returns b'': False *)
          | _ =>
              match lib_dict_tx (bs_rest s) with
              | Some (id, raw, r) => Some (mk_bstate b r, ODict (Some (id, raw)))
              | None => None
              end
          end
      end
  | BSer => Some (s, OSer (lib_block_serialize b))
  end.

(* the answers of a sequence of calls, with the state after each; the run stops at the first call outside the model *)
Fixpoint lib_brun (s : bstate) (ops : list bop) : list (option (bstate * bout)) :=
  match ops with
  | [] => []
  | o :: r =>
      match lib_bstep s o with
      | Some (s', out) => Some (s', out) :: lib_brun s' r
      | None => [None]
      end
  end.

(* the reading loop of parse_bytesio(parse_transactions=True, limit): until the data is exhausted or `limit`
   transactions are held *)
Fixpoint lib_open_txs (fuel limit have : nat) (l : bytes) : option (list ltx * bytes) :=
  match l with
  | [] => Some ([], [])
  | _ =>
      if negb (limit =? 0)%nat && (limit <=? have)%nat then Some ([], l)
      else
        match fuel with
        | O => None
        | S f =>
            match lib_parse_stream l with
            | Some (t, r) =>
                match lib_open_txs f limit (S have) r with
                | Some (ts, r') => Some (t :: ts, r')
                | None => None
                end
            | None => None
            end
        end
  end.

Definition lblock_of (hdr : bytes) (h : header) (txs : list ltx) (cnt : Z) : lblock :=
  mk_lblock (rev (sha256d hdr))
            (lib_to_bytes (be_bytes 4 (h_version h)))
            (lib_to_bytes (rev (h_prev h)))
            (lib_to_bytes (rev (h_merkle h)))
            (h_time h)
            (lib_to_bytes (be_bytes 4 (h_bits h)))
            (lib_to_bytes (be_bytes 4 (h_nonce h)))
            txs cnt.

(* Block.parse / parse_bytes / parse_bytesio (raw, parse_transactions=ptx, limit) *)
Definition lib_block_open (l : bytes) (ptx : bool) (limit : nat) : option bstate :=
  match read_n 80 l with
  | None => None
  | Some (hdr, body) =>
      match parse_header hdr with
      | None => None
      | Some (h, _) =>
          match lib_read_cs body with
          | None => None
          | Some (cnt, txdata) =>
              match (if ptx then lib_open_txs (length txdata) limit 0 txdata else Some ([], txdata)) with
              | None => None
              | Some (txs, rest) =>
                  if ptx && (limit =? 0)%nat && negb (cnt =? Z.of_nat (length txs)) then None
                  else Some (mk_bstate (lblock_of hdr h txs cnt) rest)
              end
          end
      end
  end.

Definition lib_bsession (l : bytes) (ptx : bool) (limit : nat) (ops : list bop)
  : option (bstate * list (option (bstate * bout))) :=
  match lib_block_open l ptx limit with
  | Some s => Some (s, lib_brun s ops)
  | None => None
  end.

(* ---- the same sessions on the protocol-level block: a cursor into the list of transactions ---- *)

Record sstate := mk_sstate {
  ss_pos : nat;            (* transactions consumed from the stream *)
  ss_objs : list tx        (* transactions delivered as objects (Block.transactions) *)
}.

Definition s_todo (b : block) (s : sstate) : nat := length (b_txs b) - length (ss_objs s).

Definition dict_of (t : tx) : bytes * bytes := (spec_txid t, spec_ser t).

Definition spec_bstep (b : block) (s : sstate) (o : bop) : option (sstate * bout) :=
  let n := length (b_txs b) in
  match o with
  | BTxs k =>
      let m := if (k =? 0)%nat then s_todo b s else Nat.min k (s_todo b s) in
      if (ss_pos s + m <=? n)%nat
      then Some (mk_sstate (ss_pos s + m) (ss_objs s ++ firstn m (skipn (ss_pos s) (b_txs b))), OOk)
      else None
  | BTx =>
      match s_todo b s with
      | O => Some (s, OTx None)
      | S _ =>
          match nth_error (b_txs b) (ss_pos s) with
          | Some t => Some (mk_sstate (S (ss_pos s)) (ss_objs s ++ [t]), OTx (Some (spec_txid t)))
          | None => None
          end
      end
  | BDictAll =>
      match s_todo b s with
      | O => Some (s, ODicts [])
      | S _ => Some (s, ODicts (map dict_of (skipn (ss_pos s) (b_txs b))))
      end
  | BDictOne =>
      match s_todo b s with
      | O => Some (s, ODict None)
      | S _ =>
          match nth_error (b_txs b) (ss_pos s) with
          | Some t => Some (mk_sstate (S (ss_pos s)) (ss_objs s), ODict (Some (dict_of t)))
          | None => Some (s, ODict None)
          end
      end
  | BSer =>
      Some (s, OSer (if (length (ss_objs s) =? n)%nat && negb (n =? 0)%nat
                     then Some (ser_header (b_hdr b) ++ ser_list spec_ser (ss_objs s)) else None))
  end.

Fixpoint spec_brun (b : block) (s : sstate) (ops : list bop) : list (option (sstate * bout)) :=
  match ops with
  | [] => []
  | o :: r =>
      match spec_bstep b s o with
      | Some (s', out) => Some (s', out) :: spec_brun b s' r
      | None => [None]
      end
  end.

Definition spec_open (b : block) (ptx : bool) (limit : nat) : sstate :=
  if ptx then
    let m := if (limit =? 0)%nat then length (b_txs b) else Nat.min limit (length (b_txs b)) in
    mk_sstate m (firstn m (b_txs b))
  else mk_sstate 0 [].

(* header fields the library would alter (known finding ascii_hex_bytes) *)
Definition hdr_quirk_free (h : header) : Prop :=
  hexlike (be_bytes 4 (h_version h)) = false /\ hexlike (rev (h_prev h)) = false /\
  hexlike (rev (h_merkle h)) = false /\ hexlike (be_bytes 4 (h_bits h)) = false /\
  hexlike (be_bytes 4 (h_nonce h)) = false.

Definition block_ok (b : block) : Prop :=
  wf_header (b_hdr b) /\ hdr_quirk_free (b_hdr b) /\ len_ok (b_txs b) /\
  Forall wf_tx (b_txs b) /\ Forall quirk_free (b_txs b).

Definition dict_one_free (ops : list bop) : Prop :=
  Forall (fun o => match o with BDictOne => False | _ => True end) ops.
