(* Model/TxStrict.v — C06: what the script-interpreting layer makes Transaction.parse REFUSE.
   Definitions only.
   The byte-level model (Model/TxCodec.v) treats Script.parse_bytes / Input.update_scripts as the identity on
   bytes.  This file adds the one thing of that layer that decides whether a well-formed transaction is parsed at
   all: the exceptions of Script.parse_bytesio, re-using the model of that parser from Model/Wire.v (C18):
     * strict=True: a pushed item shaped like a signature (0x30, 69..74 bytes) that Signature.parse_bytes does not
       decode, and a push running past the end of the script, raise ScriptError;
     * a pushed item shaped like a public key (02/03 + 32 bytes, 04 + 64 bytes) is handed to Key(data, strict=False)
       and is never refused, whatever its bytes (fix 75f674d) — [key_any];
     * an output script of the form OP_m <keys> OP_n OP_CHECKMULTISIG with m > #keys or #keys <> n raises
       ScriptError in BOTH modes (known finding multisig_count_mismatch);
     * "other" data is re-parsed one level down and every ScriptError of that level is swallowed.
   Not modelled: TransactionError "Unknown unlocking script type" of Input.update_scripts (strict mode, script
   types the library does not know how to sign); the shaped-data stream of the harness stays inside the script
   forms for which it does not occur. *)
From Coq Require Import ZArith List Bool.
From Coq.Strings Require Import Byte.
From Verif Require Import Lib.Bytes Model.Wire Crypto.Sha256 Model.TxCodec.
From Verif Require Model.Der Crypto.Secp256k1.
Import ListNotations.
Open Scope Z_scope.

(* Signature.parse_bytes followed by Signature.__init__: DER as the backend decodes it, r and s in [1, n) *)
Definition lib_sig_ok (d : bytes) : bool :=
  match Verif.Model.Der.lib_parse d with
  | Some (r, s, _) =>
      (1 <=? r) && (r <? Verif.Crypto.Secp256k1.secp_n) && (1 <=? s) && (s <? Verif.Crypto.Secp256k1.secp_n)
  | None => false
  end.

(* Key(data, strict=False) *)
Definition key_any (_ : bytes) : bool := true.
Definition sig_any (_ : bytes) : bool := true.

Definition res_ok (r : pres) : bool := match r with POk _ => true | _ => false end.

(* the command list the level-0 loop classifies: the whole-script rule first, then opcodes and pushes;
   None = a push runs past the end *)
Definition level0_cmds (s : bytes) : option (list cmd) :=
  match s with
  | [] => Some []
  | b :: r =>
      if whole_script_data (bz b) (Z.of_nat (length s)) then
        let n := Z.to_nat (Z.of_nat (length s) - 1) in
        match parse_plain (skipn n r) with
        | Some cs => Some (Data (b :: firstn n r) :: cs)
        | None => None
        end
      else parse_plain s
  end.

(* Script.parse_bytes(s, is_locking=False) up to the classification of its items (no multisig check: the
   type found is 'multisig_redeemscript') *)
Definition unlock_level (sig_ok : bytes -> bool) (s : bytes) : pres :=
  parse_level sig_ok key_any 0 (parse_sub sig_ok key_any) (Z.of_nat (length s)) s.

Definition sl_unlock_refuses (strict : bool) (s : bytes) : bool :=
  strict && negb (res_ok (unlock_level lib_sig_ok s)).

(* Script.parse_bytes(s, is_locking=True): additionally the 'multisig' count check, in both modes; without strict
   an undecodable signature or a short push is only logged *)
Definition sl_lock_refuses (strict : bool) (s : bytes) : bool :=
  if strict then negb (res_ok (lib_parse_bytes lib_sig_ok key_any s))
  else
    match unlock_level sig_any s with
    | POk l => negb (multisig_ok (unwrap1 l))
    | _ => false
    end.

(* script_types == ['p2tr_unlock']: the item is one piece of plain data; the witness loop then stops parsing the
   remaining items of the stack *)
Definition plain_datum (d : bytes) : bool :=
  match get_data_type d with DSig | DKey => false | _ => true end.

Definition single_data (r : pres) : bool :=
  match r with
  | POk [IData d] => plain_datum d
  | POk [IList [IData d]] => plain_datum d
  | _ => false
  end.

Fixpoint sl_stack_refuses (items : list bytes) : bool :=
  match items with
  | [] => false
  | w :: r =>
      let p := unlock_level lib_sig_ok w in
      if negb (res_ok p) then true
      else if single_data p then false
      else sl_stack_refuses r
  end.

Definition sl_in_refuses (strict : bool) (i : txin) : bool :=
  strict &&
  ((negb (is_coinbase_prev (ti_prev i)) && sl_unlock_refuses true (ti_script i))
   || sl_stack_refuses (map repr_item (ti_wit i))).

(* Transaction.parse(raw, strict) raises because of the script layer *)
Definition sl_refuses (strict : bool) (t : tx) : bool :=
  existsb (sl_in_refuses strict) (tx_ins t) || existsb (fun o => sl_lock_refuses strict (to_script o)) (tx_outs t).

(* every level-0 item shaped like a signature is one the library decodes; nothing is asked of items shaped like keys *)
Definition sigs_decodable (cs : list cmd) : bool :=
  forallb (fun c => match c with
                    | Data d => match get_data_type d with DSig => lib_sig_ok d | _ => true end
                    | Op _ => true
                    end) cs.

(* the bare-multisig count check on the items of a parsed output script *)
Definition lock_counts_ok (sig_ok : bytes -> bool) (s : bytes) : bool :=
  match unlock_level sig_ok s with
  | POk l => multisig_ok (unwrap1 l)
  | _ => true
  end.

(* the script layer, then the byte-level parser *)
Definition lib_parse_sl (strict : bool) (whole : bytes) : option ltx :=
  match spec_parse whole with
  | Some (t, []) => if sl_refuses strict t then None else lib_parse whole
  | _ => lib_parse whole
  end.
