(* Model/AddrScript.v — C05: address <-> locking script.
   Definitions only.
   spec_*  is written from the protocol texts (BIP13/BIP16 Base58 P2PKH/P2SH, BIP141 witness programs,
           BIP173/BIP350 segwit addresses): which script an address commits to and back.
   lib_*   mirrors /repo: transactions.Output.__init__ / .address, scripts.Script.__init__ template
           instantiation over the regenerated SCRIPT_TYPES table (Gen.GenConsts.script_types),
           scripts._get_script_types + the tail of Script.parse_bytesio, keys.deserialize_address (after
           the string codec), keys.Address.__init__ / Address.parse, networks.network_by_value over the
           regenerated network table (Gen.GenNetworks.all_networks).
   The address STRING codec (Base58Check / Bech32(m) characters and checksums) is property C11's; here an
   address is its decoded content [daddr] (version byte(s) + hash, or hrp + witness version + program). *)
From Coq Require Import ZArith List Bool String.
From Coq.Strings Require Import Byte.
From Verif Require Import Lib.Bytes Gen.GenNetworks Gen.GenConsts Model.Wire.
Import ListNotations.
Open Scope Z_scope.

Definition blen (b : bytes) : Z := Z.of_nat (List.length b).

(* ======================================================================================== *)
(*                                   specification                                          *)
(* ======================================================================================== *)

(* P2tr is used as the library uses it: "witness version 1..16 program" (strict taproot = version 1, 32 bytes) *)
Inductive stype := P2pkh | P2sh | P2wpkh | P2wsh | P2tr.
Record dest := mkdest { d_stype : stype; d_witver : Z; d_payload : bytes }.

Definition stype_eqb (a b : stype) : bool :=
  match a, b with
  | P2pkh, P2pkh | P2sh, P2sh | P2wpkh, P2wpkh | P2wsh, P2wsh | P2tr, P2tr => true
  | _, _ => false
  end.

(* the destinations the property quantifies over: 20/32-byte payloads, witness versions 0..16 *)
Definition standard (d : dest) : bool :=
  let n := blen (d_payload d) in
  match d_stype d with
  | P2pkh | P2sh | P2wpkh => (d_witver d =? 0) && (n =? 20)
  | P2wsh => (d_witver d =? 0) && (n =? 32)
  | P2tr => (1 <=? d_witver d) && (d_witver d <=? 16) && ((n =? 20) || (n =? 32))
  end.

(* everything BIP141/BIP350 can address: witness v1..16 programs of 2..40 bytes *)
Definition standard_wide (d : dest) : bool :=
  let n := blen (d_payload d) in
  match d_stype d with
  | P2tr => (1 <=? d_witver d) && (d_witver d <=? 16) && (2 <=? n) && (n <=? 40)
  | _ => standard d
  end.

Definition spec_push (p : bytes) : bytes := zb (blen p) :: p.            (* direct push, 1..75 bytes *)
Definition spec_opn (v : Z) : byte := if v =? 0 then x00 else zb (80 + v).   (* OP_0 = 00, OP_1..16 = 51..60 *)

Definition spec_lock_script (d : dest) : bytes :=
  match d_stype d with
  | P2pkh => x76 :: xa9 :: spec_push (d_payload d) ++ [x88; xac]
  | P2sh => xa9 :: spec_push (d_payload d) ++ [x87]
  | P2wpkh | P2wsh | P2tr => spec_opn (d_witver d) :: spec_push (d_payload d)
  end.

(* BIP16 / BIP141 script templates, read byte by byte *)
Definition spec_classify (s : bytes) : option dest :=
  match s with
  | a :: b :: r =>
      if (bz a =? 118) && (bz b =? 169) then
        match r with
        | c :: h =>
            if (bz c =? 20) && (blen h =? 22) && bytes_eqb (skipn 20 h) [x88; xac]
            then Some (mkdest P2pkh 0 (firstn 20 h)) else None
        | [] => None
        end
      else if (bz a =? 169) then
        if (bz b =? 20) && (blen r =? 21) && bytes_eqb (skipn 20 r) [x87]
        then Some (mkdest P2sh 0 (firstn 20 r)) else None
      else if (bz a =? 0) then
        if (bz b =? blen r) && (blen r =? 20) then Some (mkdest P2wpkh 0 r)
        else if (bz b =? blen r) && (blen r =? 32) then Some (mkdest P2wsh 0 r)
        else None
      else if (81 <=? bz a) && (bz a <=? 96) then
        if (bz b =? blen r) && (2 <=? blen r) && (blen r <=? 40) then Some (mkdest P2tr (bz a - 80) r)
        else None
      else None
  | _ => None
  end.

(* decoded content of an address string *)
Inductive daddr := DB58 (ver h : bytes) | DBech (hrp : bytes) (witver : Z) (prog : bytes).

Definition daddr_eqb (a b : daddr) : bool :=
  match a, b with
  | DB58 v h, DB58 v' h' => bytes_eqb v v' && bytes_eqb h h'
  | DBech p w g, DBech p' w' g' => bytes_eqb p p' && (w =? w') && bytes_eqb g g'
  | _, _ => false
  end.

(* BIP13 / BIP173 / BIP350 + the network table: the address of a destination on a network *)
Definition spec_address (n : network) (d : dest) : daddr :=
  match d_stype d with
  | P2pkh => DB58 (nw_prefix_address n) (d_payload d)
  | P2sh => DB58 (nw_prefix_address_p2sh n) (d_payload d)
  | _ => DBech (nw_prefix_bech32 n) (d_witver d) (d_payload d)
  end.

(* an address [a] "belongs to" network [n] for some destination kind *)
Definition addr_on_network (n : network) (a : daddr) : bool :=
  match a with
  | DB58 v _ => bytes_eqb v (nw_prefix_address n) || bytes_eqb v (nw_prefix_address_p2sh n)
  | DBech p _ _ => bytes_eqb p (nw_prefix_bech32 n)
  end.

(* ======================================================================================== *)
(*                                   the library                                            *)
(* ======================================================================================== *)

Local Open Scope string_scope.
Definition s_p2pkh := "p2pkh".        Definition s_p2sh := "p2sh".
Definition s_p2wpkh := "p2wpkh".      Definition s_p2wsh := "p2wsh".
Definition s_p2tr := "p2tr".          Definition s_p2pk := "p2pk".
Definition s_multisig := "multisig".  Definition s_p2sh_multisig := "p2sh_multisig".
Definition s_p2sh_p2wpkh := "p2sh_p2wpkh".   Definition s_p2sh_p2wsh := "p2sh_p2wsh".
Definition s_sig_pubkey := "sig_pubkey".
Definition s_unknown := "unknown".
Definition s_legacy := "legacy".      Definition s_segwit := "segwit".
Definition s_p2sh_segwit := "p2sh-segwit".   Definition s_taproot := "taproot".
Definition s_data := "data".          Definition s_key := "key".
Definition s_op_n := "op_n".          Definition s_signature := "signature".
Definition s_redeemscript := "redeemscript".
Definition s_locking := "locking".    Definition s_unlocking := "unlocking".
Local Close Scope string_scope.

Definition sin (s : string) (l : list string) : bool := existsb (String.eqb s) l.
Definition osin (s : option string) (l : list string) : bool :=
  match s with Some x => sin x l | None => false end.
Definition oseq (s : option string) (t : string) : bool :=
  match s with Some x => String.eqb x t | None => false end.

Definition stype_name (t : stype) : string :=
  match t with P2pkh => s_p2pkh | P2sh => s_p2sh | P2wpkh => s_p2wpkh | P2wsh => s_p2wsh | P2tr => s_p2tr end.

(* ---------- the regenerated SCRIPT_TYPES table ---------- *)
Definition st_row := (string * (string * list (Z + string) * list Z))%type.
Definition row_name (r : st_row) : string := fst r.
Definition row_lock (r : st_row) : string := fst (fst (snd r)).
Definition row_tpl (r : st_row) : list (Z + string) := snd (fst (snd r)).
Definition row_sizes (r : st_row) : list Z := snd (snd r).
Definition st_lookup (st : string) : option st_row := find (fun r => String.eqb (row_name r) st) script_types.

Definition tpl_eqb (a b : Z + string) : bool :=
  match a, b with
  | inl x, inl y => x =? y
  | inr x, inr y => String.eqb x y
  | _, _ => false
  end.
Fixpoint tpl_list_eqb (a b : list (Z + string)) : bool :=
  match a, b with
  | [], [] => true
  | x :: a', y :: b' => tpl_eqb x y && tpl_list_eqb a' b'
  | _, _ => false
  end.
Fixpoint tpl_prefix (t l : list (Z + string)) : bool :=
  match t, l with
  | [], _ => true
  | x :: t', y :: l' => tpl_eqb x y && tpl_prefix t' l'
  | _ :: _, [] => false
  end.

(* ---------- Script.__init__(script_types=[st], public_hash=h, keys=[key], sigs_required=sr) ----------
   [nm] is the list sig_n_and_m with the next value to pop first.  None = an exception
   (ScriptError "please supply ...", IndexError of pop, or the TypeError/ValueError of the later
   serialize() for a template word that has no value). *)
Fixpoint inst_loop (tpl : list (Z + string)) (h key : bytes) (nm : list Z) : option (list cmd) :=
  match tpl with
  | [] => Some []
  | tc :: r =>
      let cont (c : cmd) (nm' : list Z) :=
        match inst_loop r h key nm' with Some t => Some (c :: t) | None => None end in
      match tc with
      | inl z => if (0 <=? z) && (z <=? 255) then cont (Op (zb z)) nm else None
      | inr w =>
          if String.eqb w s_data then match h with [] => None | _ => cont (Data h) nm end
          else if String.eqb w s_key then match key with [] => None | _ => cont (Data key) nm end
          else if String.eqb w s_op_n then
            match nm with
            | [] => None
            | x :: nm' => if (0 <=? x + 80) && (x + 80 <=? 255) then cont (Op (zb (x + 80))) nm' else None
            end
          else None
      end
  end.

Definition lib_script_new (st : string) (h key : bytes) (sr : option Z) : option (list cmd) :=
  match st_lookup st with
  | None => None                                            (* KeyError *)
  | Some r =>
      let nkeys := 1 in                                     (* Output always passes keys=[public_key] *)
      let sr' := match sr with Some v => if v =? 0 then nkeys else v | None => nkeys end in
      inst_loop (row_tpl r) h key [sr'; nkeys]
  end.

(* ---------- blueprint and _get_script_types ---------- *)
Inductive bpi := BInt (z : Z) | BData (n : Z) | BKey | BSig | BList.

Definition bp_of_item (i : item) : bpi :=
  match i with
  | IOp b => BInt (bz b)
  | IData d => match get_data_type d with DSig => BSig | DKey => BKey | _ => BData (blen d) end
  | IList _ => BList
  end.

Definition bp_word (x : bpi) : Z + string :=
  match x with
  | BInt z => if (81 <=? z) && (z <=? 96) then inr s_op_n else inl z
  | BData _ => inr s_data
  | BKey => inr s_key
  | BSig => inr s_signature
  | BList => inr s_redeemscript
  end.

(* the normalisation loop: consecutive keys / signatures collapse *)
Fixpoint bp_norm (prev : option (Z + string)) (l : list bpi) : list (Z + string) :=
  match l with
  | [] => []
  | x :: r =>
      let t := bp_word x in
      let dup := match x, prev with
                 | BKey, Some p => tpl_eqb p (inr s_key)
                 | BSig, Some p => tpl_eqb p (inr s_signature)
                 | _, _ => false
                 end in
      if dup then bp_norm prev r else t :: bp_norm (Some t) r
  end.

Definition bp_lens (l : list bpi) : list Z :=
  flat_map (fun x => match x with BData n => [n] | _ => [] end) l.

Definition st_rows (is_locking : bool) : list st_row :=
  filter (fun r => String.eqb (row_lock r) (if is_locking then s_locking else s_unlocking)) script_types.

(* inner "for i, data_len in enumerate(data_lens)" : Some true = break with a hit; None = IndexError *)
Fixpoint size_hit (sizes bl : list Z) : option bool :=
  match sizes, bl with
  | [], _ => Some false
  | s :: ss, b :: bs => if (s =? b) || (s =? 0) then Some true else size_hit ss bs
  | _ :: _, [] => None
  end.

Fixpoint pick_match (ms : list st_row) (idx cur : nat) (bl : list Z) : option nat :=
  match ms with
  | [] => Some cur
  | m :: r =>
      match size_hit (row_sizes m) bl with
      | None => None
      | Some true => pick_match r (S idx) idx bl
      | Some false => pick_match r (S idx) cur bl
      end
  end.

Fixpoint gst_loop (fuel : nat) (rows : list st_row) (bp : list (Z + string)) (bl : list Z)
  : option (list string) :=
  match fuel with
  | O => Some []
  | S f =>
      match bp with
      | [] => Some []
      | _ =>
          match filter (fun r => tpl_prefix (row_tpl r) bp) rows with
          | [] => Some [s_unknown]
          | ms =>
              match pick_match ms 0 0 bl with
              | None => None
              | Some id =>
                  match nth_error ms id with
                  | None => None
                  | Some m =>
                      match gst_loop f rows (skipn (List.length (row_tpl m)) bp) bl with
                      | Some t => Some (row_name m :: t)
                      | None => None
                      end
                  end
              end
          end
      end
  end.

(* _get_script_types(blueprint, is_locking) followed by "if 'unknown' in types: types = ['unknown']".
   (The multisig-after-signature_multisig merge only concerns unlocking scripts.) *)
Definition lib_get_script_types (is_locking : bool) (l : list bpi) : option (list string) :=
  let bp := bp_norm None l in
  let rows := st_rows is_locking in
  match filter (fun r => tpl_list_eqb (row_tpl r) bp) rows with
  | [r] => Some [row_name r]
  | _ =>
      match gst_loop (S (List.length bp)) rows bp (bp_lens l) with
      | Some ts => if sin s_unknown ts then Some [s_unknown] else Some ts
      | None => None
      end
  end.

(* ---------- networks.network_by_value ---------- *)
Fixpoint insert_prio (x : network) (l : list network) : list network :=
  match l with
  | [] => [x]
  | y :: r => if nw_priority y <=? nw_priority x then x :: l else y :: insert_prio x r
  end.
(* sorted(..., key=priority, reverse=True) is stable: equal priorities keep table order *)
Definition sort_prio (l : list network) : list network := fold_right insert_prio [] l.

Definition upper_byte (b : byte) : byte :=
  if (97 <=? bz b) && (bz b <=? 122) then zb (bz b - 32) else b.

(* network_by_value(field, value): exact match, and when nothing matches a retry with value.upper().
   For the version-byte columns the value is a hex string, so the retry denotes the same byte. *)
Definition nets_by (field : network -> bytes) (v : bytes) : list network :=
  sort_prio (filter (fun n => bytes_eqb (field n) v) all_networks).

Definition nets_by_hrp (v : bytes) : list network :=
  match filter (fun n => bytes_eqb (nw_prefix_bech32 n) v) all_networks with
  | [] => sort_prio (filter (fun n => bytes_eqb (nw_prefix_bech32 n) (map upper_byte v)) all_networks)
  | l => sort_prio l
  end.

Definition net_in (net : network) (l : list network) : bool :=
  existsb (fun n => String.eqb (nw_name n) (nw_name net)) l.

Definition find_network (name : string) : option network :=
  find (fun n => String.eqb (nw_name n) name) all_networks.

(* ---------- encoding.to_bytes on a bytes argument ----------
   def to_bytes(string, unhexlify=True):
       if not string: return b''
       try:    string = string.decode(); return bytes.fromhex(string)      # bytes that READ as hexadecimal text are decoded
       except (TypeError, ValueError): pass
       return string
   bytes.fromhex skips ASCII whitespace in front of every pair of digits; a byte that is neither a hexadecimal digit nor ASCII
   white space makes either the UTF-8 decoding or fromhex fail, and the argument comes back as it is. *)
Definition hex_digit (b : byte) : option Z :=
  let z := bz b in
  if (48 <=? z) && (z <=? 57) then Some (z - 48)
  else if (65 <=? z) && (z <=? 70) then Some (z - 55)
  else if (97 <=? z) && (z <=? 102) then Some (z - 87)
  else None.
Definition hex_space (b : byte) : bool := let z := bz b in ((9 <=? z) && (z <=? 13)) || (z =? 32).

Fixpoint lib_fromhex (l : bytes) : option bytes :=
  match l with
  | [] => Some []
  | a :: r =>
      if hex_space a then lib_fromhex r
      else match hex_digit a, r with
           | Some hi, b :: r' =>
               match hex_digit b with
               | Some lo => match lib_fromhex r' with Some t => Some (zb (16 * hi + lo) :: t) | None => None end
               | None => None
               end
           | _, _ => None
           end
  end.

Definition lib_to_bytes (x : bytes) : bytes :=
  match x with
  | [] => []
  | _ => match lib_fromhex x with Some y => y | None => x end
  end.

(* the byte strings to_bytes does not leave alone *)
Definition hexlike (x : bytes) : bool :=
  match x with [] => false | _ => match lib_fromhex x with Some _ => true | None => false end end.

(* ---------- the code as it is / as repaired ---------- *)
Record fixes := { fx_witver : bool;      (* fixes/C05-1: witness version reaches the script *)
                  fx_netobj : bool;      (* fixes/C05-2: Address/HDKey object of another network refused *)
                  fx_p2shobj : bool;     (* fixes/C05-3: p2sh-segwit Address object locks to its P2SH script *)
                  fx_addrpk : bool;      (* fixes/C05-4: an address given together with a public key is examined *)
                  fx_tb : bytes -> bytes (* what happens to a binary hash / script / key argument on its way in:
                                            [lib_to_bytes] = the code as it is (known class ascii_hex_payload),
                                            the identity = binary arguments are taken as they are *) }.
Definition fx_orig : fixes :=
  {| fx_witver := false; fx_netobj := false; fx_p2shobj := false; fx_addrpk := false; fx_tb := lib_to_bytes |}.
Definition fx_all : fixes :=
  {| fx_witver := true; fx_netobj := true; fx_p2shobj := true; fx_addrpk := true; fx_tb := fun x => x |}.
(* the tree as it stands (the three repairs are in; address + public key and to_bytes are as they were) *)
Definition fx_now : fixes :=
  {| fx_witver := true; fx_netobj := true; fx_p2shobj := true; fx_addrpk := false; fx_tb := lib_to_bytes |}.

(* the same repairs, binary arguments taken as they are *)
Definition fxi (fx : fixes) : fixes :=
  {| fx_witver := fx_witver fx; fx_netobj := fx_netobj fx; fx_p2shobj := fx_p2shobj fx; fx_addrpk := fx_addrpk fx;
     fx_tb := fun x => x |}.

(* "if not string: return b''" comes first, whatever the rest does *)
Definition tb (fx : fixes) (x : bytes) : bytes := match x with [] => [] | _ => fx_tb fx x end.

(* sha256(b''), the hash Address() computes when it is given neither data nor a hash *)
Definition sha256_empty : bytes :=
  [xe3; xb0; xc4; x42; x98; xfc; x1c; x14; x9a; xfb; xf4; xc8; x99; x6f; xb9; x24;
   x27; xae; x41; xe4; x64; x9b; x93; x4c; xa4; x95; x99; x1b; x78; x52; xb8; x55].

Inductive enc := EB58 | EBech.
Definition enc_eqb (a b : enc) : bool := match a, b with EB58, EB58 | EBech, EBech => true | _, _ => false end.

(* ---------- keys.deserialize_address after the string codec ---------- *)
Record deser := { ds_enc : enc; ds_hash : bytes; ds_stype : option string; ds_wtype : string;
                  ds_networks : list network; ds_network : option string; ds_witver : option Z }.

Definition lib_deserialize (fx : fixes) (a : daddr) (encoding : option enc) (network : option string)
  : option deser :=
  match a with
  | DB58 ver h =>
      match encoding with
      | Some EBech => None
      | _ =>
          let n1 := nets_by nw_prefix_address ver in
          let n2 := nets_by nw_prefix_address_p2sh ver in
          let '(st, wt, nws) :=
            match n1, n2 with
            | _ :: _, [] => (Some s_p2pkh, s_legacy, n1)
            | _, _ :: _ => (Some s_p2sh, EmptyString, n2)
            | _, _ => (None, EmptyString, [])
            end in
          let ok := match network with
                    | Some nm => existsb (fun n => String.eqb (nw_name n) nm) nws
                    | None => true
                    end in
          if ok then
            Some {| ds_enc := EB58; ds_hash := h; ds_stype := st; ds_wtype := wt; ds_networks := nws;
                    ds_network := match network with
                                  | Some nm => Some nm
                                  | None => match nws with x :: _ => Some (nw_name x) | [] => None end
                                  end;
                    ds_witver := None |}
          else None
      end
  | DBech hrp wv prog =>
      match encoding with
      | Some EB58 => None
      | _ =>
          let nws := nets_by_hrp hrp in
          let st :=
            if fx_witver fx then
              (if wv =? 0 then (if blen prog =? 20 then s_p2wpkh else s_p2wsh) else s_p2tr)
            else
              (if blen prog =? 20 then s_p2wpkh else if wv =? 0 then s_p2wsh else s_p2tr) in
          Some {| ds_enc := EBech; ds_hash := prog; ds_stype := Some st;
                  ds_wtype := if wv =? 0 then s_segwit else s_taproot; ds_networks := nws;
                  ds_network := match nws with x :: _ => Some (nw_name x) | [] => Some EmptyString end;
                  ds_witver := Some wv |}
      end
  end.

(* ---------- encoding.pubkeyhash_to_addr (which content gets written) ---------- *)
(* pubkeyhash_to_addr_bech32: "pubkeyhash = list(to_bytes(pubkeyhash))" first *)
Definition lib_pkh_to_bech (fx : fixes) (hrp : bytes) (witver : Z) (h0 : bytes) : option daddr :=
  let h := tb fx h0 in
  let n := blen h in
  let r :=
    if (n =? 20) || (n =? 32) || (n =? 40) then Some (witver, h)
    else match h with
         | b0 :: b1 :: rest =>
             if bz b1 =? blen rest then Some (if bz b0 =? 0 then witver else bz b0 - 80, rest) else None
         | _ => None                                       (* IndexError *)
         end in
  match r with
  (* a header byte 0x30..0x4f gives a "version" -32..-1: Python indexes the code string from its end and a
     string that is no address at all comes out (reported here as DBech with that negative version);
     below -32 the indexing raises *)
  | Some (wv, prog) => if (16 <? wv) || (wv <? -32) then None else Some (DBech hrp wv prog)
  | None => None
  end.

(* pubkeyhash_to_addr_base58: "key = to_bytes(prefix) + to_bytes(pubkeyhash)" *)
Definition lib_pkh_to_b58 (fx : fixes) (pfx h : bytes) : daddr := DB58 (tb fx pfx) (tb fx h).

Section Lib.
Variable H160 : bytes -> bytes.

(* ---------- keys.Address ---------- *)
Record addr_obj := { ao_stype : option string; ao_hash : bytes; ao_net : network; ao_enc : enc;
                     ao_wtype : string; ao_witver : Z; ao_addr : daddr }.

(* Address(data=, hashed_data=hashed, prefix=, script_type=, encoding=, witness_type=, witver=, network=).
   [dh] = (hash160 (to_bytes data), sha256 (to_bytes data)): what the object hashes itself when to_bytes(hashed_data) is
   empty ("if not self.hash_bytes:").  [hash_bytes] is to_bytes(hashed_data); pubkeyhash_to_addr applies to_bytes again. *)
(* encoding.varstr (Wire.lib_varstr), written so that only the LENGTH of a longer string is inspected: equal to
   lib_varstr on every input (Proofs/AddrScriptTac.v: varstr_of_eq) *)
Definition varstr_of (s : bytes) : option bytes :=
  match s with
  | [b] => lib_varstr [b]
  | _ => match lib_cs_enc (Z.of_nat (List.length s)) with Some p => Some (p ++ s) | None => None end
  end.

(* the witness type and witness version the object ends up with *)
Definition addr_wt (st : option string) (e : option enc) (wt : option string) (witver : Z) : string * Z :=
        match wt with
        | Some w => (w, witver)
        | None =>
            if osin st [s_p2wpkh; s_p2wsh] then (s_segwit, witver)
            else if osin st [s_p2sh_p2wpkh; s_p2sh_p2wsh] then (s_p2sh_segwit, witver)
            else if oseq st s_p2tr then (s_taproot, if witver =? 0 then 1 else witver)
            else match e with Some EB58 => (s_legacy, witver) | _ => (s_segwit, witver) end
        end.

Definition lib_address_core (fx : fixes) (hashed1 : bytes) (dh : bytes * bytes) (prefix : option bytes)
           (st : option string) (e : option enc) (wt : option string) (witver : Z) (net : network) : option addr_obj :=
      let '(wt1, wv1) := addr_wt st e wt witver in
      let e1 := match e with
                | Some x => x
                | None => if osin st [s_p2pkh; s_p2sh; s_multisig; s_p2pk] || String.eqb wt1 s_legacy
                             || String.eqb wt1 s_p2sh_segwit then EB58 else EBech
                end in
      let hb := match hashed1 with
                | [] => if (enc_eqb e1 EBech && osin st [s_p2sh; s_p2sh_multisig; s_p2tr]) || osin st [s_p2wsh; s_p2sh_p2wsh]
                        then snd dh else fst dh
                | h => h
                end in
      match e1 with
      | EB58 =>
          let st1 := match st with None => Some s_p2pkh | _ => st end in
          match (if String.eqb wt1 s_p2sh_segwit
                 then match varstr_of hb with Some v => Some (H160 (x00 :: v)) | None => None end
                 else Some hb) with
          | None => None
          | Some h1 =>
              let pfx := match prefix with
                         | Some p => tb fx p
                         | None => if osin st1 [s_p2sh; s_p2sh_p2wpkh; s_p2sh_p2wsh; s_p2sh_multisig]
                                      || String.eqb wt1 s_p2sh_segwit
                                   then nw_prefix_address_p2sh net else nw_prefix_address net
                         end in
              Some {| ao_stype := st1; ao_hash := h1; ao_net := net; ao_enc := EB58; ao_wtype := wt1;
                      ao_witver := wv1; ao_addr := lib_pkh_to_b58 fx pfx h1 |}
          end
      | EBech =>
          let st1 := match st with None => Some s_p2wpkh | _ => st end in
          let pfx := match prefix with Some p => p | None => nw_prefix_bech32 net end in
          match lib_pkh_to_bech fx pfx wv1 hb with
          | None => None
          | Some a => Some {| ao_stype := st1; ao_hash := hb; ao_net := net; ao_enc := EBech;
                              ao_wtype := wt1; ao_witver := wv1; ao_addr := a |}
          end
      end.

Definition lib_address_make (fx : fixes) (hashed : bytes) (dh : bytes * bytes) (prefix : option bytes)
           (st : option string) (e : option enc) (wt : option string) (witver : Z) (net : network) : option addr_obj :=
  lib_address_core fx (tb fx hashed) dh prefix st e wt witver net.

(* Address(hashed_data=hashed, ...): no data, so an empty hash is replaced by the hash of the empty string *)
Definition lib_address_new (fx : fixes) (hashed : bytes) (prefix : option bytes) (st : option string)
           (e : option enc) (wt : option string) (witver : Z) (net : network) : option addr_obj :=
  lib_address_make fx hashed (H160 [], sha256_empty) prefix st e wt witver net.

(* Address(data=d, script_type=, encoding=, witver=, network=), given hash160(d) and sha256(d) *)
Definition lib_address_of_data (fx : fixes) (h160 s256 : bytes) (st : option string) (e : option enc)
           (witver : Z) (net : network) : option addr_obj :=
  lib_address_make fx [] (h160, s256) None st e None witver net.

(* Address.parse(address, network=) *)
Definition lib_address_parse (fx : fixes) (a : daddr) (network : option string) : option addr_obj :=
  match lib_deserialize fx a None network with
  | None => None
  | Some dd =>
      (* "if network is None: network = addr_dict['network']" (the bech32 branch never checks the argument) *)
      match (match network with
             | Some nm => find_network nm
             | None => match ds_network dd with Some nm => find_network nm | None => None end
             end) with
      | None => None
      | Some net =>
          lib_address_new fx (ds_hash dd)
            (Some (match a with DB58 v _ => v | DBech p _ _ => p end))
            (ds_stype dd) (Some (ds_enc dd)) (Some (ds_wtype dd))
            (if fx_witver fx then match ds_witver dd with Some w => w | None => 0 end else 0) net
      end
  end.

(* main.script_type_default(witness_type, multisig, locking_script) on the three witness types a key can have *)
Inductive wtype := WLegacy | WSegwit | WP2shSegwit.
Definition wtype_name (w : wtype) : string :=
  match w with WLegacy => s_legacy | WSegwit => s_segwit | WP2shSegwit => s_p2sh_segwit end.
Definition script_type_default (w : wtype) (multisig locking : bool) : string :=
  match w, multisig with
  | WLegacy, false => if locking then s_p2pkh else s_sig_pubkey
  | WLegacy, true => if locking then s_p2sh else s_p2sh_multisig
  | WSegwit, false => if locking then s_p2wpkh else s_sig_pubkey
  | WSegwit, true => if locking then s_p2wsh else s_p2sh_multisig
  | WP2shSegwit, false => if locking then s_p2sh else s_p2sh_p2wpkh
  | WP2shSegwit, true => if locking then s_p2sh else s_p2sh_p2wsh
  end.

(* HDKey(pub, network=net, witness_type=w, multisig=ms).address_obj, given hash160(pub) and sha256(pub):
   Key.address -> Address(data=pub, network, script_type=hd.script_type, encoding=hd.encoding) *)
Definition lib_hd_address_obj (fx : fixes) (net : network) (w : wtype) (ms : bool) (h160 s256 : bytes)
  : option addr_obj :=
  let st := script_type_default w ms false in
  let e := match w with WSegwit => EBech | _ => EB58 end in
  lib_address_make fx [] (h160, s256) None (Some st) (Some e) None 0 net.

(* Key(pub, network=net).address_obj: Key.address() with its defaults, Address(data=pub, encoding='base58') *)
Definition lib_key_address_obj (fx : fixes) (net : network) (h160 s256 : bytes) : option addr_obj :=
  lib_address_make fx [] (h160, s256) None None (Some EB58) None 0 net.

(* ---------- Script.parse_bytes(lock_script, strict=True, is_locking=True) as far as Output uses it ---------- *)
Inductive sres := SOk (items : list item) (types : list string) (hash : bytes) | SErr | SUnmodelled.

Fixpoint item_keysig (i : item) : bool :=
  match i with
  | IOp _ => false
  | IData d => match get_data_type d with DSig | DKey => true | _ => false end
  | IList l => (fix go (l : list item) : bool :=
                  match l with [] => false | x :: r => item_keysig x || go r end) l
  end.
Definition has_keysig (l : list item) : bool := existsb item_keysig l.

Definition item_data (l : list item) (k : nat) : bytes :=
  match nth_error l k with Some (IData d) => d | _ => [] end.

Definition lib_script_parse (s : bytes) : sres :=
  match lib_parse_bytes (fun _ => true) (fun _ => true) s with
  | POk items =>
      if has_keysig items then SUnmodelled     (* Signature.parse_bytes / Key() / hash160(key): not modelled here *)
      else
        match lib_get_script_types true (map bp_of_item items) with
        | None => SErr
        | Some types =>
            let st := match types with t :: _ => Some t | [] => None end in
            let h :=
              if osin st [s_p2wpkh; s_p2wsh; s_p2sh; s_p2tr; s_p2sh_p2wpkh; s_p2sh_p2wsh]
                 && (1 <? List.length items)%nat then item_data items 1
              else if oseq st s_p2pkh && (2 <? List.length items)%nat then item_data items 2
              else [] in
            SOk items types h
        end
  | _ => SErr
  end.

(* ---------- transactions.Output.__init__ ---------- *)
Inductive addr_arg :=
| AaNone
| AaStr (a : daddr)                                   (* address string (decoded content) *)
| AaObj (o : addr_obj)                                (* keys.Address instance *)
| AaHd (o : addr_obj) (pub : bytes) (w : wtype) (ms : bool).   (* keys.HDKey instance: its address_obj, public_byte *)

Record oargs := { a_addr : addr_arg; a_hash : bytes; a_pubkey : bytes; a_lock : bytes;
                  a_stype : option string; a_witver : Z; a_enc : option enc; a_net : network }.

Inductive oaddr := OaGiven | OaIs (a : daddr) | OaErr | OaEmpty.
Record out := { o_lock : bytes; o_stype : string; o_net : string; o_hash : bytes; o_witver : Z;
                o_enc : enc; o_addr : oaddr }.
Definition with_addr (o : out) (a : oaddr) : out :=
  {| o_lock := o_lock o; o_stype := o_stype o; o_net := o_net o; o_hash := o_hash o; o_witver := o_witver o;
     o_enc := o_enc o; o_addr := a |}.
Inductive ores := ROk (o : out) | RErr | RUnmodelled.

(* repaired code (fixes/C05-2): an Address/HDKey object made for another network is accepted only when its
   address is valid on the output's network as well *)
Definition lib_obj_network_ok (fx : fixes) (o : addr_obj) (net : network) : bool :=
  String.eqb (nw_name (ao_net o)) (nw_name net)
  || match lib_deserialize fx (ao_addr o) (Some (ao_enc o)) None with
     | Some dd => net_in net (ds_networks dd)
     | None => false
     end.

(* everything in Output.__init__ after "self.script = Script.parse_bytes(self.lock_script, ...)", given its result
   [sr]; the address is not computed here (Output.address is a property, below) *)
Definition lib_output_core (fx : fixes) (a : oargs) (sr : sres) : ores :=
  let net := a_net a in
  let '(given, obj, pubkey, stype0) :=
    match a_addr a with
    | AaNone => (None, None, a_pubkey a, a_stype a)
    | AaStr d => (Some d, None, a_pubkey a, a_stype a)
    | AaObj o => (Some (ao_addr o), Some o, a_pubkey a, a_stype a)
    | AaHd o pub w ms =>
        (Some (ao_addr o), Some o, pub,
         match a_stype a with Some s => Some s | None => Some (script_type_default w ms true) end)
    end in
  match sr with
  | SErr => RErr
  | SUnmodelled => RUnmodelled
  | SOk items types shash =>
  (* the "if self._address_obj:" block *)
  match (match obj with
         | None => Some (stype0, a_hash a, a_witver a, net, a_enc a, None)
         | Some o =>
             let st := match stype0 with None => ao_stype o | s => s end in
             let st := if fx_p2shobj fx && osin st [s_p2sh_p2wpkh; s_p2sh_p2wsh] && enc_eqb (ao_enc o) EB58
                       then Some s_p2sh else st in
             let wv := if fx_witver fx then ao_witver o else a_witver a in
             if fx_netobj fx then
               if lib_obj_network_ok fx o net
               then Some (st, ao_hash o, wv, net, Some (ao_enc o), Some (ao_wtype o))
               else None
             else Some (st, ao_hash o, wv, ao_net o, Some (ao_enc o), Some (ao_wtype o))
         end) with
  | None => RErr
  | Some (st1, h1, wv1, net1, e1, wt1) =>
  (* the "if self.script:" block *)
  let has_script := match items with [] => false | _ => true end in
  let st2 := if has_script then match types with t :: _ => Some t | [] => st1 end else st1 in
  let h2 := if has_script then shash else h1 in
  let wv2 := if has_script && oseq st2 s_p2tr
             then match items with IOp b :: _ => bz b - 80 | _ => wv1 end else wv1 in
  (* public key / address string:
       if self.public_key and not self.public_hash:  self.public_hash = hash160(self.public_key)
       elif self._address and (not self.public_hash or not self.script_type or not self.encoding):  <examine the address>
     the code as it is never looks at an address that comes together with a public key (its type, its hash and its
     network are ignored: known class / fixes/C05-4, where "elif" becomes "if") *)
  let from_key := match pubkey, h2 with _ :: _, [] => true | _, _ => false end in
  let h2k := if from_key then H160 pubkey else h2 in
  let need_deser := match given with
                    | Some _ => match st2, e1, h2k with
                                | None, _, _ | _, None, _ | _, _, [] => true
                                | _, _, _ => false
                                end
                    | None => false
                    end in
  match (if from_key && negb (fx_addrpk fx) then Some (st2, h2k, wv2, e1, wt1)
         else
             if need_deser then
               match given with
               | Some d =>
                   match lib_deserialize fx d e1 (Some (nw_name net1)) with
                   | None => None
                   | Some dd =>
                       let st3 := match ds_stype dd, stype0 with
                                  | Some s, None => Some s
                                  | _, _ => st2
                                  end in
                       match st3 with
                       | None => None
                       | Some _ =>
                           if net_in net1 (ds_networks dd)
                           then Some (st3, ds_hash dd,
                                      (if fx_witver fx
                                       then match ds_witver dd with Some w => w | None => 0 end else wv2),
                                      Some (ds_enc dd), Some (ds_wtype dd))
                           else None
                       end
                   end
               | None => None
               end
             else Some (st2, h2k, wv2, e1, wt1)) with
  | None => RErr
  | Some (st3, h3, wv3, e3, wt3) =>
  let e4 := match e3 with
            | Some e => e
            | None => if osin st3 [s_p2pkh; s_p2sh; s_p2pk] || oseq wt3 s_legacy then EB58 else EBech
            end in
  let st4 := match st3 with Some s => s | None => match e4 with EBech => s_p2wpkh | EB58 => s_p2pkh end end in
  match (if negb has_script && (match h3, pubkey with [], [] => false | _, _ => true end)
         then match lib_script_new st4 h3 pubkey
                      (if fx_witver fx && String.eqb st4 s_p2tr then Some wv3 else None) with
              | Some cs => lib_serialize cs
              | None => None
              end
         else Some (a_lock a)) with
  | None => RErr
  | Some lock =>
      ROk {| o_lock := lock; o_stype := st4; o_net := nw_name net1; o_hash := h3; o_witver := wv3;
             o_enc := e4; o_addr := OaEmpty |}
  end end end end.

(* Output.address / Output.address_obj: the address that was given, or
   Address(hashed_data=self.public_hash, script_type=, witver=, encoding=, network=self.network); without an
   Address/HDKey object self.network is the network the output was created for *)
Definition lib_out_address (fx : fixes) (a : oargs) (o : out) : oaddr :=
  match a_addr a with
  | AaStr _ => OaGiven
  | AaObj ob | AaHd ob _ _ _ => OaIs (ao_addr ob)
  | AaNone =>
      match o_hash o with
      | [] => OaEmpty
      | _ => match lib_address_new fx (o_hash o) None (Some (o_stype o)) (Some (o_enc o)) None (o_witver o) (a_net a) with
             | Some ob => OaIs (ao_addr ob)
             | None => OaErr
             end
      end
  end.

Definition lib_output_k (fx : fixes) (a : oargs) (sr : sres) : ores :=
  match lib_output_core fx a sr with
  | ROk o => ROk (with_addr o (lib_out_address fx a o))
  | r => r
  end.

(* "self.lock_script = to_bytes(lock_script); self.public_hash = to_bytes(public_hash); self.public_key = to_bytes(public_key)" *)
Definition lib_args_in (fx : fixes) (a : oargs) : oargs :=
  {| a_addr := match a_addr a with AaHd o pub w ms => AaHd o (tb fx pub) w ms | x => x end;
     a_hash := tb fx (a_hash a); a_pubkey := tb fx (a_pubkey a); a_lock := tb fx (a_lock a);
     a_stype := a_stype a; a_witver := a_witver a; a_enc := a_enc a; a_net := a_net a |}.

Definition lib_output (fx : fixes) (a : oargs) : ores :=
  match a_addr a, a_hash a, (match a_addr a with AaHd _ pub _ _ => pub | _ => a_pubkey a end), a_lock a with
  | AaNone, [], [], [] => RErr
  | _, _, _, _ =>
      let a' := lib_args_in fx a in
      lib_output_k fx a' (match a_lock a' with [] => SOk [] [] [] | l => lib_script_parse l end)
  end.

(* ---------- classes on which the unrepaired code fails (guards of the theorems when a repair is absent) ---------- *)
(* address string of a witness v1+ destination other than (v1, 32 bytes) *)
Definition cls_witver_str (d : dest) : bool :=
  stype_eqb (d_stype d) P2tr && negb ((d_witver d =? 1) && (blen (d_payload d) =? 32)).
(* script_type 'p2tr' given explicitly (Address(...) object, public_hash=): every version but 1 *)
Definition cls_witver_obj (d : dest) : bool := stype_eqb (d_stype d) P2tr && negb (d_witver d =? 1).
(* Address.parse: every bech32m address *)
Definition cls_witver_parse (d : dest) : bool := stype_eqb (d_stype d) P2tr.

(* a payload that reads as hexadecimal text (known class ascii_hex_payload: to_bytes decodes it a second time) *)
Definition cls_ascii_hex (d : dest) : bool := hexlike (d_payload d).

(* the guard of the theorems: binary arguments are taken as they are (repaired code), or the code is as it is and the
   payload does not read as hexadecimal text *)
Definition hex_guard (fx : fixes) (d : dest) : Prop :=
  (forall x, fx_tb fx x = x) \/ (fx_tb fx = lib_to_bytes /\ cls_ascii_hex d = false).

(* the same guard for a list of byte strings (key objects: the hashes of the key, the key itself) *)
Definition tb_leaves (fx : fixes) (l : list bytes) : Prop :=
  (forall x, fx_tb fx x = x) \/ (fx_tb fx = lib_to_bytes /\ forallb (fun x => negb (hexlike x)) l = true).

(* ---------- named creation paths (what the theorems and the driver use) ---------- *)
(* Output(address=<string>, public_key=pub) *)
Definition lib_out_addr_pubkey fx net (a : daddr) (pub : bytes) : ores :=
  lib_output fx {| a_addr := AaStr a; a_hash := []; a_pubkey := pub; a_lock := []; a_stype := None;
                   a_witver := 0; a_enc := None; a_net := net |}.

Definition args0 (net : network) : oargs :=
  {| a_addr := AaNone; a_hash := []; a_pubkey := []; a_lock := []; a_stype := None; a_witver := 0;
     a_enc := None; a_net := net |}.

Definition lib_out_addr_str fx net (a : daddr) : ores :=
  lib_output fx {| a_addr := AaStr a; a_hash := []; a_pubkey := []; a_lock := []; a_stype := None;
                   a_witver := 0; a_enc := None; a_net := net |}.
Definition lib_out_addr_obj fx net (o : addr_obj) : ores :=
  lib_output fx {| a_addr := AaObj o; a_hash := []; a_pubkey := []; a_lock := []; a_stype := None;
                   a_witver := 0; a_enc := None; a_net := net |}.
Definition lib_out_hd fx net (o : addr_obj) (pub : bytes) (w : wtype) (ms : bool) : ores :=
  lib_output fx {| a_addr := AaHd o pub w ms; a_hash := []; a_pubkey := []; a_lock := []; a_stype := None;
                   a_witver := 0; a_enc := None; a_net := net |}.
Definition lib_out_pubkey fx net (pub : bytes) (st : option string) (e : option enc) : ores :=
  lib_output fx {| a_addr := AaNone; a_hash := []; a_pubkey := pub; a_lock := []; a_stype := st;
                   a_witver := 0; a_enc := e; a_net := net |}.
Definition lib_out_hash fx net (h : bytes) (st : option string) (wv : Z) (e : option enc) : ores :=
  lib_output fx {| a_addr := AaNone; a_hash := h; a_pubkey := []; a_lock := []; a_stype := st;
                   a_witver := wv; a_enc := e; a_net := net |}.
Definition lib_out_script fx net (s : bytes) : ores :=
  lib_output fx {| a_addr := AaNone; a_hash := []; a_pubkey := []; a_lock := s; a_stype := None;
                   a_witver := 0; a_enc := None; a_net := net |}.

(* Key(pub, network=A).address_obj handed to an output of network [net] *)
Definition lib_out_key fx net (o : addr_obj) : ores := lib_out_addr_obj fx net o.

(* Transaction.parse(raw, network=net).outputs[i]: Output.parse reads value and script from the wire (property C01's
   codec) and calls Output(value, lock_script=script, network=net) *)
Definition lib_out_tx fx net (s : bytes) : ores := lib_out_script fx net s.

(* an output that went through Transaction.raw() and Transaction.parse(): only its locking script travels *)
Definition lib_reparse fx net (r : ores) : ores :=
  match r with ROk o => lib_out_tx fx net (o_lock o) | x => x end.

(* ---------- HD keys: which destination an HDKey object stands for (BIP44/49/84 single signature keys,
              BIP45/48 multisig cosigner keys) ---------- *)
Definition spec_hd_dest (w : wtype) (ms : bool) (h160 s256 : bytes) : dest :=
  match w, ms with
  | WLegacy, false => mkdest P2pkh 0 h160
  | WLegacy, true => mkdest P2sh 0 h160                 (* the library's convention for a lone legacy multisig key *)
  | WSegwit, false => mkdest P2wpkh 0 h160
  | WSegwit, true => mkdest P2wsh 0 s256
  | WP2shSegwit, false => mkdest P2sh 0 (H160 (x00 :: x14 :: h160))
  | WP2shSegwit, true => mkdest P2sh 0 (H160 (x00 :: x20 :: s256))
  end.

(* the byte strings of an HD key that to_bytes meets: hash160 / sha256 of the public key, the key, and for a
   P2SH-embedded witness program the hash of that program *)
Definition hd_leaves (w : wtype) (h160 s256 pub : bytes) : list bytes :=
  [h160; s256; pub] ++
  match w with WP2shSegwit => [H160 (x00 :: x14 :: h160); H160 (x00 :: x20 :: s256)] | _ => [] end.

(* the two directions of the property, as functions *)
Definition lib_output_script fx net (a : daddr) : option bytes :=
  match lib_out_addr_str fx net a with ROk o => Some (o_lock o) | _ => None end.

Definition lib_script_to_address fx net (s : bytes) : option (daddr * string) :=
  match lib_out_script fx net s with
  | ROk o => match o_addr o with OaIs a => Some (a, o_stype o) | _ => None end
  | _ => None
  end.

(* "the output exists and has exactly this locking script, script type, network and address" *)
Definition out_is (r : ores) (lock : bytes) (st net : string) (a : oaddr) : Prop :=
  exists o, r = ROk o /\ o_lock o = lock /\ o_stype o = st /\ o_net o = net /\ o_addr o = a.

(* does the output creation refuse?  (the network check of the property) *)
Definition refused (r : ores) : bool := match r with RErr => true | _ => false end.

End Lib.
