(* Model/Bip38.v — BIP38 passphrase-protected keys (C15).  Definitions only.
   lib_X  mirrors bitcoinlib/keys.py: bip38_encrypt, bip38_decrypt (both branches), Key.encrypt,
          Key._bip38_decrypt + the "wif_protected" path of Key.__init__, bip38_intermediate_password,
          bip38_create_new_encrypted_wif, and get_key_format's test for protected keys.
   spec_X is written from the BIP38 text.
   Oracles (Section variables, never implemented in Gallina): scrypt, AES-256-ECB on one block, Unicode NFC.
   Hashes, Base58 and the curve are Section variables too (the theorems do not depend on what they compute);
   the instances used for extraction are defined in Extract/C15.v.
   Entropy use (which os.urandom draw each generating call consumes) is the process model at the end. *)
From Coq Require Import ZArith List Bool.
From Coq.Strings Require Import Byte.
From Verif Require Import Lib.Bytes.
Import ListNotations.
Open Scope Z_scope.

(* ---------------------------------------------------------------- small helpers *)
(* l[a:b] for 0 <= a <= b *)
Definition sl (a b : nat) (l : bytes) : bytes := firstn (b - a) (skipn a l).
(* l[a:-k] *)
Definition sl_end (a k : nat) (l : bytes) : bytes := firstn (length l - k - a) (skipn a l).
(* l[-k:] *)
Definition last_n (k : nat) (l : bytes) : bytes := skipn (length l - k) l.

(* (int.from_bytes(a,'big') ^ int.from_bytes(b,'big')).to_bytes(n,'big') *)
Definition xor_be (n : nat) (a b : bytes) : bytes := be_bytes n (Z.lxor (of_be a) (of_be b)).

Definition mem_byte (b : bytes) (l : list byte) : bool :=
  match b with [x] => existsb (beq x) l | _ => false end.

Inductive err := EEnc | EKey | EValue | EAssert | EOther | EType.
(* EncodingError | BKeyError | ValueError | AssertionError | anything else | TypeError *)
Inductive res (A : Type) := Ok (a : A) | Err (e : err).
Arguments Ok {A} a.
Arguments Err {A} e.

Definition secp_order : Z := 115792089237316195423570985008687907852837564279074904382605163141518161494337.

(* config.py *)
Definition magic_lot : bytes := [x2c; xe9; xb3; xe1; xff; x39; xe2; x51].
Definition magic_nolot : bytes := [x2c; xe9; xb3; xe1; xff; x39; xe2; x53].
Definition pfx_noec : bytes := [x01; x42].
Definition pfx_ec : bytes := [x01; x43].
Definition pfx_confirmation : bytes := [x64; x3b; xf6; xa8; x9a].
(* flag bytes the EC branch of bip38_decrypt treats as "lot and sequence present" / "compressed" *)
Definition lib_lot_flags : list byte := [x04; x24; x0c; x14; x1c; x2c; x34; x3c].
Definition lib_compressed_flags : list byte := [x20; x24; x28; x2c; x30; x34; x38; x3c; xe0; xe8; xf0; xf8].

(* Python truthiness of an optional int argument *)
Definition truthy (o : option Z) : bool := match o with Some z => negb (z =? 0) | None => false end.

(* get_key_format: len(key) == 58 and key[:2] == '6P' (reached for a str that is not 64/66/128/130 long) *)
Definition lib_is_protected (s : bytes) : bool :=
  Nat.eqb (length s) 58 && bytes_eqb (firstn 2 s) [x36; x50].

(* ---------------------------------------------------------------- the passphrase ARGUMENT
   Every entry point accepts a Python value: a str (text T) or a bytes object.  What reaches scrypt:
     bip38_encrypt, plain branch of bip38_decrypt : "if isinstance(password, str): password = password.encode('utf-8')"
     EC branch of bip38_decrypt, bip38_intermediate_password : the value goes to scrypt_hash unchanged and the scrypt
       module encodes a str as UTF-8 (_ensure_bytes) and takes bytes as they are.
   NO other transformation (no un-hexlify, strip, case folding, truncation at NUL): [arg_bytes].
   The BIP: the passphrase text is NFC-normalised, then UTF-8 encoded; a caller who passes bytes has done that. *)
Inductive pyarg (T : Type) := PStr (t : T) | PBytes (b : bytes).
Arguments PStr {T} t.
Arguments PBytes {T} b.

Definition arg_bytes {T} (utf8 : T -> bytes) (a : pyarg T) : bytes :=
  match a with PStr t => utf8 t | PBytes b => b end.
Definition arg_nfc {T} (nfc : T -> T) (a : pyarg T) : pyarg T :=
  match a with PStr t => PStr (nfc t) | PBytes b => PBytes b end.
(* the bytes the BIP feeds to scrypt for this argument *)
Definition spec_pw_bytes {T} (utf8 : T -> bytes) (nfc : T -> T) (a : pyarg T) : bytes :=
  arg_bytes utf8 (arg_nfc nfc a).
(* two arguments denote the same passphrase when the BIP derives the same scrypt input from them *)
Definition same_passphrase {T} (utf8 : T -> bytes) (nfc : T -> T) (a b : pyarg T) : Prop :=
  spec_pw_bytes utf8 nfc a = spec_pw_bytes utf8 nfc b.

(* the argument is already in the form the BIP normalises it to (otherwise: recorded class passphrase_not_nfc) *)
Definition nfc_stable {T} (utf8 : T -> bytes) (nfc : T -> T) (a : pyarg T) : Prop :=
  match a with PStr t => utf8 (nfc t) = utf8 t | PBytes _ => True end.

Section Bip38.

Variable P : Type.                       (* passphrase as the caller wrote it *)
Variable utf8 : P -> bytes.              (* str.encode('utf-8') *)
Variable nfc : P -> P.                   (* unicodedata.normalize('NFC', .) *)
Variable scrypt : bytes -> bytes -> Z -> Z -> Z -> nat -> bytes.   (* password salt N r p dklen *)
Variable aes_enc aes_dec : bytes -> bytes -> bytes.                (* key, one 16-byte block *)
Variable H : bytes -> bytes.             (* double SHA-256 *)
Variable H160 : bytes -> bytes.          (* RIPEMD160(SHA256(.)) *)
Variable b58e : bytes -> bytes.          (* base58encode *)
Variable b58d : bytes -> option bytes.   (* change_base(s, 58, 256); None = EncodingError *)
Variable pubser : bool -> Z -> option bytes.
  (* serialised public key (compressed?) of a secret; None = the curve code raises *)
Variable ptmulser : bool -> bytes -> Z -> option bytes.
  (* serialisation (compressed?) of factor * (point parsed from a serialised public key) *)

Definition b58check (payload : bytes) : bytes := b58e (payload ++ firstn 4 (H payload)).

(* Key.address() for a legacy base58 key: pubkeyhash_to_addr_base58(hash160(pub), network.prefix_address) *)
Definition lib_address (pfx : bytes) (c : bool) (secret : Z) : option bytes :=
  match pubser c secret with
  | None => None
  | Some pk => Some (b58check (pfx ++ H160 pk))
  end.

(* ---------------------------------------------------------------- non-EC-multiplied mode *)
(* bip38_encrypt(private_hex, address, password, flagbyte); priv = the 32 bytes of private_hex *)
Definition lib_bip38_encrypt (priv addr pw : bytes) (flag : byte) : bytes :=
  let addresshash := firstn 4 (H addr) in
  let key := scrypt pw addresshash 16384 8 8 64%nat in
  let dh1 := sl 0 32 key in
  let dh2 := sl 32 64 key in
  let eh1 := aes_enc dh2 (xor_be 16 (sl 0 16 priv) (sl 0 16 dh1)) in
  let eh2 := aes_enc dh2 (xor_be 16 (sl 16 32 priv) (sl 16 32 dh1)) in
  let payload := pfx_noec ++ [flag] ++ addresshash ++ eh1 ++ eh2 in
  b58e (payload ++ firstn 4 (H payload)).

(* Key(k, network, compressed).encrypt(password) *)
Definition lib_key_encrypt (pfx : bytes) (c : bool) (secret : Z) (pw : P) : option bytes :=
  match lib_address pfx c secret with
  | None => None
  | Some a => Some (lib_bip38_encrypt (be_bytes 32 secret) a (utf8 pw) (if c then xe0 else xc0))
  end.

Record dec_info := { di_priv : bytes; di_hash : bytes; di_compressed : bool;
                     di_lot : option Z; di_sequence : option Z; di_seed : bytes }.

(* the EC-multiplied branch of bip38_decrypt; [d] is the decoded string *)
Definition lib_decrypt_ec (d : bytes) (pw : P) : res dec_info :=
  let flag := sl 2 3 d in
  let address_hash := sl 3 7 d in
  let owner_entropy := sl 7 15 d in
  let eh1h1 := sl 15 23 d in
  let eh2 := sl_end 23 4 d in
  let has_lot := mem_byte flag lib_lot_flags in
  let owner_salt := if has_lot then sl 0 4 owner_entropy else owner_entropy in
  let lot_and_sequence := if has_lot then skipn 4 owner_entropy else [] in
  let has_ls := negb (Nat.eqb (length lot_and_sequence) 0) in            (* "if lot_and_sequence:" *)
  let pf0 := scrypt (utf8 pw) owner_salt 16384 8 8 32%nat in
  let pass_factor := if has_ls then H (pf0 ++ owner_entropy) else pf0 in
  let pfz := of_be pass_factor in
  if (pfz =? 0) || (secp_order <=? pfz) then Err EValue else
  match pubser true pfz with
  | None => Err EOther
  | Some pre_public_key =>
    let salt := address_hash ++ owner_entropy in
    let esb := scrypt pre_public_key salt 1024 1 1 64%nat in
    let key := skipn 32 esb in
    let t := xor_be 16 (aes_dec key eh2) (sl 16 32 esb) in
    let eh1 := eh1h1 ++ sl 0 8 t in
    let seed_b := xor_be 16 (aes_dec key eh1) (sl 0 16 esb) ++ skipn 8 t in
    let factor_b := H seed_b in
    let fbz := of_be factor_b in
    if (fbz =? 0) || (secp_order <=? fbz) then Err EValue else
    let secret := (pfz * fbz) mod secp_order in
    let compressed := mem_byte flag lib_compressed_flags in
    (* HDKey(pass_factor) * HDKey(factor_b) is a Key on the DEFAULT network: prefix 00 *)
    match lib_address [x00] compressed secret with
    | None => Err EOther
    | Some address =>
      if negb (bytes_eqb (firstn 4 (H address)) address_hash) then Err EValue else
      let ls := of_be lot_and_sequence in
      Ok {| di_priv := be_bytes 32 secret; di_hash := address_hash; di_compressed := compressed;
            di_lot := if has_ls then Some (ls / 4096) else None;
            di_sequence := if has_ls then Some (ls mod 4096) else None;
            di_seed := seed_b |}
    end
  end.

(* the non-EC branch; returns the bytes it computed WITHOUT any check *)
Definition lib_decrypt_noec (d : bytes) (pw : P) : res dec_info :=
  let flag := sl 2 3 d in
  let d1 := skipn 3 d in
  if negb (mem_byte flag [xc0; xe0; x20]) then Err EEnc else
  let compressed := negb (mem_byte flag [xc0]) in
  let addresshash := sl 0 4 d1 in
  let d2 := sl_end 4 4 d1 in
  let key := scrypt (utf8 pw) addresshash 16384 8 8 64%nat in
  let dh1 := sl 0 32 key in
  let dh2 := sl 32 64 key in
  let eh1 := sl 0 16 d2 in
  let eh2 := sl 16 32 d2 in
  let dec2 := aes_dec dh2 eh2 in
  let dec1 := aes_dec dh2 eh1 in
  Ok {| di_priv := xor_be 32 (dec1 ++ dec2) dh1; di_hash := addresshash; di_compressed := compressed;
        di_lot := None; di_sequence := None; di_seed := [] |}.

(* bip38_decrypt(encrypted_privkey, password) *)
Definition lib_bip38_decrypt (s : bytes) (pw : P) : res dec_info :=
  match b58d s with
  | None => Err EEnc
  | Some d =>
      (* len(d) != 43 or d[-4:] != double_sha256(d[:-4])[:4]  (repository fix ffad970) *)
      if negb (Nat.eqb (length d) 43) || negb (bytes_eqb (last_n 4 d) (firstn 4 (H (firstn (length d - 4) d))))
      then Err EEnc else
      let identifier := sl 0 2 d in
      if bytes_eqb identifier pfx_ec then lib_decrypt_ec d pw
      else if bytes_eqb identifier pfx_noec then lib_decrypt_noec d pw
      else Err EEnc
  end.

(* Key._bip38_decrypt: re-derive the address on the requested network and compare its hash *)
Definition lib_check_address (pfx : bytes) (i : dec_info) : res (Z * bool) :=
  let secret := of_be (di_priv i) in
  match lib_address pfx (di_compressed i) secret with
  | None => Err EOther
  | Some addr =>
      if negb (bytes_eqb (firstn 4 (H addr)) (di_hash i)) then Err EKey
      else Ok (secret, di_compressed i)
  end.

Inductive key_res := KNotProtected | KErr (e : err) | KOk (secret : Z) (compressed : bool).

(* Key(s, password=pw, network=nw) for a str of 58 characters; pfx = prefix_address of nw
   (of the default network when nw is not given) *)
Definition lib_key_decrypt (pfx : bytes) (s : bytes) (pw : P) : key_res :=
  if negb (lib_is_protected s) then KNotProtected else
  match lib_bip38_decrypt s pw with
  | Err e => KErr e
  | Ok i => match lib_check_address pfx i with
            | Err e => KErr e
            | Ok (k, c) => KOk k c
            end
  end.

(* ---------------------------------------------------------------- EC-multiplied mode: generation *)
(* bip38_intermediate_password(passphrase, lot, sequence, owner_salt) *)
Definition lib_intermediate (pw : P) (lot sequence : option Z) (owner_salt : bytes) : res bytes :=
  let n := length owner_salt in
  if negb (Nat.eqb n 4 || Nat.eqb n 8) then Err EValue else
  if Nat.eqb n 4 && (negb (truthy lot) || negb (truthy sequence)) then Err EValue else
  if (truthy lot && negb (truthy sequence)) || (negb (truthy lot) && truthy sequence) then Err EValue else
  let finish (magic owner_entropy pass_factor : bytes) : res bytes :=
    match pubser true (of_be pass_factor) with
    | None => Err EOther
    | Some pp => Ok (b58check (magic ++ owner_entropy ++ pp))
    end in
  match lot, sequence with
  | Some l, Some s =>
      if truthy lot && truthy sequence then
        if negb ((100000 <=? l) && (l <=? 999999)) then Err EValue else
        if negb ((0 <=? s) && (s <=? 4095)) then Err EValue else
        let pre := scrypt (utf8 (nfc pw)) (sl 0 4 owner_salt) 16384 8 8 32%nat in
        let oe := sl 0 4 owner_salt ++ be_bytes 4 (l * 4096 + s) in
        finish magic_lot oe (H (pre ++ oe))
      else finish magic_nolot owner_salt (scrypt (utf8 (nfc pw)) owner_salt 16384 8 8 32%nat)
  | _, _ => finish magic_nolot owner_salt (scrypt (utf8 (nfc pw)) owner_salt 16384 8 8 32%nat)
  end.

Record new_key := { nk_wif : bytes; nk_confirmation : bytes; nk_public : bytes; nk_address : bytes }.

(* bip38_create_new_encrypted_wif(intermediate_passphrase, compressed, seed, network); pfx = prefix_address *)
Definition lib_create_new (pfx : bytes) (ip : bytes) (c : bool) (seed_b : bytes) : res new_key :=
  match b58d ip with
  | None => Err EEnc
  | Some ib =>
    let check := last_n 4 ib in
    let dec := firstn (length ib - 4) ib in
    if negb (bytes_eqb check (firstn 4 (H dec))) then Err EAssert else
    if negb (Nat.eqb (length dec) 49) then Err EValue else
    let magic := sl 0 8 dec in
    let owner_entropy := sl 8 16 dec in
    let pass_point := skipn 16 dec in
    let flag_opt :=
      if bytes_eqb magic magic_lot then Some (if c then x24 else x04)
      else if bytes_eqb magic magic_nolot then Some (if c then x20 else x00)
      else None in
    match flag_opt with
    | None => Err EValue
    | Some flag =>
      let factor_b := H seed_b in
      let fbz := of_be factor_b in
      if negb ((0 <? fbz) && (fbz <? secp_order)) then Err EValue else
      match ptmulser c pass_point fbz, pubser true fbz with
      | Some pk, Some point_b =>
        let address := b58check (pfx ++ H160 pk) in
        let address_hash := firstn 4 (H address) in
        let salt := address_hash ++ owner_entropy in
        let sh := scrypt pass_point salt 1024 1 1 64%nat in
        let dh1 := sl 0 16 sh in
        let dh2 := sl 16 32 sh in
        let key := skipn 32 sh in
        let eh1 := aes_enc key (xor_be 16 (sl 0 16 seed_b) dh1) in
        let eh2 := aes_enc key (xor_be 16 (skipn 8 eh1 ++ skipn 16 seed_b) dh2) in
        let wif := b58check (pfx_ec ++ [flag] ++ address_hash ++ owner_entropy ++ sl 0 8 eh1 ++ eh2) in
        let pb_prefix := zb (Z.lxor (Z.land (of_be (skipn 63 sh)) 1) (of_be (sl 0 1 point_b))) in
        let pb1 := aes_enc key (xor_be 16 (sl 1 17 point_b) dh1) in
        let pb2 := aes_enc key (xor_be 16 (skipn 17 point_b) dh2) in
        let conf := b58check (pfx_confirmation ++ [flag] ++ address_hash ++ owner_entropy ++
                              [pb_prefix] ++ pb1 ++ pb2) in
        Ok {| nk_wif := wif; nk_confirmation := conf; nk_public := pk; nk_address := address |}
      | _, _ => Err EOther
      end
    end
  end.

(* ---------------------------------------------------------------- specification (BIP38 text) *)
(* "Encryption when EC multiply flag is not used": steps 1-6.  The passphrase is NFC-normalised UTF-8. *)
Definition spec_encrypt (pfx : bytes) (c : bool) (secret : Z) (pw : P) : option bytes :=
  match lib_address pfx c secret with
  | None => None
  | Some address =>
      let salt := firstn 4 (H address) in
      let dk := scrypt (utf8 (nfc pw)) salt 16384 8 8 64%nat in
      let derivedhalf1 := firstn 32 dk in
      let derivedhalf2 := skipn 32 dk in
      let priv := be_bytes 32 secret in
      let block1 := xor_be 16 (firstn 16 priv) (firstn 16 derivedhalf1) in
      let block2 := xor_be 16 (skipn 16 priv) (skipn 16 derivedhalf1) in
      let flagbyte := if c then xe0 else xc0 in          (* 0xC0 | 0x20 when compressed *)
      Some (b58check ([x01; x42; flagbyte] ++ salt ++ aes_enc derivedhalf2 block1 ++ aes_enc derivedhalf2 block2))
  end.

(* Base58Check decoding: the 4-byte checksum is verified *)
Definition spec_b58check_dec (s : bytes) : option bytes :=
  match b58d s with
  | None => None
  | Some d =>
      let body := firstn (length d - 4) d in
      if bytes_eqb (last_n 4 d) (firstn 4 (H body)) then Some body else None
  end.

Definition flag_bit (mask : Z) (flag : bytes) : bool :=
  match flag with [f] => negb (Z.land (bz f) mask =? 0) | _ => false end.

(* "Decryption" (non-EC): steps 1-7, including the address-hash verification of step 7;
   None = "not a valid encrypted key or wrong passphrase" *)
Definition spec_decrypt_noec (pfx : bytes) (body : bytes) (pw : P) : option (Z * bool) :=
  let flag := sl 2 3 body in
  if negb (mem_byte flag [xc0; xe0]) then None else
  let compressed := flag_bit 32 flag in
  let salt := sl 3 7 body in
  let dk := scrypt (utf8 (nfc pw)) salt 16384 8 8 64%nat in
  let derivedhalf1 := firstn 32 dk in
  let derivedhalf2 := skipn 32 dk in
  let p1 := xor_be 16 (aes_dec derivedhalf2 (sl 7 23 body)) (firstn 16 derivedhalf1) in
  let p2 := xor_be 16 (aes_dec derivedhalf2 (sl 23 39 body)) (skipn 16 derivedhalf1) in
  let secret := of_be (p1 ++ p2) in
  match lib_address pfx compressed secret with
  | None => None
  | Some address => if bytes_eqb (firstn 4 (H address)) salt then Some (secret, compressed) else None
  end.

(* "Decryption" of an EC-multiplied key: steps 1-7 of the last section of the BIP; [pfx] is the
   address version of the network the key was generated for *)
Definition spec_decrypt_ec (pfx : bytes) (body : bytes) (pw : P) : option (Z * bool) :=
  let flag := sl 2 3 body in
  (* "bits 0x10 and 0x08 ... must be 0", the two top bits are 00 for EC-multiplied keys, "remaining bits are
     reserved and must be 0": only 0x20 (compressed) and 0x04 (lot/sequence) may be set *)
  if negb (mem_byte flag [x00; x04; x20; x24]) then None else
  let compressed := flag_bit 32 flag in
  let has_lot := flag_bit 4 flag in
  let addresshash := sl 3 7 body in
  let ownerentropy := sl 7 15 body in
  let ownersalt := if has_lot then firstn 4 ownerentropy else ownerentropy in
  let prefactor := scrypt (utf8 (nfc pw)) ownersalt 16384 8 8 32%nat in
  let passfactor := if has_lot then H (prefactor ++ ownerentropy) else prefactor in
  let pfz := of_be passfactor in
  if (pfz =? 0) || (secp_order <=? pfz) then None else
  match pubser true pfz with
  | None => None
  | Some passpoint =>
      let dk := scrypt passpoint (addresshash ++ ownerentropy) 1024 1 1 64%nat in
      let derivedhalf1 := firstn 32 dk in
      let derivedhalf2 := skipn 32 dk in
      let part2 := xor_be 16 (aes_dec derivedhalf2 (sl 23 39 body)) (skipn 16 derivedhalf1) in
      let encryptedpart1 := sl 15 23 body ++ firstn 8 part2 in
      let part1 := xor_be 16 (aes_dec derivedhalf2 encryptedpart1) (firstn 16 derivedhalf1) in
      let seedb := part1 ++ skipn 8 part2 in
      let fbz := of_be (H seedb) in
      if (fbz =? 0) || (secp_order <=? fbz) then None else
      let secret := (pfz * fbz) mod secp_order in
      match lib_address pfx compressed secret with
      | None => None
      | Some address => if bytes_eqb (firstn 4 (H address)) addresshash then Some (secret, compressed) else None
      end
  end.

Definition spec_decrypt (pfx : bytes) (s : bytes) (pw : P) : option (Z * bool) :=
  match spec_b58check_dec s with
  | None => None
  | Some body =>
      if negb (Nat.eqb (length body) 39) then None
      else if bytes_eqb (sl 0 2 body) pfx_noec then spec_decrypt_noec pfx body pw
      else if bytes_eqb (sl 0 2 body) pfx_ec then spec_decrypt_ec pfx body pw
      else None
  end.

(* "Steps performed by owner to generate a single intermediate code"; lot 100000..999999 (the library's
   range; the BIP allows 0..1048575), sequence 0..4095 — sequence 0 is a legal sequence number *)
Definition spec_intermediate (pw : P) (ls : option (Z * Z)) (owner_salt : bytes) : option bytes :=
  match ls with
  | Some (l, s) =>
      if negb ((100000 <=? l) && (l <=? 999999) && (0 <=? s) && (s <=? 4095)) then None else
      if negb (Nat.eqb (length owner_salt) 4 || Nat.eqb (length owner_salt) 8) then None else
      let ownersalt := firstn 4 owner_salt in
      let ownerentropy := ownersalt ++ be_bytes 4 (l * 4096 + s) in
      let prefactor := scrypt (utf8 (nfc pw)) ownersalt 16384 8 8 32%nat in
      let passfactor := H (prefactor ++ ownerentropy) in
      match pubser true (of_be passfactor) with
      | None => None
      | Some passpoint => Some (b58check (magic_lot ++ ownerentropy ++ passpoint))
      end
  | None =>
      if negb (Nat.eqb (length owner_salt) 8) then None else
      let passfactor := scrypt (utf8 (nfc pw)) owner_salt 16384 8 8 32%nat in
      match pubser true (of_be passfactor) with
      | None => None
      | Some passpoint => Some (b58check (magic_nolot ++ owner_salt ++ passpoint))
      end
  end.

End Bip38.

(* ---------------------------------------------------------------- entry points taking str-or-bytes arguments *)
(* bip38_intermediate_password(passphrase: str | bytes, ...): the argument checks (ValueError) come first; then
   unicodedata.normalize("NFC", passphrase) raises TypeError for a bytes object *)
Definition lib_intermediate_arg (T : Type) (utf8 : T -> bytes) (nfc : T -> T)
    (scrypt : bytes -> bytes -> Z -> Z -> Z -> nat -> bytes) (H : bytes -> bytes) (b58e : bytes -> bytes)
    (pubser : bool -> Z -> option bytes) (a : pyarg T) (lot sequence : option Z) (owner_salt : bytes) : res bytes :=
  match lib_intermediate (pyarg T) (arg_bytes utf8) (arg_nfc nfc) scrypt H b58e pubser a lot sequence owner_salt, a with
  | Err EValue, _ => Err EValue
  | _, PBytes _ => Err EType
  | r, PStr _ => r
  end.

(* bip38_encrypt(private_hex, address: str | bytes, password: str | bytes, flagbyte) called directly *)
Definition lib_bip38_encrypt_call (T : Type) (utf8 : T -> bytes)
    (scrypt : bytes -> bytes -> Z -> Z -> Z -> nat -> bytes) (aes_enc : bytes -> bytes -> bytes)
    (H : bytes -> bytes) (b58e : bytes -> bytes) (priv : bytes) (address pw : pyarg T) (flag : byte) : bytes :=
  lib_bip38_encrypt scrypt aes_enc H b58e priv (arg_bytes utf8 address) (arg_bytes utf8 pw) flag.

(* the flag byte of a decoded 43-byte string is one the BIP defines for its identifier
   (plain: C0 / E0; EC-multiplied: 00 / 04 / 20 / 24).  The library also accepts plain 20 and the EC-multiplied
   flags with the reserved bits 08 / 10 set and E0..F8: "laxer than the BIP", outside the agreement theorem. *)
Definition bip38_flag_defined (d : bytes) : bool :=
  if bytes_eqb (sl 0 2 d) pfx_ec then mem_byte (sl 2 3 d) [x00; x04; x20; x24]
  else mem_byte (sl 2 3 d) [xc0; xe0].
Definition is_ec_key (d : bytes) : bool := bytes_eqb (sl 0 2 d) pfx_ec.

(* ---------------------------------------------------------------- entropy use of the generating calls *)
(* The process draws numbered chunks from os.urandom: the k-th call of os.urandom in the process returns
   chunk k.  [at_import] = true is the tree before fixes/C15-1 (the defaults owner_salt=os.urandom(8) and
   seed=os.urandom(24) are evaluated once, when bitcoinlib.keys is imported, in source order);
   [at_import] = false is the repaired code (default None, drawn inside the call). *)
Record pstate := { ps_next : nat; ps_def_salt : option nat; ps_def_seed : option nat }.

Inductive gen_op :=
  | OpIntermediate (explicit_salt : bool)
  | OpCreateNew (explicit_seed : bool).

Definition import_state (at_import : bool) : pstate :=
  if at_import then {| ps_next := 2; ps_def_salt := Some 0%nat; ps_def_seed := Some 1%nat |}
  else {| ps_next := 0; ps_def_salt := None; ps_def_seed := None |}.

(* what a call uses: None = the caller's explicit value, Some k = chunk k of the stream *)
Definition op_step (st : pstate) (o : gen_op) : pstate * option nat :=
  let draw := ({| ps_next := S (ps_next st); ps_def_salt := ps_def_salt st; ps_def_seed := ps_def_seed st |},
               Some (ps_next st)) in
  match o with
  | OpIntermediate true | OpCreateNew true => (st, None)
  | OpIntermediate false => match ps_def_salt st with Some k => (st, Some k) | None => draw end
  | OpCreateNew false => match ps_def_seed st with Some k => (st, Some k) | None => draw end
  end.

Fixpoint run_ops (st : pstate) (ops : list gen_op) : list (option nat) :=
  match ops with
  | [] => []
  | o :: r => let '(st', u) := op_step st o in u :: run_ops st' r
  end.

Definition lib_entropy_use (ops : list gen_op) : list (option nat) := run_ops (import_state false) ops.
Definition legacy_entropy_use (ops : list gen_op) : list (option nat) := run_ops (import_state true) ops.

Definition op_explicit (o : gen_op) : bool :=
  match o with OpIntermediate e => e | OpCreateNew e => e end.

(* the statement: the j-th call that relies on the default consumes chunk j (counting from 0) *)
Fixpoint spec_entropy_use (next : nat) (ops : list gen_op) : list (option nat) :=
  match ops with
  | [] => []
  | o :: r => if op_explicit o then None :: spec_entropy_use next r
              else Some next :: spec_entropy_use (S next) r
  end.

(* ---------------------------------------------------------------- EC-multiplied mode: names used by the theorems *)
Definition ec_magic (has_lot : bool) : bytes := if has_lot then magic_lot else magic_nolot.
(* the pass factor, as the decryption derives it from the passphrase and the owner entropy *)
Definition pass_factor_of (P : Type) (utf8 : P -> bytes) (scrypt : bytes -> bytes -> Z -> Z -> Z -> nat -> bytes)
    (H : bytes -> bytes) (has_lot : bool) (pw : P) (oe : bytes) : bytes :=
  if has_lot then H (scrypt (utf8 pw) (sl 0 4 oe) 16384 8 8 32%nat ++ oe)
  else scrypt (utf8 pw) oe 16384 8 8 32%nat.

(* ---------------------------------------------------------------- the premises about the oracles, named *)
Definition aes_inverse (aes_enc aes_dec : bytes -> bytes -> bytes) : Prop :=
  forall k b, length b = 16%nat -> aes_dec k (aes_enc k b) = b.
Definition aes_block_length (aes : bytes -> bytes -> bytes) : Prop :=
  forall k b, length b = 16%nat -> length (aes k b) = 16%nat.
Definition scrypt_length (scrypt : bytes -> bytes -> Z -> Z -> Z -> nat -> bytes) : Prop :=
  forall pw salt n r p dk, length (scrypt pw salt n r p dk) = dk.
Definition hash_length (H : bytes -> bytes) : Prop := forall x, length (H x) = 32%nat.
(* Base58 facts (C11): the 43-byte string survives encode/decode, and a payload starting 01 42 is written as
   58 characters starting "6P" *)
Definition b58_roundtrip43 (b58e : bytes -> bytes) (b58d : bytes -> option bytes) : Prop :=
  forall x, length x = 43%nat -> b58d (b58e x) = Some x.
Definition b58_protected_shape (b58e : bytes -> bytes) : Prop :=
  forall x, length x = 43%nat -> sl 0 2 x = pfx_noec -> lib_is_protected (b58e x) = true.
Definition b58_roundtrip53 (b58e : bytes -> bytes) (b58d : bytes -> option bytes) : Prop :=
  forall x, length x = 53%nat -> b58d (b58e x) = Some x.
Definition b58_protected_shape_ec (b58e : bytes -> bytes) : Prop :=
  forall x, length x = 43%nat -> sl 0 2 x = pfx_ec -> lib_is_protected (b58e x) = true.
(* the curve, on serialised points: b * (a * G) = (a * b mod n) * G; compressed points are 33 bytes *)
Definition curve_mul_law (pubser : bool -> Z -> option bytes) (ptmulser : bool -> bytes -> Z -> option bytes) : Prop :=
  forall c a b pp, 0 < a < secp_order -> 0 < b < secp_order ->
  pubser true a = Some pp -> ptmulser c pp b = pubser c ((a * b) mod secp_order).
Definition pub_length33 (pubser : bool -> Z -> option bytes) : Prop :=
  forall k pp, pubser true k = Some pp -> length pp = 33%nat.

(* ---------------------------------------------------------------- toy oracles for the computed witnesses *)
Definition toy_scrypt (pw salt : bytes) (n r p : Z) (dk : nat) : bytes := firstn dk (pw ++ salt ++ repeat x00 dk).
Definition toy_aes (k b : bytes) : bytes := b.
Definition toy_H (x : bytes) : bytes := repeat (zb (fold_right (fun b a => 3 * a + bz b) 0 x)) 32.
Definition toy_b58e (x : bytes) : bytes := x36 :: x50 :: x ++ repeat x31 13.
Definition toy_b58d (s : bytes) : option bytes := Some (firstn 43 (skipn 2 s)).
Definition toy_pub (c : bool) (k : Z) : option bytes := if k =? 0 then None else Some ((if c then x02 else x04) :: be_bytes 32 k).
