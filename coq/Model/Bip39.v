(* Model/Bip39.v — BIP39 from the BIP text (spec_ names) and bitcoinlib.mnemonic as coded (lib_ names).
   Definitions only.  Sentences are index lists (11-bit symbols); the harness maps indices through the
   repository's word-list files.  The hash is a Section variable (instantiated with Crypto.Sha256.sha256 at the
   end); PBKDF2, NFKD and UTF-8 encoding are oracles. *)
From Coq Require Import ZArith List Bool.
From Coq.Strings Require Import Byte.
From Verif Require Import Lib.Bytes Lib.BitRegroup Model.ChangeBase Crypto.Sha256.
From Verif Require Gen.GenConsts.
Import ListNotations.
Open Scope Z_scope.

Definition bytes_to_bits (b : bytes) : list Z := unpack 8 (map bz b).
Definition bits_to_bytes (bits : list Z) : bytes := map zb (groups 8 (length bits / 8) bits).

Definition valid_ms (n : nat) : bool :=
  Nat.eqb n 12 || Nat.eqb n 15 || Nat.eqb n 18 || Nat.eqb n 21 || Nat.eqb n 24.

Definition valid_ent_len (n : nat) : Prop := n = 16%nat \/ n = 20%nat \/ n = 24%nat \/ n = 28%nat \/ n = 32%nat.

Definition idx_ok (i : Z) : bool := (0 <=? i) && (i <? 2048).

(* the entropy bytes a sentence of n indices would stand for (its first 11n - n/3 bits) *)
Definition candidate_entropy (idxs : list Z) : bytes :=
  bits_to_bytes (firstn (length idxs * 11 - length idxs / 3) (unpack 11 idxs)).

Section Bip39.
  Variable H : bytes -> bytes.

  (* ---------------- BIP39 text: "Generating the mnemonic" ----------------
     ENT bits of entropy, CS = ENT/32 first bits of SHA256(entropy) appended, the ENT+CS bits split into groups
     of 11 bits, each an index 0..2047 into the word list. *)
  Definition spec_to_indices (ent : bytes) : list Z :=
    let bits := bytes_to_bits ent ++ firstn (length ent * 8 / 32) (bytes_to_bits (H ent)) in
    groups 11 (length bits / 11) bits.

  (* the inverse reading: MS in {12,15,18,21,24} words, CS = MS/3, ENT = 11*MS - CS; accepted iff the last CS
     bits are the first CS bits of the hash of the first ENT bits *)
  Definition spec_to_entropy (idxs : list Z) : option bytes :=
    let n := length idxs in
    if negb (valid_ms n) then None
    else if negb (forallb idx_ok idxs) then None
    else
      let bits := unpack 11 idxs in
      let cs := (n / 3)%nat in
      let el := (n * 11 - cs)%nat in
      let ent := bits_to_bytes (firstn el bits) in
      if zlist_eqb (skipn el bits) (firstn cs (bytes_to_bits (H ent))) then Some ent else None.

  (* ---------------- bitcoinlib.mnemonic as coded ---------------- *)

  (* Mnemonic.checksum (l.46-61): data = to_bytes(data); len % 4 > 0 raises;
     change_base(sha256(data), 256, 2, 256)[:len(data) * 8 // 32] *)
  Definition lib_checksum (data : bytes) : option (list Z) :=
    let d := lib_to_bytes data in
    if Nat.eqb (length d mod 4) 0
    then Some (firstn (length d * 8 / 32) (lib_cb_256_2 (map bz (H d)) 256))
    else None.

  (* Mnemonic.to_mnemonic(data, add_checksum=True, check_on_curve=False) (l.144-150), up to the word lookup:
       data = to_bytes(data); data_int = int.from_bytes(data, 'big')
       binresult = change_base(data_int, 10, 2, len(data) * 8) + self.checksum(data)
       wi = change_base(binresult, 2, 2048) *)
  Definition lib_to_indices (data0 : bytes) : option (list Z) :=
    let data := lib_to_bytes data0 in
    match lib_cb_10_2 (of_be data) (length data * 8) with
    | None => None
    | Some a =>
        match lib_checksum data with
        | None => None
        | Some cs => Some (lib_cb_2_2048 (a ++ cs))
        end
    end.

  (* Python slices binresult[:-c] and binresult[-c:] for c >= 0 (c = 0 gives [] and everything) *)
  Definition py_drop_last (c : nat) (l : list Z) : list Z :=
    match c with O => [] | _ => firstn (length l - c) l end.
  Definition py_take_last (c : nat) (l : list Z) : list Z :=
    match c with O => l | _ => skipn (length l - c) l end.

  (* Mnemonic.to_entropy(words, includes_checksum=True) after the word lookup (l.176-187):
       ent_length = int(len(words) * 4/3)
       ent = change_base(wi, 2048, 256, ent_length, output_even=False)
       binresult = change_base(ent, 256, 2, len(ent) * 4)
       ent = change_base(binresult[:-len(binresult) // 33], 2, 256, ent_length)
       checksum = binresult[-len(binresult) // 33:]
       if checksum != self.checksum(ent): raise ValueError
     (-len // 33 is floor(-len/33); an empty index list makes change_base return the int 0 and the next call fail) *)
  Definition lib_to_entropy (wi : list Z) : option bytes :=
    match wi with
    | [] => None
    | _ =>
        let ent_length := (4 * length wi / 3)%nat in
        let entC := lib_cb_2048_256 wi ent_length in
        let bin := lib_cb_256_2 entC (length entC * 4) in
        let c := Z.to_nat (- ((- Z.of_nat (length bin)) / 33)) in
        let ent := map zb (lib_cb_2_256 (py_drop_last c bin) ent_length) in
        let cks := py_take_last c bin in
        match lib_checksum ent with
        | None => None
        | Some cs => if zlist_eqb cks cs then Some ent else None
        end
    end.

  (* ---------------- the non-default switches ----------------
     to_mnemonic(data, add_checksum, check_on_curve) (l.144-153):
       data = to_bytes(data); data_int = int.from_bytes(data, 'big')
       if check_on_curve and not 0 < data_int < secp256k1_n: raise ValueError
       add_checksum:      as lib_to_indices
       not add_checksum:  wi = change_base(data_int, 10, 2048, len(data) // 1.375 + len(data) % 1.375 > 0)
     The last argument is the comparison (a // 1.375 + a % 1.375) > 0, a bool: True exactly when data is not empty.
     change_base with an int input and min_length True (= 1): minimal base-2048 digits, padded to one digit;
     min_length False (= 0) with base_from 10 raises.  secp256k1_n is the constant regenerated from
     bitcoinlib/config/secp256k1.py (Gen/GenConsts.v). *)
  Definition lib_cb_10_2048 (n : Z) (minlen : bool) : option (list Z) :=
    if minlen then Some (pad_left 1 (digits 2048 n)) else None.

  Definition on_curve_ok (n : Z) : bool := (0 <? n) && (n <? GenConsts.secp256k1_n).

  Definition lib_to_indices_opt (add_checksum check_on_curve : bool) (data0 : bytes) : option (list Z) :=
    let data := lib_to_bytes data0 in
    let n := of_be data in
    if check_on_curve && negb (on_curve_ok n) then None
    else if add_checksum then lib_to_indices data0
    else lib_cb_10_2048 n (negb (Nat.eqb (length data) 0)).

  (* to_entropy(words, includes_checksum) after the word lookup: without the checksum the result is the first
     change_base alone (l.176-177, 187) *)
  Definition lib_to_entropy_opt (includes_checksum : bool) (wi : list Z) : option bytes :=
    if includes_checksum then lib_to_entropy wi
    else match wi with
         | [] => None
         | _ => Some (map zb (lib_cb_2048_256 wi (4 * length wi / 3)))
         end.

  (* ---------------- word lookup over an abstract word list ---------------- *)
  Section Words.
    Variable W : Type.
    Variable weqb : W -> W -> bool.

    (* list.index: first position, ValueError (None) when absent *)
    Fixpoint index_of (w : W) (wl : list W) : option Z :=
      match wl with
      | [] => None
      | x :: r => if weqb w x then Some 0 else match index_of w r with Some i => Some (i + 1) | None => None end
      end.

    Fixpoint indices_of (ws : list W) (wl : list W) : option (list Z) :=
      match ws with
      | [] => Some []
      | w :: r =>
          match index_of w wl, indices_of r wl with
          | Some i, Some t => Some (i :: t)
          | _, _ => None
          end
      end.

    Definition word_at (d : W) (wl : list W) (i : Z) : W := nth (Z.to_nat i) wl d.

    (* to_mnemonic / to_entropy on word sequences *)
    Definition lib_words_of_entropy (d : W) (wl : list W) (ent : bytes) : option (list W) :=
      match lib_to_indices ent with Some idx => Some (map (word_at d wl) idx) | None => None end.

    Definition lib_entropy_of_words (wl : list W) (ws : list W) : option bytes :=
      match indices_of ws wl with Some idx => lib_to_entropy idx | None => None end.

    Definition lib_entropy_of_words_opt (wl : list W) (flag : bool) (ws : list W) : option bytes :=
      match indices_of ws wl with Some idx => lib_to_entropy_opt flag idx | None => None end.
  End Words.
End Bip39.

(* ---------------- language detection and sanitising (l.189-241) ----------------
   A sentence is the list of the words of its NFKD form split at single spaces (the harness supplies it).
   [pos k w] is the position of word w in word list number k ([None]: not in that list); [order] is the order in
   which Path(wordlist).iterdir() yields the lists (file-system dependent, supplied by the harness).

   detect_language: wlcount[language] = number of words of the sentence (with multiplicity) found in that list;
     detlang = max(wlcount.keys(), key=wlcount.get)   -- the FIRST key in insertion order with the largest count
     if not wlcount[detlang]: raise Warning
   sanitize_mnemonic: language = detect_language(words); every word must be in THAT list; returns ' '.join(words)
   to_entropy: words = sanitize_mnemonic(words); wi = [self._wordlist.index(word) ...]  -- the OBJECT's list *)
Section Detect.
  Variable W : Type.
  Variable pos : nat -> W -> option Z.

  Definition known (k : nat) (w : W) : bool := match pos k w with Some _ => true | None => false end.
  Definition count_in (k : nat) (ws : list W) : nat := length (filter (known k) ws).

  Fixpoint first_max (order : list nat) (ws : list W) : option nat :=
    match order with
    | [] => None
    | k :: r =>
        match first_max r ws with
        | Some j => if (count_in k ws <? count_in j ws)%nat then Some j else Some k
        | None => Some k
        end
    end.

  Definition lib_detect (order : list nat) (ws : list W) : option nat :=
    match first_max order ws with
    | Some k => if Nat.eqb (count_in k ws) 0 then None else Some k
    | None => None
    end.

  Definition lib_sanitize (order : list nat) (ws : list W) : option (list W) :=
    match lib_detect order ws with
    | Some k => if forallb (known k) ws then Some ws else None
    | None => None
    end.

  Fixpoint lookup_all (self : nat) (ws : list W) : option (list Z) :=
    match ws with
    | [] => Some []
    | w :: r =>
        match pos self w, lookup_all self r with
        | Some i, Some t => Some (i :: t)
        | _, _ => None
        end
    end.

  (* sanitize, look the words up in the object's own list, then f *)
  Definition lib_obj_apply {A : Type} (order : list nat) (self : nat) (f : list Z -> option A) (ws : list W)
    : option A :=
    match lib_sanitize order ws with
    | Some ws' => match lookup_all self ws' with Some wi => f wi | None => None end
    | None => None
    end.

  (* Mnemonic(lang_self).to_entropy(sentence, includes_checksum) *)
  Definition lib_entropy_obj (H : bytes -> bytes) (order : list nat) (self : nat) (flag : bool) (ws : list W)
    : option bytes :=
    lib_obj_apply order self (lib_to_entropy_opt H flag) ws.

  (* does Mnemonic(lang_self).to_seed(sentence, password, validate) reach PBKDF2 *)
  Definition lib_seed_accepts (H : bytes -> bytes) (order : list nat) (self : nat) (validate : bool) (ws : list W)
    : bool :=
    match lib_sanitize order ws with
    | Some ws' =>
        if validate then match lib_entropy_obj H order self true ws' with Some _ => true | None => false end
        else true
    | None => false
    end.
End Detect.

(* the positions when the word lists are given as lists *)
Definition pos_of_lists (W : Type) (weqb : W -> W -> bool) (langs : list (list W)) (k : nat) (w : W) : option Z :=
  index_of W weqb w (nth k langs []).

(* ---------------- seed ----------------
   Mnemonic.to_seed(words, password, validate=True) (l.81-88), with the C14-1 repair (password NFKD-normalised):
     words = sanitize_mnemonic(words)            -- NFKD-normalises, checks every word, re-joins with ' '
     if validate: self.to_entropy(words)         -- raises on a bad checksum
     pbkdf2_hmac('sha512', utf8(words), b'mnemonic' + utf8(normalize_string(password)), 2048)
   str is abstract; NFKD, UTF-8 and PBKDF2 are oracles; [accepts s] says that sanitize_mnemonic and to_entropy
   raise nothing on the normalised sentence s. *)
Definition mnemonic_salt : bytes := [x6d; x6e; x65; x6d; x6f; x6e; x69; x63].

Section Seed.
  Variable str : Type.
  Variable NFKD : str -> str.
  Variable utf8 : str -> bytes.
  Variable KDF : bytes -> bytes -> Z -> Z -> bytes.     (* password, salt, iterations, output length *)
  Variable accepts : str -> bool.

  (* BIP39 "From mnemonic to seed" *)
  Definition spec_seed (sentence passphrase : str) : bytes :=
    KDF (utf8 (NFKD sentence)) (mnemonic_salt ++ utf8 (NFKD passphrase)) 2048 64.

  (* the two arguments the library hands to PBKDF2 *)
  Definition lib_seed_query (sentence password : str) : option (bytes * bytes) :=
    let words := NFKD sentence in
    if accepts words then Some (utf8 words, mnemonic_salt ++ utf8 (NFKD password)) else None.

  (* the code before the repair: password encoded as given *)
  Definition lib_seed_query_unfixed (sentence password : str) : option (bytes * bytes) :=
    let words := NFKD sentence in
    if accepts words then Some (utf8 words, mnemonic_salt ++ utf8 password) else None.

  Definition lib_to_seed (sentence password : str) : option bytes :=
    match lib_seed_query sentence password with
    | Some (p, s) => Some (KDF p s 2048 64)
    | None => None
    end.

  (* to_seed(words, password, validate): sanitize_mnemonic always runs; to_entropy only when validate *)
  Variable sanitizes : str -> bool.
  Definition lib_seed_query_v (validate : bool) (sentence password : str) : option (bytes * bytes) :=
    let words := NFKD sentence in
    if sanitizes words && (negb validate || accepts words)
    then Some (utf8 words, mnemonic_salt ++ utf8 (NFKD password)) else None.

  Definition lib_to_seed_v (validate : bool) (sentence password : str) : option bytes :=
    match lib_seed_query_v validate sentence password with
    | Some (p, s) => Some (KDF p s 2048 64)
    | None => None
    end.
End Seed.

(* the 16 bytes of the ASCII text "0123456789abcdef": the refutation witness for the hexlike guard *)
Definition hexlike_witness : bytes :=
  [x30; x31; x32; x33; x34; x35; x36; x37; x38; x39; x61; x62; x63; x64; x65; x66].

(* ---------------- executable instances for the correspondence driver ---------------- *)
Definition lib_to_indices_sha := lib_to_indices sha256.
Definition lib_to_entropy_sha := lib_to_entropy sha256.
Definition spec_to_indices_sha := spec_to_indices sha256.
Definition spec_to_entropy_sha := spec_to_entropy sha256.

(* words as integers: the list is 0..2047 in order, anything else is a word outside the list *)
Definition lib_entropy_of_words_sha (ws : list Z) : option bytes :=
  lib_entropy_of_words sha256 Z Z.eqb (map Z.of_nat (seq 0 2048)) ws.

(* a string is the pair (its UTF-8 bytes, the UTF-8 bytes of its NFKD form), both supplied by the harness *)
Definition ostr := (bytes * bytes)%type.
Definition lib_seed_query_x (sentence password : ostr) (ok : bool) : option (bytes * bytes) :=
  lib_seed_query ostr (fun s => (snd s, snd s)) fst (fun _ => ok) sentence password.

(* ---------------- executable instances of the switches, detection and sessions ----------------
   A word is its PROFILE: its position in each of the bundled word lists (in the order of Gen/GenWordlists.v,
   -1 when absent), computed by the harness from the frozen lists in corpus/C14 (Proofs/Bip39Frozen.v proves that
   the regenerated lists equal the frozen ones). *)
Definition lib_to_indices_opt_sha := lib_to_indices_opt sha256.
Definition lib_to_entropy_opt_sha := lib_to_entropy_opt sha256.

Definition prof_pos (k : nat) (w : list Z) : option Z :=
  match nth_error w k with
  | Some p => if p <? 0 then None else Some p
  | None => None
  end.

Definition lib_detect_x (order : list nat) (ws : list (list Z)) : option nat := lib_detect (list Z) prof_pos order ws.
Definition lib_sanitize_x (order : list nat) (ws : list (list Z)) : bool :=
  match lib_sanitize (list Z) prof_pos order ws with Some _ => true | None => false end.
Definition lib_entropy_obj_x (order : list nat) (self : nat) (flag : bool) (ws : list (list Z)) : option bytes :=
  lib_entropy_obj (list Z) prof_pos sha256 order self flag ws.
Definition lib_seed_query_vx (order : list nat) (self : nat) (validate : bool) (ws : list (list Z))
  (sentence password : ostr) : option (bytes * bytes) :=
  lib_seed_query_v ostr (fun s => (snd s, snd s)) fst
    (fun _ => lib_seed_accepts (list Z) prof_pos sha256 order self true ws)
    (fun _ => lib_sanitize_x order ws) validate sentence password.

(* one call of the public API and its answer; the library keeps nothing between calls, so a session (several
   calls in one process, on one object) is answered call by call *)
Inductive mreq : Type :=
| RqMnemonic (add_checksum check_on_curve : bool) (data : bytes)
| RqEntropy (order : list nat) (self : nat) (includes_checksum : bool) (ws : list (list Z))
| RqSeed (order : list nat) (self : nat) (validate : bool) (ws : list (list Z)) (sentence password : ostr)
| RqDetect (order : list nat) (ws : list (list Z))
| RqSanitize (order : list nat) (ws : list (list Z)).

Inductive mres : Type :=
| RsIdx (l : list Z)
| RsBytes (b : bytes)
| RsQuery (p s : bytes)
| RsLang (k : nat)
| RsOk
| RsErr.

Definition answer (r : mreq) : mres :=
  match r with
  | RqMnemonic a c d => match lib_to_indices_opt_sha a c d with Some l => RsIdx l | None => RsErr end
  | RqEntropy o s f ws => match lib_entropy_obj_x o s f ws with Some b => RsBytes b | None => RsErr end
  | RqSeed o s v ws sn pw => match lib_seed_query_vx o s v ws sn pw with Some (p, q) => RsQuery p q | None => RsErr end
  | RqDetect o ws => match lib_detect_x o ws with Some k => RsLang k | None => RsErr end
  | RqSanitize o ws => if lib_sanitize_x o ws then RsOk else RsErr
  end.

Definition run_session (rs : list mreq) : list mres := map answer rs.
