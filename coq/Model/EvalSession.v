(* Model/EvalSession.v — several evaluations in ONE process: Script objects that live on between calls, and the
   signature check as a function of the message of each evaluation.  Definitions only.

   What the library keeps between two calls (scripts.py, Script.__init__ / Script.evaluate):
     self.commands   set by the constructor, never written by evaluate (it works on a copy);
     self.message    evaluate(message=None) keeps the old one, otherwise stores the new one  (documented fallback);
     self.env_data   likewise; the constructor turns a missing / empty dict into {};
     self.stack      overwritten with a fresh Stack() at the start of every evaluate, left behind afterwards.
   Nothing else: no module-level or class-level state takes part in an evaluation.  [lib_session] is the fold over
   the object store that mirrors this; Proofs/EvalSession.v shows it is a map of the stateless [lib_eval]. *)
From Coq Require Import ZArith List Bool.
From Coq.Strings Require Import Byte.
From Verif Require Import Lib.Bytes Model.Wire Model.EvalLib Model.EvalCore.
Import ListNotations.
Open Scope Z_scope.

(* Signature.parse_bytes(sig, public_key=pk).verify(message, pk): message (None = no message known), signature,
   public key *)
Definition sigoracle := option bytes -> bytes -> bytes -> sigres.

Definition empty_env : env := mkEnv None None None None.          (* env_data = {} *)

Record sobj := mkObj { o_cmds : list scmd; o_msg : option bytes; o_env : env; o_stack : stack }.

Inductive sstep :=
| SNew (id : Z) (cmds : list scmd) (msg : option bytes) (ev : option env)   (* name = Script(cmds, message, env_data) *)
| SEval (id : Z) (msg : option bytes) (ev : option env).                    (* name.evaluate(message, env_data) *)

Inductive sobs :=
| ONew                      (* a constructor call: nothing observed *)
| OMissing                  (* the name is not bound (never produced by the generators) *)
| ORes (r : lres).          (* verdict and Script.stack after evaluate *)

Definition store := list (Z * sobj).                              (* newest binding first; rebinding shadows *)

Definition keep_msg (new old : option bytes) : option bytes := match new with Some m => Some m | None => old end.
Definition keep_env (new : option env) (old : env) : env := match new with Some e => e | None => old end.

Section Session.
  Variable h_ripemd160 h_sha1 h_sha256 : bytes -> bytes.
  Variable sc : sigoracle.

  Definition lib_step (st : store) (x : sstep) : store * sobs :=
    match x with
    | SNew id cmds msg ev => ((id, mkObj cmds msg (keep_env ev empty_env) []) :: st, ONew)
    | SEval id msg ev =>
        match zassoc id st with
        | None => (st, OMissing)
        | Some o =>
            let m := keep_msg msg (o_msg o) in
            let e := keep_env ev (o_env o) in
            let r := lib_eval h_ripemd160 h_sha1 h_sha256 (sc m) e (o_cmds o) in
            ((id, mkObj (o_cmds o) m e (r_stack r)) :: st, ORes r)
        end
    end.

  Fixpoint lib_session (st : store) (xs : list sstep) : list sobs :=
    match xs with
    | [] => []
    | x :: r => let (st', o) := lib_step st x in o :: lib_session st' r
    end.

  (* ---- the stateless reading: which (commands, message, environment) a step denotes ---- *)

  Inductive rstep := RNew | RMissing | REval (cmds : list scmd) (msg : option bytes) (e : env).

  Definition binding := (list scmd * option bytes * env)%type.
  Definition bstore := list (Z * binding).

  Definition res_step (b : bstore) (x : sstep) : bstore * rstep :=
    match x with
    | SNew id cmds msg ev => ((id, (cmds, msg, keep_env ev empty_env)) :: b, RNew)
    | SEval id msg ev =>
        match zassoc id b with
        | None => (b, RMissing)
        | Some (cmds, m0, e0) =>
            let m := keep_msg msg m0 in
            let e := keep_env ev e0 in
            ((id, (cmds, m, e)) :: b, REval cmds m e)
        end
    end.

  Fixpoint resolve (b : bstore) (xs : list sstep) : list rstep :=
    match xs with
    | [] => []
    | x :: r => let (b', o) := res_step b x in o :: resolve b' r
    end.

  Definition stateless_obs (r : rstep) : sobs :=
    match r with
    | RNew => ONew
    | RMissing => OMissing
    | REval cmds m e => ORes (lib_eval h_ripemd160 h_sha1 h_sha256 (sc m) e cmds)
    end.

  (* consensus: every evaluation on its own, the signature check over the message of THAT evaluation *)
  Definition core_obs (fl : flags) (r : rstep) : option (verdict * stack) :=
    match r with
    | REval cmds m e => Some (core_eval h_ripemd160 h_sha1 h_sha256 (sc m) e fl cmds)
    | _ => None
    end.

  Definition core_session (fl : flags) (xs : list sstep) : list (option (verdict * stack)) :=
    map (core_obs fl) (resolve [] xs).

End Session.

(* a session in which every evaluate call supplies message and env_data itself *)
Definition explicit_step (x : sstep) : bool :=
  match x with
  | SNew _ _ _ _ => true
  | SEval _ (Some _) (Some _) => true
  | SEval _ _ _ => false
  end.
