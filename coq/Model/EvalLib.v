(* Model/EvalLib.v — executable model of bitcoinlib's script interpreter as it is coded:
   scripts.py  Script.evaluate (dispatch loop)  and  class Stack (every op_* method reachable by dispatch).
   Definitions only.  Bugs included; nothing here is "what the code should do".

   Conventions
   * a stack is a [list bytes] with the TOP FIRST (Python keeps the top last; the driver prints bottom..top);
   * Python exceptions raised inside the try-block of evaluate are [RExc] (evaluate returns False),
     a method returning False is [RFalse]; both carry the stack as it is at that moment, because
     Script.stack stays observable after evaluate() returned;
   * exceptions raised outside the try-block (op_if / op_notif, opcodenames[command]) escape evaluate: Crash*;
   * ScriptError("Method ... not found") is [Unimplemented];
   * hash functions and signature verification are oracles (Section variables). *)
From Coq Require Import ZArith List Bool Lia.
From Coq.Strings Require Import Byte.
From Coq.Strings Require String Ascii.
Import Coq.Strings.String.StringSyntax.
Delimit Scope string_scope with string.
From Verif Require Import Lib.Bytes Model.Wire Gen.GenConsts.
Import ListNotations.
Open Scope Z_scope.

Definition stack := list bytes.

(* a script as Script.commands holds it: ints and byte strings *)
Inductive scmd := COp (n : Z) | CPush (d : bytes).

Inductive sigres := SigValid | SigInvalid | SigRaise.

(* env_data: the keys evaluate() reads; None = key absent from the dict *)
Record env := mkEnv {
  e_redeem : option bytes;     (* env_data['redeemscript'] *)
  e_sequence : option Z;       (* env_data['sequence'] *)
  e_locktime : option Z;       (* env_data.get('locktime') *)
  e_version : option Z         (* env_data['version'] *)
}.

Inductive verdict :=
| Valid            (* evaluate returned True *)
| Invalid          (* evaluate returned False *)
| Unimplemented    (* ScriptError: no Stack method for this opcode name *)
| CrashIndex       (* IndexError escaped evaluate (op_if / op_notif on an empty stack) *)
| CrashKey         (* KeyError escaped evaluate (integer command without an opcode name) *)
| Unmodelled.      (* the source has a Stack method this model does not know, or fuel ran out: model gap *)

(* result of evaluate: verdict, Script.stack afterwards (top first), and the item popped by the final
   truth test when the end of the script was reached *)
Record lres := mkRes { r_verdict : verdict; r_stack : stack; r_popped : option bytes }.

Inductive opres := ROk (s : stack) | RFalse (s : stack) | RExc (s : stack).

Inductive opk :=
| K_NOP | K_VERIFY | K_RETURN | K_2DROP | K_2DUP | K_3DUP | K_2OVER | K_2ROT | K_2SWAP | K_IFDUP | K_DEPTH
| K_DROP | K_DUP | K_NIP | K_OVER | K_PICK | K_ROLL | K_ROT | K_SWAP | K_TUCK | K_SIZE | K_EQUAL
| K_EQUALVERIFY | K_1ADD | K_1SUB | K_NEGATE | K_ABS | K_NOT | K_0NOTEQUAL | K_ADD | K_SUB | K_BOOLAND
| K_BOOLOR | K_NUMEQUAL | K_NUMEQUALVERIFY | K_NUMNOTEQUAL | K_MIN | K_MAX | K_WITHIN | K_RIPEMD160
| K_SHA1 | K_SHA256 | K_HASH160 | K_HASH256 | K_CHECKSIG | K_CHECKSIGVERIFY | K_CHECKMULTISIG
| K_CHECKMULTISIGVERIFY | K_CLTV | K_CSV.

Definition opk_eqb (a b : opk) : bool :=
  match a, b with
  | K_NOP, K_NOP | K_VERIFY, K_VERIFY | K_RETURN, K_RETURN | K_2DROP, K_2DROP | K_2DUP, K_2DUP
  | K_3DUP, K_3DUP | K_2OVER, K_2OVER | K_2ROT, K_2ROT | K_2SWAP, K_2SWAP | K_IFDUP, K_IFDUP
  | K_DEPTH, K_DEPTH | K_DROP, K_DROP | K_DUP, K_DUP | K_NIP, K_NIP | K_OVER, K_OVER | K_PICK, K_PICK
  | K_ROLL, K_ROLL | K_ROT, K_ROT | K_SWAP, K_SWAP | K_TUCK, K_TUCK | K_SIZE, K_SIZE | K_EQUAL, K_EQUAL
  | K_EQUALVERIFY, K_EQUALVERIFY | K_1ADD, K_1ADD | K_1SUB, K_1SUB | K_NEGATE, K_NEGATE | K_ABS, K_ABS
  | K_NOT, K_NOT | K_0NOTEQUAL, K_0NOTEQUAL | K_ADD, K_ADD | K_SUB, K_SUB | K_BOOLAND, K_BOOLAND
  | K_BOOLOR, K_BOOLOR | K_NUMEQUAL, K_NUMEQUAL | K_NUMEQUALVERIFY, K_NUMEQUALVERIFY
  | K_NUMNOTEQUAL, K_NUMNOTEQUAL | K_MIN, K_MIN | K_MAX, K_MAX | K_WITHIN, K_WITHIN
  | K_RIPEMD160, K_RIPEMD160 | K_SHA1, K_SHA1 | K_SHA256, K_SHA256 | K_HASH160, K_HASH160
  | K_HASH256, K_HASH256 | K_CHECKSIG, K_CHECKSIG | K_CHECKSIGVERIFY, K_CHECKSIGVERIFY
  | K_CHECKMULTISIG, K_CHECKMULTISIG | K_CHECKMULTISIGVERIFY, K_CHECKMULTISIGVERIFY | K_CLTV, K_CLTV
  | K_CSV, K_CSV => true
  | _, _ => false
  end.

(* ---------- name-based dispatch, driven by the tables regenerated from the source ---------- *)

Definition lower_ascii (c : Ascii.ascii) : Ascii.ascii :=
  let n := Ascii.N_of_ascii c in
  if (N.leb 65 n && N.leb n 90)%bool then Ascii.ascii_of_N (n + 32) else c.

Fixpoint lower (s : String.string) : String.string :=
  match s with
  | String.EmptyString => String.EmptyString
  | String.String c r => String.String (lower_ascii c) (lower r)
  end.

Fixpoint zassoc {A} (n : Z) (l : list (Z * A)) : option A :=
  match l with
  | [] => None
  | (k, v) :: r => if n =? k then Some v else zassoc n r
  end.

Fixpoint sassoc {A} (n : String.string) (l : list (String.string * A)) : option A :=
  match l with
  | [] => None
  | (k, v) :: r => if String.eqb n k then Some v else sassoc n r
  end.

Definition smem (n : String.string) (l : list String.string) : bool := existsb (String.eqb n) l.

(* config/opcodes.py: op.<name> = number of the upper-cased name *)
Fixpoint num_of_name (name : String.string) (l : list (Z * String.string)) : Z :=
  match l with
  | [] => -1
  | (k, v) :: r => if String.eqb name v then k else num_of_name name r
  end.

Definition op_0 := num_of_name "OP_0"%string opcode_names.
Definition op_1negate := num_of_name "OP_1NEGATE"%string opcode_names.
Definition op_1 := num_of_name "OP_1"%string opcode_names.
Definition op_16 := num_of_name "OP_16"%string opcode_names.
Definition op_if := num_of_name "OP_IF"%string opcode_names.
Definition op_notif := num_of_name "OP_NOTIF"%string opcode_names.

(* what each Stack method does, by method name *)
Definition method_kinds : list (String.string * opk) := [
  ("op_nop", K_NOP); ("op_verify", K_VERIFY); ("op_return", K_RETURN); ("op_2drop", K_2DROP);
  ("op_2dup", K_2DUP); ("op_3dup", K_3DUP); ("op_2over", K_2OVER); ("op_2rot", K_2ROT);
  ("op_2swap", K_2SWAP); ("op_ifdup", K_IFDUP); ("op_depth", K_DEPTH); ("op_drop", K_DROP);
  ("op_dup", K_DUP); ("op_nip", K_NIP); ("op_over", K_OVER); ("op_pick", K_PICK); ("op_roll", K_ROLL);
  ("op_rot", K_ROT); ("op_swap", K_SWAP); ("op_tuck", K_TUCK); ("op_size", K_SIZE); ("op_equal", K_EQUAL);
  ("op_equalverify", K_EQUALVERIFY); ("op_1add", K_1ADD); ("op_1sub", K_1SUB); ("op_negate", K_NEGATE);
  ("op_abs", K_ABS); ("op_not", K_NOT); ("op_0notequal", K_0NOTEQUAL); ("op_add", K_ADD); ("op_sub", K_SUB);
  ("op_booland", K_BOOLAND); ("op_boolor", K_BOOLOR); ("op_numequal", K_NUMEQUAL);
  ("op_numequalverify", K_NUMEQUALVERIFY); ("op_numnotequal", K_NUMNOTEQUAL); ("op_min", K_MIN);
  ("op_max", K_MAX); ("op_within", K_WITHIN); ("op_ripemd160", K_RIPEMD160); ("op_sha1", K_SHA1);
  ("op_sha256", K_SHA256); ("op_hash160", K_HASH160); ("op_hash256", K_HASH256); ("op_checksig", K_CHECKSIG);
  ("op_checksigverify", K_CHECKSIGVERIFY); ("op_checkmultisig", K_CHECKMULTISIG);
  ("op_checkmultisigverify", K_CHECKMULTISIGVERIFY); ("op_nop1", K_NOP);
  ("op_checklocktimeverify", K_CLTV); ("op_checksequenceverify", K_CSV); ("op_nop4", K_NOP);
  ("op_nop5", K_NOP); ("op_nop6", K_NOP); ("op_nop7", K_NOP); ("op_nop8", K_NOP); ("op_nop9", K_NOP);
  ("op_nop10", K_NOP)]%string.

Inductive dispatch :=
| DKeyError                 (* opcodenames[command] raises *)
| DNoMethod                 (* ScriptError *)
| DUnknown                  (* a method exists that this model has no body for *)
| DKind (k : opk).

Definition lib_dispatch (n : Z) : dispatch :=
  match zassoc n opcode_names with
  | None => DKeyError
  | Some name =>
      let m := lower name in
      if smem m stack_methods then
        match sassoc m method_kinds with Some k => DKind k | None => DUnknown end
      else DNoMethod
  end.

(* ---------- Python list primitives on a top-first list ---------- *)

Definition is_empty (b : bytes) : bool := match b with [] => true | _ => false end.

(* position, counted from the top, of Python index i in a list of length L; None = IndexError *)
Definition py_pos (L : nat) (i : Z) : option nat :=
  let l := Z.of_nat L in
  let j := if i <? 0 then i + l else i in
  if (0 <=? j) && (j <? l) then Some (Z.to_nat (l - 1 - j)) else None.

Definition remove_at {A} (k : nat) (l : list A) : list A := firstn k l ++ skipn (S k) l.

Definition b_true : bytes := [x01].
Definition b_false : bytes := [].
Definition of_bool (b : bool) : bytes := if b then b_true else b_false.

(* Stack.is_arithmetic(items): None = IndexError, Some false = an operand longer than 4 bytes *)
Definition is_arith (items : nat) (s : stack) : option bool :=
  if (length s <? items)%nat then None
  else Some (forallb (fun i => (length i <=? 4)%nat) (firstn items s)).

Definition lib_cltv_threshold : Z := 500000000.

Section Lib.
  Variable h_ripemd160 h_sha1 h_sha256 : bytes -> bytes.
  Variable sigcheck : bytes -> bytes -> sigres.    (* signature, public key; the message is fixed *)
  Variable e : env.

  Definition dec := lib_decode_num.
  Definition enc := lib_encode_num.

  Definition op_verify (s : stack) : opres :=
    match s with
    | [] => RExc []
    | x :: r => if is_empty x then RFalse r else ROk r
    end.

  (* run g after f only when f did not raise; a False return of f is IGNORED (as in op_numequalverify,
     op_equalverify where the first call's return value is dropped) *)
  Definition then_ignoring (f g : stack -> opres) (s : stack) : opres :=
    match f s with
    | ROk s' | RFalse s' => g s'
    | RExc s' => RExc s'
    end.

  Definition unary_arith (f : Z -> bytes) (s : stack) : opres :=
    match is_arith 1 s with
    | None => RExc s
    | Some false => RFalse s
    | Some true => match s with x :: r => ROk (f (dec x) :: r) | [] => RExc s end
    end.

  Definition unary_raw (f : bytes -> bytes) (s : stack) : opres :=
    match is_arith 1 s with
    | None => RExc s
    | Some false => RFalse s
    | Some true => match s with x :: r => ROk (f x :: r) | [] => RExc s end
    end.

  (* a = first pop (top), b = second pop *)
  Definition binary_arith (f : Z -> Z -> bytes) (s : stack) : opres :=
    match is_arith 2 s with
    | None => RExc s
    | Some false => RFalse s
    | Some true => match s with a :: b :: r => ROk (f (dec a) (dec b) :: r) | _ => RExc s end
    end.

  Definition binary_raw (f : bytes -> bytes -> bytes) (s : stack) : opres :=
    match is_arith 2 s with
    | None => RExc s
    | Some false => RFalse s
    | Some true => match s with a :: b :: r => ROk (f a b :: r) | _ => RExc s end
    end.

  Definition hash_op (h : bytes -> bytes) (s : stack) : opres :=
    match s with [] => RExc [] | x :: r => ROk (h x :: r) end.

  Definition lib_numequal : stack -> opres :=
    binary_raw (fun a b => of_bool (bytes_eqb a b)).

  Definition lib_equal (s : stack) : opres :=
    match s with
    | [] => RExc []
    | [_] => RExc []
    | a :: b :: r => ROk (of_bool (bytes_eqb a b) :: r)
    end.

  Definition lib_checksig (s : stack) : opres :=
    match s with
    | [] => RExc []
    | [_] => RExc []
    | pk :: sg :: r =>
        match sigcheck sg pk with
        | SigRaise => RExc r
        | SigValid => ROk (b_true :: r)
        | SigInvalid => ROk (b_false :: r)
        end
    end.

  (* for _ in range(n): l.append(self.pop())  — None: the stack ran out (it is empty by then) *)
  Definition pop_many (n : Z) (s : stack) : option (list bytes * stack) :=
    if n <=? 0 then Some ([], s)
    else if Z.of_nat (length s) <? n then None
    else Some (firstn (Z.to_nat n) s, skipn (Z.to_nat n) s).

  (* the counting loop of op_checkmultisig; sigs = signatures[sigcount:]; None = an exception *)
  Fixpoint ms_loop (pks sigs : list bytes) : option bool :=
    match pks with
    | [] => Some (match sigs with [] => true | _ => false end)
    | pk :: pks' =>
        match sigs with
        | [] => None                                  (* signatures[0] on an empty list: IndexError *)
        | sg :: sigs' =>
            match sigcheck sg pk with
            | SigRaise => None
            | SigValid => match sigs' with [] => Some true | _ => ms_loop pks' sigs' end
            | SigInvalid => ms_loop pks' sigs
            end
        end
    end.

  Definition lib_checkmultisig_method (s : stack) : opres :=
    match s with
    | [] => RExc []
    | nb :: s1 =>
        match pop_many (dec nb) s1 with
        | None => RExc []
        | Some (pks, s2) =>
            match s2 with
            | [] => RExc []
            | mb :: s3 =>
                match pop_many (dec mb) s3 with
                | None => RExc []
                | Some (sigs, s4) =>
                    let s5 := match s4 with [] => [] | _ :: r => r end in
                    match ms_loop pks sigs with
                    | None => RExc s5
                    | Some ok => ROk (of_bool ok :: s5)
                    end
                end
            end
        end
    end.

  (* evaluate: op_checkmultisig → method(); res = op_verify(); stack.append(env_data['redeemscript']);
               op_checkmultisigverify → res = method() [= checkmultisig and verify]; append(...) *)
  Definition lib_checkmultisig_eval (s : stack) : opres :=
    match lib_checkmultisig_method s with
    | RExc s' => RExc s'
    | RFalse s' => RFalse s'
    | ROk s1 =>
        match op_verify s1 with
        | RExc s' => RExc s'
        | ROk s2 => match e_redeem e with None => RExc s2 | Some rs => ROk (rs :: s2) end
        | RFalse s2 => match e_redeem e with None => RExc s2 | Some rs => RFalse (rs :: s2) end
        end
    end.

  (* Stack.op_checklocktimeverify(env_data['sequence'], env_data.get('locktime')) *)
  Definition lib_cltv (s : stack) : opres :=
    match e_sequence e with
    | None => RExc s
    | Some sq =>
        match e_locktime e with
        | None => RFalse s
        | Some tl =>
            if sq =? 4294967295 then RFalse s
            else match s with
                 | [] => RExc s
                 | top :: _ =>
                     if (5 <? length top)%nat then RFalse s
                     else
                       let lt := dec top in
                       let T := lib_cltv_threshold in
                       if lt <? 0 then RFalse s
                       else if negb (Bool.eqb (lt <? T) (tl <? T)) then RFalse s
                       else if tl <? lt then RFalse s
                       else ROk s
                 end
        end
    end.

  (* Stack.op_checksequenceverify(env_data['sequence'], env_data['version']) *)
  Definition lib_csv (s : stack) : opres :=
    match e_sequence e, e_version e with
    | Some sq, Some ver =>
        match s with
        | [] => RExc s
        | top :: _ =>
            if (5 <? length top)%nat then RFalse s
            else
              let lt := dec top in
              if lt <? 0 then RFalse s
              else if negb (Z.land lt cfg_SEQUENCE_LOCKTIME_DISABLE_FLAG =? 0) then ROk s
              else if (ver <? 2) || negb (Z.land sq cfg_SEQUENCE_LOCKTIME_DISABLE_FLAG =? 0) then RFalse s
              else
                let mask := Z.lor cfg_SEQUENCE_LOCKTIME_TYPE_FLAG cfg_SEQUENCE_LOCKTIME_MASK in
                let F := cfg_SEQUENCE_LOCKTIME_TYPE_FLAG in
                if negb (Bool.eqb (Z.land lt mask <? F) (Z.land sq mask <? F)) then RFalse s
                else if Z.land lt mask <=? Z.land sq mask then ROk s else RFalse s
        end
    | _, _ => RExc s
    end.

  Definition lib_op (k : opk) (s : stack) : opres :=
    match k with
    | K_NOP => ROk s
    | K_VERIFY => op_verify s
    | K_RETURN => RFalse s
    | K_2DROP => match s with [] => RExc [] | [_] => RExc [] | _ :: _ :: r => ROk r end
    | K_2DUP => match s with a :: b :: r => ROk (a :: b :: a :: b :: r) | _ => RExc s end
    | K_3DUP => match s with a :: b :: c :: r => ROk (a :: b :: c :: a :: b :: c :: r) | _ => RExc s end
    | K_2OVER => match s with a :: b :: c :: d :: r => ROk (c :: d :: a :: b :: c :: d :: r) | _ => RExc s end
    | K_2ROT =>
        match s with
        | a :: b :: c :: d :: x :: f :: r => ROk (x :: f :: a :: b :: c :: d :: r)
        | _ => RExc s
        end
    | K_2SWAP =>
        (* self[-2:-2] = [self.pop(), self.pop()] *)
        match s with
        | [] => RExc []
        | [_] => RExc []
        | a :: b :: r => ROk (firstn 2 r ++ b :: a :: skipn 2 r)
        end
    | K_IFDUP => match s with [] => RExc [] | x :: r => if is_empty x then ROk s else ROk (x :: x :: r) end
    | K_DEPTH => ROk (enc (Z.of_nat (length s)) :: s)
    | K_DROP => match s with [] => RExc [] | _ :: r => ROk r end
    | K_DUP => match s with [] => RFalse [] | x :: r => ROk (x :: x :: r) end
    | K_NIP => match s with a :: _ :: r => ROk (a :: r) | _ => RExc s end
    | K_OVER => match s with a :: b :: r => ROk (b :: a :: b :: r) | _ => RExc s end
    | K_PICK =>
        (* self.append(self[-self.pop_as_number()]) *)
        match s with
        | [] => RExc []
        | x :: r =>
            match py_pos (length r) (- dec x) with
            | None => RExc r
            | Some p => ROk (nth p r [] :: r)
            end
        end
    | K_ROLL =>
        (* self.append(self.pop(-self.pop_as_number())) *)
        match s with
        | [] => RExc []
        | x :: r =>
            match py_pos (length r) (- dec x) with
            | None => RExc r
            | Some p => ROk (nth p r [] :: remove_at p r)
            end
        end
    | K_ROT => match s with a :: b :: c :: r => ROk (c :: a :: b :: r) | _ => RExc s end
    | K_SWAP => match s with a :: b :: r => ROk (b :: a :: r) | _ => RExc s end
    | K_TUCK => match s with a :: b :: r => ROk (b :: a :: b :: r) | _ => RExc s end     (* append(self[-2]) *)
    | K_SIZE => match s with [] => RExc [] | x :: r => ROk (enc (Z.of_nat (length x)) :: x :: r) end
    | K_EQUAL => lib_equal s
    | K_EQUALVERIFY => then_ignoring lib_equal op_verify s
    | K_1ADD => unary_arith (fun a => enc (a + 1)) s
    | K_1SUB => unary_arith (fun a => enc (a - 1)) s
    | K_NEGATE => unary_arith (fun a => enc (- a)) s
    | K_ABS => unary_arith (fun a => enc (Z.abs a)) s
    | K_NOT => unary_raw (fun x => of_bool (is_empty x)) s
    | K_0NOTEQUAL => unary_raw (fun x => of_bool (negb (is_empty x))) s
    | K_ADD => binary_arith (fun a b => enc (a + b)) s
    | K_SUB => binary_arith (fun a b => enc (a - b)) s       (* pop_as_number() - pop_as_number(): top - second *)
    | K_BOOLAND => binary_raw (fun a b => of_bool (negb (is_empty a) && negb (is_empty b))) s
    | K_BOOLOR => binary_raw (fun a b => of_bool (negb (is_empty a) || negb (is_empty b))) s
    | K_NUMEQUAL => lib_numequal s
    | K_NUMEQUALVERIFY => then_ignoring lib_numequal op_verify s
    | K_NUMNOTEQUAL => binary_raw (fun a b => of_bool (negb (bytes_eqb a b))) s
    | K_MIN => binary_arith (fun a b => if a <? b then enc a else enc b) s
    | K_MAX => binary_arith (fun a b => if a >? b then enc a else enc b) s
    | K_WITHIN =>
        match is_arith 3 s with
        | None => RExc s
        | Some false => RFalse s
        | Some true =>
            match s with
            | a :: b :: c :: r =>
                let x := dec a in let vmin := dec b in let vmax := dec c in
                ROk (of_bool ((vmin <=? x) && (x <? vmax)) :: r)
            | _ => RExc s
            end
        end
    | K_RIPEMD160 => hash_op h_ripemd160 s
    | K_SHA1 => hash_op h_sha1 s
    | K_SHA256 => hash_op h_sha256 s
    | K_HASH160 => hash_op (fun x => h_ripemd160 (h_sha256 x)) s      (* encoding.hash160 *)
    | K_HASH256 => then_ignoring (hash_op h_sha256) (hash_op h_sha256) s
    | K_CHECKSIG => lib_checksig s
    | K_CHECKSIGVERIFY =>
        match lib_checksig s with ROk s' => op_verify s' | r => r end
    | K_CHECKMULTISIG => lib_checkmultisig_eval s
    | K_CHECKMULTISIGVERIFY => lib_checkmultisig_eval s
    | K_CLTV => lib_cltv s
    | K_CSV => lib_csv s
    end.

  (* Stack.op_if's scan of the remaining commands.  depth = num_endifs_needed - 1; t / f are the two
     branches collected so far in reverse.  Some (true_items, false_items, remaining) when the ENDIF is found. *)
  Fixpoint split_if (cmds : list scmd) (depth : nat) (in_false : bool) (t f : list scmd)
    : option (list scmd * list scmd * list scmd) :=
    match cmds with
    | [] => None
    | c :: rest =>
        let t1 := if in_false then t else c :: t in
        let f1 := if in_false then c :: f else f in
        match c with
        | CPush _ => split_if rest depth in_false t1 f1
        | COp n =>
            if (n =? 99) || (n =? 100) then split_if rest (S depth) in_false t1 f1
            else if (n =? 103) && Nat.eqb depth 0 then split_if rest depth true t f
            else if n =? 104 then
              match depth with
              | O => Some (rev t, rev f, rest)
              | S d => split_if rest d in_false t1 f1
              end
            else split_if rest depth in_false t1 f1
        end
    end.

  Definition fin (v : verdict) (s : stack) : lres := mkRes v s None.

  Fixpoint lib_run (fuel : nat) (cmds : list scmd) (s : stack) : lres :=
    match fuel with
    | O => fin Unmodelled s
    | S fu =>
        match cmds with
        | [] =>
            match s with
            | [] => fin Invalid []
            | top :: r => mkRes (if is_empty top then Invalid else Valid) r (Some top)
            end
        | CPush d :: rest => lib_run fu rest (d :: s)
        | COp n :: rest =>
            if n =? op_0 then lib_run fu rest (enc 0 :: s)
            else if n =? op_1negate then lib_run fu rest (enc (-1) :: s)
            else if (op_1 <=? n) && (n <=? op_16) then lib_run fu rest (enc (n - 80) :: s)
            else if (n =? op_if) || (n =? op_notif) then
              (* not inside the try-block: exceptions escape *)
              let pre :=
                if n =? op_notif then
                  match s with
                  | [] => None
                  | x :: r => Some ((if dec x =? 0 then [x01] else [x00]) :: r)
                  end
                else Some s in
              match pre with
              | None => fin CrashIndex s
              | Some s1 =>
                  match split_if rest 0 false [] [] with
                  | None => fin Invalid s1
                  | Some (t, f, rest') =>
                      match s1 with
                      | [] => fin CrashIndex []
                      | x :: s2 => lib_run fu ((if dec x =? 0 then f else t) ++ rest') s2
                      end
                  end
              end
            else
              match lib_dispatch n with
              | DKeyError => fin CrashKey s
              | DNoMethod => fin Unimplemented s
              | DUnknown => fin Unmodelled s
              | DKind k =>
                  match lib_op k s with
                  | ROk s' => lib_run fu rest s'
                  | RFalse s' => fin Invalid s'
                  | RExc s' => fin Invalid s'
                  end
              end
        end
    end.

  (* Script(cmds).evaluate(message, env_data) *)
  Definition lib_eval (cmds : list scmd) : lres := lib_run (S (length cmds)) cmds [].

End Lib.
