(* Model/Der.v — DER signature encoding (C13): encoder as the library's backend writes it, BIP66
   strictness check (IsValidSignatureEncoding, restructured from index arithmetic to pattern matching),
   strict decoder.  Definitions only. *)
From Coq Require Import ZArith List Bool.
From Coq.Strings Require Import Byte.
From Verif Require Import Lib.Bytes Model.Wire.
Import ListNotations.
Open Scope Z_scope.

(* ASN.1 INTEGER body of a positive integer: minimal big-endian, 00 prefix when the top bit is set *)
Definition der_int (v : Z) : bytes :=
  let b := be_bytes (byte_len v) v in
  match b with
  | h :: _ => if high_set h then x00 :: b else b
  | [] => [x00]
  end.

(* encoding.der_encode_sig (fastecdsa DEREncoder.encode_signature); short-form lengths: r, s < 2^256 *)
Definition der_enc (r s : Z) : bytes :=
  let rb := der_int r in
  let sb := der_int s in
  x30 :: zb (Z.of_nat (length rb + length sb) + 4) ::
    (x02 :: zb (Z.of_nat (length rb)) :: rb) ++ (x02 :: zb (Z.of_nat (length sb)) :: sb).

(* BIP66: an INTEGER body is non-empty, non-negative, and has no unnecessary leading zero byte *)
Definition int_ok (b : bytes) : bool :=
  match b with
  | [] => false
  | h :: tl =>
      negb (high_set h) &&
      negb ((bz h =? 0) && match tl with [] => false | h2 :: _ => negb (high_set h2) end)
  end.

(* the body of a DER signature (without the hash-type byte): Some (rbytes, sbytes) iff well-formed *)
Definition der_split (b : bytes) : option (bytes * bytes) :=
  match b with
  | t :: l :: t2 :: lr :: rest2 =>
      let len := Z.of_nat (length b) in
      let lenR := Z.to_nat (bz lr) in
      let rb := firstn lenR rest2 in
      match skipn lenR rest2 with
      | t3 :: ls :: rest4 =>
          let lenS := Z.to_nat (bz ls) in
          if (bz t =? 48) && (bz l =? len - 2) && (bz t2 =? 2) && (bz t3 =? 2)
             && (length rb =? lenR)%nat && (length rest4 =? lenS)%nat
             && int_ok rb && int_ok rest4
          then Some (rb, rest4) else None
      | _ => None
      end
  | _ => None
  end.

(* BIP66 IsValidSignatureEncoding on signature ++ [hashtype] *)
Definition is_strict_der (sig : bytes) : bool :=
  let len := Z.of_nat (length sig) in
  (9 <=? len) && (len <=? 73) &&
  match der_split (removelast sig) with Some _ => true | None => false end.

(* strict decoder of the DER body *)
Definition der_dec (b : bytes) : option (Z * Z) :=
  match der_split b with
  | Some (rb, sb) => Some (of_be rb, of_be sb)
  | None => None
  end.

(* keys.Signature.parse_bytes dispatch: DER form only when longer than 64 bytes and starting 0x30;
   otherwise the input must be exactly 64 raw bytes r||s.  Result: (r, s, hash_type) *)
Definition lib_sig_parse (der_decode : bytes -> option (Z * Z)) (sig : bytes) : option (Z * Z * Z) :=
  if (64 <? Z.of_nat (length sig)) && starts_with sig 48 then
    match der_decode (removelast sig) with
    | Some (r, s) =>
        (* convert_der_sig formats '%064x%064x': longer when r or s >= 2^256 -> length check fails *)
        if (r <? 2 ^ 256) && (s <? 2 ^ 256) then Some (r, s, bz (last sig x00)) else None
    | None => None
    end
  else if (Z.of_nat (length sig) =? 64) then
    Some (of_be (firstn 32 sig), of_be (skipn 32 sig), 1)
  else None.
