(* Model/Der.v — DER signature encoding (C13): encoder as the library's backend writes it, BIP66
   strictness check (IsValidSignatureEncoding, restructured from index arithmetic to pattern matching),
   strict decoder.  Definitions only. *)
From Coq Require Import ZArith List Bool.
From Coq.Strings Require Import Byte.
From Verif Require Import Lib.Bytes Model.Wire.
Import ListNotations.
Open Scope Z_scope.

(* ASN.1 INTEGER body of a positive integer: minimal big-endian, 00 prefix when the top bit is set *)
Definition der_int (v : Z) : bytes :=
  let b := be_bytes (byte_len v) v in
  match b with
  | h :: _ => if high_set h then x00 :: b else b
  | [] => [x00]
  end.

(* encoding.der_encode_sig (fastecdsa DEREncoder.encode_signature); short-form lengths: r, s < 2^256 *)
Definition der_enc (r s : Z) : bytes :=
  let rb := der_int r in
  let sb := der_int s in
  x30 :: zb (Z.of_nat (length rb + length sb) + 4) ::
    (x02 :: zb (Z.of_nat (length rb)) :: rb) ++ (x02 :: zb (Z.of_nat (length sb)) :: sb).

(* BIP66: an INTEGER body is non-empty, non-negative, and has no unnecessary leading zero byte *)
Definition int_ok (b : bytes) : bool :=
  match b with
  | [] => false
  | h :: tl =>
      negb (high_set h) &&
      negb ((bz h =? 0) && match tl with [] => false | h2 :: _ => negb (high_set h2) end)
  end.

(* the body of a DER signature (without the hash-type byte): Some (rbytes, sbytes) iff well-formed *)
Definition der_split (b : bytes) : option (bytes * bytes) :=
  match b with
  | t :: l :: t2 :: lr :: rest2 =>
      let len := Z.of_nat (length b) in
      let lenR := Z.to_nat (bz lr) in
      let rb := firstn lenR rest2 in
      match skipn lenR rest2 with
      | t3 :: ls :: rest4 =>
          let lenS := Z.to_nat (bz ls) in
          if (bz t =? 48) && (bz l =? len - 2) && (bz t2 =? 2) && (bz t3 =? 2)
             && (length rb =? lenR)%nat && (length rest4 =? lenS)%nat
             && int_ok rb && int_ok rest4
          then Some (rb, rest4) else None
      | _ => None
      end
  | _ => None
  end.

(* BIP66 IsValidSignatureEncoding on signature ++ [hashtype] *)
Definition is_strict_der (sig : bytes) : bool :=
  let len := Z.of_nat (length sig) in
  (9 <=? len) && (len <=? 73) &&
  match der_split (removelast sig) with Some _ => true | None => false end.

(* strict decoder of the DER body *)
Definition der_dec (b : bytes) : option (Z * Z) :=
  match der_split b with
  | Some (rb, sb) => Some (of_be rb, of_be sb)
  | None => None
  end.

(* keys.Signature.parse_bytes dispatch, after fix C13-2 (`len(signature) != 64 and startswith(0x30)`): the DER form
   (signature ++ hash type) for every input starting 0x30 whose length is not 64; exactly 64 bytes are always
   the raw form r||s.  Result: (r, s, hash_type) *)
Definition lib_sig_parse (der_decode : bytes -> option (Z * Z)) (sig : bytes) : option (Z * Z * Z) :=
  if negb (Z.of_nat (length sig) =? 64) && starts_with sig 48 then
    match der_decode (removelast sig) with
    | Some (r, s) =>
        (* convert_der_sig formats '%064x%064x': longer when r or s >= 2^256 -> length check fails *)
        if (r <? 2 ^ 256) && (s <? 2 ^ 256) then Some (r, s, bz (last sig x00)) else None
    | None => None
    end
  else if (Z.of_nat (length sig) =? 64) then
    Some (of_be (firstn 32 sig), of_be (skipn 32 sig), 1)
  else None.

(* the dispatch before fix C13-2 (`len(signature) > 64 and startswith(0x30)`): nothing of 64 bytes or less was
   ever read as DER *)
Definition lib_sig_parse_prefix (der_decode : bytes -> option (Z * Z)) (sig : bytes) : option (Z * Z * Z) :=
  if (64 <? Z.of_nat (length sig)) && starts_with sig 48 then
    match der_decode (removelast sig) with
    | Some (r, s) =>
        if (r <? 2 ^ 256) && (s <? 2 ^ 256) then Some (r, s, bz (last sig x00)) else None
    | None => None
    end
  else if (Z.of_nat (length sig) =? 64) then
    Some (of_be (firstn 32 sig), of_be (skipn 32 sig), 1)
  else None.

(* ---------------------------------------------------------------- the decoder the library really runs
   encoding.convert_der_sig -> fastecdsa DEREncoder.decode_signature (encoding/der.py, encoding/asn1.py).
   It is laxer than BIP66: long-form lengths are accepted (0x81, and 0x82/0x84/0x88 read in NATIVE = little-endian
   byte order by struct.unpack("=H"/"=L"/"=Q")), bytes after the s INTEGER inside the SEQUENCE are ignored;
   it is stricter in one place: an INTEGER whose body is the single byte 00 raises IndexError. *)

(* asn1.parse_asn1_length: Some (body, remaining); None = any exception (ASN1EncodingError, struct.error,
   ValueError "negative shift count" for 0x80, KeyError for more than 8 length bytes) *)
Definition asn1_split (len : Z) (d : bytes) : option (bytes * bytes) :=
  if Z.of_nat (length d) <? len then None
  else Some (firstn (Z.to_nat len) d, skipn (Z.to_nat len) d).

Definition asn1_length (data : bytes) : option (bytes * bytes) :=
  match data with
  | [] => None
  | b0 :: data1 =>
      if bz b0 <? 128 then asn1_split (bz b0) data1
      else
        let count := bz b0 - 128 in
        if (count =? 1) || (count =? 2) || (count =? 4) || (count =? 8) then
          let c := Z.to_nat count in
          if (length data1 <? c)%nat then None
          else asn1_split (of_le (firstn c data1)) (skipn c data1)
        else None
  end.

(* asn1.parse_asn1_int *)
Definition asn1_int (data : bytes) : option (bytes * bytes) :=
  match data with
  | t :: rest => if (length data <? 3)%nat || negb (bz t =? 2) then None else asn1_length rest
  | [] => None
  end.

(* der.py _validate_int_bytes, including the IndexError on an empty body and on the body [00] *)
Definition lib_int_ok (b : bytes) : bool :=
  match b with
  | [] => false
  | h :: tl =>
      negb (high_set h) &&
      match tl with
      | [] => negb (bz h =? 0)
      | h2 :: _ => negb ((bz h =? 0) && negb (high_set h2))
      end
  end.

Definition lib_der_dec (sig : bytes) : option (Z * Z) :=
  match sig with
  | t :: rest =>
      if bz t =? 48 then
        match asn1_length rest with
        | Some (sq, []) =>
            match asn1_int sq with
            | Some (rb, sdata) =>
                match asn1_int sdata with
                | Some (sb, _) =>
                    if lib_int_ok rb && lib_int_ok sb then Some (of_be rb, of_be sb) else None
                | None => None
                end
            | None => None
            end
        | _ => None
        end
      else None
  | [] => None
  end.

(* Signature.parse_bytes with the decoder the library uses *)
Definition lib_parse (sig : bytes) : option (Z * Z * Z) := lib_sig_parse lib_der_dec sig.
Definition lib_parse_prefix (sig : bytes) : option (Z * Z * Z) := lib_sig_parse_prefix lib_der_dec sig.

(* what a strict reader does with the same bytes: BIP66 form (signature ++ hash type) first, otherwise the
   library's documented 64-byte raw form r||s (hash type SIGHASH_ALL) *)
Definition spec_parse (sig : bytes) : option (Z * Z * Z) :=
  if is_strict_der sig then
    match der_dec (removelast sig) with
    | Some (r, s) => Some (r, s, bz (last sig x00))
    | None => None
    end
  else if (Z.of_nat (length sig) =? 64) then
    Some (of_be (firstn 32 sig), of_be (skipn 32 sig), 1)
  else None.

(* finding classes (decidable from the signature bytes alone) *)
(* der64_read_as_raw: a BIP66-valid signature (with hash type) of exactly 64 bytes is read as raw r||s *)
Definition der64 (sig : bytes) : bool := is_strict_der sig && (Z.of_nat (length sig) =? 64).
(* lax_der_accepted: tag 0x30, not 64 bytes, not BIP66-valid, yet decoded by the library *)
Definition lax_der (sig : bytes) : bool :=
  negb (Z.of_nat (length sig) =? 64) && starts_with sig 48 && negb (is_strict_der sig) &&
  match lib_der_dec (removelast sig) with Some _ => true | None => false end.
