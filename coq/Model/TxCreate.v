(* Model/TxCreate.v — Wallet.transaction_create / send / sweep (bitcoinlib/wallets.py) and
   Transaction.estimate_size / calculate_fee (bitcoinlib/transactions.py).  Definitions only.

   [lib_*] mirrors the code of the (repaired, see fixes/C07-1, C07-2) working tree line by line; the two
   places changed by the repairs are marked REPAIR.  [orig_tx_create] keeps the order of checks of the
   unrepaired tree so that the recorded findings stay executable as Examples.

   Float arithmetic: every binary64 expression the code evaluates is modelled exactly on rationals
   (num, den) with [fl] = round-to-nearest-even to a 53-bit significand (exponent range ignored: no
   overflow/subnormal, unreachable for the magnitudes of sizes/fees). *)
From Coq Require Import ZArith List Bool.
From Coq.Strings Require Import Byte.
From Verif Require Import Lib.Bytes Gen.GenNetworks Model.CoinSelect.
Import ListNotations.
Open Scope Z_scope.

(* ------------------------------------------------------------------ binary64 on exact rationals *)
Definition q := (Z * Z)%type.          (* (numerator, denominator > 0) *)

Definition p53 : Z := 9007199254740992.  (* 2^53 *)

(* correctly rounded n/d for n > 0, d > 0 *)
Definition fl_scale (n d e : Z) : Z * Z :=
  if 0 <=? e then (n, d * 2 ^ e) else (n * 2 ^ (- e), d).

(* exponent e with 2^52 <= n / (d * 2^e) < 2^53 *)
Definition fl_exp (n d : Z) : Z :=
  let e0 := Z.log2 n - Z.log2 d - 53 in
  let s := fl_scale n d e0 in
  if p53 <=? fst s / snd s then e0 + 1 else e0.

(* n1 / d1 rounded to the nearest integer, ties to even *)
Definition fl_round (n1 d1 : Z) : Z :=
  let qq := n1 / d1 in
  let r := n1 mod d1 in
  if 2 * r <? d1 then qq
  else if d1 <? 2 * r then qq + 1
  else if Z.even qq then qq else qq + 1.

Definition fl_pos (n d : Z) : q :=
  let e := fl_exp n d in
  let s := fl_scale n d e in
  let m := fl_round (fst s) (snd s) in
  if 0 <=? e then (m * 2 ^ e, 1) else (m, 2 ^ (- e)).

Definition fl (x : q) : q :=
  let '(n, d) := x in
  if d <=? 0 then (0, 1)                       (* division by zero: not reachable, see ASSUMPTIONS *)
  else if n =? 0 then (0, 1)
  else if 0 <? n then fl_pos n d
  else let '(a, b) := fl_pos (- n) d in (- a, b).

Definition qint (z : Z) : q := (z, 1).
Definition qmul (a b : q) : q := (fst a * fst b, snd a * snd b).
Definition qdiv (a b : q) : q :=
  if 0 <? fst b then (fst a * snd b, snd a * fst b) else (- (fst a * snd b), - (snd a * fst b)).
Definition qadd (a b : q) : q := (fst a * snd b + fst b * snd a, snd a * snd b).
Definition qsub (a b : q) : q := (fst a * snd b - fst b * snd a, snd a * snd b).
Definition qabs (a : q) : q := (Z.abs (fst a), snd a).
Definition qltb (a b : q) : bool := fst a * snd b <? fst b * snd a.
Definition qtrunc (a : q) : Z := Z.quot (fst a) (snd a).      (* Python int(float): toward zero *)

Definition f_int (z : Z) : q := fl (qint z).                  (* int -> float *)
Definition fmul (a b : q) : q := fl (qmul a b).
Definition fdiv (a b : q) : q := fl (qdiv a b).
Definition fadd (a b : q) : q := fl (qadd a b).
Definition fsub (a b : q) : q := fl (qsub a b).

(* int(size / 1000.0 * fee_per_kb) *)
Definition fee_of (size fpk : Z) : Z := qtrunc (fmul (fdiv (f_int size) (qint 1000)) (f_int fpk)).
(* int((fee * 1000.0) / vsize) *)
Definition rate_of (fee vsize : Z) : Z := qtrunc (fdiv (fmul (f_int fee) (qint 1000)) (f_int vsize)).
(* int((50 / 1000.0) * fee_per_kb) *)
Definition fee_per_output_of (fpk : Z) : Z := qtrunc (fmul (fdiv (f_int 50) (qint 1000)) (f_int fpk)).

(* ------------------------------------------------------------------ size estimate *)
Inductive wit := Legacy | Segwit | P2shSegwit.

Record wkind := {
  wk_wit : wit;
  wk_multisig : bool;
  wk_nkeys : Z;          (* cosigner keys per input (1 for non-multisig) *)
  wk_nreq : Z;           (* multisig_n_required (1 for non-multisig) *)
  wk_single : bool       (* scheme == 'single': one change key whatever number_of_change_outputs says *)
}.

Definition is_legacy (w : wkind) : bool := match wk_wit w with Legacy => true | _ => false end.
Definition is_p2sh_segwit (w : wkind) : bool := match wk_wit w with P2shSegwit => true | _ => false end.

(* len(varstr(script)) *)
Definition varstr_len (s : bytes) : Z :=
  if bytes_eqb s [x00] then 1
  else let n := Z.of_nat (length s) in
       (if n <? 253 then 1 else if n <=? 65535 then 3 else if n <=? 4294967295 then 5 else 9) + n.

(* unsigned input: the else-branch of estimate_size *)
Definition scr_size (w : wkind) : Z :=
  if wk_multisig w
  then 9 + wk_nkeys w * 34 + wk_nreq w * 72 + (if is_p2sh_segwit w then 17 * wk_nreq w else 0)
  else 107 + (if is_p2sh_segwit w then 24 else 0).

Definition outs_size (scripts : list bytes) : Z :=
  fold_right (fun s a => 8 + varstr_len s + a) 0 scripts.

Definition change_out_size (w : wkind) (n_in : Z) : Z :=
  let is_ms := negb (n_in =? 0) && wk_multisig w in
  8 + (if (n_in =? 0) || is_legacy w then (if is_ms then 24 else 26)
       else if is_p2sh_segwit w then 24
       else (if is_ms then 33 else 23)).

(* returns the value estimate_size returns (= transaction.size = transaction.vsize in transaction_create) *)
Definition estimate_size (w : wkind) (n_in : Z) (scripts : list bytes) (k : Z) : Z :=
  let nl := negb (is_legacy w) in
  let est0 := 12 + (if nl then 2 else 0) in
  let '(est1, wsz) :=
    if n_in =? 0 then (est0 + 125, 2 + 72)
    else (est0 + n_in * (40 + (if nl then 1 else 0) + scr_size w), 2 + n_in * scr_size w) in
  let est2 := est1 + outs_size scripts in
  let est3 := est2 + (if k =? 0 then 0 else k * change_out_size w n_in) in
  if is_legacy w then est3
  else - ((6 - ((est3 - wsz) * 3 + est3)) / 4).       (* ceil(((est-wit)*3+est)/4 - 1.5) *)

(* ------------------------------------------------------------------ requests, results *)
Record recipient := { r_script : bytes; r_amount : Z; r_change : bool }.

Inductive fee_req := FeeNone | FeeInt (f : Z) | FeeNamed.

Record request := {
  rq_outputs : list recipient;
  rq_inputs : option (list Z);       (* explicit input_arr: ids of wallet outputs *)
  rq_fee : fee_req;
  rq_min_conf : Z;
  rq_max_utxos : option Z;
  rq_nchange : Z
}.

(* values the environment supplies: Service.estimatefee answers and the random draws *)
Record oracle := {
  or_fpk : Z;            (* srv.estimatefee(blocks=3, priority=...) *)
  or_fpk2 : Z;           (* srv.estimatefee() asked again when the first answer was falsy *)
  or_r1 : Z;             (* raw draws: random.randint(a, b) = a + r mod (b - a + 1) *)
  or_r2 : Z;
  or_weights : list Z    (* numpy.random.dirichlet(ones(k))[i] = w_i / (w_1 + ... + w_k) as binary64 *)
}.

Inductive dest := ToScript (s : bytes) | ToChange (i : Z).
Record txout := { o_dest : dest; o_value : Z; o_change : bool }.

Record wtx := {
  t_inputs : list utxo;
  t_outputs : list txout;       (* in creation order (before the random shuffle) *)
  t_fee : Z;
  t_change : Z;
  t_vsize : Z;
  t_fpk : Z
}.

Inductive err :=
| EMaxUtxos | ENoUtxos | ENotEnough | EUnknownUtxo | EOutGtIn | EMultiChange | EConserve
| ENegOutput | EOverflow | EFeeLow | EFeeHigh | EDomain
| ESweepNone | ESweepDust | ESweepMismatch
| EBumpZeroFee | EBumpFeeLow | EBumpExtraLow | EBumpNoChange | EBumpNoInput.

Inductive result (A : Type) := Ok (a : A) | Err (e : err).
Arguments Ok {A} a.
Arguments Err {A} e.

Definition sum_amounts (l : list recipient) : Z := fold_right (fun r a => r_amount r + a) 0 l.
Definition sum_outs (l : list txout) : Z := fold_right (fun o a => o_value o + a) 0 l.
Definition zsum (l : list Z) : Z := fold_right Z.add 0 l.

Definition inputs_truthy (rq : request) : bool :=
  match rq_inputs rq with Some (_ :: _) => true | _ => false end.

Definition max_utxos_exceeded (rq : request) : bool :=
  match rq_inputs rq, rq_max_utxos rq with
  | Some (i :: l), Some m => negb (m =? 0) && (m <? Z.of_nat (length (i :: l)))
  | _, _ => false
  end.

Fixpoint lookup_inputs (view : list utxo) (ids : list Z) : option (list utxo) :=
  match ids with
  | [] => Some []
  | i :: r => match find (fun u => u_id u =? i) view, lookup_inputs view r with
              | Some u, Some l => Some (u :: l)
              | _, _ => None
              end
  end.

Definition randint (a b r : Z) : Z := a + r mod (b - a + 1).

Fixpoint index_of (x : Z) (l : list Z) : Z :=
  match l with
  | [] => 0
  | y :: r => if y =? x then 0 else 1 + index_of x r
  end.

(* the "fix rounding problems" loop, with its change_amounts.index(co) term *)
Fixpoint fix_diffs (all : list Z) (diffs mov : Z) (l : list Z) : list Z :=
  match l with
  | [] => []
  | co :: r => if mov <? co - diffs then (co + (index_of co all + diffs)) :: r
               else co :: fix_diffs all diffs mov r
  end.

Fixpoint take_weights (k : nat) (ws : list Z) : list Z :=
  match k with
  | O => []
  | S k' => match ws with [] => 1 :: take_weights k' [] | x :: r => x :: take_weights k' r end
  end.

(* ((dirichlet * rand_prop) + min_output_value).astype(int) *)
Definition dirichlet_amounts (k : Z) (ws : list Z) (rand_prop mov : Z) : list Z :=
  let w := take_weights (Z.to_nat k) ws in
  let s := zsum w in
  map (fun wi => qtrunc (fadd (fmul (fl (wi, s)) (f_int rand_prop)) (f_int mov))) w.

Fixpoint change_outs (i : Z) (l : list Z) : list txout :=
  match l with
  | [] => []
  | v :: r => {| o_dest := ToChange i; o_value := v; o_change := true |} :: change_outs (i + 1) r
  end.

Definition recipient_out (r : recipient) : txout :=
  {| o_dest := ToScript (r_script r); o_value := r_amount r; o_change := r_change r |}.

Definition falsy (o : option Z) : bool := match o with Some x => x =? 0 | None => true end.
Definition oz (o : option Z) : Z := match o with Some x => x | None => 0 end.

(* ---- phase 1: inputs *)
Definition phase_inputs (nw : network) (view : list utxo) (rq : request) (fee_estimate : Z)
  : result (list utxo) :=
  match rq_inputs rq with
  | None =>
      match lib_select_inputs view (sum_amounts (rq_outputs rq) + fee_estimate) (nw_dust_amount nw)
                              (rq_min_conf rq) (nw_dust_amount nw) (rq_max_utxos rq) with
      | SelNoUtxos => Err ENoUtxos
      | SelOk [] => Err ENotEnough
      | SelOk l => Ok l
      end
  | Some ids => match lookup_inputs view ids with Some l => Ok l | None => Err EUnknownUtxo end
  end.

(* ---- phase 2: fee and change.  Result: (fee, change, fee_per_kb) *)
Definition phase_fee (repaired : bool) (nw : network) (rq : request) (o : oracle)
  (fee_estimate size in_total out_total : Z) (fpk0 : option Z)
  : result (Z * Z * option Z) :=
  let '(fee_is_false, tfee0, fpo, fpk1) :=
    match rq_fee rq with
    | FeeInt f => (false, f, None, fpk0)
    | FeeNamed => (false, fee_estimate, None, fpk0)
    | FeeNone =>
        if negb (inputs_truthy rq) then
          let a := if falsy fpk0 then or_fpk2 o else oz fpk0 in
          let b := if a <? nw_fee_min nw then nw_fee_min nw else a in
          (false, fee_of size b, Some (fee_per_output_of b), Some b)
        else if negb (out_total =? 0) && negb (in_total =? 0) then (true, 0, None, fpk0)
        else (false, 0, None, fpk0)
    end in
  let tfee1 := if fee_is_false then in_total - out_total else tfee0 in
  let change1 := if fee_is_false then 0 else in_total - (out_total + tfee1) in
  (* REPAIR C07-2: the fee-is-the-remainder branch refuses a negative remainder *)
  if repaired && fee_is_false && (tfee1 <? 0) then Err EOutGtIn
  (* REPAIR C07-1: change < 0 is tested before the dust folding *)
  else if repaired && (change1 <? 0) then Err EOutGtIn
  else
    let fold := (negb (falsy fpo) && (change1 <? oz fpo)) || (change1 <=? nw_dust_amount nw) in
    let tfee2 := if fold then tfee1 + change1 else tfee1 in
    let change2 := if fold then 0 else change1 in
    if change2 <? 0 then Err EOutGtIn
    else Ok (tfee2, change2, fpk1).

(* ---- phase 3: change outputs.  Result: (change amounts actually added, fee_per_kb, vsize) *)
Definition phase_change (nw : network) (w : wkind) (rq : request) (o : oracle)
  (tfee change size n_in out_total : Z) (fpk : option Z)
  : result (list Z * option Z * Z) :=
  if change =? 0 then Ok ([], fpk, size)
  else
    let '(fpk', mov) :=
      if negb (tfee =? 0) && negb (size =? 0) then
        let f := if falsy fpk then Some (rate_of tfee size) else fpk in
        (f, oz f + nw_fee_min nw * 4 + nw_dust_amount nw)
      else (fpk, nw_dust_amount nw * 2 + nw_fee_min nw * 4) in
    let k0 := rq_nchange rq in
    if k0 <? 0 then Err EDomain
    else
      let k :=
        if k0 =? 0 then
          if qltb (qint change) (fl (out_total, 10)) || (change <? mov * 8) then 1
          else if qltb (qint out_total) (fl (change, 10)) then randint 2 5 (or_r1 o)
          else let x := randint 1 3 (or_r1 o) in if x =? 3 then randint 3 4 (or_r2 o) else x
        else k0 in
      let size' := if k0 =? 0 then estimate_size w n_in (map r_script (rq_outputs rq)) k else size in
      if (1 <? k) && (change / k <? mov) then Err EMultiChange
      else
        let nkeys := if wk_single w then 1 else k in
        let amounts :=
          if 1 <? k then
            let am := dirichlet_amounts k (or_weights o) (change - k * mov) mov in
            fix_diffs am (change - zsum am) mov am
          else [change] in
        Ok (firstn (Z.to_nat nkeys) amounts, fpk', size').

Definition two64 : Z := 18446744073709551616.

(* ---- the whole of transaction_create *)
Definition tx_create (repaired : bool) (nw : network) (w : wkind) (view : list utxo) (rq : request) (o : oracle)
  : result wtx :=
  if max_utxos_exceeded rq then Err EMaxUtxos
  else
    let outs := rq_outputs rq in
    let out_total := sum_amounts outs in
    let scripts := map r_script outs in
    let fpk0 := match rq_fee rq with FeeInt _ => None | _ => Some (or_fpk o) end in
    let fee_estimate :=
      match rq_fee rq with
      | FeeInt f => f
      | _ => if negb (inputs_truthy rq)
             then fee_of (estimate_size w 0 scripts (rq_nchange rq)) (or_fpk o) else 0
      end in
    match phase_inputs nw view rq fee_estimate with
    | Err e => Err e
    | Ok inputs =>
      let in_total := sum_values inputs in
      let n_in := Z.of_nat (length inputs) in
      let size := estimate_size w n_in scripts (rq_nchange rq) in
      match phase_fee repaired nw rq o fee_estimate size in_total out_total fpk0 with
      | Err e => Err e
      | Ok (tfee, change, fpk1) =>
        match phase_change nw w rq o tfee change size n_in out_total fpk1 with
        | Err e => Err e
        | Ok (amounts, fpk2, vsize) =>
          let outputs := map recipient_out outs ++ change_outs 0 amounts in
          if negb (in_total =? tfee + sum_outs outputs) then Err EConserve
          else if existsb (fun x => o_value x <? 0) outputs then Err ENegOutput
          else if existsb (fun x => two64 <=? o_value x) outputs then Err EOverflow
          else
            let fpk3 := if falsy fpk2 then rate_of tfee vsize else oz fpk2 in
            if fpk3 <? nw_fee_min nw then Err EFeeLow
            else if nw_fee_max nw <? fpk3 then Err EFeeHigh
            else Ok {| t_inputs := inputs; t_outputs := outputs; t_fee := tfee; t_change := change;
                       t_vsize := vsize; t_fpk := fpk3 |}
        end
      end
    end.

Definition lib_tx_create := tx_create true.
Definition orig_tx_create := tx_create false.

(* ---- Wallet.send: re-creation when the fee estimate is more than 10 % off *)
Definition with_fee (rq : request) (f : fee_req) : request :=
  {| rq_outputs := rq_outputs rq; rq_inputs := rq_inputs rq; rq_fee := f; rq_min_conf := rq_min_conf rq;
     rq_max_utxos := rq_max_utxos rq; rq_nchange := rq_nchange rq |}.

Definition calculate_fee (nw : network) (t : wtx) : Z :=
  let f := t_fpk t in
  let f' := if f <? nw_fee_min nw then nw_fee_min nw else if nw_fee_max nw <? f then nw_fee_max nw else f in
  fee_of (t_vsize t) f'.

Definition send_gen (repaired : bool) (nw : network) (w : wkind) (view : list utxo) (rq : request) (o1 o2 : oracle)
  : result wtx :=
  if max_utxos_exceeded rq then Err EMaxUtxos
  else
    match tx_create repaired nw w view rq o1 with
    | Err e => Err e
    | Ok t =>
      match rq_fee rq with
      | FeeNone =>
        if negb (t_fpk t =? 0) && negb (t_change t =? 0) then
          let fe := calculate_fee nw t in
          if negb (fe =? nw_fee_min nw) && negb (fe =? nw_fee_max nw) && negb (fe =? 0) &&
             qltb (fl (1, 10)) (qabs (fdiv (fsub (f_int (t_fee t)) (f_int fe)) (f_int fe)))
          then tx_create repaired nw w view (with_fee rq (FeeInt fe)) o2
          else Ok t
        else Ok t
      | _ => Ok t
      end
    end.

Definition lib_send := send_gen true.

(* ---- Wallet.sweep *)
Record sweep_req := {
  sw_single : bool;                 (* to_address is one address string *)
  sw_targets : list recipient;      (* otherwise the list; amount 0 = "the rest" *)
  sw_fee : fee_req;
  sw_fee_per_kb : option Z;
  sw_min_conf : Z;
  sw_max_utxos : Z
}.

Fixpoint sweep_list (total fee : Z) (acc : list recipient) (l : list recipient) : list recipient :=
  match l with
  | [] => acc
  | r :: rest =>
      if r_amount r =? 0 then
        let a := total - sum_amounts acc - fee in
        if 0 <? a then sweep_list total fee (acc ++ [{| r_script := r_script r; r_amount := a; r_change := r_change r |}]) rest
        else sweep_list total fee acc rest
      else sweep_list total fee (acc ++ [r]) rest
  end.

Definition sweep_gen (repaired : bool) (nw : network) (w : wkind) (view : list utxo) (sq : sweep_req) (o1 o2 : oracle)
  : result wtx :=
  let utxos := py_take (Some (sw_max_utxos sq))
                 (sort_by lt_conf (filter (fun u => negb (u_spent u) && (sw_min_conf sq <=? u_conf u)) view)) in
  match utxos with
  | [] => Err ESweepNone
  | _ =>
    let ins := filter (fun u => nw_dust_amount nw <? u_value u) utxos in
    let total := sum_values ins in
    let named := match sw_fee sq with FeeNamed => true | _ => false end in
    let fee_given := match sw_fee sq with FeeInt f => if f =? 0 then None else Some f | _ => None end in
    let fee :=
      match fee_given with
      | Some f => f
      | None =>
          let fpk := if named then or_fpk o1
                     else match sw_fee_per_kb sq with Some x => x | None => or_fpk o1 end in
          let n_out := if sw_single sq then 1 else Z.of_nat (length (sw_targets sq)) in
          let tr_size := 125 + Z.of_nat (length ins) * (77 + wk_nreq w * 72) + n_out * 30 in
          let modifier := if is_legacy w then qint 1 else fl (6, 10) in
          qtrunc (fadd (f_int 100) (fmul (fmul (fdiv (f_int tr_size) (qint 1000)) (f_int fpk)) modifier))
      end in
    if total - fee <=? nw_dust_amount nw then Err ESweepDust
    else
      let to_list :=
        if sw_single sq then
          match sw_targets sq with
          | r :: _ => [{| r_script := r_script r; r_amount := total - fee; r_change := r_change r |}]
          | [] => []
          end
        else sweep_list total fee [] (sw_targets sq) in
      if negb (sum_amounts to_list + fee =? total) then Err ESweepMismatch
      else
        send_gen repaired nw w view
          {| rq_outputs := to_list; rq_inputs := Some (map u_id ins); rq_fee := FeeInt fee;
             rq_min_conf := sw_min_conf sq; rq_max_utxos := None; rq_nchange := 1 |} o1 o2
  end.

Definition lib_sweep := sweep_gen true.

(* the network record by its position in the regenerated table (used by the correspondence driver) *)
Definition net_by_index (i : Z) : network := nth (Z.to_nat i) all_networks nw_bitcoinlib_test.

(* compact view of a result, used by the witnesses in Properties/C07.v *)
Definition tx_summary (r : result wtx) : option (Z * Z * Z * Z * list Z * list Z) :=
  match r with
  | Ok t => Some (t_fee t, t_change t, t_vsize t, t_fpk t, map u_id (t_inputs t), map o_value (t_outputs t))
  | Err _ => None
  end.
