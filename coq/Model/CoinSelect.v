(* Model/CoinSelect.v — Wallet.select_inputs (bitcoinlib/wallets.py) over an abstract wallet view.
   Definitions only.

   The wallet view is the list of the wallet's transaction-output rows (spent ones included) in the
   order in which the database returns rows that tie under an ORDER BY (measured: insertion order;
   validated by the correspondence on every run).  Every SQL query of select_inputs is
   [ORDER BY confirmations DESC [, value ASC|DESC]] over the same filtered row set; here this is a
   stable insertion sort of the view. *)
From Coq Require Import ZArith List Bool.
Import ListNotations.
Open Scope Z_scope.

Record utxo := { u_id : Z; u_value : Z; u_conf : Z; u_spent : bool }.

Definition sum_values (l : list utxo) : Z := fold_right (fun u a => u_value u + a) 0 l.

(* ---- stable insertion sort: [lt a b] = "a sorts strictly before b" *)
Fixpoint insert_by (lt : utxo -> utxo -> bool) (x : utxo) (l : list utxo) : list utxo :=
  match l with
  | [] => [x]
  | y :: r => if lt y x then y :: insert_by lt x r
              else (* x sorts before y, or ties with it: x came first in the input and stays first *)
                   x :: y :: r
  end.

Definition sort_by (lt : utxo -> utxo -> bool) (l : list utxo) : list utxo :=
  fold_right (insert_by lt) [] l.

(* ORDER BY confirmations DESC *)
Definition lt_conf (a b : utxo) : bool := u_conf b <? u_conf a.
(* ORDER BY confirmations DESC, value ASC *)
Definition lt_conf_val_asc (a b : utxo) : bool :=
  (u_conf b <? u_conf a) || ((u_conf a =? u_conf b) && (u_value a <? u_value b)).
(* ORDER BY confirmations DESC, value DESC *)
Definition lt_conf_val_desc (a b : utxo) : bool :=
  (u_conf b <? u_conf a) || ((u_conf a =? u_conf b) && (u_value b <? u_value a)).

(* the filter of utxo_query: unspent, confirmations >= min_confirms, value >= dust (skip_dust_amounts) *)
Definition candidate (min_conf dust : Z) (u : utxo) : bool :=
  negb (u_spent u) && (min_conf <=? u_conf u) && (dust <=? u_value u).

Definition candidates (min_conf dust : Z) (view : list utxo) : list utxo :=
  filter (candidate min_conf dust) view.

(* Python slice l[:m] for m : None | int (negative counts from the end) *)
Definition py_take (m : option Z) (l : list utxo) : list utxo :=
  match m with
  | None => l
  | Some k => if 0 <=? k then firstn (Z.to_nat k) l
              else firstn (Z.to_nat (Z.max 0 (Z.of_nat (length l) + k))) l
  end.

(* the accumulation loop: append while total < amount *)
Fixpoint greedy (amount total : Z) (l : list utxo) : list utxo * Z :=
  match l with
  | [] => ([], total)
  | u :: r => if total <? amount
              then let '(s, t) := greedy amount (total + u_value u) r in (u :: s, t)
              else greedy amount total r
  end.

Inductive sel_result :=
| SelNoUtxos                       (* WalletError "No unspent transaction outputs found ..." *)
| SelOk (l : list utxo).           (* [] = "nothing suitable" (the caller raises) *)

Definition truthy_max (m : option Z) : bool :=
  match m with Some k => negb (k =? 0) | None => false end.

Definition lib_select_inputs (view : list utxo) (amount variance min_conf dust : Z) (max_utxos : option Z)
  : sel_result :=
  let cs := candidates min_conf dust view in
  match cs with
  | [] => SelNoUtxos
  | _ =>
    (* one utxo with the exact amount (within variance): first row of ORDER BY confirmations DESC *)
    match find (fun u => (amount <=? u_value u) && (u_value u <=? amount + variance)) (sort_by lt_conf cs) with
    | Some u => SelOk [u]
    | None =>
      (* one utxo with a higher amount: first row of ORDER BY confirmations DESC, value *)
      match find (fun u => amount <=? u_value u) (sort_by lt_conf_val_asc cs) with
      | Some u => SelOk [u]
      | None =>
        if truthy_max max_utxos && (match max_utxos with Some k => k <=? 1 | None => false end)
        then SelOk []
        else
          let lessers := filter (fun u => u_value u <? amount) (sort_by lt_conf_val_desc cs) in
          let '(sel, total) := greedy amount 0 (py_take max_utxos lessers) in
          if total <? amount then SelOk [] else SelOk sel
      end
    end
  end.
