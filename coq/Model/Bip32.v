(* Model/Bip32.v — BIP32 hierarchical deterministic keys (C03).  Definitions only.
   spec_*  is written from the BIP32 text (CKDpriv, CKDpub, master key generation, the N function, the
           serialization format), generically over a group (add, zero, smul, gen, n), a point
           serialisation serP, an HMAC-SHA512 oracle and a HASH160 oracle (Section Spec); the concrete
           spec instantiates it with Crypto/Secp256k1.v, Crypto/Hmac.v, Crypto/Ripemd160.v.
   lib_*   mirrors bitcoinlib/keys.py: HDKey.from_seed, child_private, child_public, subkey_for_path,
           public(), fingerprint, wif()/wif_public(), for compressed keys (the default), as repaired by
           fixes/C03-1..8 (see the comments "fix n" below for what the code did before).
   Keys: an extended key is its key material (secret integer or curve point), chain code and the
   metadata triple (depth, parent fingerprint, child number).  The library object additionally caches
   byte/hex renderings of the same values; they are functions of these fields. *)
From Coq Require Import ZArith List Bool.
From Coq.Strings Require Import Byte.
From Verif Require Import Lib.Bytes Crypto.Sha256 Crypto.Sha512 Crypto.Ripemd160 Crypto.Hmac Crypto.Secp256k1.
Import ListNotations.
Open Scope Z_scope.

Definition two31 : Z := 2147483648.
Definition two32 : Z := 4294967296.

Definition ser32 (i : Z) : bytes := be_bytes 4 i.
Definition ser256 (k : Z) : bytes := be_bytes 32 k.
Definition parse256 (b : bytes) : Z := of_be b.

Record meta := { m_depth : Z; m_pfp : bytes; m_index : Z }.
Record xprv := { xk : Z; xc : bytes; xm : meta }.

Definition obind {A B} (o : option A) (f : A -> option B) : option B :=
  match o with Some a => f a | None => None end.

(* "Bitcoin seed" *)
Definition bitcoin_seed : bytes := [x42; x69; x74; x63; x6f; x69; x6e; x20; x73; x65; x65; x64].
Definition zero_fp : bytes := [x00; x00; x00; x00].

(* ================================================================ the specification, generically *)
Section Spec.
Variable Pt : Type.
Variable add : Pt -> Pt -> Pt.
Variable smul : Z -> Pt -> Pt.
Variable gen : Pt.
Variable n : Z.
Variable is_zero : Pt -> bool.            (* recognises the neutral element (point at infinity) *)
Variable serP : Pt -> bytes.              (* SEC1 compressed form *)
Variable HM : bytes -> bytes -> bytes.    (* HMAC-SHA512 key data *)
Variable H160 : bytes -> bytes.           (* RIPEMD160 after SHA256 *)

Record xpub := { XK : Pt; XC : bytes; XM : meta }.
Inductive xkey := XPrv (x : xprv) | XPub (x : xpub).

Definition point_of (k : Z) : Pt := smul k gen.

(* the key identifier's first 32 bits *)
Definition fingerprint_of (P : Pt) : bytes := firstn 4 (H160 (serP P)).

Definition child_meta (parent : Pt) (m : meta) (i : Z) : meta :=
  {| m_depth := m_depth m + 1; m_pfp := fingerprint_of parent; m_index := i |}.

(* N((k, c)) = (point(k), c) *)
Definition neuter_prv (x : xprv) : xpub := {| XK := point_of (xk x); XC := xc x; XM := xm x |}.
Definition neuter (X : xkey) : xkey := match X with XPrv x => XPub (neuter_prv x) | XPub _ => X end.

(* CKDpriv((k_par, c_par), i) -> (k_i, c_i); None = "the resulting key is invalid" or i not a 32-bit index *)
Definition spec_ckd_priv (x : xprv) (i : Z) : option xprv :=
  if (i <? 0) || (two32 <=? i) then None
  else
    let P := point_of (xk x) in
    let data := if two31 <=? i then x00 :: ser256 (xk x) ++ ser32 i else serP P ++ ser32 i in
    let I := HM (xc x) data in
    let IL := parse256 (firstn 32 I) in
    if n <=? IL then None
    else
      let k' := (IL + xk x) mod n in
      if k' =? 0 then None
      else Some {| xk := k'; xc := skipn 32 I; xm := child_meta P (xm x) i |}.

(* CKDpub((K_par, c_par), i) -> (K_i, c_i); hardened i: failure *)
Definition spec_ckd_pub (x : xpub) (i : Z) : option xpub :=
  if (i <? 0) || (two31 <=? i) then None
  else
    let I := HM (XC x) (serP (XK x) ++ ser32 i) in
    let IL := parse256 (firstn 32 I) in
    if n <=? IL then None
    else
      let K' := add (point_of IL) (XK x) in
      if is_zero K' then None
      else Some {| XK := K'; XC := skipn 32 I; XM := child_meta (XK x) (XM x) i |}.

Fixpoint spec_derive_priv (x : xprv) (l : list Z) : option xprv :=
  match l with
  | [] => Some x
  | i :: r => obind (spec_ckd_priv x i) (fun y => spec_derive_priv y r)
  end.

Fixpoint spec_derive_pub (x : xpub) (l : list Z) : option xpub :=
  match l with
  | [] => Some x
  | i :: r => obind (spec_ckd_pub x i) (fun y => spec_derive_pub y r)
  end.

Definition spec_derive (X : xkey) (l : list Z) : option xkey :=
  match X with
  | XPrv x => option_map XPrv (spec_derive_priv x l)
  | XPub x => option_map XPub (spec_derive_pub x l)
  end.

(* a path is (starts at the public key M?, indices); m/... derives from the key itself, M/... from N(key) *)
Definition spec_subkey (X : xkey) (p : bool * list Z) : option xkey :=
  spec_derive (if fst p then neuter X else X) (snd p).

(* master key generation from a seed S *)
Definition spec_master (S : bytes) : option xprv :=
  let I := HM bitcoin_seed S in
  let IL := parse256 (firstn 32 I) in
  if (IL =? 0) || (n <=? IL) then None
  else Some {| xk := IL; xc := skipn 32 I; xm := {| m_depth := 0; m_pfp := zero_fp; m_index := 0 |} |}.

(* serialization format: version(4) depth(1) fingerprint(4) child number(4) chain code(32) key data(33) *)
Definition spec_ser_meta (version : bytes) (m : meta) (c : bytes) : option bytes :=
  if (m_depth m <? 0) || (256 <=? m_depth m) || (m_index m <? 0) || (two32 <=? m_index m) then None
  else Some (version ++ be_bytes 1 (m_depth m) ++ m_pfp m ++ ser32 (m_index m) ++ c).

Definition spec_ser_prv (version : bytes) (x : xprv) : option bytes :=
  option_map (fun h => h ++ x00 :: ser256 (xk x)) (spec_ser_meta version (xm x) (xc x)).
Definition spec_ser_pub (version : bytes) (x : xpub) : option bytes :=
  option_map (fun h => h ++ serP (XK x)) (spec_ser_meta version (XM x) (XC x)).

End Spec.

Arguments XK {Pt} _.
Arguments XC {Pt} _.
Arguments XM {Pt} _.
Arguments XPrv {Pt} _.
Arguments XPub {Pt} _.
Arguments Build_xpub {Pt} _ _ _.

(* ================================================================ the secp256k1 instance *)

(* serP: (0x02 or 0x03) || ser256(x).  BIP32 never serialises the point at infinity (keys that would
   be infinite are invalid); the value given here for it is the one the library would produce
   (fastecdsa's identity has x = y = 0), so that it is a don't-care shared by both sides. *)
Definition ser_pub (P : point) : bytes :=
  match P with
  | Some (x, y) => (if Z.odd y then x03 else x02) :: be_bytes 32 x
  | None => x02 :: be_bytes 32 0
  end.

Definition pt_is_zero (P : point) : bool := match P with None => true | Some _ => false end.

Definition skey := xkey point.
Definition spub := xpub point.

Definition s_point_of : Z -> point := point_of point pt_mul secp_G.
Definition s_fingerprint : point -> bytes := fingerprint_of point ser_pub hash160.
Definition s_neuter_prv : xprv -> spub := neuter_prv point pt_mul secp_G.
Definition s_neuter : skey -> skey := neuter point pt_mul secp_G.
Definition s_ckd_priv : xprv -> Z -> option xprv := spec_ckd_priv point pt_mul secp_G secp_n ser_pub hmac_sha512 hash160.
Definition s_ckd_pub : spub -> Z -> option spub :=
  spec_ckd_pub point pt_add pt_mul secp_G secp_n pt_is_zero ser_pub hmac_sha512 hash160.
Definition s_derive_priv : xprv -> list Z -> option xprv :=
  spec_derive_priv point pt_mul secp_G secp_n ser_pub hmac_sha512 hash160.
Definition s_derive_pub : spub -> list Z -> option spub :=
  spec_derive_pub point pt_add pt_mul secp_G secp_n pt_is_zero ser_pub hmac_sha512 hash160.
Definition s_derive : skey -> list Z -> option skey :=
  spec_derive point pt_add pt_mul secp_G secp_n pt_is_zero ser_pub hmac_sha512 hash160.
Definition s_subkey : skey -> bool * list Z -> option skey :=
  spec_subkey point pt_add pt_mul secp_G secp_n pt_is_zero ser_pub hmac_sha512 hash160.
Definition s_master : bytes -> option xprv := spec_master secp_n hmac_sha512.
Definition s_ser_prv : bytes -> xprv -> option bytes := spec_ser_prv.
Definition s_ser_pub : bytes -> spub -> option bytes := spec_ser_pub point ser_pub.

(* ================================================================ the library *)

Definition lkey := skey.

Definition lib_is_private (X : lkey) : bool := match X with XPrv _ => true | XPub _ => false end.
Definition lib_chain (X : lkey) : bytes := match X with XPrv x => xc x | XPub x => XC x end.
Definition lib_meta (X : lkey) : meta := match X with XPrv x => xm x | XPub x => XM x end.

(* Key.__init__: x, y = ec_point(secret) for a private key; the stored point for a public one *)
Definition lib_point (X : lkey) : point := match X with XPrv x => secp_pub (xk x) | XPub x => XK x end.

(* public_byte of a compressed key: prefix by parity of y, x as 32 bytes; fastecdsa's identity is (0, 0) *)
Definition lib_public_byte (X : lkey) : bytes := ser_pub (lib_point X).
(* private_byte: the 32-byte big-endian secret *)
Definition lib_private_byte (x : xprv) : bytes := be_bytes 32 (xk x).

(* HDKey.fingerprint = hash160(public_byte)[:4] *)
Definition lib_fingerprint (X : lkey) : bytes := firstn 4 (hash160 (lib_public_byte X)).

(* HDKey.public(): same chain code and metadata, private fields cleared *)
Definition lib_public (X : lkey) : lkey :=
  match X with
  | XPrv x => XPub {| XK := secp_pub (xk x); XC := xc x; XM := xm x |}
  | XPub _ => X
  end.

(* _key_derivation: chain = hasattr(self, 'chain') and self.chain or b"Bitcoin seed" — an empty chain
   code is replaced by the master key constant *)
Definition lib_hmac_key (c : bytes) : bytes := match c with [] => bitcoin_seed | _ => c end.

(* HDKey.from_seed.  fix 6: before the repair only key_int >= n was refused (key_int = 0 accepted). *)
Definition lib_from_seed (seed : bytes) : option lkey :=
  let i := hmac_sha512 bitcoin_seed seed in
  let key_int := of_be (firstn 32 i) in
  if (key_int =? 0) || (secp_n <=? key_int) then None
  else Some (XPrv {| xk := key_int; xc := skipn 32 i; xm := {| m_depth := 0; m_pfp := zero_fp; m_index := 0 |} |}).

(* the child number child_private writes: index | 0x80000000 when hardened.
   fix 3: before the repair the test was [hardened] alone, so an unmarked index >= 2^31 took the
   non-hardened branch (public-key data, hardened child number). *)
Definition lib_priv_index (index : Z) (hardened : bool) : Z :=
  if hardened || (two31 <=? index) then Z.lor index two31 else index.

(* HDKey.child_private(index, hardened).  None = any exception (BKeyError, OverflowError of to_bytes). *)
Definition lib_child_private (X : lkey) (index : Z) (hardened : bool) : option lkey :=
  match X with
  | XPub _ => None                                   (* "Need a private key to create child private key" *)
  | XPrv x =>
      let h := hardened || (two31 <=? index) in
      let idx := lib_priv_index index hardened in
      if (idx <? 0) || (two32 <=? idx) then None       (* index.to_bytes(4, 'big') *)
      else
        let data := if h then x00 :: lib_private_byte x ++ be_bytes 4 idx
                    else lib_public_byte X ++ be_bytes 4 idx in
        let i := hmac_sha512 (lib_hmac_key (xc x)) data in
        let key := of_be (firstn 32 i) in
        if secp_n <=? key then None
        else
          let newkey := (key + xk x) mod secp_n in
          if newkey =? 0 then None
          else Some (XPrv {| xk := newkey; xc := skipn 32 i;
                             xm := {| m_depth := m_depth (xm x) + 1; m_pfp := lib_fingerprint X;
                                      m_index := idx |} |})
  end.

(* fastecdsa Point(x, y, curve): coordinates reduced mod p, then the curve congruence is required *)
Definition lib_fe_point (P : point) : option (Z * Z) :=
  let (x, y) := match P with Some xy => xy | None => (0, 0) end in
  let x := x mod secp_p in
  let y := y mod secp_p in
  if (y * y - (x * x * x + secp_b)) mod secp_p =? 0 then Some (x, y) else None.

(* HDKey.child_public(index); works on private keys too (uses the public part).
   fix 2: before the repair the guard was index > 0x80000000.
   fix 5: before the repair the point at infinity was not refused (02 00..00 was returned as key). *)
Definition lib_child_public (X : lkey) (index : Z) : option lkey :=
  if two31 <=? index then None
  else if index <? 0 then None                       (* index.to_bytes(4, 'big') *)
  else
    let data := lib_public_byte X ++ be_bytes 4 index in
    let i := hmac_sha512 (lib_hmac_key (lib_chain X)) data in
    let key := of_be (firstn 32 i) in
    if secp_n <=? key then None
    else
      match lib_fe_point (lib_point X) with
      | None => None                                 (* ValueError: coordinates are not on curve *)
      | Some Q =>
          let (kx, ky) := match pt_add (secp_pub key) (Some Q) with Some xy => xy | None => (0, 0) end in
          if (kx =? 0) && (ky =? 0) then None
          else Some (XPub {| XK := Some (kx, ky); XC := skipn 32 i;
                             XM := {| m_depth := m_depth (lib_meta X) + 1; m_pfp := lib_fingerprint X;
                                      m_index := index |} |})
      end.

(* ---------------------------------------------------------------- path strings *)

(* str.split('/') *)
Fixpoint split_slash (s : bytes) (cur : bytes) : list bytes :=
  match s with
  | [] => [rev cur]
  | b :: r => if beq b x2f then rev cur :: split_slash r [] else split_slash r (b :: cur)
  end.

(* int(str) for ASCII input: surrounding whitespace, optional sign, decimal digits with single
   underscores between digits *)
Definition is_ws (b : byte) : bool := let v := bz b in ((9 <=? v) && (v <=? 13)) || (v =? 32).
Fixpoint lstrip (s : bytes) : bytes :=
  match s with
  | b :: r => if is_ws b then lstrip r else s
  | [] => []
  end.
Definition strip (s : bytes) : bytes := rev (lstrip (rev (lstrip s))).
Definition digit_val (b : byte) : option Z :=
  let v := bz b in if (48 <=? v) && (v <=? 57) then Some (v - 48) else None.
Fixpoint py_digits (s : bytes) (acc : Z) (prev_digit : bool) : option Z :=
  match s with
  | [] => if prev_digit then Some acc else None
  | b :: r =>
      match digit_val b with
      | Some d => py_digits r (10 * acc + d) true
      | None => if beq b x5f && prev_digit then py_digits r acc false else None
      end
  end.
Definition py_int (s : bytes) : option Z :=
  match strip s with
  | [] => None
  | b :: r =>
      if beq b x2d then option_map Z.opp (py_digits r 0 false)
      else if beq b x2b then py_digits r 0 false
      else py_digits (b :: r) 0 false
  end.

(* item[-1] in "'HhPp" *)
Definition is_marker (b : byte) : bool :=
  beq b x27 || beq b x48 || beq b x68 || beq b x50 || beq b x70.

(* one path element -> (index, hardened marker present); None = BKeyError / ValueError.
   fix 4: before the repair a marked index >= 2^31 was accepted (m/2147483648' gave m/0'). *)
Definition lib_parse_item (item : bytes) : option (Z * bool) :=
  match rev item with
  | [] => None                                       (* "Index is empty" *)
  | lastb :: rinit =>
      let hardened := is_marker lastb in
      let body := if hardened then rev rinit else item in
      match py_int body with
      | None => None
      | Some index =>
          if index <? 0 then None
          else if hardened && (two31 <=? index) then None
          else Some (index, hardened)
      end
  end.

Fixpoint map_opt {A B} (f : A -> option B) (l : list A) : option (list B) :=
  match l with
  | [] => Some []
  | a :: r => match f a with
              | None => None
              | Some b => match map_opt f r with None => None | Some t => Some (b :: t) end
              end
  end.

(* (first_public, elements): a leading "m" is dropped, a leading "M" sets first_public *)
Definition lib_parse_path (path : bytes) : option (bool * list (Z * bool)) :=
  match split_slash path [] with
  | [] => None
  | h :: t =>
      let (fp, items) := if bytes_eqb h [x6d] then (false, t)
                         else if bytes_eqb h [x4d] then (true, t)
                         else (false, h :: t) in
      option_map (pair fp) (map_opt lib_parse_item items)
  end.

(* the index BIP32 assigns to a path element: i_H = i + 2^31 *)
Definition sem_item (it : Z * bool) : Z := if snd it then fst it + two31 else fst it.
Definition sem (p : bool * list (Z * bool)) : bool * list Z := (fst p, map sem_item (snd p)).

(* one turn of the loop in subkey_for_path.
   fix 1: before the repair the public branch ignored [hardened] (the TODO in the source). *)
Definition lib_step (first_public : bool) (key : lkey) (it : Z * bool) : option lkey :=
  let (index, hardened) := it in
  if first_public || negb (lib_is_private key) then
    if hardened then None else lib_child_public key index
  else lib_child_private key index hardened.

Fixpoint lib_walk (first_public : bool) (key : lkey) (items : list (Z * bool)) : option lkey :=
  match items with
  | [] => Some key
  | it :: r => obind (lib_step first_public key it) (fun k => lib_walk false k r)
  end.

(* HDKey.subkey_for_path(path) for a path string (or the list of its '/'-separated elements).
   fix 7: before the repair a bare "M" returned the key itself, private part included. *)
Definition lib_subkey_for_path (X : lkey) (path : bytes) : option lkey :=
  match lib_parse_path path with
  | None => None
  | Some (fp, items) =>
      let key := match items with
                 | [] => if fp && lib_is_private X then lib_public X else X
                 | _ => X
                 end in
      lib_walk fp key items
  end.

(* ---------------------------------------------------------------- import / export *)

(* Key.public_uncompressed_hex: y recomputed from x without checking that x is on the curve *)
Definition lib_lift_y (odd : bool) (x : Z) : Z :=
  let ys := powmod x 3 secp_p + 7 mod secp_p in
  let y := powmod ys secp_sqrt_exp secp_p in
  if Bool.eqb (Z.odd y) odd then y else secp_p - y.

(* public key object from 33 bytes 02/03 || x (HDKey(key=...), HDKey(xpub string)) *)
Definition lib_point_of_bytes (b : bytes) : point :=
  match b with
  | pfx :: rest => let x := of_be rest in Some (x, lib_lift_y (bz pfx =? 3) x)
  | [] => None
  end.

(* The same through Key.__init__ with strict=True (the default of HDKey(key=...) and of every import path), as repaired
   by the C04 fix "Key() with strict=True refuses public keys that are not curve points": prefix 02/03, 32 bytes of x,
   x < p and (x, y) on the curve, otherwise BKeyError (None). *)
Definition lib_import_pub (b : bytes) : option point :=
  match b with
  | pfx :: rest =>
      let x := of_be rest in
      let P : point := Some (x, lib_lift_y (bz pfx =? 3) x) in
      if ((bz pfx =? 2) || (bz pfx =? 3)) && Nat.eqb (length rest) 32 && (x <? secp_p) && on_curve P
      then Some P else None
  | [] => None
  end.

(* Base58 (change_base(raw, 256, 58, 111) on the 82-byte structure) *)
Definition b58_alphabet : bytes :=
  [x31; x32; x33; x34; x35; x36; x37; x38; x39; x41; x42; x43; x44; x45; x46; x47; x48; x4a; x4b; x4c;
   x4d; x4e; x50; x51; x52; x53; x54; x55; x56; x57; x58; x59; x5a; x61; x62; x63; x64; x65; x66; x67;
   x68; x69; x6a; x6b; x6d; x6e; x6f; x70; x71; x72; x73; x74; x75; x76; x77; x78; x79; x7a].
Fixpoint b58_digits (fuel : nat) (v : Z) (acc : bytes) : bytes :=
  match fuel with
  | O => acc
  | S f => if v <=? 0 then acc else b58_digits f (v / 58) (nth (Z.to_nat (v mod 58)) b58_alphabet x31 :: acc)
  end.
Fixpoint count_lead0 (b : bytes) : nat :=
  match b with
  | x :: r => if beq x x00 then S (count_lead0 r) else O
  | [] => O
  end.
Definition b58_encode_min (raw : bytes) (minlen : nat) : bytes :=
  let v := of_be raw in
  let ds := b58_digits (2 * length raw) v [] in
  let out := repeat x31 (count_lead0 raw) ++ ds in
  repeat x31 (minlen - length out) ++ out.

(* HDKey.wif(is_private=arg, prefix=version): Base58 of raw || double_sha256(raw)[:4] *)
Definition lib_wif (version : bytes) (arg_private : bool) (X : lkey) : option bytes :=
  let m := lib_meta X in
  if (m_depth m <? 0) || (256 <=? m_depth m) || (m_index m <? 0) || (two32 <=? m_index m) then None
  else
    let keydata := match X with
                   | XPrv x => if arg_private then x00 :: lib_private_byte x else lib_public_byte X
                   | XPub _ => lib_public_byte X
                   end in
    let raw := version ++ be_bytes 1 (m_depth m) ++ m_pfp m ++ be_bytes 4 (m_index m) ++ lib_chain X ++ keydata in
    Some (b58_encode_min (raw ++ firstn 4 (sha256d raw)) 111).

(* HDKey.wif(child_index=n): the export with the child number n in place of the key's own; the key object is
   left as it is.  fix 8: before the repair the call also stored n in self.child_index (every later export and
   as_dict() of the object then showed n), and n = 0 was ignored. *)
Definition with_index (m : meta) (n : Z) : meta := {| m_depth := m_depth m; m_pfp := m_pfp m; m_index := n |}.
Definition lib_with_index (X : lkey) (n : Z) : lkey :=
  match X with
  | XPrv x => XPrv {| xk := xk x; xc := xc x; xm := with_index (xm x) n |}
  | XPub x => XPub {| XK := XK x; XC := XC x; XM := with_index (XM x) n |}
  end.
Definition lib_wif_index (version : bytes) (arg_private : bool) (X : lkey) (n : option Z) : option bytes :=
  lib_wif version arg_private (match n with Some v => lib_with_index X v | None => X end).

(* ================================================================ sessions: many calls on ONE HDKey object
   and on the objects derived from it (public() copies, children)

   The derivation methods keep no state: subkey_for_path / child_private / child_public / public() read the
   key material (secret or point, chain code, depth, parent fingerprint, child number) of the object they are
   called on and build a NEW object; nothing is remembered between two calls, and public() hands nothing of
   the private original to its copy.  The only attributes an HDKey call ever writes on [self] are the wallet
   settings network (network_change), witness_type and multisig (public_master, "if multisig: self.multisig
   = multisig"); children and copies inherit them.  They select the account path of public_master and the
   version bytes of wif(), never the key material.

   A session is a list of requests.  Every request names the object it acts on by the number of the step that
   created it (slot 0 = the start object, slot k+1 = the object returned by request k) and every answer shows
   the named object after the call and the object returned.  A call that returns the object it was called on
   (subkey_for_path("m"), network_change, the exports) or that raises creates no object: its slot stays
   empty.  The implementation is run on whole sessions against this fold (request `sess`). *)

Inductive wtype := WLegacy | WP2sh | WSegwit.      (* 'legacy' | 'p2sh-segwit' | 'segwit' *)

(* the wallet settings of an HDKey object: network (name, BIP44 coin type, the two legacy version prefixes),
   witness_type, multisig *)
Record kcfg := { kc_net : bytes; kc_coin : Z; kc_vprv : bytes; kc_vpub : bytes; kc_wit : wtype; kc_multi : bool }.
Record hobj := { ho_key : lkey; ho_cfg : kcfg }.

Inductive sop :=
| SPath (path : bytes)                        (* subkey_for_path(path), path a string or the list of its elements *)
| SChildPriv (index : Z) (hardened : bool)    (* child_private(index, hardened) *)
| SChildPub (index : Z)                       (* child_public(index) *)
| SPublic                                     (* public() *)
| SMaster (account : Z) (purpose : option Z) (multisig : option bool) (wit : option wtype) (as_private : bool)
                                              (* public_master(account, purpose, multisig, witness_type, as_private);
                                                 public_master_multisig(...) is multisig = Some true *)
| SNet (name : bytes) (coin : Z) (vprv vpub : bytes)   (* network_change(name) *)
| SExport.                                    (* wif() / wif_public() / as_dict(): the object is only observed *)

Record sreq := { rq_slot : nat; rq_op : sop }.

(* get_key_structure_data(witness_type, multisig): the purpose of the wallet structure *)
Definition pm_default_purpose (w : wtype) (multi : bool) : Z :=
  if multi then match w with WLegacy => 45 | _ => 48 end
  else match w with WLegacy => 44 | WP2sh => 49 | WSegwit => 84 end.

(* path_expand(path_template[:pm_depth], ...): the template up to its last hardened level, variables replaced.
   "purpose = ks[0]['purpose'] if not purpose else purpose": None and 0 mean the default. *)
Definition pm_items (c : kcfg) (purpose : option Z) (account : Z) : list (Z * bool) :=
  let dflt := pm_default_purpose (kc_wit c) (kc_multi c) in
  let p := match purpose with Some v => if v =? 0 then dflt else v | None => dflt end in
  if kc_multi c then
    match kc_wit c with
    | WLegacy => [(p, true)]                                                        (* m/purpose' *)
    | w => [(p, true); (kc_coin c, true); (account, true);
            ((match w with WP2sh => 1 | _ => 2 end), true)]                         (* m/purpose'/coin'/account'/script' *)
    end
  else [(p, true); (kc_coin c, true); (account, true)].                             (* m/purpose'/coin'/account' *)

(* the range tests subkey_for_path applies to an element that is already a number *)
Definition lib_check_item (it : Z * bool) : option (Z * bool) :=
  let (index, hardened) := it in
  if index <? 0 then None
  else if hardened && (two31 <=? index) then None
  else Some it.

(* HDKey.public_master: subkey_for_path(m/...) of the account path, then public() unless as_private *)
Definition lib_public_master (X : lkey) (c : kcfg) (account : Z) (purpose : option Z) (as_private : bool) : option lkey :=
  match map_opt lib_check_item (pm_items c purpose account) with
  | None => None
  | Some items => option_map (fun k => if as_private then k else lib_public k) (lib_walk false X items)
  end.

(* what the call writes on the object it is called on (before anything can raise) *)
Definition cfg_after (c : kcfg) (op : sop) : kcfg :=
  match op with
  | SMaster _ _ multi wit _ =>
      {| kc_net := kc_net c; kc_coin := kc_coin c; kc_vprv := kc_vprv c; kc_vpub := kc_vpub c;
         kc_wit := match wit with Some w => w | None => kc_wit c end;
         kc_multi := match multi with Some true => true | _ => kc_multi c end |}
  | SNet name coin vprv vpub =>
      {| kc_net := name; kc_coin := coin; kc_vprv := vprv; kc_vpub := vpub; kc_wit := kc_wit c; kc_multi := kc_multi c |}
  | _ => c
  end.

(* the key the call returns — a function of the key material and settings of the object it is called on *)
Definition op_key (k : lkey) (c : kcfg) (op : sop) : option lkey :=
  match op with
  | SPath p => lib_subkey_for_path k p
  | SChildPriv i h => lib_child_private k i h
  | SChildPub i => lib_child_public k i
  | SPublic => Some (lib_public k)
  | SMaster account purpose _ _ as_private => lib_public_master k c account purpose as_private
  | SNet _ _ _ _ => Some k
  | SExport => Some k
  end.

(* the call returns the very object it was called on (no new object) *)
Definition op_self (k : lkey) (op : sop) : bool :=
  match op with
  | SPath p => match lib_parse_path p with
               | Some (fp, []) => negb (fp && lib_is_private k)
               | _ => false
               end
  | SNet _ _ _ _ => true
  | SExport => true
  | _ => false
  end.

(* the settings do not enter the answer of these calls *)
Definition op_cfg_free (op : sop) : bool :=
  match op with SMaster _ _ _ _ _ => false | _ => true end.

Inductive sres := RFail | RSelf | RNew (o : hobj).
Record sans := { an_target : option hobj;      (* the object named by the request, after the call; None = no such object *)
                 an_result : sres }.

Definition sstate := list (option hobj).

Fixpoint slot_set (st : sstate) (n : nat) (o : hobj) : sstate :=
  match st, n with
  | [], _ => []
  | _ :: r, O => Some o :: r
  | x :: r, S m => x :: slot_set r m o
  end.

Definition slot_get (st : sstate) (n : nat) : option hobj :=
  match nth_error st n with Some (Some o) => Some o | _ => None end.

Definition session_step (st : sstate) (r : sreq) : sstate * sans :=
  match slot_get st (rq_slot r) with
  | None => (st ++ [None], {| an_target := None; an_result := RFail |})
  | Some o =>
      let c := cfg_after (ho_cfg o) (rq_op r) in
      let o' := {| ho_key := ho_key o; ho_cfg := c |} in
      let st1 := slot_set st (rq_slot r) o' in
      match op_key (ho_key o) c (rq_op r) with
      | None => (st1 ++ [None], {| an_target := Some o'; an_result := RFail |})
      | Some k' =>
          if op_self (ho_key o) (rq_op r) then (st1 ++ [None], {| an_target := Some o'; an_result := RSelf |})
          else let n := {| ho_key := k'; ho_cfg := c |} in
               (st1 ++ [Some n], {| an_target := Some o'; an_result := RNew n |})
      end
  end.

Fixpoint session_run (st : sstate) (reqs : list sreq) : sstate * list sans :=
  match reqs with
  | [] => (st, [])
  | r :: rest =>
      let (st1, a) := session_step st r in
      let (st2, l) := session_run st1 rest in
      (st2, a :: l)
  end.

Definition lib_session (X : hobj) (reqs : list sreq) : list sans := snd (session_run [Some X] reqs).
Definition session_slots (X : hobj) (reqs : list sreq) : sstate := fst (session_run [Some X] reqs).

(* the key material a session answer returns: the returned object's, or the named object's for RSelf *)
Definition ans_key (a : sans) : option lkey :=
  match an_result a with
  | RNew o => Some (ho_key o)
  | RSelf => option_map ho_key (an_target a)
  | RFail => None
  end.

(* a request that needs private material: every child_private, a hardened child_public index, a path with
   a hardened element, the (hardened) account path of public_master *)
Definition op_needs_private (op : sop) : bool :=
  match op with
  | SPath p => match lib_parse_path p with
               | Some pp => existsb (fun i => two31 <=? i) (snd (sem pp))
               | None => false
               end
  | SChildPriv _ _ => true
  | SChildPub i => two31 <=? i
  | SMaster _ _ _ _ _ => true
  | _ => false
  end.

(* which slots hold public-only objects by construction: the start object if it is public-only, every
   public() copy, child_public result, "M/..." path and non-as_private public_master, and everything obtained
   from such an object *)
Definition op_makes_public (op : sop) : bool :=
  match op with
  | SPath p => match lib_parse_path p with Some (true, _) => true | _ => false end     (* "M/..." *)
  | SPublic => true
  | SChildPub _ => true
  | SMaster _ _ _ _ as_private => negb as_private
  | _ => false
  end.

Fixpoint public_marks (marks : list bool) (reqs : list sreq) : list bool :=
  match reqs with
  | [] => marks
  | r :: rest => public_marks (marks ++ [op_makes_public (rq_op r) || nth (rq_slot r) marks false]) rest
  end.

Definition session_public_marks (X : hobj) (reqs : list sreq) : list bool :=
  public_marks [negb (lib_is_private (ho_key X))] reqs.
