(* Model/TxCreateHistory.v — a wallet as a state machine over HISTORIES of operations (bitcoinlib/wallets.py):
   transaction_create / send / send_to / sweep with every argument (explicit input tuples in all accepted shapes,
   input_key_id, account_id, min_confirms, max_utxos, locktime, replace_by_fee), WalletTransaction.send (broadcast:
   store + mark the inputs spent), Wallet.utxos_update / utxo_add (the provider's listing is an ARGUMENT: whatever a
   provider says, an output referenced by an input of a stored wallet transaction stays spent), re-opening the wallet,
   WalletTransaction.bumpfee (transaction_delete of the replaced transaction + new broadcast), transaction_delete of ANY
   earlier broadcast transaction (two stored transactions may spend the same output: it stays spent while one remains).
   Definitions only; nothing of Model/{CoinSelect,TxCreate,BumpFee}.v is changed.

   The persistent state is what the database holds: the output rows (Model/CoinSelect.v [utxo], insertion order),
   their attributes (key, account, transaction row), and the DbTransactionInput rows of stored wallet transactions
   as pairs (transaction serial, id of the referenced output).  Ids >= [h_base] are allocated by the model for the
   outputs of the wallet's own broadcast transactions: a broadcast reserves a block [serial, serial + 2 + #outputs):
   the transaction row has the serial, its output to change key j has id serial + 2 + j (j = -1: the receiving key
   added by WalletTransaction.bumpfee). *)
From Coq Require Import ZArith List Bool.
From Verif Require Import Lib.Bytes Gen.GenNetworks Gen.GenConsts Model.CoinSelect Model.TxCreate Model.BumpFee.
Import ListNotations.
Open Scope Z_scope.

(* ------------------------------------------------------------------ requests with every argument *)
(* one element of input_arr.  [x_key], [x_claim] are what the CALLER wrote into the tuple (key_id, value) or into the
   Input object (value); [x_addr]: the tuple carries (7th element) an address of a key of this wallet *)
Record xin := { x_id : Z; x_key : option Z; x_claim : option Z; x_addr : bool; x_obj : bool }.

Record hreq := {
  hq_outputs : list recipient;
  hq_inputs : option (list xin);
  hq_fee : fee_req;
  hq_min_conf : Z;
  hq_max_utxos : option Z;
  hq_nchange : Z;
  hq_keys : list Z;            (* input_key_id as a list of key ids; [] = falsy = no filter *)
  hq_acct : Z;                 (* account_id (after _get_account_defaults) *)
  hq_locktime : Z;
  hq_rbf : bool
}.

Record orow := { a_id : Z; a_key : Z; a_acct : Z; a_tx : Z }.
Record lastx := { l_serial : option Z; l_acct : Z }.      (* the WalletTransaction object last returned by send/sweep *)

Record hstate := {
  hs_view : list utxo;
  hs_attr : list orow;
  hs_txins : list (Z * Z);
  hs_next : Z;
  hs_last : option lastx
}.

Definition h_base : Z := 1000.
Definition h_empty : hstate := {| hs_view := []; hs_attr := []; hs_txins := []; hs_next := h_base; hs_last := None |}.

Definition attr_of (attrs : list orow) (id : Z) : orow :=
  match find (fun a => a_id a =? id) attrs with
  | Some a => a
  | None => {| a_id := id; a_key := -1; a_acct := 0; a_tx := id |}
  end.

Definition has_id (view : list utxo) (id : Z) : bool := existsb (fun u => u_id u =? id) view.
Definition consumed (st : hstate) : list Z := map snd (hs_txins st).
Definition spent_in_db (st : hstate) (id : Z) : bool := existsb (fun p => snd p =? id) (hs_txins st).

(* the filters of select_inputs / utxos: DbTransaction.account_id == account_id, DbKey.id [in] input_key_id *)
Definition in_scope (attrs : list orow) (acct : Z) (keys : list Z) (u : utxo) : bool :=
  let a := attr_of attrs (u_id u) in
  (a_acct a =? acct) && (match keys with [] => true | _ => existsb (Z.eqb (a_key a)) keys end).

(* ties of ORDER BY: sqlite walks the keys of an IN (...) filter with two or more keys in key order (measured; validated
   by the correspondence): rows come grouped by key, inside a key in insertion order *)
Definition lt_key (attrs : list orow) (a b : utxo) : bool :=
  a_key (attr_of attrs (u_id a)) <? a_key (attr_of attrs (u_id b)).

Definition key_order (attrs : list orow) (keys : list Z) (l : list utxo) : list utxo :=
  match keys with
  | _ :: _ :: _ => sort_by (lt_key attrs) l
  | _ => l
  end.

Definition h_request (rq : hreq) : request :=
  {| rq_outputs := hq_outputs rq; rq_inputs := option_map (map x_id) (hq_inputs rq); rq_fee := hq_fee rq;
     rq_min_conf := hq_min_conf rq; rq_max_utxos := hq_max_utxos rq; rq_nchange := hq_nchange rq |}.

(* an explicit input that is NOT an output row of this wallet: the code takes the caller's word (address + non-zero
   value), "offline wallet" *)
Definition pseudo_row (view : list utxo) (x : xin) : list utxo :=
  if has_id view (x_id x) then []
  else match x_claim x with
       | Some v => if x_addr x && negb (v =? 0) && (x_id x <? h_base)   (* ids >= h_base: the wallet's own outputs only *)
                   then [{| u_id := x_id x; u_value := v; u_conf := 0; u_spent := false |}] else []
       | None => []
       end.

(* the rows a creation request can draw on: explicit inputs are looked up in the whole wallet
   (wallet_id, txid, output_n: the caller's key_id / value are NOT consulted when the row exists), automatic
   selection runs over the rows of the requested account and keys *)
Definition scope (st : hstate) (rq : hreq) : list utxo :=
  match hq_inputs rq with
  | Some xs => hs_view st ++ flat_map (pseudo_row (hs_view st)) xs
  | None => key_order (hs_attr st) (hq_keys rq) (filter (in_scope (hs_attr st) (hq_acct rq) (hq_keys rq)) (hs_view st))
  end.

Record htx := { x_tx : wtx; x_locktime : Z; x_seqs : list Z }.

(* anti fee sniping: locktime 0 becomes the provider's block count *)
Definition eff_locktime (bcount : Z) (lt : Z) : Z := if (lt =? 0) && negb (bcount =? 0) then bcount else lt.

Definition default_sequence (rbf : bool) (lt : Z) : Z :=
  if rbf then cfg_SEQUENCE_REPLACE_BY_FEE
  else if (0 <? lt) && (lt <? 4294967295) then cfg_SEQUENCE_ENABLE_LOCKTIME else 4294967295.

Definition seqs_of (rq : hreq) (lt : Z) (t : wtx) : list Z :=
  match hq_inputs rq with
  | Some xs => map (fun x => if x_obj x
                            then (* the Input object's own sequence (0xffffffff as built by the caller); add_input turns
                                    that value into the replace-by-fee signal when the transaction asks for it *)
                                 (if hq_rbf rq then cfg_SEQUENCE_REPLACE_BY_FEE else 4294967295)
                            else default_sequence (hq_rbf rq) lt) xs
  | None => map (fun _ => default_sequence (hq_rbf rq) lt) (t_inputs t)
  end.

Definition wrap_tx (bcount : Z) (rq : hreq) (r : result wtx) : result htx :=
  match r with
  | Ok t => let lt := eff_locktime bcount (hq_locktime rq) in
            Ok {| x_tx := t; x_locktime := lt; x_seqs := seqs_of rq lt t |}
  | Err e => Err e
  end.

(* Wallet.transaction_create *)
Definition h_create (bcount : Z) (nw : network) (w : wkind) (st : hstate) (rq : hreq) (o : oracle) : result htx :=
  wrap_tx bcount rq (lib_tx_create nw w (scope st rq) (h_request rq) o).

Definition hq_with_fee (rq : hreq) (f : fee_req) : hreq :=
  {| hq_outputs := hq_outputs rq; hq_inputs := hq_inputs rq; hq_fee := f; hq_min_conf := hq_min_conf rq;
     hq_max_utxos := hq_max_utxos rq; hq_nchange := hq_nchange rq; hq_keys := hq_keys rq; hq_acct := hq_acct rq;
     hq_locktime := hq_locktime rq; hq_rbf := hq_rbf rq |}.

(* the decision of Wallet.send to build the transaction a second time: Some exact_fee *)
Definition recreate_fee (nw : network) (f : fee_req) (t : wtx) : option Z :=
  match f with
  | FeeNone =>
      if negb (t_fpk t =? 0) && negb (t_change t =? 0) then
        let fe := calculate_fee nw t in
        if negb (fe =? nw_fee_min nw) && negb (fe =? nw_fee_max nw) && negb (fe =? 0) &&
           qltb (fl (1, 10)) (qabs (fdiv (fsub (f_int (t_fee t)) (f_int fe)) (f_int fe)))
        then Some fe else None
      else None
  | _ => None
  end.

(* Wallet.send / send_to: two-phase creation, the SAME argument record both times (only the fee is replaced) *)
Definition h_send (bcount : Z) (nw : network) (w : wkind) (st : hstate) (rq : hreq) (o1 o2 : oracle) : result htx :=
  if max_utxos_exceeded (h_request rq) then Err EMaxUtxos
  else match h_create bcount nw w st rq o1 with
       | Err e => Err e
       | Ok x1 => match recreate_fee nw (hq_fee rq) (x_tx x1) with
                  | Some fe => h_create bcount nw w st (hq_with_fee rq (FeeInt fe)) o2
                  | None => Ok x1
                  end
       end.

(* Wallet.sweep: utxos(account_id, min_confirms, key_id) then send with explicit (txid, n, key_id, value) tuples *)
Record hsweep := { hw_sweep : sweep_req; hw_keys : list Z; hw_acct : Z; hw_locktime : Z; hw_rbf : bool }.

Definition sweep_scope (st : hstate) (sq : hsweep) : list utxo :=
  key_order (hs_attr st) (hw_keys sq) (filter (in_scope (hs_attr st) (hw_acct sq) (hw_keys sq)) (hs_view st)).

Definition h_sweep (bcount : Z) (nw : network) (w : wkind) (st : hstate) (sq : hsweep) (o1 o2 : oracle) : result htx :=
  match lib_sweep nw w (sweep_scope st sq) (hw_sweep sq) o1 o2 with
  | Ok t => let lt := eff_locktime bcount (hw_locktime sq) in
            Ok {| x_tx := t; x_locktime := lt; x_seqs := map (fun _ => default_sequence (hw_rbf sq) lt) (t_inputs t) |}
  | Err e => Err e
  end.

(* ------------------------------------------------------------------ state changes *)
Definition set_spent (u : utxo) (b : bool) : utxo :=
  {| u_id := u_id u; u_value := u_value u; u_conf := u_conf u; u_spent := b |}.
Definition set_conf (u : utxo) (c : Z) : utxo :=
  {| u_id := u_id u; u_value := u_value u; u_conf := c; u_spent := u_spent u |}.

Definition mark_spent (ids : list Z) (view : list utxo) : list utxo :=
  map (fun u => if existsb (Z.eqb (u_id u)) ids then set_spent u true else u) view.

Definition add_row (va : list utxo * list orow) (ua : utxo * orow) : list utxo * list orow :=
  let '(view, attrs) := va in
  let '(u, a) := ua in
  if has_id view (u_id u) then va else (view ++ [u], attrs ++ [a]).

(* rows stored for the wallet's own outputs of a broadcast transaction (unconfirmed, unspent) *)
Definition own_rows (serial acct n : Z) (outs : list txout) : list (utxo * orow) :=
  flat_map (fun o => match o_dest o with
                     | ToChange j =>
                         if (-1 <=? j) && (j <? n)
                         then [({| u_id := serial + 2 + j; u_value := o_value o; u_conf := 0; u_spent := false |},
                                {| a_id := serial + 2 + j; a_key := -1; a_acct := acct; a_tx := serial |})]
                         else []
                     | ToScript _ => []
                     end) outs.

(* WalletTransaction.send(broadcast=True) with a provider that accepts: store(), inputs marked spent *)
Definition h_broadcast (st : hstate) (acct : Z) (ins : list Z) (outs : list txout) : hstate :=
  let serial := hs_next st in
  let n := Z.of_nat (length outs) in
  let '(view, attrs) := fold_left add_row (own_rows serial acct n outs) (mark_spent ins (hs_view st), hs_attr st) in
  {| hs_view := view; hs_attr := attrs; hs_txins := hs_txins st ++ map (fun i => (serial, i)) ins;
     hs_next := serial + 2 + n; hs_last := Some {| l_serial := Some serial; l_acct := acct |} |}.

Definition with_last (st : hstate) (l : option lastx) : hstate :=
  {| hs_view := hs_view st; hs_attr := hs_attr st; hs_txins := hs_txins st; hs_next := hs_next st; hs_last := l |}.

(* one element of a provider listing / utxos= argument / utxo_add call *)
Record litem := { li_id : Z; li_value : Z; li_conf : Z; li_key : Z }.

Definition set_key (attrs : list orow) (id key : Z) : list orow :=
  map (fun a => if a_id a =? id then {| a_id := a_id a; a_key := key; a_acct := a_acct a; a_tx := a_tx a |} else a) attrs.

(* the loop body of utxos_update for one listed output *)
Definition upd_item (acct : Z) (sc : hstate * Z) (it : litem) : hstate * Z :=
  let '(st, cnt) := sc in
  let id := li_id it in
  if has_id (hs_view st) id then
    (* known output: spent = "an input of a wallet transaction refers to it"; confirmations of its transaction row *)
    let txg := a_tx (attr_of (hs_attr st) id) in
    let sp := spent_in_db st id in
    let view' := map (fun u => let u1 := if u_id u =? id then set_spent u sp else u in
                               if a_tx (attr_of (hs_attr st) (u_id u)) =? txg then set_conf u1 (li_conf it) else u1)
                     (hs_view st) in
    ({| hs_view := view'; hs_attr := set_key (hs_attr st) id (li_key it); hs_txins := hs_txins st;
        hs_next := hs_next st; hs_last := hs_last st |}, cnt)
  else if h_base <=? id then (st, cnt)        (* no provider can list an output of a transaction that does not exist *)
  else
    ({| hs_view := hs_view st ++ [{| u_id := id; u_value := li_value it; u_conf := li_conf it;
                                     u_spent := spent_in_db st id |}];
        hs_attr := hs_attr st ++ [{| a_id := id; a_key := li_key it; a_acct := acct; a_tx := id |}];
        hs_txins := hs_txins st; hs_next := hs_next st; hs_last := hs_last st |}, cnt + 1).

(* Wallet.utxos_update(account_id, utxos | provider, rescan_all); result: the number of new outputs *)
Definition h_update (st : hstate) (acct : Z) (listing : list litem) (rescan : bool) : hstate * Z :=
  let view1 := if rescan
               then map (fun u => if a_acct (attr_of (hs_attr st) (u_id u)) =? acct then set_spent u true else u)
                        (hs_view st)
               else hs_view st in
  fold_left (upd_item acct)
            listing
            ({| hs_view := view1; hs_attr := hs_attr st; hs_txins := hs_txins st; hs_next := hs_next st;
                hs_last := hs_last st |}, 0).

(* Wallet.transaction_delete of the stored transaction [serial] (WalletTransaction.delete) *)
Definition h_delete (st : hstate) (serial : Z) : hstate :=
  let ins := map snd (filter (fun p => fst p =? serial) (hs_txins st)) in
  let txins' := filter (fun p => negb (fst p =? serial)) (hs_txins st) in
  let keep := fun u : utxo => negb (a_tx (attr_of (hs_attr st) (u_id u)) =? serial) in
  let view1 := filter keep (hs_view st) in
  let view2 := map (fun u => if existsb (Z.eqb (u_id u)) ins && negb (existsb (fun p => snd p =? u_id u) txins')
                             then set_spent u false else u) view1 in
  {| hs_view := view2;
     hs_attr := filter (fun a => negb (a_tx a =? serial)) (hs_attr st);
     hs_txins := txins'; hs_next := hs_next st; hs_last := hs_last st |}.

(* ------------------------------------------------------------------ operations and histories *)
Record henv := { he_bcount : Z; he_mult : q; he_mult2 : q }.

Inductive hop :=
| HCreate (rq : hreq) (o : oracle)
| HSend (rq : hreq) (o1 o2 : oracle) (bc signable : bool)
| HSweep (sq : hsweep) (o1 o2 : oracle) (bc signable : bool)
| HUpdate (acct : Z) (listing : list litem) (rescan : bool)
| HUtxoAdd (acct : Z) (it : litem)
| HReopen
| HBump (b : btx) (fee extra : Z) (bc verified : bool)
| HDelete (serial : option Z).      (* Wallet.transaction_delete / WalletTransaction.delete of an earlier broadcast transaction
                                       (None: the operation named did not store one) *)

Inductive hout :=
| OTx (x : htx) (pushed : bool)
| OErr (e : err)
| OCount (n : Z)
| ODone
| OBump (b : btx) (pushed : bool)
| ONoLast
| ODeleted
| ONoTx.

Definition after_tx (st : hstate) (acct : Z) (r : result htx) (bc signable : bool) : hstate * hout :=
  match r with
  | Err e => (st, OErr e)
  | Ok x =>
      if bc && signable
      then (h_broadcast st acct (map u_id (t_inputs (x_tx x))) (t_outputs (x_tx x)), OTx x true)
      else (with_last st (Some {| l_serial := None; l_acct := acct |}), OTx x false)
  end.

Definition h_step (env : henv) (nw : network) (w : wkind) (st : hstate) (op : hop) : hstate * hout :=
  match op with
  | HCreate rq o =>
      match h_create (he_bcount env) nw w st rq o with
      | Ok x => (st, OTx x false)
      | Err e => (st, OErr e)
      end
  | HSend rq o1 o2 bc sg => after_tx st (hq_acct rq) (h_send (he_bcount env) nw w st rq o1 o2) bc sg
  | HSweep sq o1 o2 bc sg => after_tx st (hw_acct sq) (h_sweep (he_bcount env) nw w st sq o1 o2) bc sg
  | HUpdate acct listing rescan => let '(st', n) := h_update st acct listing rescan in (st', OCount n)
  | HUtxoAdd acct it => let '(st', n) := h_update st acct [it] false in (st', OCount n)
  | HReopen => (with_last st None, ODone)
  | HBump b fee extra bc vf =>
      match (if forallb (fun u => u_id u <? hs_next st) (b_inputs b) then hs_last st else None) with
      | None => (st, ONoLast)             (* no transaction object at hand (or one that is not of this history) *)
      | Some l =>
          let sc := filter (fun u => a_acct (attr_of (hs_attr st) (u_id u)) =? l_acct l) (hs_view st) in
          match lib_wallet_bumpfee nw sc b fee extra (he_mult env) (he_mult2 env) with
          | Err e => (with_last st None, OErr e)
          | Ok b' =>
              let st1 := match l_serial l with Some s => h_delete st s | None => st end in
              (* the replaced transaction is deleted BEFORE the replacement is sent; an unverified replacement is not sent *)
              if bc && vf then (h_broadcast st1 (l_acct l) (map u_id (b_inputs b')) (b_outputs b'), OBump b' true)
              else (with_last st1 (match l_serial l with
                                   | Some _ => None          (* the object still says "pushed", its row is gone *)
                                   | None => Some l
                                   end), OBump b' false)
          end
      end
  | HDelete None => (st, ONoTx)
  | HDelete (Some s) =>
      (* a stored wallet transaction has at least one input row *)
      if existsb (fun p => fst p =? s) (hs_txins st)
      then (with_last (h_delete st s)
                      (match hs_last st with
                       | Some l => match l_serial l with
                                   | Some s' => if s' =? s then None else Some l
                                   | None => Some l
                                   end
                       | None => None
                       end), ODeleted)
      else (st, ONoTx)                (* "Transaction ... not found in this wallet" *)
  end.

Record hrec := { hr_pre : hstate; hr_op : hop; hr_out : hout; hr_post : hstate }.

Fixpoint h_run (env : henv) (nw : network) (w : wkind) (st : hstate) (ops : list hop) : list hrec :=
  match ops with
  | [] => []
  | op :: r => let '(st', out) := h_step env nw w st op in
               {| hr_pre := st; hr_op := op; hr_out := out; hr_post := st' |} :: h_run env nw w st' r
  end.

(* what the driver prints after every operation: the spendable set (id, confirmations) *)
Definition spendable (st : hstate) : list (Z * Z) :=
  map (fun u => (u_id u, u_conf u)) (filter (fun u => negb (u_spent u)) (hs_view st)).
