(* Model/Service.v — bitcoinlib/services/services.py: provider ordering, Service._provider_execute and the
   query wrappers, mirrored as they are (the lib_ functions).  Definitions only.

   A provider is (name, outcome): what its client does when the queried method is called —
     Ok v       returns v (anything that `is not False`, well-formed or not)
     Raise e    the constructor or the method raises an exception other than AttributeError
     RaiseAttr  getattr(services, provider) / the method raises AttributeError (not recorded in .errors)
     Empty      returns False ("Received empty response")
     Skip       no url / client has no such method / api key needed  (`continue`)
   Provider names are the keys of providers.json, hence pairwise distinct; .results / .errors (dicts in
   insertion order) are association lists in insertion order. *)
From Coq Require Import ZArith List Bool.
From Verif Require Import Gen.GenService Gen.GenConsts Gen.GenNetworks Model.CacheModel.
Import ListNotations.
Open Scope Z_scope.

(* ------------------------------------------------------------------ Python values that travel through the layer *)
Inductive value :=
| VInt (z : Z)
| VNone
| VStr (id : Z)              (* a non-empty string that is not a raw transaction *)
| VBool (b : bool)
| VTx (t : txrec)
| VUtxos (vals : list Z)     (* list of utxo dicts, by their values *)
| VDict (id : Z)
| VRaw (k : Z).              (* raw transaction hex of content k *)

Definition truthy (v : value) : bool :=
  match v with
  | VInt z => negb (z =? 0)
  | VNone => false
  | VStr _ => true
  | VBool b => b
  | VTx _ => true
  | VUtxos l => match l with [] => false | _ => true end
  | VDict _ => true
  | VRaw _ => true
  end.

(* int / bool operands of a Python comparison; anything else raises TypeError *)
Definition as_num (v : value) : option Z :=
  match v with VInt z => Some z | VBool b => Some (if b then 1 else 0) | _ => None end.
Definition py_gt (a b : value) : option bool :=
  match as_num a, as_num b with Some x, Some y => Some (y <? x) | _, _ => None end.
Definition py_ge (a b : value) : option bool :=
  match as_num a, as_num b with Some x, Some y => Some (y <=? x) | _, _ => None end.

Inductive outcome := Ok (v : value) | Raise (e : Z) | RaiseAttr | Empty | Skip.
Inductive errtok := EExc (e : Z) | EEmpty.
Inductive exec_result := Value (v : value) | RetFalse | ServiceErr.
Definition provider := (Z * outcome)%type.
Definition results := list (Z * value).
Definition errors := list (Z * errtok).

(* ------------------------------------------------------------------ provider order
   sorted([(name, priority)], key=lambda x: (x[1], random.random()), reverse=True): descending by
   (priority, tie-break); Python's sort is stable, also with reverse=True. *)
Record pspec := { p_id : Z; p_prio : Z; p_tb : Z }.

Definition key_lt (a b : pspec) : bool :=
  (p_prio a <? p_prio b) || ((p_prio a =? p_prio b) && (p_tb a <? p_tb b)).

Fixpoint insert_desc (x : pspec) (l : list pspec) : list pspec :=
  match l with
  | [] => [x]
  | y :: tl => if key_lt x y then y :: insert_desc x tl else x :: l
  end.

Fixpoint lib_order (l : list pspec) : list pspec :=
  match l with
  | [] => []
  | x :: tl => insert_desc x (lib_order tl)
  end.

(* ------------------------------------------------------------------ _provider_execute
   One iteration per provider, in order.  [res] / [errs] are self.results / self.errors so far
   (resultcount = len res). *)
Definition finish (res : results) : exec_result :=
  match res with [] => ServiceErr | (_, v) :: _ => Value v end.          (* l.237-239 *)

Definition at_limit (res : results) : exec_result :=
  match res with [] => RetFalse | (_, v) :: _ => Value v end.            (* l.228-231 *)

Fixpoint exec_loop (maxp maxe : Z) (ps : list provider) (res : results) (errs : errors)
  : exec_result * results * errors :=
  match ps with
  | [] => (finish res, res, errs)
  | (n, o) :: tl =>
    if maxp <=? Z.of_nat (length res) then (finish res, res, errs)        (* l.178 / l.233 break *)
    else match o with
    | Skip => exec_loop maxp maxe tl res errs                             (* l.183 / l.194 / l.197 continue *)
    | Empty => exec_loop maxp maxe tl res (errs ++ [(n, EEmpty)])         (* l.200-205: recorded, limit NOT tested *)
    | Ok v => exec_loop maxp maxe tl (res ++ [(n, v)]) errs               (* l.206-210 *)
    | Raise e =>
        let errs' := errs ++ [(n, EExc e)] in                             (* l.212-219 *)
        if maxe <=? Z.of_nat (length errs') then (at_limit res, res, errs')   (* l.225-231 *)
        else exec_loop maxp maxe tl res errs'
    | RaiseAttr =>                                                        (* AttributeError: not recorded, limit tested *)
        if maxe <=? Z.of_nat (length errs) then (at_limit res, res, errs)
        else exec_loop maxp maxe tl res errs
    end
  end.

Record settings := { st_minp : Z; st_maxp : Z; st_maxe : Z; st_net : network }.

(* __init__: if min_providers > max_providers: max_providers = min_providers *)
Definition eff_maxp (st : settings) : Z := if st_maxp st <? st_minp st then st_minp st else st_maxp st.

Definition lib_provider_execute (st : settings) (ps : list provider) : exec_result * results * errors :=
  exec_loop (eff_maxp st) (st_maxe st) ps [] [].                         (* _reset_results, then the loop *)

(* ------------------------------------------------------------------ Service object state and wrapper results *)
Record svc := { s_res : results; s_errs : errors; s_bc : value (* _blockcount *); s_upd : Z (* _blockcount_update *) }.
Definition svc0 : svc := {| s_res := []; s_errs := []; s_bc := VNone; s_upd := 0 |}.
Definition set_exec (s : svc) (res : results) (errs : errors) : svc :=
  {| s_res := res; s_errs := errs; s_bc := s_bc s; s_upd := s_upd s |}.
Definition set_bc (s : svc) (v : value) (upd : Z) : svc :=
  {| s_res := s_res s; s_errs := s_errs s; s_bc := v; s_upd := upd |}.

Inductive wres :=
| WRet (v : value)                 (* returned normally (False is WRet (VBool false)) *)
| WAddr (a : option addrrec)       (* getcacheaddressinfo *)
| WServiceErr                      (* raised ServiceError *)
| WOtherErr.                       (* raised TypeError / AttributeError / KeyError while digesting an answer *)

Definition nz (o : option Z) : option Z := match o with Some z => if z =? 0 then None else Some z | None => None end.

Definition ret_value (r : exec_result) : value := match r with Value v => v | _ => VBool false end.

(* ------------------------------------------------------------------ blockcount()  l.495-528 *)
Definition lib_blockcount (st : settings) (now : Z) (ps : list provider) (c : cache) (s : svc) : wres * cache * svc :=
  match nz (cache_blockcount c now) with
  | Some b => (WRet (VInt b), c, set_bc s (VInt b) (s_upd s))
  | None =>
    if s_upd s <? now - svc_BLOCK_COUNT_CACHE_TIME then
      let '(r, res, errs) := lib_provider_execute st ps in
      let s1 := set_exec s res errs in
      match r with
      | ServiceErr => (WServiceErr, c, s1)
      | _ =>
        let nc := ret_value r in
        let lastv := match cache_blockcount_never c with Some l => VInt l | None => VBool false end in
        match py_gt lastv nc with
        | None => (WOtherErr, c, s1)
        | Some gt =>
          let s2 :=
            if gt then Some (set_bc s1 nc now)
              (* "provider consensus": five more identical calls, sorted([last; nc x 5])[-2] = nc since nc < last *)
            else if negb (truthy (s_bc s1)) then Some (set_bc s1 nc now)
            else if truthy nc then
              match py_gt nc (s_bc s1) with
              | None => None
              | Some true => Some (set_bc s1 nc now)
              | Some false => Some s1
              end
            else Some s1 in
          match s2 with
          | None => (WOtherErr, c, s1)
          | Some s2 =>
            let c2 := match res, s_bc s2 with
                      | _ :: _, VInt z => cache_store_blockcount c now z
                      | _, _ => c
                      end in
            (WRet (s_bc s2), c2, s2)
          end
        end
      end
    else (WRet (s_bc s), c, s)
  end.

(* ------------------------------------------------------------------ __init__  l.156-160 *)
Inductive ires := IOk (c : cache) (s : svc) | IServiceErr | IOtherErr.

Definition lib_init (st : settings) (now : Z) (bc_ps : list provider) (c : cache) : ires :=
  if 1 <? st_minp st then
    (* Service(network, cache_uri, providers, ...).blockcount(): a second object with the default settings;
       its own constructor already calls blockcount() once *)
    let stn := {| st_minp := 1; st_maxp := 1; st_maxe := svc_SERVICE_MAX_ERRORS; st_net := st_net st |} in
    match lib_blockcount stn now bc_ps c svc0 with
    | (WRet _, c1, s1) =>
      match lib_blockcount stn now bc_ps c1 s1 with
      | (WRet v, c2, _) => IOk c2 (set_bc svc0 v 0)
      | (WServiceErr, _, _) => IServiceErr
      | _ => IOtherErr
      end
    | (WServiceErr, _, _) => IServiceErr
    | _ => IOtherErr
    end
  else
    match lib_blockcount st now bc_ps c svc0 with
    | (WRet v, c1, s1) => IOk c1 (set_bc s1 v (s_upd s1))
    | (WServiceErr, _, _) => IServiceErr
    | _ => IOtherErr
    end.

(* ------------------------------------------------------------------ getbalance(address)  l.241-269, one address.
   [q_ps] / [q_ps_empty]: what the providers do when asked for [address] / for the empty address list (the
   code still calls them after the address was served from the cache).
   [raise_on_false]: the wrapper tests `balance is False` and raises (Gen.svc_getbalance_raises_on_false). *)
Definition balance_to_store (v : value) : option (option Z) :=
  match v with
  | VInt z => Some (Some z)
  | VNone => Some None
  | VBool b => Some (Some (if b then 1 else 0))
  | _ => None
  end.

Definition lib_getbalance_gen (raise_on_false : bool) (st : settings) (now : Z)
    (bc_ps q_ps q_ps_empty : list provider) (addr : Z) (c : cache) (s : svc) : wres * cache * svc :=
  let uncached (c : cache) (s : svc) :=
    let '(r, res, errs) := lib_provider_execute st q_ps in
    let s1 := set_exec s res errs in
    match r with
    | ServiceErr => (WServiceErr, c, s1)
    | _ =>
      if (match r with RetFalse => raise_on_false | _ => false end) then (WServiceErr, c, s1)
      else
        let b := ret_value r in
        let tot := if truthy b then as_num b else Some 0 in          (* if balance: tot_balance += balance *)
        match tot with
        | None => (WOtherErr, c, s1)
        | Some tot =>
          let c1 := match balance_to_store b with                    (* len(addresslist) == 1: store_address *)
                    | Some bal => cache_store_address c addr None bal None
                    | None => c
                    end in
          (WRet (VInt tot), c1, s1)
        end
    end in
  match cache_getaddr c addr with
  | Some r =>
    match nz (a_last_block r) with
    | Some lb =>
      match lib_blockcount st now bc_ps c s with                      (* db_addr.last_block >= self.blockcount() *)
      | (WRet bcv, c1, s1) =>
        match py_ge (VInt lb) bcv with
        | None => (WOtherErr, c1, s1)
        | Some true =>
          match nz (a_balance r) with
          | Some bal =>
            (* served from the cache; addresslist is now empty and the providers are still called *)
            let '(r2, res, errs) := lib_provider_execute st q_ps_empty in
            let s2 := set_exec s1 res errs in
            match r2 with
            | ServiceErr => (WServiceErr, c1, s2)
            | _ =>
              if (match r2 with RetFalse => raise_on_false | _ => false end) then (WServiceErr, c1, s2)
              else
                let b := ret_value r2 in
                match (if truthy b then as_num b else Some 0) with
                | None => (WOtherErr, c1, s2)
                | Some extra => (WRet (VInt (bal + extra)), c1, s2)
                end
            end
          | None => uncached c1 s1
          end
        | Some false => uncached c1 s1
        end
      | (WServiceErr, c1, s1) => (WServiceErr, c1, s1)
      | (_, c1, s1) => (WOtherErr, c1, s1)
      end
    | None => uncached c s
    end
  | None => uncached c s
  end.

Definition lib_getbalance := lib_getbalance_gen svc_getbalance_raises_on_false.

(* ------------------------------------------------------------------ getutxos(address)  l.271-316
   after_txid = '', limit = MAX_TRANSACTIONS; restricted to addresses for which no transaction output is cached
   (Cache.getutxos returns [], Cache.store_utxo updates nothing). *)
Fixpoint zsum (l : list Z) : Z := match l with [] => 0 | x :: tl => x + zsum tl end.

Definition lib_getutxos (st : settings) (q_ps : list provider) (addr : Z) (c : cache) (s : svc) : wres * cache * svc :=
  let '(r, res, errs) := lib_provider_execute st q_ps in
  let s1 := set_exec s res errs in
  match r with
  | ServiceErr => (WServiceErr, c, s1)
  | RetFalse => if svc_getutxos_raises_on_false then (WServiceErr, c, s1) else (WOtherErr, c, s1)
  | Value (VUtxos vals) =>
    let n := Z.of_nat (length vals) in
    if truthy (VUtxos vals) && (cfg_MAX_TRANSACTIONS <=? n) then (WRet (VUtxos vals), c, s1)
    else (WRet (VUtxos vals), cache_store_address c addr None (Some (zsum vals)) (Some n), s1)
  | Value _ => (WOtherErr, c, s1)                                     (* for utxo in utxos: utxo['txid'] *)
  end.

(* ------------------------------------------------------------------ gettransaction(txid)  l.318-341 *)
Definition relabel (t : txrec) (txid : Z) : txrec :=
  {| t_txid := txid; t_content := t_content t; t_confirmed := t_confirmed t; t_spent := t_spent t |}.

Definition lib_gettransaction (st : settings) (q_ps : list provider) (txid : Z) (c : cache) (s : svc) : wres * cache * svc :=
  match (if st_minp st <=? 1 then cache_gettx c txid else None) with
  | Some t => (WRet (VTx t), c, s)
  | None =>
    let '(r, res, errs) := lib_provider_execute st q_ps in
    let s1 := set_exec s res errs in
    match r with
    | ServiceErr => (WServiceErr, c, s1)
    | RetFalse => (WRet (VBool false), c, s1)
    | Value (VTx t) =>
      let t' := relabel t txid in                                     (* "Incorrect txid after parsing": tx.txid = txid *)
      (* the object is changed in place, so the first entry of .results shows the new id as well *)
      let s1' := set_exec s (match res with (n, _) :: tl => (n, VTx t') :: tl | [] => [] end) errs in
      (WRet (VTx t'), (if st_minp st <=? 1 then cache_store_tx c t' else c), s1')
    | Value v =>
      if truthy v then (WOtherErr, c, s1)                             (* tx.txid *)
      else if (st_minp st <=? 1) && c_on c then (WOtherErr, c, s1)    (* store_transaction(tx): t.txid *)
      else (WRet v, c, s1)
    end
  end.

(* ------------------------------------------------------------------ getrawtransaction(txid)  l.432-446 *)
Definition passthrough (st : settings) (q_ps : list provider) (c : cache) (s : svc) : wres * cache * svc :=
  let '(r, res, errs) := lib_provider_execute st q_ps in
  let s1 := set_exec s res errs in
  match r with
  | ServiceErr => (WServiceErr, c, s1)
  | _ => (WRet (ret_value r), c, s1)
  end.

Definition lib_getrawtransaction (st : settings) (q_ps : list provider) (txid : Z) (c : cache) (s : svc) : wres * cache * svc :=
  match cache_gettx c txid with
  | Some t => (WRet (VRaw (t_content t)), c, s)
  | None => passthrough st q_ps c s
  end.

(* sendrawtransaction / getrawblock / mempool / getinfo: `return self._provider_execute(...)` *)
Definition lib_sendrawtransaction := passthrough.

(* isspent(txid, n)  l.647-662: the cached transaction's own flag when it has one, else bool(provider answer) *)
Definition lib_isspent (st : settings) (q_ps : list provider) (txid : Z) (c : cache) (s : svc) : wres * cache * svc :=
  match (match cache_gettx c txid with Some t => t_spent t | None => None end) with
  | Some b => (WRet (VBool b), c, s)
  | None =>
    let '(r, res, errs) := lib_provider_execute st q_ps in
    let s1 := set_exec s res errs in
    match r with
    | ServiceErr => (WServiceErr, c, s1)
    | _ => (WRet (VBool (truthy (ret_value r))), c, s1)
    end
  end.

(* ------------------------------------------------------------------ estimatefee(blocks)  l.459-493 *)
Definition clamp_fee (nw : network) (f : Z) : Z :=
  if f <? nw_fee_min nw then nw_fee_min nw else if nw_fee_max nw <? f then nw_fee_max nw else f.

Definition lib_estimatefee (st : settings) (now : Z) (q_ps : list provider) (blocks : Z) (c : cache) (s : svc)
  : wres * cache * svc :=
  match (if st_minp st <=? 1 then nz (cache_estimatefee c now blocks) else None) with
  | Some f => (WRet (VInt f), c, s)
  | None =>
    let '(r, res, errs) := lib_provider_execute st q_ps in
    let s1 := set_exec s res errs in
    match r with
    | ServiceErr => (WServiceErr, c, s1)
    | _ =>
      let v := ret_value r in
      let fee := if truthy v then Some v
                 else match nz (nw_fee_default (st_net st)) with Some d => Some (VInt d) | None => None end in
      match fee with
      | None => (WServiceErr, c, s1)               (* "Could not estimate fees, please define default fees" *)
      | Some fv =>
        match as_num fv with
        | None => (WOtherErr, c, s1)
        | Some f => let f' := clamp_fee (st_net st) f in (WRet (VInt f'), cache_store_fee c now blocks f', s1)
        end
      end
    end
  end.

(* getcacheaddressinfo(address) *)
Definition lib_cacheinfo (addr : Z) (c : cache) (s : svc) : wres * cache * svc := (WAddr (cache_getaddr c addr), c, s).

(* ------------------------------------------------------------------ one step of a history:
   construct a Service on the shared cache, let [dt] seconds pass, run one query *)
Inductive method :=
| MInit | MGetbalance | MGetutxos | MGettransaction | MGetrawtransaction | MIsspent | MEstimatefee
| MBlockcount | MPassthrough | MCacheinfo.

Inductive step_obs := SInitErr | SInitOther | SObs (r : wres) (res : results) (errs : errors) | SInitOk (res : results) (errs : errors).

Definition lib_step (st : settings) (now dt : Z) (bc_ps q_ps q_ps_empty : list provider) (m : method) (arg : Z)
    (c : cache) : step_obs * cache :=
  match lib_init st now bc_ps c with
  | IServiceErr => (SInitErr, c)
  | IOtherErr => (SInitOther, c)
  | IOk c1 s =>
    let now' := now + dt in
    let run :=
      match m with
      | MInit => None
      | MGetbalance => Some (lib_getbalance st now' bc_ps q_ps q_ps_empty arg c1 s)
      | MGetutxos => Some (lib_getutxos st q_ps arg c1 s)
      | MGettransaction => Some (lib_gettransaction st q_ps arg c1 s)
      | MGetrawtransaction => Some (lib_getrawtransaction st q_ps arg c1 s)
      | MIsspent => Some (lib_isspent st q_ps arg c1 s)
      | MEstimatefee => Some (lib_estimatefee st now' q_ps arg c1 s)
      | MBlockcount => Some (lib_blockcount st now' bc_ps c1 s)
      | MPassthrough => Some (lib_sendrawtransaction st q_ps c1 s)
      | MCacheinfo => Some (lib_cacheinfo arg c1 s)
      end in
    match run with
    | None => (SInitOk (s_res s) (s_errs s), c1)
    | Some (r, c2, s2) => (SObs r (s_res s2) (s_errs s2), c2)
    end
  end.
