(* Model/Service.v — bitcoinlib/services/services.py: provider ordering, Service._provider_execute and the
   query wrappers, mirrored as they are (the lib_ functions).  Definitions only.

   A provider is (name, outcome): what its client does when the queried method is called —
     Ok v       returns v (anything that `is not False`, well-formed or not)
     Raise e    the constructor or the method raises an exception other than AttributeError
     RaiseAttr  getattr(services, provider) / the method raises AttributeError (not recorded in .errors)
     Empty      returns False ("Received empty response")
     Skip       no url / client has no such method / api key needed  (`continue`)
   Provider names are the keys of providers.json, hence pairwise distinct; .results / .errors (dicts in
   insertion order) are association lists in insertion order. *)
From Coq Require Import ZArith List Bool.
From Verif Require Import Gen.GenService Gen.GenConsts Gen.GenNetworks Model.CacheModel.
Import ListNotations.
Open Scope Z_scope.

(* ------------------------------------------------------------------ Python values that travel through the layer *)
Inductive value :=
| VInt (z : Z)
| VNone
| VStr (id : Z)              (* a non-empty string that is not a raw transaction *)
| VBool (b : bool)
| VTx (t : txrec)
| VUtxos (vals : list Z)     (* list of utxo dicts, by their values *)
| VDict (id : Z)
| VRaw (k : Z)               (* raw transaction hex of content k *)
| VTxs (l : list atx)        (* list of Transaction objects (gettransactions) *)
| VUtxoL (l : list utxo)     (* list of utxo dicts of the address index (getutxos with a cache) *)
| VAtx (t : atx)             (* one Transaction object of the address index *)
| VBlock (h cnt : Z) (txs : list atx) (parsed : bool).   (* Block: height, tx_count, the page of transactions (objects / ids) *)

Definition truthy (v : value) : bool :=
  match v with
  | VInt z => negb (z =? 0)
  | VNone => false
  | VStr _ => true
  | VBool b => b
  | VTx _ => true
  | VUtxos l => match l with [] => false | _ => true end
  | VDict _ => true
  | VRaw _ => true
  | VTxs l => match l with [] => false | _ => true end
  | VUtxoL l => match l with [] => false | _ => true end
  | VAtx _ => true
  | VBlock _ _ _ _ => true
  end.

(* int / bool operands of a Python comparison; anything else raises TypeError *)
Definition as_num (v : value) : option Z :=
  match v with VInt z => Some z | VBool b => Some (if b then 1 else 0) | _ => None end.
Definition py_gt (a b : value) : option bool :=
  match as_num a, as_num b with Some x, Some y => Some (y <? x) | _, _ => None end.
Definition py_ge (a b : value) : option bool :=
  match as_num a, as_num b with Some x, Some y => Some (y <=? x) | _, _ => None end.

Inductive outcome := Ok (v : value) | Raise (e : Z) | RaiseAttr | Empty | Skip.
Inductive errtok := EExc (e : Z) | EEmpty.
Inductive exec_result := Value (v : value) | RetFalse | ServiceErr.
Definition provider := (Z * outcome)%type.
Definition results := list (Z * value).
Definition errors := list (Z * errtok).

(* ------------------------------------------------------------------ provider order
   sorted([(name, priority)], key=lambda x: (x[1], random.random()), reverse=True): descending by
   (priority, tie-break); Python's sort is stable, also with reverse=True. *)
Record pspec := { p_id : Z; p_prio : Z; p_tb : Z }.

Definition key_lt (a b : pspec) : bool :=
  (p_prio a <? p_prio b) || ((p_prio a =? p_prio b) && (p_tb a <? p_tb b)).

Fixpoint insert_desc (x : pspec) (l : list pspec) : list pspec :=
  match l with
  | [] => [x]
  | y :: tl => if key_lt x y then y :: insert_desc x tl else x :: l
  end.

Fixpoint lib_order (l : list pspec) : list pspec :=
  match l with
  | [] => []
  | x :: tl => insert_desc x (lib_order tl)
  end.

(* ------------------------------------------------------------------ _provider_execute
   One iteration per provider, in order.  [res] / [errs] are self.results / self.errors so far
   (resultcount = len res). *)
Definition finish (res : results) : exec_result :=
  match res with [] => ServiceErr | (_, v) :: _ => Value v end.          (* l.237-239 *)

Definition at_limit (res : results) : exec_result :=
  match res with [] => RetFalse | (_, v) :: _ => Value v end.            (* l.228-231 *)

Fixpoint exec_loop (maxp maxe : Z) (ps : list provider) (res : results) (errs : errors)
  : exec_result * results * errors :=
  match ps with
  | [] => (finish res, res, errs)
  | (n, o) :: tl =>
    if maxp <=? Z.of_nat (length res) then (finish res, res, errs)        (* l.178 / l.233 break *)
    else match o with
    | Skip => exec_loop maxp maxe tl res errs                             (* l.183 / l.194 / l.197 continue *)
    | Empty => exec_loop maxp maxe tl res (errs ++ [(n, EEmpty)])         (* l.200-205: recorded, limit NOT tested *)
    | Ok v => exec_loop maxp maxe tl (res ++ [(n, v)]) errs               (* l.206-210 *)
    | Raise e =>
        let errs' := errs ++ [(n, EExc e)] in                             (* l.212-219 *)
        if maxe <=? Z.of_nat (length errs') then (at_limit res, res, errs')   (* l.225-231 *)
        else exec_loop maxp maxe tl res errs'
    | RaiseAttr =>                                                        (* AttributeError: not recorded, limit tested *)
        if maxe <=? Z.of_nat (length errs) then (at_limit res, res, errs)
        else exec_loop maxp maxe tl res errs
    end
  end.

Record settings := { st_minp : Z; st_maxp : Z; st_maxe : Z; st_net : network }.

(* __init__: if min_providers > max_providers: max_providers = min_providers *)
Definition eff_maxp (st : settings) : Z := if st_maxp st <? st_minp st then st_minp st else st_maxp st.

Definition lib_provider_execute (st : settings) (ps : list provider) : exec_result * results * errors :=
  exec_loop (eff_maxp st) (st_maxe st) ps [] [].                         (* _reset_results, then the loop *)

(* ------------------------------------------------------------------ Service object state and wrapper results *)
Record svc := { s_res : results; s_errs : errors; s_bc : value (* _blockcount *); s_upd : Z (* _blockcount_update *) }.
Definition svc0 : svc := {| s_res := []; s_errs := []; s_bc := VNone; s_upd := 0 |}.
Definition set_exec (s : svc) (res : results) (errs : errors) : svc :=
  {| s_res := res; s_errs := errs; s_bc := s_bc s; s_upd := s_upd s |}.
Definition set_bc (s : svc) (v : value) (upd : Z) : svc :=
  {| s_res := s_res s; s_errs := s_errs s; s_bc := v; s_upd := upd |}.

Inductive wres :=
| WRet (v : value)                 (* returned normally (False is WRet (VBool false)) *)
| WAddr (a : option addrrec)       (* getcacheaddressinfo *)
| WServiceErr                      (* raised ServiceError *)
| WOtherErr.                       (* raised TypeError / AttributeError / KeyError while digesting an answer *)

Definition nz (o : option Z) : option Z := match o with Some z => if z =? 0 then None else Some z | None => None end.

Definition ret_value (r : exec_result) : value := match r with Value v => v | _ => VBool false end.

(* ------------------------------------------------------------------ blockcount()  l.495-528 *)
Definition lib_blockcount (st : settings) (now : Z) (ps : list provider) (c : cache) (s : svc) : wres * cache * svc :=
  match nz (cache_blockcount c now) with
  | Some b => (WRet (VInt b), c, set_bc s (VInt b) (s_upd s))
  | None =>
    if s_upd s <? now - svc_BLOCK_COUNT_CACHE_TIME then
      let '(r, res, errs) := lib_provider_execute st ps in
      let s1 := set_exec s res errs in
      match r with
      | ServiceErr => (WServiceErr, c, s1)
      | _ =>
        let nc := ret_value r in
        let lastv := match cache_blockcount_never c with Some l => VInt l | None => VBool false end in
        match py_gt lastv nc with
        | None => (WOtherErr, c, s1)
        | Some gt =>
          let s2 :=
            if gt then Some (set_bc s1 nc now)
              (* "provider consensus": five more identical calls, sorted([last; nc x 5])[-2] = nc since nc < last *)
            else if negb (truthy (s_bc s1)) then Some (set_bc s1 nc now)
            else if truthy nc then
              match py_gt nc (s_bc s1) with
              | None => None
              | Some true => Some (set_bc s1 nc now)
              | Some false => Some s1
              end
            else Some s1 in
          match s2 with
          | None => (WOtherErr, c, s1)
          | Some s2 =>
            let c2 := match res, s_bc s2 with
                      | _ :: _, VInt z => cache_store_blockcount c now z
                      | _, _ => c
                      end in
            (WRet (s_bc s2), c2, s2)
          end
        end
      end
    else (WRet (s_bc s), c, s)
  end.

(* ------------------------------------------------------------------ __init__  l.156-160 *)
Inductive ires := IOk (c : cache) (s : svc) | IServiceErr | IOtherErr.

Definition lib_init (st : settings) (now : Z) (bc_ps : list provider) (c : cache) : ires :=
  if 1 <? st_minp st then
    (* Service(network, cache_uri, providers, ...).blockcount(): a second object with the default settings;
       its own constructor already calls blockcount() once *)
    let stn := {| st_minp := 1; st_maxp := 1; st_maxe := svc_SERVICE_MAX_ERRORS; st_net := st_net st |} in
    match lib_blockcount stn now bc_ps c svc0 with
    | (WRet _, c1, s1) =>
      match lib_blockcount stn now bc_ps c1 s1 with
      | (WRet v, c2, _) => IOk c2 (set_bc svc0 v 0)
      | (WServiceErr, _, _) => IServiceErr
      | _ => IOtherErr
      end
    | (WServiceErr, _, _) => IServiceErr
    | _ => IOtherErr
    end
  else
    match lib_blockcount st now bc_ps c svc0 with
    | (WRet v, c1, s1) => IOk c1 (set_bc s1 v (s_upd s1))
    | (WServiceErr, _, _) => IServiceErr
    | _ => IOtherErr
    end.

(* ------------------------------------------------------------------ getbalance(address)  l.241-269, one address.
   [q_ps] / [q_ps_empty]: what the providers do when asked for [address] / for the empty address list (the
   code still calls them after the address was served from the cache).
   [raise_on_false]: the wrapper tests `balance is False` and raises (Gen.svc_getbalance_raises_on_false). *)
Definition balance_to_store (v : value) : option (option Z) :=
  match v with
  | VInt z => Some (Some z)
  | VNone => Some None
  | VBool b => Some (Some (if b then 1 else 0))
  | _ => None
  end.

Definition lib_getbalance_gen (raise_on_false : bool) (st : settings) (now : Z)
    (bc_ps q_ps q_ps_empty : list provider) (addr : Z) (c : cache) (s : svc) : wres * cache * svc :=
  let uncached (c : cache) (s : svc) :=
    let '(r, res, errs) := lib_provider_execute st q_ps in
    let s1 := set_exec s res errs in
    match r with
    | ServiceErr => (WServiceErr, c, s1)
    | _ =>
      if (match r with RetFalse => raise_on_false | _ => false end) then (WServiceErr, c, s1)
      else
        let b := ret_value r in
        let tot := if truthy b then as_num b else Some 0 in          (* if balance: tot_balance += balance *)
        match tot with
        | None => (WOtherErr, c, s1)
        | Some tot =>
          let c1 := match balance_to_store b with                    (* len(addresslist) == 1: store_address *)
                    | Some bal => cache_store_address c addr None bal None
                    | None => c
                    end in
          (WRet (VInt tot), c1, s1)
        end
    end in
  match cache_getaddr c addr with
  | Some r =>
    match nz (a_last_block r) with
    | Some lb =>
      match lib_blockcount st now bc_ps c s with                      (* db_addr.last_block >= self.blockcount() *)
      | (WRet bcv, c1, s1) =>
        match py_ge (VInt lb) bcv with
        | None => (WOtherErr, c1, s1)
        | Some true =>
          match nz (a_balance r) with
          | Some bal =>
            (* served from the cache; addresslist is now empty and the providers are still called *)
            let '(r2, res, errs) := lib_provider_execute st q_ps_empty in
            let s2 := set_exec s1 res errs in
            match r2 with
            | ServiceErr => (WServiceErr, c1, s2)
            | _ =>
              if (match r2 with RetFalse => raise_on_false | _ => false end) then (WServiceErr, c1, s2)
              else
                let b := ret_value r2 in
                match (if truthy b then as_num b else Some 0) with
                | None => (WOtherErr, c1, s2)
                | Some extra => (WRet (VInt (bal + extra)), c1, s2)
                end
            end
          | None => uncached c1 s1
          end
        | Some false => uncached c1 s1
        end
      | (WServiceErr, c1, s1) => (WServiceErr, c1, s1)
      | (_, c1, s1) => (WOtherErr, c1, s1)
      end
    | None => uncached c s
    end
  | None => uncached c s
  end.

Definition lib_getbalance := lib_getbalance_gen svc_getbalance_raises_on_false.

(* ------------------------------------------------------------------ getutxos(address)  l.271-316
   after_txid = '', limit = MAX_TRANSACTIONS; restricted to addresses for which no transaction output is cached
   (Cache.getutxos returns [], Cache.store_utxo updates nothing). *)
Fixpoint zsum (l : list Z) : Z := match l with [] => 0 | x :: tl => x + zsum tl end.

Definition lib_getutxos (st : settings) (q_ps : list provider) (addr : Z) (c : cache) (s : svc) : wres * cache * svc :=
  let '(r, res, errs) := lib_provider_execute st q_ps in
  let s1 := set_exec s res errs in
  match r with
  | ServiceErr => (WServiceErr, c, s1)
  | RetFalse => if svc_getutxos_raises_on_false then (WServiceErr, c, s1) else (WOtherErr, c, s1)
  | Value (VUtxos vals) =>
    let n := Z.of_nat (length vals) in
    if truthy (VUtxos vals) && (cfg_MAX_TRANSACTIONS <=? n) then (WRet (VUtxos vals), c, s1)
    else (WRet (VUtxos vals), cache_store_address c addr None (Some (zsum vals)) (Some n), s1)
  | Value _ => (WOtherErr, c, s1)                                     (* for utxo in utxos: utxo['txid'] *)
  end.

(* ------------------------------------------------------------------ gettransaction(txid)  l.318-341 *)
Definition relabel (t : txrec) (txid : Z) : txrec :=
  {| t_txid := txid; t_content := t_content t; t_confirmed := t_confirmed t; t_spent := t_spent t |}.

Definition lib_gettransaction (st : settings) (q_ps : list provider) (txid : Z) (c : cache) (s : svc) : wres * cache * svc :=
  match (if st_minp st <=? 1 then cache_gettx c txid else None) with
  | Some t => (WRet (VTx t), c, s)
  | None =>
    let '(r, res, errs) := lib_provider_execute st q_ps in
    let s1 := set_exec s res errs in
    match r with
    | ServiceErr => (WServiceErr, c, s1)
    | RetFalse => (WRet (VBool false), c, s1)
    | Value (VTx t) =>
      let t' := relabel t txid in                                     (* "Incorrect txid after parsing": tx.txid = txid *)
      (* the object is changed in place, so the first entry of .results shows the new id as well *)
      let s1' := set_exec s (match res with (n, _) :: tl => (n, VTx t') :: tl | [] => [] end) errs in
      (WRet (VTx t'), (if st_minp st <=? 1 then cache_store_tx c t' else c), s1')
    | Value v =>
      if truthy v then (WOtherErr, c, s1)                             (* tx.txid *)
      else if (st_minp st <=? 1) && c_on c then (WOtherErr, c, s1)    (* store_transaction(tx): t.txid *)
      else (WRet v, c, s1)
    end
  end.

(* ------------------------------------------------------------------ getrawtransaction(txid)  l.432-446 *)
Definition passthrough (st : settings) (q_ps : list provider) (c : cache) (s : svc) : wres * cache * svc :=
  let '(r, res, errs) := lib_provider_execute st q_ps in
  let s1 := set_exec s res errs in
  match r with
  | ServiceErr => (WServiceErr, c, s1)
  | _ => (WRet (ret_value r), c, s1)
  end.

Definition lib_getrawtransaction (st : settings) (q_ps : list provider) (txid : Z) (c : cache) (s : svc) : wres * cache * svc :=
  match cache_gettx c txid with
  | Some t => (WRet (VRaw (t_content t)), c, s)
  | None => passthrough st q_ps c s
  end.

(* sendrawtransaction / getrawblock / mempool / getinfo: `return self._provider_execute(...)` *)
Definition lib_sendrawtransaction := passthrough.

(* isspent(txid, n)  l.647-662: the cached transaction's own flag when it has one, else bool(provider answer) *)
Definition lib_isspent (st : settings) (q_ps : list provider) (txid : Z) (c : cache) (s : svc) : wres * cache * svc :=
  match (match cache_gettx c txid with Some t => t_spent t | None => None end) with
  | Some b => (WRet (VBool b), c, s)
  | None =>
    let '(r, res, errs) := lib_provider_execute st q_ps in
    let s1 := set_exec s res errs in
    match r with
    | ServiceErr => (WServiceErr, c, s1)
    | _ => (WRet (VBool (truthy (ret_value r))), c, s1)
    end
  end.

(* ------------------------------------------------------------------ estimatefee(blocks)  l.459-493 *)
Definition clamp_fee (nw : network) (f : Z) : Z :=
  if f <? nw_fee_min nw then nw_fee_min nw else if nw_fee_max nw <? f then nw_fee_max nw else f.

Definition lib_estimatefee (st : settings) (now : Z) (q_ps : list provider) (blocks : Z) (c : cache) (s : svc)
  : wres * cache * svc :=
  match (if st_minp st <=? 1 then nz (cache_estimatefee c now blocks) else None) with
  | Some f => (WRet (VInt f), c, s)
  | None =>
    let '(r, res, errs) := lib_provider_execute st q_ps in
    let s1 := set_exec s res errs in
    match r with
    | ServiceErr => (WServiceErr, c, s1)
    | _ =>
      let v := ret_value r in
      let fee := if truthy v then Some v
                 else match nz (nw_fee_default (st_net st)) with Some d => Some (VInt d) | None => None end in
      match fee with
      | None => (WServiceErr, c, s1)               (* "Could not estimate fees, please define default fees" *)
      | Some fv =>
        match as_num fv with
        | None => (WOtherErr, c, s1)
        | Some f => let f' := clamp_fee (st_net st) f in (WRet (VInt f'), cache_store_fee c now blocks f', s1)
        end
      end
    end
  end.

(* getcacheaddressinfo(address) *)
Definition lib_cacheinfo (addr : Z) (c : cache) (s : svc) : wres * cache * svc := (WAddr (cache_getaddr c addr), c, s).

(* ------------------------------------------------------------------ one step of a history:
   construct a Service on the shared cache, let [dt] seconds pass, run one query *)
Inductive method :=
| MInit | MGetbalance | MGetutxos | MGettransaction | MGetrawtransaction | MIsspent | MEstimatefee
| MBlockcount | MPassthrough | MCacheinfo.

Inductive step_obs := SInitErr | SInitOther | SObs (r : wres) (res : results) (errs : errors) | SInitOk (res : results) (errs : errors).

Definition lib_step (st : settings) (now dt : Z) (bc_ps q_ps q_ps_empty : list provider) (m : method) (arg : Z)
    (c : cache) : step_obs * cache :=
  match lib_init st now bc_ps c with
  | IServiceErr => (SInitErr, c)
  | IOtherErr => (SInitOther, c)
  | IOk c1 s =>
    let now' := now + dt in
    let run :=
      match m with
      | MInit => None
      | MGetbalance => Some (lib_getbalance st now' bc_ps q_ps q_ps_empty arg c1 s)
      | MGetutxos => Some (lib_getutxos st q_ps arg c1 s)
      | MGettransaction => Some (lib_gettransaction st q_ps arg c1 s)
      | MGetrawtransaction => Some (lib_getrawtransaction st q_ps arg c1 s)
      | MIsspent => Some (lib_isspent st q_ps arg c1 s)
      | MEstimatefee => Some (lib_estimatefee st now' q_ps arg c1 s)
      | MBlockcount => Some (lib_blockcount st now' bc_ps c1 s)
      | MPassthrough => Some (lib_sendrawtransaction st q_ps c1 s)
      | MCacheinfo => Some (lib_cacheinfo arg c1 s)
      end in
    match run with
    | None => (SInitOk (s_res s) (s_errs s), c1)
    | Some (r, c2, s2) => (SObs r (s_res s2) (s_errs s2), c2)
    end
  end.

(* ====================================================================================================
   The address index: gettransactions / getutxos / gettransaction over Model.CacheModel.xcache.

   A provider that answers holds a VIEW of the chain (the transactions it knows, oldest first) and answers the
   query it is asked: the transactions of the address after [after], at most [limit] of them. *)
Inductive aoutcome := AView (view : list atx) | AOut (o : outcome).

Fixpoint drop_to (aid : Z) (l : list atx) : option (list atx) :=
  match l with
  | [] => None
  | t :: tl => if atx_id t =? aid then Some tl else drop_to aid tl
  end.

Definition after_slice (after : option Z) (l : list atx) : list atx :=
  match after with
  | None => l
  | Some aid => match drop_to aid l with Some r => r | None => [] end
  end.

Definition prov_txs (view : list atx) (a : Z) (after : option Z) (limit : Z) : list atx :=
  firstn (Z.to_nat limit) (after_slice after (filter (touches a) view)).

(* some input of the address in [txs] spends the observed output of [t] *)
Definition spent_in (txs : list atx) (a : Z) (t : atx) : bool :=
  existsb (fun s => addr_is a (src_addr s) && (fst (atx_prev s) =? atx_id t) && (snd (atx_prev s) =? atx_oidx t)) txs.

Definition prov_utxos (view : list atx) (a : Z) (after : option Z) (limit : Z) : list utxo :=
  firstn (Z.to_nat limit)
    (map utxo_of (filter (fun t => pays a t && negb (spent_in view a t)) (after_slice after (filter (touches a) view)))).

Fixpoint find_atx (txid : Z) (l : list atx) : option atx :=
  match l with
  | [] => None
  | t :: tl => if atx_id t =? txid then Some t else find_atx txid tl
  end.

Definition inst_txs (a : Z) (after : option Z) (limit : Z) (p : Z * aoutcome) : provider :=
  (fst p, match snd p with AView v => Ok (VTxs (prov_txs v a after limit)) | AOut o => o end).
Definition inst_utxos (a : Z) (after : option Z) (limit : Z) (p : Z * aoutcome) : provider :=
  (fst p, match snd p with AView v => Ok (VUtxoL (prov_utxos v a after limit)) | AOut o => o end).
Definition inst_tx (txid : Z) (p : Z * aoutcome) : provider :=
  (fst p, match snd p with
          | AView v => match find_atx txid v with Some t => Ok (VAtx t) | None => Raise 404 end
          | AOut o => o
          end).

Definition is_nil {A} (l : list A) : bool := match l with [] => true | _ => false end.
Definition opt_last {A} (l : list A) : option A := match rev l with x :: _ => Some x | [] => None end.
Definition is_some {A} (o : option A) : bool := match o with Some _ => true | None => false end.

(* transaction_update_spents(txs, address): the spent flag of every output of the address is recomputed from the
   inputs of the address in the same list *)
Definition update_spents (a : Z) (txs : list atx) : list atx :=
  map (fun t => if pays a t then set_spent t (Some (spent_in txs a t)) else t) txs.

(* the caching loop of Service.gettransactions: unconfirmed transactions are skipped, index counts the stored ones,
   a refused transaction ends the loop and moves last_block in front of its block *)
Fixpoint store_loop (c : xcache) (txs : list atx) (index : Z) (last_block : option Z) : xcache * option Z :=
  match txs with
  | [] => (c, last_block)
  | t :: tl =>
    if atx_height t =? 0 then store_loop c tl index last_block
    else match xc_store_tx c t index with
         | (StFalse, _) => (c, Some (atx_height t - 1))
         | (StDone, c1) => store_loop c1 tl (index + 1) last_block
         end
  end.

Fixpoint store_all (c : xcache) (txs : list atx) : xcache :=
  match txs with
  | [] => c
  | t :: tl => store_all (snd (xc_store_tx c t (-1))) tl
  end.

(* (return / raise, results_cache_n, complete), cache, object *)
Definition xret := ((wres * Z * option bool) * xcache * svc)%type.

Inductive fresh_res := FOk (uptodate : bool) | FErr | FOther.
Inductive prov_res := POk (txs : list atx) (s : svc) | PErr (w : wres) (s : svc).

(* ------------------------------------------------------------------ gettransactions(address, after_txid, limit) *)
Definition lib_gettransactions (st : settings) (now : Z) (bc_ps : list provider) (q : list (Z * aoutcome))
    (addr : Z) (after : option Z) (limit : Z) (c : xcache) (s : svc) : xret :=
  let s0 := set_exec s [] [] in                                             (* _reset_results *)
  let db_addr := cache_getaddr (xc_base c) addr in
  let caching := st_minp st <=? 1 in
  let txs_cache := if caching then xc_gettransactions c addr after limit else [] in
  let cn := Z.of_nat (length txs_cache) in
  if negb (is_nil txs_cache) && (cn =? limit) then ((WRet (VTxs txs_cache), cn, None), c, s0)
  else
  let limit1 := if is_nil txs_cache then limit else limit - cn in
  let qafter := match opt_last txs_cache with Some t => Some (atx_id t) | None => after end in
  (* db_addr and db_addr.last_block and db_addr.last_block >= self.blockcount() *)
  let '(fr, b1, s1) :=
    match db_addr with
    | Some r =>
      match nz (a_last_block r) with
      | Some lb =>
        match lib_blockcount st now bc_ps (xc_base c) s0 with
        | (WRet bcv, b1, s1) => (match py_ge (VInt lb) bcv with Some g => FOk g | None => FOther end, b1, s1)
        | (WServiceErr, b1, s1) => (FErr, b1, s1)
        | (_, b1, s1) => (FOther, b1, s1)
        end
      | None => (FOk false, xc_base c, s0)
      end
    | None => (FOk false, xc_base c, s0)
    end in
  let c1 := with_base c b1 in
  match fr with
  | FErr => ((WServiceErr, cn, None), c1, s1)
  | FOther => ((WOtherErr, cn, None), c1, s1)
  | FOk uptodate =>
    let pr :=
      if negb uptodate || negb caching then
        let '(r, res, errs) := lib_provider_execute st (map (inst_txs addr qafter limit1) q) in
        let s2 := set_exec s1 res errs in
        match r with
        | ServiceErr => PErr WServiceErr s2
        | RetFalse => PErr WServiceErr s2                                   (* if txs is False: raise ServiceError *)
        | Value (VTxs l) => POk l s2
        | Value _ => PErr WOtherErr s2                                      (* for tx in txs: tx.date *)
        end
      else POk [] s1 in
    match pr with
    | PErr w s2 => ((w, cn, None), c1, s2)
    | POk txs s2 =>
      let all := txs_cache ++ txs in
      if (st_minp st <=? 1) && negb (is_some after && negb (is_some db_addr)) && caching then
        match lib_blockcount st now bc_ps (xc_base c1) s2 with              (* last_block = self.blockcount() *)
        | (WRet bcv, b2, s3) =>
          match balance_to_store bcv with
          | None => ((WOtherErr, cn, None), with_base c1 b2, s3)
          | Some lbv =>
            let c2 := with_base c1 b2 in
            let full := Z.of_nat (length txs) =? limit1 in
            let lb_ok :=                                                    (* txs[-1:][0].block_height *)
              if full then match opt_last txs with
                           | Some t => Some (if atx_height t =? 0 then None else Some (atx_height t))
                           | None => None
                           end
              else Some lbv in
            match lb_ok with
            | None => ((WOtherErr, cn, None), c2, s3)
            | Some last_block =>
              let '(c3, last_block1) :=
                if is_nil (s_res s3) then (c2, last_block)
                else let '(c3, lb1) := store_loop c2 txs 0 last_block in
                     (xc_store_address c3 addr lb1 (Some 0) None (negb full), lb1) in
              if full then ((WRet (VTxs all), cn, Some false), c3, s3)
              else
                let all1 := update_spents addr all in
                let c4 := xc_store_address c3 addr last_block1 (Some 0) None true in
                ((WRet (VTxs all1), cn, Some true), store_all c4 all1, s3)
            end
          end
        | (WServiceErr, b2, s3) => ((WServiceErr, cn, None), with_base c1 b2, s3)
        | (_, b2, s3) => ((WOtherErr, cn, None), with_base c1 b2, s3)
        end
      else ((WRet (VTxs all), cn, None), c1, s2)
    end
  end.

(* ------------------------------------------------------------------ getutxos(address, after_txid, limit) with a cache *)
Fixpoint store_utxos (c : xcache) (l : list utxo) : xcache :=
  match l with
  | [] => c
  | u :: tl => store_utxos (xc_store_utxo c (u_txid u) (u_n u)) tl
  end.

Definition lib_getutxos_x (st : settings) (q : list (Z * aoutcome)) (addr : Z) (after : option Z) (limit : Z)
    (c : xcache) (s : svc) : xret :=
  let cached := if st_minp st <=? 1 then xc_getutxos c addr after else [] in
  let cn := Z.of_nat (length cached) in
  let after1 := match opt_last cached with Some u => Some (u_txid u) | None => after end in
  let '(r, res, errs) := lib_provider_execute st (map (inst_utxos addr after1 limit) q) in
  let s1 := set_exec s res errs in
  match r with
  | ServiceErr => ((WServiceErr, cn, None), c, s1)
  | RetFalse => ((if svc_getutxos_raises_on_false then WServiceErr else WOtherErr, cn, None), c, s1)
  | Value (VUtxoL l) =>
    let c1 := store_utxos c l in
    let n := Z.of_nat (length l) in
    if negb (is_nil l) && (limit <=? n) then ((WRet (VUtxoL (cached ++ l)), cn, Some false), c1, s1)
    else
      let c2 := if is_some after1 then c1
                else xc_store_address c1 addr None (Some (zsum (map u_value l))) (Some n) false in
      ((WRet (VUtxoL (cached ++ l)), cn, None), c2, s1)
  | Value _ => ((WOtherErr, cn, None), c, s1)
  end.

(* ------------------------------------------------------------------ gettransaction(txid) over the address index *)
Definition lib_gettransaction_x (st : settings) (q : list (Z * aoutcome)) (txid : Z) (c : xcache) (s : svc) : xret :=
  match (if st_minp st <=? 1 then xc_gettx c txid else None) with
  | Some t => ((WRet (VAtx t), 1, None), c, s)
  | None =>
    let '(r, res, errs) := lib_provider_execute st (map (inst_tx txid) q) in
    let s1 := set_exec s res errs in
    match r with
    | ServiceErr => ((WServiceErr, 0, None), c, s1)
    | RetFalse => ((WRet (VBool false), 0, None), c, s1)
    | Value (VAtx t) => ((WRet (VAtx t), 0, None), (if st_minp st <=? 1 then snd (xc_store_tx c t (-1)) else c), s1)
    | Value _ => ((WOtherErr, 0, None), c, s1)
    end
  end.

(* ------------------------------------------------------------------ getblock(height, parse_transactions, page, limit)
   A provider that knows the block answers with its header, tx_count and the requested page of its transactions. *)
Definition block_page (btxs : list atx) (page limit : Z) : list atx :=
  firstn (Z.to_nat limit) (skipn (Z.to_nat ((page - 1) * limit)) btxs).

Definition inst_block (h : Z) (parse : bool) (page limit : Z) (p : Z * aoutcome) : provider :=
  (fst p, match snd p with
          | AView v =>
            let btxs := filter (fun t => atx_height t =? h) v in
            if is_nil btxs then Raise 404
            else Ok (VBlock h (Z.of_nat (length btxs)) (block_page btxs page limit) parse)
          | AOut o => o
          end).

Fixpoint store_page (c : xcache) (txs : list atx) (index : Z) : xcache :=
  match txs with
  | [] => c
  | t :: tl => store_page (snd (xc_store_tx c t index)) tl (index + 1)
  end.

Definition lib_getblock (st : settings) (q : list (Z * aoutcome)) (h : Z) (parse : bool) (page limit : Z)
    (c : xcache) (s : svc) : xret :=
  let blk := xc_getblock c h in
  let txs := match blk with Some _ => xc_getblocktransactions c h page limit | None => [] end in
  let need :=
    match blk with
    | None => true
    | Some cnt =>
      let len := Z.of_nat (length txs) in
      let is_last := cnt <? page * limit in
      (is_nil txs && negb (limit =? 0)) || (negb is_last && (len <? limit)) ||
      (is_last && ((page - 1) * limit - cnt + len <? 0))
    end in
  if need then
    let '(r, res, errs) := lib_provider_execute st (map (inst_block h parse page limit) q) in
    let s1 := set_exec s res errs in
    match r with
    | ServiceErr => ((WServiceErr, 0, None), c, s1)
    | RetFalse => ((WRet (VBool false), 0, None), c, s1)                   (* if not bd or isinstance(bd, bool): return False *)
    | Value (VBlock bh cnt btxs parsed) =>
      let c1 := if parse && (st_minp st <=? 1) then store_page c btxs ((page - 1) * limit) else c in
      ((WRet (VBlock bh cnt btxs parsed), 0, Some (Z.of_nat (length btxs) =? cnt)), xc_store_block c1 bh cnt, s1)
    | Value v => ((if truthy v then WOtherErr else WRet (VBool false), 0, None), c, s1)
    end
  else
    match blk with
    | Some cnt => ((WRet (VBlock h cnt txs parse), (if is_nil txs then 0 else 1), None), c, s)
    | None => ((WOtherErr, 0, None), c, s)
    end.

Inductive xmethod :=
| XGettransactions (addr : Z) (after : option Z) (limit : Z)
| XGetutxos (addr : Z) (after : option Z) (limit : Z)
| XGettransaction (txid : Z)
| XCacheinfo (addr : Z)
| XGetblock (h : Z) (parse : bool) (page limit : Z).

Inductive xstep_obs := XInitErr | XInitOther | XObs (r : wres) (cn : Z) (complete : option bool) (res : results) (errs : errors).

Definition lib_xstep (st : settings) (now dt : Z) (bc_ps : list provider) (q : list (Z * aoutcome)) (m : xmethod)
    (c : xcache) : xstep_obs * xcache :=
  match lib_init st now bc_ps (xc_base c) with
  | IServiceErr => (XInitErr, c)
  | IOtherErr => (XInitOther, c)
  | IOk b1 s =>
    let c1 := with_base c b1 in
    let now' := now + dt in
    let '((r, cn, k), c2, s2) :=
      match m with
      | XGettransactions a after limit => lib_gettransactions st now' bc_ps q a after limit c1 s
      | XGetutxos a after limit => lib_getutxos_x st q a after limit c1 s
      | XGettransaction txid => lib_gettransaction_x st q txid c1 s
      | XCacheinfo a => ((WAddr (cache_getaddr (xc_base c1) a), 0, None), c1, s)
      | XGetblock h parse page limit => lib_getblock st q h parse page limit c1 s
      end in
    (XObs r cn k (s_res s2) (s_errs s2), c2)
  end.
