(* Model/BumpFee.v — Transaction.bumpfee (bitcoinlib/transactions.py) and WalletTransaction.bumpfee
   (bitcoinlib/wallets.py).  Definitions only.
   [repaired = true] mirrors the working tree with fixes/C07-3 (the change output pays the REMAINING extra
   fee); [repaired = false] keeps the original statement [outp.value -= extra_fee] for the recorded witness. *)
From Coq Require Import ZArith List Bool.
From Verif Require Import Lib.Bytes Gen.GenNetworks Gen.GenConsts Model.CoinSelect Model.TxCreate.
Import ListNotations.
Open Scope Z_scope.

Record btx := {
  b_inputs : list utxo;
  b_outputs : list txout;
  b_fee : Z;
  b_vsize : Z
}.

Definition with_value (o : txout) (v : Z) : txout :=
  {| o_dest := o_dest o; o_value := v; o_change := o_change o |}.

(* fee / extra_fee arguments -> (new fee, extra fee);  mult = the binary64 value of 1.03 ** 5 *)
Definition bump_amounts (b : btx) (fee extra : Z) (mult : q) : result (Z * Z) :=
  if b_fee b =? 0 then Err EBumpZeroFee
  else
    let mrf := b_vsize b in
    if negb (fee =? 0) then
      if fee <? b_fee b + mrf then Err EBumpFeeLow else Ok (fee, fee - b_fee b)
    else if negb (extra =? 0) then
      if extra <? mrf then Err EBumpExtraLow else Ok (b_fee b + extra, extra)
    else
      let f := qtrunc (fadd (fmul (f_int (b_fee b)) mult) (f_int (mrf * cfg_BUMPFEE_DEFAULT_MULTIPLIER))) in
      Ok (f, f - b_fee b).

(* the distribution loop; deleted outputs are dropped from the result *)
Fixpoint bump_loop (repaired : bool) (extra rem : Z) (outs : list txout) : Z * list txout :=
  match outs with
  | [] => (rem, [])
  | o :: r =>
      if negb (o_change o) || (rem =? 0) then
        let '(x, l) := bump_loop repaired extra rem r in (x, o :: l)
      else if rem * 2 <? o_value o then
        let '(x, l) := bump_loop repaired extra 0 r in
        (x, with_value o (o_value o - (if repaired then rem else extra)) :: l)
      else if o_value o <? rem then bump_loop repaired extra (rem - o_value o) r
      else bump_loop repaired extra 0 r
  end.

Definition tx_bumpfee (repaired : bool) (b : btx) (fee extra : Z) (mult : q) : result btx :=
  match bump_amounts b fee extra mult with
  | Err e => Err e
  | Ok (nf, ex) =>
      let '(rem, outs') := bump_loop repaired ex ex (b_outputs b) in
      if negb (rem =? 0) then Err EBumpNoChange            (* nothing has been modified at this point *)
      else if existsb (fun x => o_value x <? 0) outs' then Err ENegOutput   (* raised by raw() in sign_and_update *)
      else
        let it := sum_values (b_inputs b) in
        (* update_totals: the fee is recomputed from the totals when input_total is non-zero *)
        Ok {| b_inputs := b_inputs b; b_outputs := outs';
              b_fee := if it =? 0 then nf else it - sum_outs outs'; b_vsize := b_vsize b |}
  end.

Definition lib_bumpfee := tx_bumpfee true.
Definition orig_bumpfee := tx_bumpfee false.

(* WalletTransaction.bumpfee: when the change outputs cannot pay, add one wallet utxo and retry.
   mult2 = the binary64 value of 0.03 ** 5 (sic) *)
Fixpoint add_to_first_change (v : Z) (outs : list txout) : option (list txout) :=
  match outs with
  | [] => None
  | o :: r => if o_change o then Some (with_value o (o_value o + v) :: r)
              else match add_to_first_change v r with Some l => Some (o :: l) | None => None end
  end.

Definition wallet_bumpfee (repaired : bool) (nw : network) (view : list utxo) (b : btx) (fee extra : Z) (mult mult2 : q)
  : result btx :=
  match tx_bumpfee repaired b fee extra mult with
  | Err EBumpNoChange =>
      let fnp := (fee =? 0) && (extra =? 0) in
      let extra1 := if fnp
                    then qtrunc (fadd (fmul (f_int (b_fee b)) mult2) (f_int (b_vsize b * cfg_BUMPFEE_DEFAULT_MULTIPLIER)))
                    else extra in
      let amount_min := if extra1 =? 0 then nw_dust_amount nw else extra1 in
      let utxos := sort_by lt_conf (filter (fun u => negb (u_spent u) && (1 <=? u_conf u)) view) in
      let unused := filter (fun u => negb (existsb (fun i => u_id i =? u_id u) (b_inputs b)) && (amount_min <=? u_value u)) utxos in
      match unused with
      | [] => Err EBumpNoInput
      | u :: _ =>
          let '(outs1, extra2) :=
            match add_to_first_change (u_value u) (b_outputs b) with
            | Some l => (l, extra1)
            | None => (b_outputs b ++ [{| o_dest := ToChange (-1); o_value := u_value u; o_change := true |}],
                       if fnp then extra1 + 25 * cfg_BUMPFEE_DEFAULT_MULTIPLIER else extra1)
            end in
          tx_bumpfee repaired {| b_inputs := b_inputs b ++ [u]; b_outputs := outs1; b_fee := b_fee b; b_vsize := b_vsize b |}
                     fee extra2 mult
      end
  | r => r
  end.

Definition lib_wallet_bumpfee := wallet_bumpfee true.
