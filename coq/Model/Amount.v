(* Model/Amount.v — bitcoinlib/values.py (value_to_satoshi, class Value) and the value handling of
   transactions.py (Output.__init__, Transaction.add_output, raw()), mirrored operation by operation on
   primitive binary64 floats.  Definitions only.  Constants come from the regenerated tables
   (Gen/GenNetworks.v: networks in file order with currency code and denominator; Gen/GenConsts.v:
   NETWORK_DENOMINATORS in dict order), as float.hex() strings parsed by [b64_of_hex].
   Every Python exception is [Err]. *)
From Coq Require Import ZArith List Bool String.
From Coq Require Import Floats.PrimFloat Floats.SpecFloat Floats.FloatOps.
From Coq.Strings Require Import Byte.
From Verif Require Import Lib.Bytes Float.DecRound Float.B64 Gen.GenNetworks Gen.GenConsts.
Import ListNotations.
Open Scope Z_scope.

Inductive res (A : Type) : Type := Ok (a : A) | Err.
Arguments Ok {A} a.
Arguments Err {A}.

Definition hexf (s : string) : float := match b64_of_hex s with Some f => f | None => nan end.

(* ---- tables ---- *)
Record net := { n_name : str; n_code : str; n_den : float }.

Definition nets : list net :=
  map (fun nw => {| n_name := cps (nw_name nw); n_code := cps (nw_currency_code nw);
                    n_den := hexf (nw_denominator_hex nw) |}) all_networks.

(* NETWORK_DENOMINATORS.items(): (denominator, symbol) in dict order *)
Definition dens : list (float * str) :=
  map (fun p => (hexf (fst p), cps (snd p))) network_denominators.

(* config DEFAULT_NETWORK (fresh data directory) *)
Definition default_network_name : str := cps "bitcoin".

(* ---- small string functions ---- *)
Definition is_space (c : Z) : bool :=
  ((9 <=? c) && (c <=? 13)) || ((28 <=? c) && (c <=? 32)) || (c =? 133) || (c =? 160) || (c =? 5760) ||
  ((8192 <=? c) && (c <=? 8202)) || (c =? 8232) || (c =? 8233) || (c =? 8239) || (c =? 8287) || (c =? 12288).

(* str.split() *)
Fixpoint split_ws_aux (l : str) (cur : str) : list str :=
  match l with
  | [] => match cur with [] => [] | _ => [rev cur] end
  | c :: r => if is_space c
              then match cur with [] => split_ws_aux r [] | _ => rev cur :: split_ws_aux r [] end
              else split_ws_aux r (c :: cur)
  end.
Definition split_ws (l : str) : list str := split_ws_aux l [].

(* str.upper() on the alphabet the model covers: ASCII letters and the micro sign *)
Definition upper (c : Z) : Z :=
  if (97 <=? c) && (c <=? 122) then c - 32 else if c =? 181 then 924 else c.
Definition upper_s (s : str) : str := map upper s.

Definition find_by_code (code : str) : option net :=
  find (fun n => str_eqb (upper_s (n_code n)) (upper_s code)) nets.
Definition find_by_name (name : str) : option net :=
  find (fun n => str_eqb (n_name n) name) nets.

Definition nonempty (s : str) : bool := match s with [] => false | _ => true end.

(* ---- class Value ---- *)
Record value := { v_value : float; v_den : float; v_net : net }.

(* the loop over NETWORK_DENOMINATORS.items() in Value.__init__ *)
Fixpoint scan_dens (ds : list (float * str)) (cur : str) (nw : net) : res (net * float) :=
  match ds with
  | [] => Ok (nw, one)
  | (den, symb) :: tl =>
      if nonempty symb && prefix_eqb symb cur then
        let cur' := skipn (List.length symb) cur in
        match find_by_code cur' with
        | Some nw' => Ok (nw', den)
        | None => if nonempty cur' then Err else Ok (nw, den)
        end
      else scan_dens tl cur nw
  end.

(* Value(<str>, denominator=den_arg, network=nw) *)
Definition lib_value_init_str (s : str) (den_arg : option float) (nw : net) : res value :=
  match split_ws s with
  | [] => Err
  | v :: rest =>
      let cur := match rest with c :: _ => c | [] => n_code nw end in
      let r := match find_by_code cur with
               | Some nw' => Ok (nw', one)
               | None => scan_dens dens cur nw
               end in
      match r with
      | Err => Err
      | Ok (nw', den_input) =>
          match py_float v with
          | None => Err
          | Some f => Ok {| v_value := (f * den_input)%float;
                            v_den := match den_arg with None => den_input | Some d => d end;
                            v_net := nw' |}
          end
      end
  end.

Definition is_zero_f (x : float) : bool := (x =? zero)%float.
Definition den_or_one (d : float) : float := if is_zero_f d then one else d.

(* Value(<number>, denominator=d, network=nw) with the number already a float *)
Definition lib_value_init_num (x : float) (den_arg : option float) (nw : net) : value :=
  let d := match den_arg with None => one | Some d => den_or_one d end in
  {| v_value := (x * d)%float; v_den := d; v_net := nw |}.

(* Value.value_sat = round(self.value / self.network.denominator) *)
Definition lib_value_sat (v : value) : res Z :=
  let d := n_den (v_net v) in
  if is_zero_f d then Err
  else match b64_round (v_value v / d)%float with Some z => Ok z | None => Err end.

(* value_to_satoshi(<str>, network) *)
Definition lib_value_to_satoshi (s : str) (network : option str) : res Z :=
  match network with
  | None =>
      match find_by_name default_network_name with
      | None => Err
      | Some nw => match lib_value_init_str s None nw with Ok v => lib_value_sat v | Err => Err end
      end
  | Some nm =>
      match find_by_name nm with
      | None => Err
      | Some nw =>
          match lib_value_init_str s None nw with
          | Ok v => if str_eqb (n_name (v_net v)) nm then lib_value_sat v else Err
          | Err => Err
          end
      end
  end.

(* denominator arguments: None | 'auto' | symbol string | number *)
Inductive dspec := DNone | DAuto | DSym (s : str) | DNum (f : float).

Definition lookup_exact (s : str) : option float :=
  match filter (fun p => str_eqb (snd p) s) dens with (d, _) :: _ => Some d | [] => None end.

(* Value.from_satoshi(n, denominator, network) *)
Definition lib_from_satoshi (n : Z) (d : dspec) (nw : net) : res value :=
  match b64_of_Z n with
  | None => Err
  | Some fn =>
      let with_den (den : float) :=
        if is_zero_f den then Err
        else let x := (fn * (n_den nw / den))%float in
             let x' := if is_zero_f x then zero else x in
             Ok (lib_value_init_num x' (Some den) nw) in
      match d with
      | DNone => Ok (lib_value_init_num fn (Some (n_den nw)) nw)
      | DAuto => Err
      | DSym s => match lookup_exact s with Some den => with_den den | None => Err end
      | DNum den => with_den den
      end
  end.

(* -int(math.log10(q)) for a positive finite q, with math.log10 correctly rounded near powers of ten:
   if q is within 2^-50 (relative) of 10^k the result is k, otherwise the exact logarithm truncated
   towards zero.  [num/den] is the exact value of q. *)
(* exact comparisons with powers of ten of negative exponent are done on cross-multiplied integers *)
Definition pow10_cmp_le (num den k : Z) : bool :=   (* 10^k <= num/den *)
  if 0 <=? k then den * 10 ^ k <=? num else den <=? num * 10 ^ (- k).

Fixpoint find_floor_log10 (fuel : nat) (num den k : Z) : Z :=   (* largest k in range with 10^k <= num/den, scanning down *)
  match fuel with
  | O => k
  | S f => if pow10_cmp_le num den k then k else find_floor_log10 f num den (k - 1)
  end.

Definition near_pow10 (num den k : Z) : bool :=   (* |num/den - 10^k| <= 10^k * 2^-50 *)
  let a := if 0 <=? k then num else num * 10 ^ (- k) in
  let b := if 0 <=? k then den * 10 ^ k else den in
  Z.abs (a - b) * 2 ^ 50 <=? b.

Definition log10_trunc (q : float) : option Z :=
  match Prim2SF q with
  | S754_finite false m e =>
      let num := if 0 <=? e then Zpos m * 2 ^ e else Zpos m in
      let den := if 0 <=? e then 1 else 2 ^ (- e) in
      let k0 := find_floor_log10 12 num den ((Z.log2 num - Z.log2 den + 1) * 30103 / 100000 + 2) in
      if near_pow10 num den k0 then Some k0
      else if near_pow10 num den (k0 + 1) then Some (k0 + 1)
      else Some (if 0 <=? k0 then k0 else k0 + 1)
  | _ => None
  end.

Definition skip_auto : list str := map cps ["n"; "fin"; "da"; "c"; "d"; "h"]%string.

Definition in_range_1_1000 (x : float) : bool := ((one <=? x) && (x <? b64_of_dec false 1000 0))%float.

(* the 'auto' branch of Value.str: the last matching denominator wins (the loop has no break) *)
Definition auto_den (v : value) : option float :=
  let x := v_value v in
  if ((b64_of_dec false 1 (-3) <=? x) && (x <? b64_of_dec false 1000 0))%float then Some one
  else if in_range_1_1000 (x / n_den (v_net v))%float then Some (n_den (v_net v))
  else fold_left (fun acc p =>
                    if existsb (str_eqb (snd p)) skip_auto then acc
                    else if in_range_1_1000 (x / fst p)%float then Some (fst p) else acc) dens None.

Definition sym_den (s : str) : option float :=
  let l1 := filter (fun p => nonempty (snd p) && prefix_eqb (snd p) s) dens in
  let l2 := if (1 <? Z.of_nat (List.length l1)) then filter (fun p => str_eqb (snd p) s) dens else l1 in
  match l2 with (d, _) :: _ => Some d | [] => None end.

Definition den_symbol (d : float) : option str :=
  match filter (fun p => (fst p =? d)%float) dens with (_, s) :: _ => Some s | [] => None end.

Definition sat_s : str := cps "sat".
Definition bitcoin_s : str := cps "bitcoin".
Definition auto_s : str := cps "auto".

(* Value.str(denominator, decimals)  (currency_repr='code') *)
Definition lib_str (v : value) (d : dspec) (decimals : option Z) : res str :=
  let dn := match d with
            | DNone => Some (v_den v)
            | DAuto => auto_den v
            | DSym s => if str_eqb s auto_s then auto_den v else sym_den s
            | DNum f => Some f
            end in
  match dn with
  | None => Err
  | Some den =>
      match den_symbol den with
      | None => Err
      | Some symb =>
          let dec := match decimals with
                     | Some k => Some k
                     | None => match log10_trunc (n_den (v_net v) / den)%float with
                               | Some l => Some (Z.min (- l) 8)
                               | None => None
                               end
                     end in
          match dec with
          | None => Err
          | Some k =>
              let k := Z.max k 0 in
              let balance := b64_round_nd (v_value v / den)%float k in
              let code := if contains sat_s symb && str_eqb (n_name (v_net v)) bitcoin_s then []
                          else n_code (v_net v) in
              Ok (b64_fmt balance k ++ [32] ++ symb ++ code)
          end
      end
  end.

(* Value.to_bytes(8, 'little') *)
Definition lib_to_bytes (v : value) : res (list byte) :=
  match lib_value_sat v with
  | Ok z => if (0 <=? z) && (z <? 2 ^ 64) then Ok (le_bytes 8 z) else Err
  | Err => Err
  end.

(* a + b, a - b (Value objects), a * k, a / k (k an int) *)
Definition lib_arith (op : Z) (a : value) (b : value) (k : Z) : res value :=
  if is_zero_f (v_den a) then Err else
  match b64_of_Z k with
  | None => Err
  | Some fk =>
      if (op =? 0) || (op =? 1) then
        if str_eqb (n_name (v_net a)) (n_name (v_net b)) then
          let s := if op =? 0 then (v_value a + v_value b)%float else (v_value a - v_value b)%float in
          Ok (lib_value_init_num (s / v_den a)%float (Some (v_den a)) (v_net a))
        else Err
      else if op =? 2 then Ok (lib_value_init_num ((v_value a * fk) / v_den a)%float (Some (v_den a)) (v_net a))
      else if is_zero_f fk then Err
      else Ok (lib_value_init_num ((v_value a / fk) / v_den a)%float (Some (v_den a)) (v_net a))
  end.

(* ---- transactions.py ---- *)
Inductive num := NInt (z : Z) | NFlt (f : float) | NStr (s : str).

(* Output(value=v, network=name).value = value_to_satoshi(v, network=name) *)
Definition lib_output_value (v : num) (name : str) : res num :=
  match find_by_name name with
  | None => Err
  | Some _ =>
      match v with
      | NStr s => match lib_value_to_satoshi s (Some name) with Ok z => Ok (NInt z) | Err => Err end
      | _ => Ok v
      end
  end.

Definition strip_ws (s : str) : str :=
  let fix dropw (l : str) := match l with c :: r => if is_space c then dropw r else l | [] => [] end in
  rev (dropw (rev (dropw s))).

(* Transaction(network=name).add_output(v, ...): the value the new Output holds *)
Definition lib_add_output (v : num) (name : str) : res num :=
  let fl := match v with
            | NInt z => b64_of_Z z
            | NFlt f => Some f
            | NStr s => py_float (strip_ws s)
            end in
  match fl with
  | None => Err
  | Some f =>
      if b64_is_integer f then
        let iv := match v with
                  | NInt z => Some z
                  | NFlt f => b64_trunc f
                  | NStr s => py_int (strip_ws s)
                  end in
        match iv with
        | Some z => lib_output_value (NInt z) name
        | None => Err
        end
      else Err
  end.

(* the eight value bytes raw() writes for an output *)
Definition lib_raw_value (v : num) : res (list byte) :=
  match v with
  | NInt z => if (0 <=? z) && (z <? 2 ^ 64) then Ok (le_bytes 8 z) else Err
  | NFlt f => if (f <? zero)%float then Err
              else match b64_trunc f with
                   | Some z => if (0 <=? z) && (z <? 2 ^ 64) then Ok (le_bytes 8 z) else Err
                   | None => Err
                   end
  | NStr _ => Err
  end.
