(* Model/Sighash.v — C01: what the library signs and checks versus the consensus signature hash.
   Definitions only.
   spec_*  is written from the protocol: Bitcoin Core script/interpreter.cpp (SignatureHash,
           CTransactionSignatureSerializer, GetScriptForMultisig / CScript::EncodeOP_N) and BIP143.
   lib_*   mirrors /repo bitcoinlib/transactions.py (with fixes/C01-1 and C01-2; the *_at variants take a flag
           that selects the code before each repair): Transaction.signature / signature_hash /
           signature_segwit / raw(sign_id, hash_type, 'legacy'), Input.update_scripts (what it leaves in
           locking_script / redeemscript per input kind), Transaction.sign / verify (which digest they use).
   The double hash H and HASH160 are parameters of the section: nothing below depends on what they
   return.  The driver and Properties/C01.v instantiate them with Crypto.Sha256.sha256d and
   Crypto.Ripemd160.hash160.
   Not modelled: coinbase inputs (null previous hash), OP_CODESEPARATOR / FindAndDelete (no standard
   script code contains either), taproot. *)
From Coq Require Import ZArith List Bool.
From Coq.Strings Require Import Byte.
From Verif Require Import Lib.Bytes Model.Wire Model.TxCodec Gen.GenConsts.
Import ListNotations.
Open Scope Z_scope.

(* ---------- transactions with per-input signing data ---------- *)

(* the eight standard input kinds of the property *)
Inductive kind :=
| K_p2pkh | K_p2pk | K_multisig | K_p2sh_multisig
| K_p2wpkh | K_p2wsh | K_p2sh_p2wpkh | K_p2sh_p2wsh.

(* Input.script_type / Input.witness_type as the library names them *)
Inductive stype := ST_sig_pubkey | ST_signature | ST_multisig | ST_p2sh_multisig | ST_p2sh_p2wpkh | ST_p2sh_p2wsh.
Inductive wtype := WT_legacy | WT_segwit | WT_p2sh_segwit.

Definition k_stype (k : kind) : stype :=
  match k with
  | K_p2pkh | K_p2wpkh => ST_sig_pubkey
  | K_p2pk => ST_signature
  | K_multisig => ST_multisig
  | K_p2sh_multisig | K_p2wsh => ST_p2sh_multisig
  | K_p2sh_p2wpkh => ST_p2sh_p2wpkh
  | K_p2sh_p2wsh => ST_p2sh_p2wsh
  end.

Definition k_wtype (k : kind) : wtype :=
  match k with
  | K_p2pkh | K_p2pk | K_multisig | K_p2sh_multisig => WT_legacy
  | K_p2wpkh | K_p2wsh => WT_segwit
  | K_p2sh_p2wpkh | K_p2sh_p2wsh => WT_p2sh_segwit
  end.

Definition k_segwit (k : kind) : bool :=
  match k_wtype k with WT_legacy => false | _ => true end.

Record sin := mk_sin {
  si_in : txin;            (* outpoint, scriptSig, sequence, witness (TxCodec record) *)
  si_index : Z;            (* Input.index_n attribute *)
  si_kind : kind;
  si_value : Z;            (* Input.value: amount of the output being spent *)
  si_keys : list bytes;    (* public keys in script order *)
  si_m : Z                 (* sigs_required *)
}.

Record stx := mk_stx {
  st_version : Z;
  st_ins : list sin;
  st_outs : list txout;
  st_locktime : Z;
  st_segwit : bool         (* Transaction.witness_type = 'segwit' *)
}.

Definition tx_of (t : stx) : tx :=
  mk_tx (st_version t) (map si_in (st_ins t)) (st_outs t) (st_locktime t) (st_segwit t).

Definition key0 (keys : list bytes) : bytes := match keys with k :: _ => k | [] => [] end.

Definition zero32 : bytes := repeat x00 32.

(* small option helpers (own copies, so that this file does not depend on helper names of TxCodec.v) *)
Definition sh_bind {A B} (o : option A) (f : A -> option B) : option B :=
  match o with Some a => f a | None => None end.

Fixpoint sh_oconcat {A} (f : A -> option bytes) (l : list A) : option bytes :=
  match l with
  | [] => Some []
  | a :: r => match f a, sh_oconcat f r with Some x, Some y => Some (x ++ y) | _, _ => None end
  end.

(* int.to_bytes(k, 'little'): OverflowError outside [0, 256^k) *)
Definition sh_le (k : nat) (n : Z) : option bytes :=
  if (0 <=? n) && (n <? 256 ^ Z.of_nat k) then Some (le_bytes k n) else None.

Fixpoint map_idx {A B} (f : nat -> A -> B) (j : nat) (l : list A) : list B :=
  match l with
  | [] => []
  | a :: r => f j a :: map_idx f (S j) r
  end.

Section Hashes.
Context (H : bytes -> bytes) (H160 : bytes -> bytes).

(* =====================================================================================
   Protocol side
   ===================================================================================== *)

(* CScript::EncodeOP_N (Core asserts 0 <= n <= 16) *)
Definition spec_op_n (n : Z) : byte := if n =? 0 then x00 else zb (80 + n).

(* GetScriptForMultisig: OP_m <key>... OP_n OP_CHECKMULTISIG *)
Definition spec_multisig (m : Z) (keys : list bytes) : bytes :=
  spec_op_n m :: concat (map core_push keys) ++ [spec_op_n (Z.of_nat (length keys)); xae].

(* DUP HASH160 <20 bytes> EQUALVERIFY CHECKSIG *)
Definition spec_p2pkh_script (h : bytes) : bytes := [x76; xa9; x14] ++ h ++ [x88; xac].

(* The script code of the signature check, per input kind.
   legacy, not P2SH: the scriptPubKey of the output being spent;
   P2SH: the redeem script;
   BIP143, P2WPKH (native or P2SH-nested): 0x1976a914{20-byte-pubkey-hash}88ac — the leading 0x19 is
     the length prefix, written by ser_varbytes below;
   BIP143, P2WSH (native or nested): the witnessScript. *)
Definition spec_script_code (k : kind) (keys : list bytes) (m : Z) : bytes :=
  match k with
  | K_p2pkh => spec_p2pkh_script (H160 (key0 keys))
  | K_p2pk => core_push (key0 keys) ++ [xac]
  | K_multisig => spec_multisig m keys
  | K_p2sh_multisig => spec_multisig m keys
  | K_p2wpkh | K_p2sh_p2wpkh => [x76; xa9; x14] ++ H160 (key0 keys) ++ [x88; xac]
  | K_p2wsh | K_p2sh_p2wsh => spec_multisig m keys
  end.

Definition si_code (x : sin) : bytes := spec_script_code (si_kind x) (si_keys x) (si_m x).

Definition ht_base (ht : Z) : Z := Z.land ht 31.
Definition ht_acp (ht : Z) : bool := negb (Z.land ht 128 =? 0).
Definition ht_single (ht : Z) : bool := ht_base ht =? 3.
Definition ht_none (ht : Z) : bool := ht_base ht =? 2.

Definition ser_outpoint (i : txin) : bytes := ti_prev i ++ le_bytes 4 (ti_vout i).

(* ---- BIP143 ---- *)

Definition spec_hash_prevouts (t : stx) (ht : Z) : bytes :=
  if ht_acp ht then zero32 else H (concat (map (fun x => ser_outpoint (si_in x)) (st_ins t))).

Definition spec_hash_sequence (t : stx) (ht : Z) : bytes :=
  if negb (ht_acp ht) && negb (ht_single ht) && negb (ht_none ht)
  then H (concat (map (fun x => le_bytes 4 (ti_seq (si_in x))) (st_ins t)))
  else zero32.

Definition spec_hash_outputs (t : stx) (i : nat) (ht : Z) : bytes :=
  if negb (ht_single ht) && negb (ht_none ht) then H (concat (map ser_out (st_outs t)))
  else if ht_single ht then
    match nth_error (st_outs t) i with
    | Some o => H (ser_out o)
    | None => zero32
    end
  else zero32.

(* the byte string whose double SHA256 is signed; None only when there is no input i *)
Definition spec_bip143_preimage (t : stx) (i : nat) (ht : Z) : option bytes :=
  match nth_error (st_ins t) i with
  | None => None
  | Some x =>
      Some (le_bytes 4 (st_version t) ++
            spec_hash_prevouts t ht ++
            spec_hash_sequence t ht ++
            ser_outpoint (si_in x) ++
            ser_varbytes (si_code x) ++
            le_bytes 8 (si_value x) ++
            le_bytes 4 (ti_seq (si_in x)) ++
            spec_hash_outputs t i ht ++
            le_bytes 4 (st_locktime t) ++
            le_bytes 4 ht)
  end.

(* ---- legacy SignatureHash (CTransactionSignatureSerializer), all hash types ---- *)

Definition blank_out : txout := mk_txout 18446744073709551615 [].   (* CTxOut(): nValue = -1, empty script *)

Definition legacy_in (i : nat) (ht : Z) (j : nat) (x : sin) : txin :=
  let me := Nat.eqb j i in
  mk_txin (ti_prev (si_in x)) (ti_vout (si_in x))
          (if me then si_code x else [])
          (if me || negb (ht_single ht || ht_none ht) then ti_seq (si_in x) else 0)
          [].

Definition legacy_ins (t : stx) (i : nat) (ht : Z) : list txin :=
  if ht_acp ht then
    match nth_error (st_ins t) i with Some x => [legacy_in i ht i x] | None => [] end
  else map_idx (legacy_in i ht) O (st_ins t).

Definition legacy_outs (t : stx) (i : nat) (ht : Z) : list txout :=
  if ht_none ht then []
  else if ht_single ht then
    match nth_error (st_outs t) i with
    | Some o => repeat blank_out i ++ [o]
    | None => []
    end
  else st_outs t.

(* None: no such input, or SIGHASH_SINGLE without a matching output (Core then signs the constant 1) *)
Definition spec_legacy_preimage (t : stx) (i : nat) (ht : Z) : option bytes :=
  match nth_error (st_ins t) i with
  | None => None
  | Some _ =>
      if ht_single ht && (length (st_outs t) <=? i)%nat then None
      else Some (spec_ser (mk_tx (st_version t) (legacy_ins t i ht) (legacy_outs t i ht) (st_locktime t) false)
                 ++ le_bytes 4 ht)
  end.

Definition one32 : bytes := x01 :: repeat x00 31.

(* which of the two algorithms consensus applies to input i *)
Definition spec_preimage (t : stx) (i : nat) (ht : Z) : option bytes :=
  match nth_error (st_ins t) i with
  | None => None
  | Some x => if k_segwit (si_kind x) then spec_bip143_preimage t i ht else spec_legacy_preimage t i ht
  end.

Definition spec_digest (t : stx) (i : nat) (ht : Z) : option bytes :=
  match nth_error (st_ins t) i with
  | None => None
  | Some x =>
      match spec_preimage t i ht with
      | Some p => Some (H p)
      | None => if k_segwit (si_kind x) then None else Some one32
      end
  end.

(* =====================================================================================
   Library side
   ===================================================================================== *)

(* bytes([v]): ValueError outside range(256) *)
Definition lib_byte1 (v : Z) : option byte := if (0 <=? v) && (v <? 256) then Some (zb v) else None.

(* Script(script_types=['multisig'], keys=keys, sigs_required=m).serialize():
   commands [m + 80, key..., n + 80, op_checkmultisig] *)
Definition lib_multisig (m : Z) (keys : list bytes) : option bytes :=
  match lib_byte1 (m + 80), lib_byte1 (Z.of_nat (length keys) + 80) with
  | Some bm, Some bn => lib_serialize (Op bm :: map Data keys ++ [Op bn; Op xae])
  | _, _ => None
  end.

(* Input.locking_script after Input.__init__ / update_scripts *)
Definition lib_locking_script (k : kind) (keys : list bytes) (m : Z) : option bytes :=
  match k with
  | K_p2pkh | K_p2wpkh | K_p2sh_p2wpkh =>
      (* b'\x76\xa9\x14' + self.public_hash + b'\x88\xac', public_hash = keys[0].hash160 *)
      match keys with
      | k0 :: _ => Some ([x76; xa9; x14] ++ H160 k0 ++ [x88; xac])
      | [] => Some []
      end
  | K_p2pk =>
      (* varstr(self.keys[0].public_byte) + b'\xac' *)
      match keys with
      | k0 :: _ => sh_bind (lib_varstr k0) (fun s => Some (s ++ [xac]))
      | [] => Some []
      end
  | K_multisig =>
      (* no branch in update_scripts (strict=False): stays what the caller passed, which is
         Script(script_types=['multisig'], ...).serialize() in the correspondence *)
      lib_multisig m keys
  | K_p2sh_multisig | K_p2sh_p2wsh => Some []
  | K_p2wsh =>
      (* for k in keys: varstr(k) + b'\xad\xab'; last two bytes replaced by b'\xac' when longer than 3 *)
      sh_bind (sh_oconcat (fun k => sh_bind (lib_varstr k) (fun s => Some (s ++ [xad; xab]))) keys) (fun s =>
      Some (if (3 <? length s)%nat then removelast (removelast s) ++ [xac] else s))
  end.

(* Input.redeemscript after update_scripts *)
Definition lib_redeemscript (k : kind) (keys : list bytes) (m : Z) : option bytes :=
  match k_stype k with
  | ST_p2sh_multisig | ST_p2sh_p2wsh =>
      match keys with [] => Some [] | _ => lib_multisig m keys end
  | _ => Some []
  end.

(* raw(sign_id): redeemscript when script_type == 'p2sh_multisig', else locking_script *)
Definition lib_legacy_script (x : sin) : option bytes :=
  match k_stype (si_kind x) with
  | ST_p2sh_multisig => lib_redeemscript (si_kind x) (si_keys x) (si_m x)
  | _ => lib_locking_script (si_kind x) (si_keys x) (si_m x)
  end.

(* signature_segwit: redeemscript, or locking_script when that is empty; empty / b'\0' -> error *)
Definition lib_segwit_script (x : sin) : option bytes :=
  sh_bind (lib_redeemscript (si_kind x) (si_keys x) (si_m x)) (fun r =>
  sh_bind (lib_locking_script (si_kind x) (si_keys x) (si_m x)) (fun l =>
  let s := match r with [] => l | _ => r end in
  match s with
  | [] => None
  | _ => if bytes_eqb s [x00] then None else Some s
  end)).

(* the script code the library commits to for an input, by the path sign()/verify() take for it *)
Definition lib_script_code (k : kind) (keys : list bytes) (m : Z) : option bytes :=
  let x := mk_sin (mk_txin [] 0 [] 0 []) 0 k 1 keys m in
  if k_segwit k then lib_segwit_script x else lib_legacy_script x.

Definition lib_outpoint (i : txin) : option bytes :=
  sh_bind (sh_le 4 (ti_vout i)) (fun v => Some (ti_prev i ++ v)).

(* int(o.value).to_bytes(8, 'little') + varstr(o.lock_script) *)
Definition lib_ser_out (o : txout) : option bytes :=
  sh_bind (sh_le 8 (to_value o)) (fun v =>
  sh_bind (lib_varstr (to_script o)) (fun s => Some (v ++ s))).

(* ---- Transaction.raw(sign_id, hash_type, 'legacy') ----
   [bypos] selects how the input that receives the script is found:
   true  = "sign_id == n" for n, i in enumerate(self.inputs)   (the repaired code, fixes/C01-2),
   false = "sign_id == i.index_n"                              (the code before the repair). *)

Definition lib_legacy_in_at (bypos : bool) (sid : Z) (j : nat) (x : sin) : option bytes :=
  sh_bind (lib_outpoint (si_in x)) (fun op =>
  sh_bind (if sid =? (if bypos then Z.of_nat j else si_index x)
           then sh_bind (lib_legacy_script x) lib_varstr else Some [x00]) (fun s =>
  sh_bind (sh_le 4 (ti_seq (si_in x))) (fun q => Some (op ++ s ++ q)))).

Definition lib_legacy_out (o : txout) : option bytes :=
  if to_value o <? 0 then None else lib_ser_out o.

Definition lib_legacy_preimage_at (bypos : bool) (t : stx) (sid : Z) (ht : Z) : option bytes :=
  sh_bind (sh_le 4 (st_version t)) (fun ver =>
  sh_bind (lib_cs_enc (Z.of_nat (length (st_ins t)))) (fun ci =>
  sh_bind (sh_oconcat (fun o => o) (map_idx (lib_legacy_in_at bypos sid) O (st_ins t))) (fun ins =>
  sh_bind (lib_cs_enc (Z.of_nat (length (st_outs t)))) (fun co =>
  sh_bind (sh_oconcat lib_legacy_out (st_outs t)) (fun outs =>
  sh_bind (sh_le 4 (st_locktime t)) (fun lt =>
  sh_bind (sh_le 4 ht) (fun h =>
  Some (ver ++ ci ++ ins ++ co ++ outs ++ lt ++ h)))))))).

Definition lib_legacy_preimage := lib_legacy_preimage_at true.

(* ---- Transaction.signature_segwit(sign_id, hash_type) ----
   [fixed] selects the comparison in the elif that picks the single output:
   true  = "== SIGHASH_SINGLE" (the repaired code, fixes/C01-1),
   false = "!= SIGHASH_SINGLE" (the code before the repair). *)

Definition lib_base (ht : Z) : Z := Z.land ht 31.
Definition lib_acp (ht : Z) : bool := negb (Z.land ht cfg_SIGHASH_ANYONECANPAY =? 0).
Definition lib_not_single_none (ht : Z) : bool :=
  negb (lib_base ht =? cfg_SIGHASH_SINGLE) && negb (lib_base ht =? cfg_SIGHASH_NONE).

Definition lib_hash_outputs (fixed : bool) (t : stx) (i : nat) (ht : Z) : option bytes :=
  if lib_not_single_none ht then
    sh_bind (sh_oconcat lib_ser_out (st_outs t)) (fun s => Some (H s))
  else if (if fixed then lib_base ht =? cfg_SIGHASH_SINGLE else negb (lib_base ht =? cfg_SIGHASH_SINGLE))
          && (i <? length (st_outs t))%nat then
    match nth_error (st_outs t) i with
    | Some o => sh_bind (lib_ser_out o) (fun s => Some (H s))
    | None => None
    end
  else Some zero32.

Definition lib_bip143_preimage_at (fixed : bool) (t : stx) (i : nat) (ht : Z) : option bytes :=
  if negb (st_segwit t) then None                                     (* assert self.witness_type == 'segwit' *)
  else
  sh_bind (sh_oconcat (fun x => lib_outpoint (si_in x)) (st_ins t)) (fun prevouts =>
  sh_bind (sh_oconcat (fun x => sh_le 4 (ti_seq (si_in x))) (st_ins t)) (fun seqs =>
  let hp := if lib_acp ht then zero32 else H prevouts in
  let hs := if negb (lib_acp ht) && lib_not_single_none ht then H seqs else zero32 in
  sh_bind (lib_hash_outputs fixed t i ht) (fun ho =>
  match nth_error (st_ins t) i with
  | None => None                                                       (* IndexError *)
  | Some x =>
      if si_value x =? 0 then None                                     (* "Need value of input" *)
      else
      sh_bind (lib_segwit_script x) (fun sc =>
      sh_bind (sh_le 4 (st_version t)) (fun ver =>
      sh_bind (lib_outpoint (si_in x)) (fun op =>
      sh_bind (lib_varstr sc) (fun vs =>
      sh_bind (sh_le 8 (si_value x)) (fun v =>
      sh_bind (sh_le 4 (ti_seq (si_in x))) (fun q =>
      sh_bind (sh_le 4 (st_locktime t)) (fun lt =>
      sh_bind (sh_le 4 ht) (fun h =>
      Some (ver ++ hp ++ hs ++ op ++ vs ++ v ++ q ++ ho ++ lt ++ h)))))))))
  end))).

Definition lib_bip143_preimage := lib_bip143_preimage_at true.

(* ---- Transaction.signature(sign_id, hash_type, witness_type) ---- *)
Definition lib_signature_at (bypos : bool) (t : stx) (sid : Z) (ht : Z) (wt : wtype) : option bytes :=
  match wt with
  | WT_legacy => lib_legacy_preimage_at bypos t sid ht
  | _ => if sid <? 0 then None else lib_bip143_preimage t (Z.to_nat sid) ht
  end.

(* Transaction.signature_hash *)
Definition lib_signature_hash_at (bypos : bool) (t : stx) (sid : Z) (ht : Z) (wt : wtype) : option bytes :=
  match lib_signature_at bypos t sid ht wt with Some p => Some (H p) | None => None end.

(* Transaction.sign: digest for the input at list position p, by that input's own witness_type *)
Definition lib_digest_at (bypos : bool) (t : stx) (p : nat) (ht : Z) : option bytes :=
  match nth_error (st_ins t) p with
  | Some x => lib_signature_hash_at bypos t (Z.of_nat p) ht (k_wtype (si_kind x))
  | None => None
  end.

(* Transaction.verify: for the input at position p it asks for sign_id = p (repaired) / inp.index_n (before) *)
Definition lib_verify_digest_at (bypos : bool) (t : stx) (p : nat) (ht : Z) : option bytes :=
  match nth_error (st_ins t) p with
  | Some x => lib_signature_hash_at bypos t (if bypos then Z.of_nat p else si_index x) ht (k_wtype (si_kind x))
  | None => None
  end.

Definition lib_signature := lib_signature_at true.
Definition lib_signature_hash := lib_signature_hash_at true.
Definition lib_digest := lib_digest_at true.
Definition lib_verify_digest := lib_verify_digest_at true.

End Hashes.

(* =====================================================================================
   Domain of the theorems
   ===================================================================================== *)

Definition wf_key (k : bytes) : Prop := length k = 33%nat \/ length k = 65%nat.

Definition wf_sin (x : sin) : Prop :=
  length (ti_prev (si_in x)) = 32%nat /\ 0 <= ti_vout (si_in x) < 2 ^ 32 /\ 0 <= ti_seq (si_in x) < 2 ^ 32 /\
  0 < si_value x < 2 ^ 64 /\
  si_keys x <> [] /\ Forall wf_key (si_keys x) /\ (length (si_keys x) <= 16)%nat /\ 1 <= si_m x <= 16.

(* an output script equal to the single byte 00 is the varstr quirk recorded under C06 *)
Definition wf_sout (o : txout) : Prop :=
  0 <= to_value o < 2 ^ 64 /\ Z.of_nat (length (to_script o)) < 2 ^ 64 /\ to_script o <> [x00].

Definition wf_stx (t : stx) : Prop :=
  0 <= st_version t < 2 ^ 32 /\ 0 <= st_locktime t < 2 ^ 32 /\
  Z.of_nat (length (st_ins t)) < 2 ^ 64 /\ Z.of_nat (length (st_outs t)) < 2 ^ 64 /\
  Forall wf_sin (st_ins t) /\ Forall wf_sout (st_outs t).

(* Input.index_n equals the list position (what add_input / parse / shuffle establish); only needed to speak
   about the code before fixes/C01-2 *)
Definition index_ok (t : stx) : Prop :=
  forall j x, nth_error (st_ins t) j = Some x -> si_index x = Z.of_nat j.

(* hash types the legacy serializer treats like SIGHASH_ALL: no ANYONECANPAY bit, base type neither NONE nor SINGLE *)
Definition legacy_all_like (ht : Z) : bool :=
  (Z.land ht 128 =? 0) && negb (Z.land ht 31 =? 2) && negb (Z.land ht 31 =? 3).

(* boolean comparison of optional byte strings (used to state concrete witnesses) *)
Definition opt_eqb (a b : option bytes) : bool :=
  match a, b with
  | Some x, Some y => bytes_eqb x y
  | None, None => true
  | _, _ => false
  end.

(* ---------- concrete transactions for the non-vacuity and refutation witnesses ---------- *)

Definition ex_key (tag fill : byte) : bytes := tag :: repeat fill 32.

Definition ex_in0 (idx : Z) (value : Z) : sin :=
  mk_sin (mk_txin (repeat xaa 32) 1 [] 4294967294 []) idx K_p2wpkh value [ex_key x02 x11] 1.

Definition ex_in1 (idx : Z) (k : kind) : sin :=
  mk_sin (mk_txin (repeat xbb 32) 0 [] 4294967295 []) idx k 1000 [ex_key x02 x22; ex_key x03 x33; ex_key x02 x44] 2.

Definition ex_outs : list txout :=
  [mk_txout 4999990000 ([x76; xa9; x14] ++ repeat x55 20 ++ [x88; xac]); mk_txout 546 [x00; x14; x01; x02]].

(* two inputs (native P2WPKH worth 50 BTC, 2-of-3 P2SH multisig), two outputs *)
Definition ex_tx : stx := mk_stx 2 [ex_in0 0 5000000000; ex_in1 1 K_p2sh_multisig] ex_outs 17 true.
(* the same with the index_n attributes exchanged *)
Definition ex_tx_perm : stx := mk_stx 2 [ex_in0 1 5000000000; ex_in1 0 K_p2sh_multisig] ex_outs 17 true.
(* amount 0 on the segwit input *)
Definition ex_tx_zero : stx := mk_stx 2 [ex_in0 0 0; ex_in1 1 K_p2sh_multisig] ex_outs 17 true.
(* an output whose script is the single byte 00 *)
Definition ex_tx_zscript : stx := mk_stx 2 [ex_in0 0 5000000000; ex_in1 1 K_p2sh_multisig] [mk_txout 1 [x00]] 17 true.
(* P2SH-P2WSH input asked for on the legacy path *)
Definition ex_tx_nested : stx := mk_stx 2 [ex_in0 0 5000000000; ex_in1 1 K_p2sh_p2wsh] ex_outs 17 true.
