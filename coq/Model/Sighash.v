(* Model/Sighash.v — C01: what the library signs and checks versus the consensus signature hash.
   Definitions only.
   spec_*  is written from the protocol: Bitcoin Core script/interpreter.cpp (SignatureHash,
           CTransactionSignatureSerializer, GetScriptForMultisig / CScript::EncodeOP_N) and BIP143.
   lib_*   mirrors /repo bitcoinlib/transactions.py (with fixes/C01-1 and C01-2; the *_at variants take a flag
           that selects the code before each repair): Transaction.signature / signature_hash /
           signature_segwit / raw(sign_id, hash_type, 'legacy'), Input.update_scripts (what it leaves in
           locking_script / redeemscript per input kind), Transaction.sign / verify (which digest they use).
   The double hash H and HASH160 are parameters of the section: nothing below depends on what they
   return.  The driver and Properties/C01.v instantiate them with Crypto.Sha256.sha256d and
   Crypto.Ripemd160.hash160.
   Not modelled: coinbase inputs (null previous hash), OP_CODESEPARATOR / FindAndDelete (no standard
   script code contains either), taproot. *)
From Coq Require Import ZArith List Bool.
From Coq.Strings Require Import Byte.
From Verif Require Import Lib.Bytes Model.Wire Model.TxCodec Gen.GenConsts.
Import ListNotations.
Open Scope Z_scope.

(* ---------- transactions with per-input signing data ---------- *)

(* the eight standard input kinds of the property *)
Inductive kind :=
| K_p2pkh | K_p2pk | K_multisig | K_p2sh_multisig
| K_p2wpkh | K_p2wsh | K_p2sh_p2wpkh | K_p2sh_p2wsh.

(* Input.script_type / Input.witness_type as the library names them *)
Inductive stype := ST_sig_pubkey | ST_signature | ST_multisig | ST_p2sh_multisig | ST_p2sh_p2wpkh | ST_p2sh_p2wsh.
Inductive wtype := WT_legacy | WT_segwit | WT_p2sh_segwit.

Definition k_stype (k : kind) : stype :=
  match k with
  | K_p2pkh | K_p2wpkh => ST_sig_pubkey
  | K_p2pk => ST_signature
  | K_multisig => ST_multisig
  | K_p2sh_multisig | K_p2wsh => ST_p2sh_multisig
  | K_p2sh_p2wpkh => ST_p2sh_p2wpkh
  | K_p2sh_p2wsh => ST_p2sh_p2wsh
  end.

Definition k_wtype (k : kind) : wtype :=
  match k with
  | K_p2pkh | K_p2pk | K_multisig | K_p2sh_multisig => WT_legacy
  | K_p2wpkh | K_p2wsh => WT_segwit
  | K_p2sh_p2wpkh | K_p2sh_p2wsh => WT_p2sh_segwit
  end.

Definition k_segwit (k : kind) : bool :=
  match k_wtype k with WT_legacy => false | _ => true end.

Record sin := mk_sin {
  si_in : txin;            (* outpoint, scriptSig, sequence, witness (TxCodec record) *)
  si_index : Z;            (* Input.index_n attribute *)
  si_kind : kind;
  si_value : Z;            (* Input.value: amount of the output being spent *)
  si_keys : list bytes;    (* public keys in script order *)
  si_m : Z                 (* sigs_required *)
}.

Record stx := mk_stx {
  st_version : Z;
  st_ins : list sin;
  st_outs : list txout;
  st_locktime : Z;
  st_segwit : bool         (* Transaction.witness_type = 'segwit' *)
}.

Definition tx_of (t : stx) : tx :=
  mk_tx (st_version t) (map si_in (st_ins t)) (st_outs t) (st_locktime t) (st_segwit t).

Definition key0 (keys : list bytes) : bytes := match keys with k :: _ => k | [] => [] end.

Definition zero32 : bytes := repeat x00 32.

(* small option helpers (own copies, so that this file does not depend on helper names of TxCodec.v) *)
Definition sh_bind {A B} (o : option A) (f : A -> option B) : option B :=
  match o with Some a => f a | None => None end.

Fixpoint sh_oconcat {A} (f : A -> option bytes) (l : list A) : option bytes :=
  match l with
  | [] => Some []
  | a :: r => match f a, sh_oconcat f r with Some x, Some y => Some (x ++ y) | _, _ => None end
  end.

(* int.to_bytes(k, 'little'): OverflowError outside [0, 256^k) *)
Definition sh_le (k : nat) (n : Z) : option bytes :=
  if (0 <=? n) && (n <? 256 ^ Z.of_nat k) then Some (le_bytes k n) else None.

Fixpoint map_idx {A B} (f : nat -> A -> B) (j : nat) (l : list A) : list B :=
  match l with
  | [] => []
  | a :: r => f j a :: map_idx f (S j) r
  end.

Section Hashes.
Context (H : bytes -> bytes) (H160 : bytes -> bytes).

(* =====================================================================================
   Protocol side
   ===================================================================================== *)

(* CScript::EncodeOP_N (Core asserts 0 <= n <= 16) *)
Definition spec_op_n (n : Z) : byte := if n =? 0 then x00 else zb (80 + n).

(* GetScriptForMultisig: OP_m <key>... OP_n OP_CHECKMULTISIG *)
Definition spec_multisig (m : Z) (keys : list bytes) : bytes :=
  spec_op_n m :: concat (map core_push keys) ++ [spec_op_n (Z.of_nat (length keys)); xae].

(* DUP HASH160 <20 bytes> EQUALVERIFY CHECKSIG *)
Definition spec_p2pkh_script (h : bytes) : bytes := [x76; xa9; x14] ++ h ++ [x88; xac].

(* The script code of the signature check, per input kind.
   legacy, not P2SH: the scriptPubKey of the output being spent;
   P2SH: the redeem script;
   BIP143, P2WPKH (native or P2SH-nested): 0x1976a914{20-byte-pubkey-hash}88ac — the leading 0x19 is
     the length prefix, written by ser_varbytes below;
   BIP143, P2WSH (native or nested): the witnessScript. *)
Definition spec_script_code (k : kind) (keys : list bytes) (m : Z) : bytes :=
  match k with
  | K_p2pkh => spec_p2pkh_script (H160 (key0 keys))
  | K_p2pk => core_push (key0 keys) ++ [xac]
  | K_multisig => spec_multisig m keys
  | K_p2sh_multisig => spec_multisig m keys
  | K_p2wpkh | K_p2sh_p2wpkh => [x76; xa9; x14] ++ H160 (key0 keys) ++ [x88; xac]
  | K_p2wsh | K_p2sh_p2wsh => spec_multisig m keys
  end.

Definition si_code (x : sin) : bytes := spec_script_code (si_kind x) (si_keys x) (si_m x).

Definition ht_base (ht : Z) : Z := Z.land ht 31.
Definition ht_acp (ht : Z) : bool := negb (Z.land ht 128 =? 0).
Definition ht_single (ht : Z) : bool := ht_base ht =? 3.
Definition ht_none (ht : Z) : bool := ht_base ht =? 2.

Definition ser_outpoint (i : txin) : bytes := ti_prev i ++ le_bytes 4 (ti_vout i).

(* ---- BIP143 ---- *)

Definition spec_hash_prevouts (t : stx) (ht : Z) : bytes :=
  if ht_acp ht then zero32 else H (concat (map (fun x => ser_outpoint (si_in x)) (st_ins t))).

Definition spec_hash_sequence (t : stx) (ht : Z) : bytes :=
  if negb (ht_acp ht) && negb (ht_single ht) && negb (ht_none ht)
  then H (concat (map (fun x => le_bytes 4 (ti_seq (si_in x))) (st_ins t)))
  else zero32.

Definition spec_hash_outputs (t : stx) (i : nat) (ht : Z) : bytes :=
  if negb (ht_single ht) && negb (ht_none ht) then H (concat (map ser_out (st_outs t)))
  else if ht_single ht then
    match nth_error (st_outs t) i with
    | Some o => H (ser_out o)
    | None => zero32
    end
  else zero32.

(* the byte string whose double SHA256 is signed; None only when there is no input i *)
Definition spec_bip143_preimage (t : stx) (i : nat) (ht : Z) : option bytes :=
  match nth_error (st_ins t) i with
  | None => None
  | Some x =>
      Some (le_bytes 4 (st_version t) ++
            spec_hash_prevouts t ht ++
            spec_hash_sequence t ht ++
            ser_outpoint (si_in x) ++
            ser_varbytes (si_code x) ++
            le_bytes 8 (si_value x) ++
            le_bytes 4 (ti_seq (si_in x)) ++
            spec_hash_outputs t i ht ++
            le_bytes 4 (st_locktime t) ++
            le_bytes 4 ht)
  end.

(* ---- legacy SignatureHash (CTransactionSignatureSerializer), all hash types ---- *)

Definition blank_out : txout := mk_txout 18446744073709551615 [].   (* CTxOut(): nValue = -1, empty script *)

Definition legacy_in (i : nat) (ht : Z) (j : nat) (x : sin) : txin :=
  let me := Nat.eqb j i in
  mk_txin (ti_prev (si_in x)) (ti_vout (si_in x))
          (if me then si_code x else [])
          (if me || negb (ht_single ht || ht_none ht) then ti_seq (si_in x) else 0)
          [].

Definition legacy_ins (t : stx) (i : nat) (ht : Z) : list txin :=
  if ht_acp ht then
    match nth_error (st_ins t) i with Some x => [legacy_in i ht i x] | None => [] end
  else map_idx (legacy_in i ht) O (st_ins t).

Definition legacy_outs (t : stx) (i : nat) (ht : Z) : list txout :=
  if ht_none ht then []
  else if ht_single ht then
    match nth_error (st_outs t) i with
    | Some o => repeat blank_out i ++ [o]
    | None => []
    end
  else st_outs t.

(* None: no such input, or SIGHASH_SINGLE without a matching output (Core then signs the constant 1) *)
Definition spec_legacy_preimage (t : stx) (i : nat) (ht : Z) : option bytes :=
  match nth_error (st_ins t) i with
  | None => None
  | Some _ =>
      if ht_single ht && (length (st_outs t) <=? i)%nat then None
      else Some (spec_ser (mk_tx (st_version t) (legacy_ins t i ht) (legacy_outs t i ht) (st_locktime t) false)
                 ++ le_bytes 4 ht)
  end.

Definition one32 : bytes := x01 :: repeat x00 31.

(* which of the two algorithms consensus applies to input i *)
Definition spec_preimage (t : stx) (i : nat) (ht : Z) : option bytes :=
  match nth_error (st_ins t) i with
  | None => None
  | Some x => if k_segwit (si_kind x) then spec_bip143_preimage t i ht else spec_legacy_preimage t i ht
  end.

Definition spec_digest (t : stx) (i : nat) (ht : Z) : option bytes :=
  match nth_error (st_ins t) i with
  | None => None
  | Some x =>
      match spec_preimage t i ht with
      | Some p => Some (H p)
      | None => if k_segwit (si_kind x) then None else Some one32
      end
  end.

(* =====================================================================================
   Library side
   ===================================================================================== *)

(* bytes([v]): ValueError outside range(256) *)
Definition lib_byte1 (v : Z) : option byte := if (0 <=? v) && (v <? 256) then Some (zb v) else None.

(* Script(script_types=['multisig'], keys=keys, sigs_required=m).serialize():
   commands [m + 80, key..., n + 80, op_checkmultisig] *)
Definition lib_multisig (m : Z) (keys : list bytes) : option bytes :=
  match lib_byte1 (m + 80), lib_byte1 (Z.of_nat (length keys) + 80) with
  | Some bm, Some bn => lib_serialize (Op bm :: map Data keys ++ [Op bn; Op xae])
  | _, _ => None
  end.

(* Input.locking_script after Input.__init__ / update_scripts *)
Definition lib_locking_script (k : kind) (keys : list bytes) (m : Z) : option bytes :=
  match k with
  | K_p2pkh | K_p2wpkh | K_p2sh_p2wpkh =>
      (* b'\x76\xa9\x14' + self.public_hash + b'\x88\xac', public_hash = keys[0].hash160 *)
      match keys with
      | k0 :: _ => Some ([x76; xa9; x14] ++ H160 k0 ++ [x88; xac])
      | [] => Some []
      end
  | K_p2pk =>
      (* varstr(self.keys[0].public_byte) + b'\xac' *)
      match keys with
      | k0 :: _ => sh_bind (lib_varstr k0) (fun s => Some (s ++ [xac]))
      | [] => Some []
      end
  | K_multisig =>
      (* no branch in update_scripts (strict=False): stays what the caller passed, which is
         Script(script_types=['multisig'], ...).serialize() in the correspondence *)
      lib_multisig m keys
  | K_p2sh_multisig | K_p2sh_p2wsh => Some []
  | K_p2wsh =>
      (* for k in keys: varstr(k) + b'\xad\xab'; last two bytes replaced by b'\xac' when longer than 3 *)
      sh_bind (sh_oconcat (fun k => sh_bind (lib_varstr k) (fun s => Some (s ++ [xad; xab]))) keys) (fun s =>
      Some (if (3 <? length s)%nat then removelast (removelast s) ++ [xac] else s))
  end.

(* Input.redeemscript after update_scripts *)
Definition lib_redeemscript (k : kind) (keys : list bytes) (m : Z) : option bytes :=
  match k_stype k with
  | ST_p2sh_multisig | ST_p2sh_p2wsh =>
      match keys with [] => Some [] | _ => lib_multisig m keys end
  | _ => Some []
  end.

(* raw(sign_id): redeemscript when script_type == 'p2sh_multisig', else locking_script *)
Definition lib_legacy_script (x : sin) : option bytes :=
  match k_stype (si_kind x) with
  | ST_p2sh_multisig => lib_redeemscript (si_kind x) (si_keys x) (si_m x)
  | _ => lib_locking_script (si_kind x) (si_keys x) (si_m x)
  end.

(* signature_segwit: redeemscript, or locking_script when that is empty; empty / b'\0' -> error *)
Definition lib_segwit_script (x : sin) : option bytes :=
  sh_bind (lib_redeemscript (si_kind x) (si_keys x) (si_m x)) (fun r =>
  sh_bind (lib_locking_script (si_kind x) (si_keys x) (si_m x)) (fun l =>
  let s := match r with [] => l | _ => r end in
  match s with
  | [] => None
  | _ => if bytes_eqb s [x00] then None else Some s
  end)).

(* the script code the library commits to for an input, by the path sign()/verify() take for it *)
Definition lib_script_code (k : kind) (keys : list bytes) (m : Z) : option bytes :=
  let x := mk_sin (mk_txin [] 0 [] 0 []) 0 k 1 keys m in
  if k_segwit k then lib_segwit_script x else lib_legacy_script x.

Definition lib_outpoint (i : txin) : option bytes :=
  sh_bind (sh_le 4 (ti_vout i)) (fun v => Some (ti_prev i ++ v)).

(* int(o.value).to_bytes(8, 'little') + varstr(o.lock_script) *)
Definition lib_ser_out (o : txout) : option bytes :=
  sh_bind (sh_le 8 (to_value o)) (fun v =>
  sh_bind (lib_varstr (to_script o)) (fun s => Some (v ++ s))).

(* ---- Transaction.raw(sign_id, hash_type, 'legacy') ----
   [bypos] selects how the input that receives the script is found:
   true  = "sign_id == n" for n, i in enumerate(self.inputs)   (the repaired code, fixes/C01-2),
   false = "sign_id == i.index_n"                              (the code before the repair). *)

Definition lib_legacy_in_at (bypos : bool) (sid : Z) (j : nat) (x : sin) : option bytes :=
  sh_bind (lib_outpoint (si_in x)) (fun op =>
  sh_bind (if sid =? (if bypos then Z.of_nat j else si_index x)
           then sh_bind (lib_legacy_script x) lib_varstr else Some [x00]) (fun s =>
  sh_bind (sh_le 4 (ti_seq (si_in x))) (fun q => Some (op ++ s ++ q)))).

Definition lib_legacy_out (o : txout) : option bytes :=
  if to_value o <? 0 then None else lib_ser_out o.

Definition lib_legacy_preimage_at (bypos : bool) (t : stx) (sid : Z) (ht : Z) : option bytes :=
  sh_bind (sh_le 4 (st_version t)) (fun ver =>
  sh_bind (lib_cs_enc (Z.of_nat (length (st_ins t)))) (fun ci =>
  sh_bind (sh_oconcat (fun o => o) (map_idx (lib_legacy_in_at bypos sid) O (st_ins t))) (fun ins =>
  sh_bind (lib_cs_enc (Z.of_nat (length (st_outs t)))) (fun co =>
  sh_bind (sh_oconcat lib_legacy_out (st_outs t)) (fun outs =>
  sh_bind (sh_le 4 (st_locktime t)) (fun lt =>
  sh_bind (sh_le 4 ht) (fun h =>
  Some (ver ++ ci ++ ins ++ co ++ outs ++ lt ++ h)))))))).

Definition lib_legacy_preimage := lib_legacy_preimage_at true.

(* ---- Transaction.signature_segwit(sign_id, hash_type) ----
   [fixed] selects the comparison in the elif that picks the single output:
   true  = "== SIGHASH_SINGLE" (the repaired code, fixes/C01-1),
   false = "!= SIGHASH_SINGLE" (the code before the repair). *)

Definition lib_base (ht : Z) : Z := Z.land ht 31.
Definition lib_acp (ht : Z) : bool := negb (Z.land ht cfg_SIGHASH_ANYONECANPAY =? 0).
Definition lib_not_single_none (ht : Z) : bool :=
  negb (lib_base ht =? cfg_SIGHASH_SINGLE) && negb (lib_base ht =? cfg_SIGHASH_NONE).

Definition lib_hash_outputs (fixed : bool) (t : stx) (i : nat) (ht : Z) : option bytes :=
  if lib_not_single_none ht then
    sh_bind (sh_oconcat lib_ser_out (st_outs t)) (fun s => Some (H s))
  else if (if fixed then lib_base ht =? cfg_SIGHASH_SINGLE else negb (lib_base ht =? cfg_SIGHASH_SINGLE))
          && (i <? length (st_outs t))%nat then
    match nth_error (st_outs t) i with
    | Some o => sh_bind (lib_ser_out o) (fun s => Some (H s))
    | None => None
    end
  else Some zero32.

Definition lib_bip143_preimage_at (fixed : bool) (t : stx) (i : nat) (ht : Z) : option bytes :=
  if negb (st_segwit t) then None                                     (* assert self.witness_type == 'segwit' *)
  else
  sh_bind (sh_oconcat (fun x => lib_outpoint (si_in x)) (st_ins t)) (fun prevouts =>
  sh_bind (sh_oconcat (fun x => sh_le 4 (ti_seq (si_in x))) (st_ins t)) (fun seqs =>
  let hp := if lib_acp ht then zero32 else H prevouts in
  let hs := if negb (lib_acp ht) && lib_not_single_none ht then H seqs else zero32 in
  sh_bind (lib_hash_outputs fixed t i ht) (fun ho =>
  match nth_error (st_ins t) i with
  | None => None                                                       (* IndexError *)
  | Some x =>
      if si_value x =? 0 then None                                     (* "Need value of input" *)
      else
      sh_bind (lib_segwit_script x) (fun sc =>
      sh_bind (sh_le 4 (st_version t)) (fun ver =>
      sh_bind (lib_outpoint (si_in x)) (fun op =>
      sh_bind (lib_varstr sc) (fun vs =>
      sh_bind (sh_le 8 (si_value x)) (fun v =>
      sh_bind (sh_le 4 (ti_seq (si_in x))) (fun q =>
      sh_bind (sh_le 4 (st_locktime t)) (fun lt =>
      sh_bind (sh_le 4 ht) (fun h =>
      Some (ver ++ hp ++ hs ++ op ++ vs ++ v ++ q ++ ho ++ lt ++ h)))))))))
  end))).

Definition lib_bip143_preimage := lib_bip143_preimage_at true.

(* ---- Transaction.signature(sign_id, hash_type, witness_type) ---- *)
Definition lib_signature_at (bypos : bool) (t : stx) (sid : Z) (ht : Z) (wt : wtype) : option bytes :=
  match wt with
  | WT_legacy => lib_legacy_preimage_at bypos t sid ht
  | _ => if sid <? 0 then None else lib_bip143_preimage t (Z.to_nat sid) ht
  end.

(* Transaction.signature_hash *)
Definition lib_signature_hash_at (bypos : bool) (t : stx) (sid : Z) (ht : Z) (wt : wtype) : option bytes :=
  match lib_signature_at bypos t sid ht wt with Some p => Some (H p) | None => None end.

(* Transaction.sign: digest for the input at list position p, by that input's own witness_type *)
Definition lib_digest_at (bypos : bool) (t : stx) (p : nat) (ht : Z) : option bytes :=
  match nth_error (st_ins t) p with
  | Some x => lib_signature_hash_at bypos t (Z.of_nat p) ht (k_wtype (si_kind x))
  | None => None
  end.

(* Transaction.verify: for the input at position p it asks for sign_id = p (repaired) / inp.index_n (before) *)
Definition lib_verify_digest_at (bypos : bool) (t : stx) (p : nat) (ht : Z) : option bytes :=
  match nth_error (st_ins t) p with
  | Some x => lib_signature_hash_at bypos t (if bypos then Z.of_nat p else si_index x) ht (k_wtype (si_kind x))
  | None => None
  end.

Definition lib_signature := lib_signature_at true.
Definition lib_signature_hash := lib_signature_hash_at true.
Definition lib_digest := lib_digest_at true.
Definition lib_verify_digest := lib_verify_digest_at true.

End Hashes.

(* =====================================================================================
   Domain of the theorems
   ===================================================================================== *)

Definition wf_key (k : bytes) : Prop := length k = 33%nat \/ length k = 65%nat.

Definition wf_sin (x : sin) : Prop :=
  length (ti_prev (si_in x)) = 32%nat /\ 0 <= ti_vout (si_in x) < 2 ^ 32 /\ 0 <= ti_seq (si_in x) < 2 ^ 32 /\
  0 < si_value x < 2 ^ 64 /\
  si_keys x <> [] /\ Forall wf_key (si_keys x) /\ (length (si_keys x) <= 16)%nat /\ 1 <= si_m x <= 16.

(* an output script equal to the single byte 00 is the varstr quirk recorded under C06 *)
Definition wf_sout (o : txout) : Prop :=
  0 <= to_value o < 2 ^ 64 /\ Z.of_nat (length (to_script o)) < 2 ^ 64 /\ to_script o <> [x00].

Definition wf_stx (t : stx) : Prop :=
  0 <= st_version t < 2 ^ 32 /\ 0 <= st_locktime t < 2 ^ 32 /\
  Z.of_nat (length (st_ins t)) < 2 ^ 64 /\ Z.of_nat (length (st_outs t)) < 2 ^ 64 /\
  Forall wf_sin (st_ins t) /\ Forall wf_sout (st_outs t).

(* Input.index_n equals the list position (what add_input / parse / shuffle establish); only needed to speak
   about the code before fixes/C01-2 *)
Definition index_ok (t : stx) : Prop :=
  forall j x, nth_error (st_ins t) j = Some x -> si_index x = Z.of_nat j.

(* hash types the legacy serializer treats like SIGHASH_ALL: no ANYONECANPAY bit, base type neither NONE nor SINGLE *)
Definition legacy_all_like (ht : Z) : bool :=
  (Z.land ht 128 =? 0) && negb (Z.land ht 31 =? 2) && negb (Z.land ht 31 =? 3).

(* boolean comparison of optional byte strings (used to state concrete witnesses) *)
Definition opt_eqb (a b : option bytes) : bool :=
  match a, b with
  | Some x, Some y => bytes_eqb x y
  | None, None => true
  | _, _ => false
  end.

(* =====================================================================================
   The life cycle of ONE Transaction object
   =====================================================================================
   A Transaction object is built (Transaction(...), add_input, add_output, Transaction.parse), observed
   (signature / signature_hash / sign / verify / raw) and changed in place (attributes assigned, inputs and outputs
   added, set_locktime_* methods, sign_and_update, shuffle_inputs), in any order.  The state that matters for the
   digest is what raw() serialises, plus ONE duplicated field: the library keeps the version twice, as the four
   bytes `version` (read by raw() and by both preimages) and as the number `version_int` (read and written by
   set_locktime_relative_* and copied into `version` by sign_and_update).  Nothing else survives between calls in
   the code mirrored here: hashPrevouts / hashSequence / hashOutputs are recomputed on every call.  Signatures,
   scriptSig and witness live in ti_script / ti_wit of the inputs and are not read by the preimages. *)

Record tobj := mk_tobj {
  ob_version : Z;        (* Transaction.version: the 4 bytes, read big-endian *)
  ob_version_int : Z;    (* Transaction.version_int *)
  ob_ins : list sin;
  ob_outs : list txout;
  ob_locktime : Z;
  ob_segwit : bool;      (* Transaction.witness_type = 'segwit' *)
  ob_rbf : bool          (* Transaction.replace_by_fee *)
}.

(* the fields as raw() serialises them and as signature_segwit / raw(sign_id) read them *)
Definition ob_fields (o : tobj) : stx :=
  mk_stx (ob_version o) (ob_ins o) (ob_outs o) (ob_locktime o) (ob_segwit o).

(* a new object that holds exactly these fields (Transaction(inputs, outputs, locktime, version, ...), which is also
   what Transaction.parse constructs from the serialised bytes) *)
Definition ob_fresh (t : stx) : tobj :=
  mk_tobj (st_version t) (st_version t) (st_ins t) (st_outs t) (st_locktime t) (st_segwit t) false.

Definition in32 (v : Z) : bool := (0 <=? v) && (v <? 2 ^ 32).

(* Transaction(version=v, locktime=lt, witness_type=..., replace_by_fee=...) without inputs and outputs;
   "if not version: version = b'\x00\x00\x00\x01'" *)
Definition lib_new (v lt : Z) (sw rbf : bool) : tobj :=
  let v' := if v =? 0 then 1 else v in mk_tobj v' v' [] [] lt sw rbf.

(* Transaction(inputs=[Input...], outputs=[Output...], locktime, version): the lists are taken as they are *)
Definition lib_ctor (v lt : Z) (sw : bool) (ins : list sin) (outs : list txout) : tobj :=
  let v' := if v =? 0 then 1 else v in mk_tobj v' v' ins outs lt sw false.

Definition sin_with_seq (q : Z) (x : sin) : sin :=
  mk_sin (mk_txin (ti_prev (si_in x)) (ti_vout (si_in x)) (ti_script (si_in x)) q (ti_wit (si_in x)))
         (si_index x) (si_kind x) (si_value x) (si_keys x) (si_m x).

Definition sin_with_outpoint (prev : bytes) (vout : Z) (x : sin) : sin :=
  mk_sin (mk_txin prev vout (ti_script (si_in x)) (ti_seq (si_in x)) (ti_wit (si_in x)))
         (si_index x) (si_kind x) (si_value x) (si_keys x) (si_m x).

Definition sin_with_value (v : Z) (x : sin) : sin :=
  mk_sin (si_in x) (si_index x) (si_kind x) v (si_keys x) (si_m x).

Definition sin_with_index (n : Z) (x : sin) : sin :=
  mk_sin (si_in x) n (si_kind x) (si_value x) (si_keys x) (si_m x).

(* Transaction.add_input: with replace_by_fee a final sequence becomes SEQUENCE_REPLACE_BY_FEE; a version-1
   transaction is switched to version 2 (BOTH copies) by a BIP68 relative-locktime sequence *)
Definition lib_add_input (o : tobj) (x : sin) : tobj :=
  let q0 := ti_seq (si_in x) in
  let q := if ob_rbf o && (q0 =? 4294967295) then cfg_SEQUENCE_REPLACE_BY_FEE else q0 in
  let up := (ob_version o =? 1) && (0 <? q) && (q <? cfg_SEQUENCE_LOCKTIME_DISABLE_FLAG) in
  mk_tobj (if up then 2 else ob_version o) (if up then 2 else ob_version_int o)
          (ob_ins o ++ [sin_with_seq q x]) (ob_outs o) (ob_locktime o) (ob_segwit o) (ob_rbf o).

Definition lib_add_output (o : tobj) (u : txout) : tobj :=
  mk_tobj (ob_version o) (ob_version_int o) (ob_ins o) (ob_outs o ++ [u]) (ob_locktime o) (ob_segwit o) (ob_rbf o).

Definition ob_with_ins (o : tobj) (ins : list sin) : tobj :=
  mk_tobj (ob_version o) (ob_version_int o) ins (ob_outs o) (ob_locktime o) (ob_segwit o) (ob_rbf o).
Definition ob_with_outs (o : tobj) (outs : list txout) : tobj :=
  mk_tobj (ob_version o) (ob_version_int o) (ob_ins o) outs (ob_locktime o) (ob_segwit o) (ob_rbf o).
Definition ob_with_locktime (o : tobj) (lt : Z) : tobj :=
  mk_tobj (ob_version o) (ob_version_int o) (ob_ins o) (ob_outs o) lt (ob_segwit o) (ob_rbf o).
Definition ob_with_versions (o : tobj) (v vi : Z) : tobj :=
  mk_tobj v vi (ob_ins o) (ob_outs o) (ob_locktime o) (ob_segwit o) (ob_rbf o).

(* l[i] = f(l[i]); an index beyond the list raises IndexError before anything is changed *)
Fixpoint set_nth {A} (l : list A) (i : nat) (f : A -> A) : list A :=
  match l, i with
  | [], _ => []
  | a :: r, O => f a :: r
  | a :: r, S k => a :: set_nth r k f
  end.

Fixpoint pick_all {A} (l : list A) (p : list nat) : option (list A) :=
  match p with
  | [] => Some []
  | k :: r => match nth_error l k, pick_all l r with Some a, Some s => Some (a :: s) | _, _ => None end
  end.

(* shuffle_inputs with the outcome of random.shuffle given as the list p of old positions; index_n renumbered *)
Definition permute_ins (ins : list sin) (p : list nat) : list sin :=
  if Nat.eqb (length p) (length ins) then
    match pick_all ins p with
    | Some l => map_idx (fun j x => sin_with_index (Z.of_nat j) x) O l
    | None => ins
    end
  else ins.

(* shuffle_outputs with the outcome of random.shuffle given (Output.output_n is not part of the model) *)
Definition permute_outs (outs : list txout) (p : list nat) : list txout :=
  if Nat.eqb (length p) (length outs) then
    match pick_all outs p with Some l => l | None => outs end
  else outs.

(* Transaction.sign_and_update: "self.version = self.version_int.to_bytes(4, 'big')" (OverflowError leaves the
   object as it was), then sign / txid / size, none of which touches a committed field *)
Definition lib_sign_and_update (o : tobj) : tobj :=
  if in32 (ob_version_int o) then ob_with_versions o (ob_version_int o) (ob_version_int o) else o.

Definition final_to_enable (x : sin) : sin :=
  if ti_seq (si_in x) =? 4294967295 then sin_with_seq cfg_SEQUENCE_ENABLE_LOCKTIME x else x.

(* set_locktime_relative_blocks / _time share everything after the sequence value has been computed *)
Definition lib_set_relative (o : tobj) (i : nat) (q lt : Z) : tobj :=
  let vi := ob_version_int o in
  lib_sign_and_update
    (mk_tobj (ob_version o) (if vi <? 2 then 2 else vi) (set_nth (ob_ins o) i (sin_with_seq q)) (ob_outs o)
             (if lt =? 0 then ob_locktime o else lt) (ob_segwit o) (ob_rbf o)).

Definition lib_set_locktime_relative_blocks (o : tobj) (blocks : Z) (i : nat) (lt : Z) : tobj :=
  if (length (ob_ins o) <=? i)%nat then o
  else if (blocks =? 0) || (blocks =? 4294967295) then ob_with_ins o (set_nth (ob_ins o) i (sin_with_seq 4294967295))
  else if cfg_SEQUENCE_LOCKTIME_MASK <? blocks then o
  else lib_set_relative o i blocks lt.

Definition lib_set_locktime_relative_time (o : tobj) (seconds : Z) (i : nat) (lt : Z) : tobj :=
  if (length (ob_ins o) <=? i)%nat then o
  else if (seconds =? 0) || (seconds =? 4294967295) then ob_with_ins o (set_nth (ob_ins o) i (sin_with_seq 4294967295))
  else
    let s := if seconds <? 512 then 512 else seconds in
    if (512 <=? seconds) && (cfg_SEQUENCE_LOCKTIME_MASK <? seconds / 512) then o
    else lib_set_relative o i (s / 512 + cfg_SEQUENCE_LOCKTIME_TYPE_FLAG) lt.

(* set_locktime_blocks / set_locktime_time after their range checks *)
Definition lib_set_absolute (o : tobj) (lt : Z) : tobj :=
  lib_sign_and_update
    (mk_tobj (ob_version o) (ob_version_int o) (map final_to_enable (ob_ins o)) (ob_outs o) lt (ob_segwit o) (ob_rbf o)).

Definition lib_set_locktime_blocks (o : tobj) (blocks : Z) : tobj :=
  if (blocks =? 0) || (blocks =? 4294967295) then ob_with_locktime o 4294967295
  else if 500000000 <? blocks then o
  else lib_set_absolute o blocks.

Definition lib_set_locktime_time (o : tobj) (ts : Z) : tobj :=
  if (ts =? 0) || (ts =? 4294967295) then ob_with_locktime o 4294967295
  else if (ts <=? 500000000) || (4294967294 <? ts) then o
  else lib_set_absolute o ts.

(* Transaction.merge_transaction(other): inputs and outputs of the other transaction appended as they are (no BIP68
   rule here), shuffle() (inputs with outcome pi, outputs with outcome po), update_totals, sign_and_update *)
Definition lib_merge (o : tobj) (xs : list sin) (us : list txout) (pi po : list nat) : tobj :=
  lib_sign_and_update
    (mk_tobj (ob_version o) (ob_version_int o) (permute_ins (ob_ins o ++ xs) pi) (permute_outs (ob_outs o ++ us) po)
             (ob_locktime o) (ob_segwit o) (ob_rbf o)).

(* one step of a session *)
Inductive mut :=
| M_digest                                    (* signature / signature_hash for any input, hash type, path *)
| M_sign                                      (* sign(...), with or without replace_signatures *)
| M_verify                                    (* verify() *)
| M_raw                                       (* raw() *)
| M_seq (i : nat) (q : Z)                     (* inputs[i].sequence = q *)
| M_outpoint (i : nat) (prev : bytes) (vout : Z)   (* inputs[i].prev_txid / output_n / output_n_int = ... *)
| M_in_value (i : nat) (v : Z)                (* inputs[i].value = v *)
| M_locktime (lt : Z)                         (* locktime = lt *)
| M_version (v : Z)                           (* version = v.to_bytes(4, 'big'); version_int = v *)
| M_version_int (v : Z)                       (* version_int = v alone (NOT a complete public way to change the version) *)
| M_out_value (j : nat) (v : Z)               (* outputs[j].value = v *)
| M_out_script (j : nat) (s : bytes)          (* outputs[j].lock_script = s *)
| M_add_input (x : sin)
| M_add_output (u : txout)
| M_permute (p : list nat)                    (* shuffle_inputs *)
| M_merge (xs : list sin) (us : list txout) (pi po : list nat)   (* merge_transaction *)
| M_sign_and_update
| M_rel_blocks (blocks : Z) (i : nat) (lt : Z)
| M_rel_time (seconds : Z) (i : nat) (lt : Z)
| M_lock_blocks (blocks : Z)
| M_lock_time (ts : Z).

Definition lib_apply (o : tobj) (m : mut) : tobj :=
  match m with
  | M_digest | M_sign | M_verify | M_raw => o
  | M_seq i q => ob_with_ins o (set_nth (ob_ins o) i (sin_with_seq q))
  | M_outpoint i prev vout => ob_with_ins o (set_nth (ob_ins o) i (sin_with_outpoint prev vout))
  | M_in_value i v => ob_with_ins o (set_nth (ob_ins o) i (sin_with_value v))
  | M_locktime lt => ob_with_locktime o lt
  | M_version v => ob_with_versions o v v
  | M_version_int v => ob_with_versions o (ob_version o) v
  | M_out_value j v => ob_with_outs o (set_nth (ob_outs o) j (fun u => mk_txout v (to_script u)))
  | M_out_script j s => ob_with_outs o (set_nth (ob_outs o) j (fun u => mk_txout (to_value u) s))
  | M_add_input x => lib_add_input o x
  | M_add_output u => lib_add_output o u
  | M_permute p => ob_with_ins o (permute_ins (ob_ins o) p)
  | M_merge xs us pi po => lib_merge o xs us pi po
  | M_sign_and_update => lib_sign_and_update o
  | M_rel_blocks b i lt => lib_set_locktime_relative_blocks o b i lt
  | M_rel_time s i lt => lib_set_locktime_relative_time o s i lt
  | M_lock_blocks b => lib_set_locktime_blocks o b
  | M_lock_time ts => lib_set_locktime_time o ts
  end.

Definition ob_run (o : tobj) (ms : list mut) : tobj := fold_left lib_apply ms o.

(* steps that only look at the object *)
Definition is_observation (m : mut) : bool :=
  match m with M_digest | M_sign | M_verify | M_raw => true | _ => false end.

(* every step except the assignment to version_int alone: what remains keeps the two copies of the version equal *)
Definition keeps_version_copies (m : mut) : bool :=
  match m with M_version_int _ => false | _ => true end.

(* building through the API: Transaction(version, locktime, ...) then add_input / add_output *)
Definition ob_build_api (v lt : Z) (sw rbf : bool) (ins : list sin) (outs : list txout) : tobj :=
  fold_left lib_add_output outs (fold_left lib_add_input ins (lib_new v lt sw rbf)).

(* what the object answers at any moment of its life *)
Definition ob_signature (H H160 : bytes -> bytes) (o : tobj) (sid ht : Z) (wt : wtype) : option bytes :=
  lib_signature H H160 (ob_fields o) sid ht wt.
Definition ob_digest (H H160 : bytes -> bytes) (o : tobj) (p : nat) (ht : Z) : option bytes :=
  lib_digest H H160 (ob_fields o) p ht.
Definition ob_verify_digest (H H160 : bytes -> bytes) (o : tobj) (p : nat) (ht : Z) : option bytes :=
  lib_verify_digest H H160 (ob_fields o) p ht.

(* ---- the scriptSig of a P2PK input after Transaction.sign put a new signature into Input.signatures ----
   Input.update_scripts, script_type 'signature': "if self.signatures and not self.unlocking_script:
   self.unlocking_script = varstr(sig)" — an existing scriptSig is kept.  [fixed] = fixes/C01-3: Transaction.sign
   empties the scriptSig of a 'signature' input before update_scripts, so the new signature is written. *)
Definition lib_p2pk_scriptsig_at (fixed : bool) (old : bytes) (sig : bytes) : option bytes :=
  if fixed then lib_varstr sig
  else match old with [] => lib_varstr sig | _ => Some old end.

Definition lib_p2pk_scriptsig := lib_p2pk_scriptsig_at true.

(* the part of an input / a transaction that a preimage may depend on: NOT scriptSig, witness, index_n *)
Definition sin_committed (x : sin) : bytes * Z * Z * kind * Z * list bytes * Z :=
  (ti_prev (si_in x), ti_vout (si_in x), ti_seq (si_in x), si_kind x, si_value x, si_keys x, si_m x).

Definition committed_eq (t t' : stx) : Prop :=
  st_version t = st_version t' /\ st_locktime t = st_locktime t' /\ st_segwit t = st_segwit t' /\
  st_outs t = st_outs t' /\ map sin_committed (st_ins t) = map sin_committed (st_ins t').

(* ---------- concrete transactions for the non-vacuity and refutation witnesses ---------- *)

Definition ex_key (tag fill : byte) : bytes := tag :: repeat fill 32.

Definition ex_in0 (idx : Z) (value : Z) : sin :=
  mk_sin (mk_txin (repeat xaa 32) 1 [] 4294967294 []) idx K_p2wpkh value [ex_key x02 x11] 1.

Definition ex_in1 (idx : Z) (k : kind) : sin :=
  mk_sin (mk_txin (repeat xbb 32) 0 [] 4294967295 []) idx k 1000 [ex_key x02 x22; ex_key x03 x33; ex_key x02 x44] 2.

Definition ex_outs : list txout :=
  [mk_txout 4999990000 ([x76; xa9; x14] ++ repeat x55 20 ++ [x88; xac]); mk_txout 546 [x00; x14; x01; x02]].

(* two inputs (native P2WPKH worth 50 BTC, 2-of-3 P2SH multisig), two outputs *)
Definition ex_tx : stx := mk_stx 2 [ex_in0 0 5000000000; ex_in1 1 K_p2sh_multisig] ex_outs 17 true.
(* the same with the index_n attributes exchanged *)
Definition ex_tx_perm : stx := mk_stx 2 [ex_in0 1 5000000000; ex_in1 0 K_p2sh_multisig] ex_outs 17 true.
(* amount 0 on the segwit input *)
Definition ex_tx_zero : stx := mk_stx 2 [ex_in0 0 0; ex_in1 1 K_p2sh_multisig] ex_outs 17 true.
(* an output whose script is the single byte 00 *)
Definition ex_tx_zscript : stx := mk_stx 2 [ex_in0 0 5000000000; ex_in1 1 K_p2sh_multisig] [mk_txout 1 [x00]] 17 true.
(* P2SH-P2WSH input asked for on the legacy path *)
Definition ex_tx_nested : stx := mk_stx 2 [ex_in0 0 5000000000; ex_in1 1 K_p2sh_p2wsh] ex_outs 17 true.

(* ---------- one object and one session for the life-cycle witnesses ---------- *)

(* a native P2WPKH input carrying a BIP68 relative locktime of 144 blocks *)
Definition ex_in_rel : sin :=
  mk_sin (mk_txin (repeat xaa 32) 1 [] 144 []) 0 K_p2wpkh 5000000000 [ex_key x02 x11] 1.
(* Transaction() with the default version, then add_input twice and add_output twice *)
Definition ex_built : tobj := ob_build_api 0 0 true false [ex_in_rel; ex_in1 1 K_p2sh_multisig] ex_outs.
(* the same with only final / non-BIP68 sequences: stays version 1 *)
Definition ex_obj : tobj := ob_build_api 0 0 true false [ex_in0 0 5000000000; ex_in1 1 K_p2sh_multisig] ex_outs.
(* sign, look, set a relative locktime on input 0, verify, set an absolute locktime, opt input 1 into RBF, re-sign, look *)
Definition ex_session : list mut :=
  [M_sign; M_digest; M_rel_blocks 100 0 0; M_verify; M_lock_blocks 606060; M_seq 1 4294967293; M_sign_and_update; M_digest].
