(* Model/SpecNetworks.v — FROZEN specification copy of the network parameters.  Definitions only.

   NOT regenerated from /repo.  This file is the Gallina twin of harness/spec_networks.py (rendered from the tables there
   by `render_coq`; `python3 harness/spec_networks.py --selftest` and every ./check C04 compare the two byte for byte).
   The values were written by hand from the chain parameters of the reference clients:
     Bitcoin Core kernel/chainparams.cpp (bitcoin, testnet, testnet4, signet, regtest), Litecoin Core, Dogecoin Core
     chainparams.cpp; SLIP-0132 (extended-key version bytes of the witness-type / multisig rows, Ltub/Mtub/ttub);
     SLIP-0044 (coin types); BIP173 / BIP350 (human-readable parts).
   Fields commented "policy" are choices of the library (no reference client prescribes them); they are frozen at the
   value the library had at the time of writing so that an edit is noticed.  The network bitcoinlib_test, the bech32
   prefixes of the two Dogecoin rows and the reuse of Mtub/Mtpv/ttub/ttpv for Litecoin segwit/multisig rows are policy too.

   spec_networks  what the library is pinned to; Proofs/SpecNetworksGlue.v proves (vm_compute) that the table regenerated
                  from /repo (Gen/GenNetworks.v), projected to these fields, equals it.
   ref_networks   the reference clients' values.  Equal to spec_networks except for the rows listed in
                  [deviating_networks] (regtest: mainnet version bytes / xpub / coin type 0 instead of Bitcoin Core's
                  6f / c4 / ef / tpub / 1;  dogecoin: xpub / xprv instead of Dogecoin Core's dgub / dgpv).

   To be imported by other properties (C05, C12 ...): the record types do not depend on Gen/GenNetworks.v. *)
From Coq Require Import ZArith List Bool String.
From Coq.Strings Require Import Byte.
Import ListNotations.
Open Scope Z_scope.

(* one row of prefixes_wif *)
Record spec_wif_row := {
  sw_prefix : list byte;          (* 4 version bytes of the serialized extended key *)
  sw_label : string;              (* the base58 text the version bytes produce: xpub, zprv ... *)
  sw_private : bool;
  sw_multisig : bool;
  sw_witness_type : string;       (* legacy | p2sh-segwit | segwit *)
  sw_script_type : string         (* p2pkh | p2sh | p2sh_p2wpkh | p2sh_p2wsh | p2wpkh | p2wsh *)
}.

Record spec_network := {
  sn_name : string;
  sn_prefix_address : list byte;        (* base58 version byte of P2PKH addresses *)
  sn_prefix_address_p2sh : list byte;   (* base58 version byte of P2SH addresses *)
  sn_prefix_bech32 : list byte;         (* ASCII of the bech32 human-readable part *)
  sn_prefix_wif : list byte;            (* base58 version byte of WIF private keys *)
  sn_prefixes_wif : list spec_wif_row;
  sn_bip44_cointype : Z;                (* SLIP-0044 *)
  sn_denominator_hex : string;          (* float.hex() of the binary64 nearest to 10^-8 *)
  sn_dust_amount : Z;
  sn_fee_min : Z;
  sn_fee_max : Z;
  sn_fee_default : option Z;
  sn_priority : Z;
  sn_currency_code : string
}.

(* ---------------------------------------------------------------- the frozen table (what the library is pinned to) *)

Definition sn_bitcoinlib_test : spec_network := {|
  sn_name := "bitcoinlib_test"%string;
  sn_prefix_address := [x90];
  sn_prefix_address_p2sh := [x95];
  sn_prefix_bech32 := [x62; x6c; x74];
  sn_prefix_wif := [x99];
  sn_prefixes_wif :=
    [{| sw_prefix := [x2f; xff; xac; xcc]; sw_label := "BC11"%string; sw_private := false; sw_multisig := false; sw_witness_type := "legacy"%string; sw_script_type := "p2pkh"%string |};
     {| sw_prefix := [x2f; xff; xac; xcc]; sw_label := "BC11"%string; sw_private := false; sw_multisig := true; sw_witness_type := "legacy"%string; sw_script_type := "p2sh"%string |};
     {| sw_prefix := [x2f; xff; xad; xdd]; sw_label := "BC12"%string; sw_private := true; sw_multisig := false; sw_witness_type := "legacy"%string; sw_script_type := "p2pkh"%string |};
     {| sw_prefix := [x2f; xff; xad; xdd]; sw_label := "BC12"%string; sw_private := true; sw_multisig := true; sw_witness_type := "legacy"%string; sw_script_type := "p2sh"%string |};
     {| sw_prefix := [x2f; xff; xae; xee]; sw_label := "BC13"%string; sw_private := false; sw_multisig := false; sw_witness_type := "p2sh-segwit"%string; sw_script_type := "p2sh_p2wpkh"%string |};
     {| sw_prefix := [x2f; xff; xb1; x00]; sw_label := "BC14"%string; sw_private := false; sw_multisig := true; sw_witness_type := "p2sh-segwit"%string; sw_script_type := "p2sh_p2wsh"%string |};
     {| sw_prefix := [x2f; xff; xb3; x00]; sw_label := "BC15"%string; sw_private := true; sw_multisig := false; sw_witness_type := "p2sh-segwit"%string; sw_script_type := "p2sh_p2wpkh"%string |};
     {| sw_prefix := [x2f; xff; xb5; x00]; sw_label := "BC16"%string; sw_private := true; sw_multisig := true; sw_witness_type := "p2sh-segwit"%string; sw_script_type := "p2sh_p2wsh"%string |};
     {| sw_prefix := [x2f; xff; xb6; x66]; sw_label := "BC17"%string; sw_private := false; sw_multisig := false; sw_witness_type := "segwit"%string; sw_script_type := "p2wpkh"%string |};
     {| sw_prefix := [x2f; xff; xb8; x00]; sw_label := "BC18"%string; sw_private := false; sw_multisig := true; sw_witness_type := "segwit"%string; sw_script_type := "p2wsh"%string |};
     {| sw_prefix := [x2f; xff; xb9; x00]; sw_label := "BC19"%string; sw_private := true; sw_multisig := false; sw_witness_type := "segwit"%string; sw_script_type := "p2wpkh"%string |};
     {| sw_prefix := [x2f; xff; xba; x00]; sw_label := "BC1A"%string; sw_private := true; sw_multisig := true; sw_witness_type := "segwit"%string; sw_script_type := "p2wsh"%string |}];
  sn_bip44_cointype := 9999999;
  sn_denominator_hex := "0x1.5798ee2308c3ap-27"%string;
  sn_dust_amount := 1000;          (* policy *)
  sn_fee_min := 1000;          (* policy *)
  sn_fee_max := 1000000;          (* policy *)
  sn_fee_default := Some 10000;          (* policy *)
  sn_priority := 2;          (* policy *)
  sn_currency_code := "TST"%string          (* policy *) |}.

Definition sn_bitcoin : spec_network := {|
  sn_name := "bitcoin"%string;
  sn_prefix_address := [x00];
  sn_prefix_address_p2sh := [x05];
  sn_prefix_bech32 := [x62; x63];
  sn_prefix_wif := [x80];
  sn_prefixes_wif :=
    [{| sw_prefix := [x04; x88; xb2; x1e]; sw_label := "xpub"%string; sw_private := false; sw_multisig := false; sw_witness_type := "legacy"%string; sw_script_type := "p2pkh"%string |};
     {| sw_prefix := [x04; x88; xb2; x1e]; sw_label := "xpub"%string; sw_private := false; sw_multisig := true; sw_witness_type := "legacy"%string; sw_script_type := "p2sh"%string |};
     {| sw_prefix := [x04; x88; xad; xe4]; sw_label := "xprv"%string; sw_private := true; sw_multisig := false; sw_witness_type := "legacy"%string; sw_script_type := "p2pkh"%string |};
     {| sw_prefix := [x04; x88; xad; xe4]; sw_label := "xprv"%string; sw_private := true; sw_multisig := true; sw_witness_type := "legacy"%string; sw_script_type := "p2sh"%string |};
     {| sw_prefix := [x04; x9d; x7c; xb2]; sw_label := "ypub"%string; sw_private := false; sw_multisig := false; sw_witness_type := "p2sh-segwit"%string; sw_script_type := "p2sh_p2wpkh"%string |};
     {| sw_prefix := [x02; x95; xb4; x3f]; sw_label := "Ypub"%string; sw_private := false; sw_multisig := true; sw_witness_type := "p2sh-segwit"%string; sw_script_type := "p2sh_p2wsh"%string |};
     {| sw_prefix := [x04; x9d; x78; x78]; sw_label := "yprv"%string; sw_private := true; sw_multisig := false; sw_witness_type := "p2sh-segwit"%string; sw_script_type := "p2sh_p2wpkh"%string |};
     {| sw_prefix := [x02; x95; xb0; x05]; sw_label := "Yprv"%string; sw_private := true; sw_multisig := true; sw_witness_type := "p2sh-segwit"%string; sw_script_type := "p2sh_p2wsh"%string |};
     {| sw_prefix := [x04; xb2; x47; x46]; sw_label := "zpub"%string; sw_private := false; sw_multisig := false; sw_witness_type := "segwit"%string; sw_script_type := "p2wpkh"%string |};
     {| sw_prefix := [x02; xaa; x7e; xd3]; sw_label := "Zpub"%string; sw_private := false; sw_multisig := true; sw_witness_type := "segwit"%string; sw_script_type := "p2wsh"%string |};
     {| sw_prefix := [x04; xb2; x43; x0c]; sw_label := "zprv"%string; sw_private := true; sw_multisig := false; sw_witness_type := "segwit"%string; sw_script_type := "p2wpkh"%string |};
     {| sw_prefix := [x02; xaa; x7a; x99]; sw_label := "Zprv"%string; sw_private := true; sw_multisig := true; sw_witness_type := "segwit"%string; sw_script_type := "p2wsh"%string |}];
  sn_bip44_cointype := 0;
  sn_denominator_hex := "0x1.5798ee2308c3ap-27"%string;
  sn_dust_amount := 1000;          (* policy *)
  sn_fee_min := 1000;          (* policy *)
  sn_fee_max := 1000000;          (* policy *)
  sn_fee_default := None;          (* policy *)
  sn_priority := 12;          (* policy *)
  sn_currency_code := "BTC"%string          (* policy *) |}.

Definition sn_testnet : spec_network := {|
  sn_name := "testnet"%string;
  sn_prefix_address := [x6f];
  sn_prefix_address_p2sh := [xc4];
  sn_prefix_bech32 := [x74; x62];
  sn_prefix_wif := [xef];
  sn_prefixes_wif :=
    [{| sw_prefix := [x04; x35; x87; xcf]; sw_label := "tpub"%string; sw_private := false; sw_multisig := false; sw_witness_type := "legacy"%string; sw_script_type := "p2pkh"%string |};
     {| sw_prefix := [x04; x35; x87; xcf]; sw_label := "tpub"%string; sw_private := false; sw_multisig := true; sw_witness_type := "legacy"%string; sw_script_type := "p2sh"%string |};
     {| sw_prefix := [x04; x35; x83; x94]; sw_label := "tprv"%string; sw_private := true; sw_multisig := false; sw_witness_type := "legacy"%string; sw_script_type := "p2pkh"%string |};
     {| sw_prefix := [x04; x35; x83; x94]; sw_label := "tprv"%string; sw_private := true; sw_multisig := true; sw_witness_type := "legacy"%string; sw_script_type := "p2sh"%string |};
     {| sw_prefix := [x04; x4a; x52; x62]; sw_label := "upub"%string; sw_private := false; sw_multisig := false; sw_witness_type := "p2sh-segwit"%string; sw_script_type := "p2sh_p2wpkh"%string |};
     {| sw_prefix := [x02; x42; x89; xef]; sw_label := "Upub"%string; sw_private := false; sw_multisig := true; sw_witness_type := "p2sh-segwit"%string; sw_script_type := "p2sh_p2wsh"%string |};
     {| sw_prefix := [x04; x4a; x4e; x28]; sw_label := "uprv"%string; sw_private := true; sw_multisig := false; sw_witness_type := "p2sh-segwit"%string; sw_script_type := "p2sh_p2wpkh"%string |};
     {| sw_prefix := [x02; x42; x85; xb5]; sw_label := "Uprv"%string; sw_private := true; sw_multisig := true; sw_witness_type := "p2sh-segwit"%string; sw_script_type := "p2sh_p2wsh"%string |};
     {| sw_prefix := [x04; x5f; x1c; xf6]; sw_label := "vpub"%string; sw_private := false; sw_multisig := false; sw_witness_type := "segwit"%string; sw_script_type := "p2wpkh"%string |};
     {| sw_prefix := [x02; x57; x54; x83]; sw_label := "Vpub"%string; sw_private := false; sw_multisig := true; sw_witness_type := "segwit"%string; sw_script_type := "p2wsh"%string |};
     {| sw_prefix := [x04; x5f; x18; xbc]; sw_label := "vprv"%string; sw_private := true; sw_multisig := false; sw_witness_type := "segwit"%string; sw_script_type := "p2wpkh"%string |};
     {| sw_prefix := [x02; x57; x50; x48]; sw_label := "Vprv"%string; sw_private := true; sw_multisig := true; sw_witness_type := "segwit"%string; sw_script_type := "p2wsh"%string |}];
  sn_bip44_cointype := 1;
  sn_denominator_hex := "0x1.5798ee2308c3ap-27"%string;
  sn_dust_amount := 1000;          (* policy *)
  sn_fee_min := 1000;          (* policy *)
  sn_fee_max := 2000000;          (* policy *)
  sn_fee_default := Some 10000;          (* policy *)
  sn_priority := 8;          (* policy *)
  sn_currency_code := "tBTC"%string          (* policy *) |}.

Definition sn_testnet4 : spec_network := {|
  sn_name := "testnet4"%string;
  sn_prefix_address := [x6f];
  sn_prefix_address_p2sh := [xc4];
  sn_prefix_bech32 := [x74; x62];
  sn_prefix_wif := [xef];
  sn_prefixes_wif :=
    [{| sw_prefix := [x04; x35; x87; xcf]; sw_label := "tpub"%string; sw_private := false; sw_multisig := false; sw_witness_type := "legacy"%string; sw_script_type := "p2pkh"%string |};
     {| sw_prefix := [x04; x35; x87; xcf]; sw_label := "tpub"%string; sw_private := false; sw_multisig := true; sw_witness_type := "legacy"%string; sw_script_type := "p2sh"%string |};
     {| sw_prefix := [x04; x35; x83; x94]; sw_label := "tprv"%string; sw_private := true; sw_multisig := false; sw_witness_type := "legacy"%string; sw_script_type := "p2pkh"%string |};
     {| sw_prefix := [x04; x35; x83; x94]; sw_label := "tprv"%string; sw_private := true; sw_multisig := true; sw_witness_type := "legacy"%string; sw_script_type := "p2sh"%string |};
     {| sw_prefix := [x04; x4a; x52; x62]; sw_label := "upub"%string; sw_private := false; sw_multisig := false; sw_witness_type := "p2sh-segwit"%string; sw_script_type := "p2sh_p2wpkh"%string |};
     {| sw_prefix := [x02; x42; x89; xef]; sw_label := "Upub"%string; sw_private := false; sw_multisig := true; sw_witness_type := "p2sh-segwit"%string; sw_script_type := "p2sh_p2wsh"%string |};
     {| sw_prefix := [x04; x4a; x4e; x28]; sw_label := "uprv"%string; sw_private := true; sw_multisig := false; sw_witness_type := "p2sh-segwit"%string; sw_script_type := "p2sh_p2wpkh"%string |};
     {| sw_prefix := [x02; x42; x85; xb5]; sw_label := "Uprv"%string; sw_private := true; sw_multisig := true; sw_witness_type := "p2sh-segwit"%string; sw_script_type := "p2sh_p2wsh"%string |};
     {| sw_prefix := [x04; x5f; x1c; xf6]; sw_label := "vpub"%string; sw_private := false; sw_multisig := false; sw_witness_type := "segwit"%string; sw_script_type := "p2wpkh"%string |};
     {| sw_prefix := [x02; x57; x54; x83]; sw_label := "Vpub"%string; sw_private := false; sw_multisig := true; sw_witness_type := "segwit"%string; sw_script_type := "p2wsh"%string |};
     {| sw_prefix := [x04; x5f; x18; xbc]; sw_label := "vprv"%string; sw_private := true; sw_multisig := false; sw_witness_type := "segwit"%string; sw_script_type := "p2wpkh"%string |};
     {| sw_prefix := [x02; x57; x50; x48]; sw_label := "Vprv"%string; sw_private := true; sw_multisig := true; sw_witness_type := "segwit"%string; sw_script_type := "p2wsh"%string |}];
  sn_bip44_cointype := 1;
  sn_denominator_hex := "0x1.5798ee2308c3ap-27"%string;
  sn_dust_amount := 1000;          (* policy *)
  sn_fee_min := 1000;          (* policy *)
  sn_fee_max := 2000000;          (* policy *)
  sn_fee_default := Some 10000;          (* policy *)
  sn_priority := 8;          (* policy *)
  sn_currency_code := "tBTC"%string          (* policy *) |}.

Definition sn_signet : spec_network := {|
  sn_name := "signet"%string;
  sn_prefix_address := [x6f];
  sn_prefix_address_p2sh := [xc4];
  sn_prefix_bech32 := [x74; x62];
  sn_prefix_wif := [xef];
  sn_prefixes_wif :=
    [{| sw_prefix := [x04; x35; x87; xcf]; sw_label := "tpub"%string; sw_private := false; sw_multisig := false; sw_witness_type := "legacy"%string; sw_script_type := "p2pkh"%string |};
     {| sw_prefix := [x04; x35; x87; xcf]; sw_label := "tpub"%string; sw_private := false; sw_multisig := true; sw_witness_type := "legacy"%string; sw_script_type := "p2sh"%string |};
     {| sw_prefix := [x04; x35; x83; x94]; sw_label := "tprv"%string; sw_private := true; sw_multisig := false; sw_witness_type := "legacy"%string; sw_script_type := "p2pkh"%string |};
     {| sw_prefix := [x04; x35; x83; x94]; sw_label := "tprv"%string; sw_private := true; sw_multisig := true; sw_witness_type := "legacy"%string; sw_script_type := "p2sh"%string |};
     {| sw_prefix := [x04; x4a; x52; x62]; sw_label := "upub"%string; sw_private := false; sw_multisig := false; sw_witness_type := "p2sh-segwit"%string; sw_script_type := "p2sh_p2wpkh"%string |};
     {| sw_prefix := [x02; x42; x89; xef]; sw_label := "Upub"%string; sw_private := false; sw_multisig := true; sw_witness_type := "p2sh-segwit"%string; sw_script_type := "p2sh_p2wsh"%string |};
     {| sw_prefix := [x04; x4a; x4e; x28]; sw_label := "uprv"%string; sw_private := true; sw_multisig := false; sw_witness_type := "p2sh-segwit"%string; sw_script_type := "p2sh_p2wpkh"%string |};
     {| sw_prefix := [x02; x42; x85; xb5]; sw_label := "Uprv"%string; sw_private := true; sw_multisig := true; sw_witness_type := "p2sh-segwit"%string; sw_script_type := "p2sh_p2wsh"%string |};
     {| sw_prefix := [x04; x5f; x1c; xf6]; sw_label := "vpub"%string; sw_private := false; sw_multisig := false; sw_witness_type := "segwit"%string; sw_script_type := "p2wpkh"%string |};
     {| sw_prefix := [x02; x57; x54; x83]; sw_label := "Vpub"%string; sw_private := false; sw_multisig := true; sw_witness_type := "segwit"%string; sw_script_type := "p2wsh"%string |};
     {| sw_prefix := [x04; x5f; x18; xbc]; sw_label := "vprv"%string; sw_private := true; sw_multisig := false; sw_witness_type := "segwit"%string; sw_script_type := "p2wpkh"%string |};
     {| sw_prefix := [x02; x57; x50; x48]; sw_label := "Vprv"%string; sw_private := true; sw_multisig := true; sw_witness_type := "segwit"%string; sw_script_type := "p2wsh"%string |}];
  sn_bip44_cointype := 1;
  sn_denominator_hex := "0x1.5798ee2308c3ap-27"%string;
  sn_dust_amount := 1000;          (* policy *)
  sn_fee_min := 1000;          (* policy *)
  sn_fee_max := 2000000;          (* policy *)
  sn_fee_default := Some 10000;          (* policy *)
  sn_priority := 8;          (* policy *)
  sn_currency_code := "sBTC"%string          (* policy *) |}.

(* DEVIATES from the reference client in: prefix_address, prefix_address_p2sh, prefix_wif, prefixes_wif, bip44_cointype (see ref_regtest) *)
Definition sn_regtest : spec_network := {|
  sn_name := "regtest"%string;
  sn_prefix_address := [x00];
  sn_prefix_address_p2sh := [x05];
  sn_prefix_bech32 := [x62; x63; x72; x74];
  sn_prefix_wif := [x80];
  sn_prefixes_wif :=
    [{| sw_prefix := [x04; x88; xb2; x1e]; sw_label := "xpub"%string; sw_private := false; sw_multisig := false; sw_witness_type := "legacy"%string; sw_script_type := "p2pkh"%string |};
     {| sw_prefix := [x04; x88; xb2; x1e]; sw_label := "xpub"%string; sw_private := false; sw_multisig := true; sw_witness_type := "legacy"%string; sw_script_type := "p2sh"%string |};
     {| sw_prefix := [x04; x88; xad; xe4]; sw_label := "xprv"%string; sw_private := true; sw_multisig := false; sw_witness_type := "legacy"%string; sw_script_type := "p2pkh"%string |};
     {| sw_prefix := [x04; x88; xad; xe4]; sw_label := "xprv"%string; sw_private := true; sw_multisig := true; sw_witness_type := "legacy"%string; sw_script_type := "p2sh"%string |};
     {| sw_prefix := [x04; x9d; x7c; xb2]; sw_label := "ypub"%string; sw_private := false; sw_multisig := false; sw_witness_type := "p2sh-segwit"%string; sw_script_type := "p2sh_p2wpkh"%string |};
     {| sw_prefix := [x02; x95; xb4; x3f]; sw_label := "Ypub"%string; sw_private := false; sw_multisig := true; sw_witness_type := "p2sh-segwit"%string; sw_script_type := "p2sh_p2wsh"%string |};
     {| sw_prefix := [x04; x9d; x78; x78]; sw_label := "yprv"%string; sw_private := true; sw_multisig := false; sw_witness_type := "p2sh-segwit"%string; sw_script_type := "p2sh_p2wpkh"%string |};
     {| sw_prefix := [x02; x95; xb0; x05]; sw_label := "Yprv"%string; sw_private := true; sw_multisig := true; sw_witness_type := "p2sh-segwit"%string; sw_script_type := "p2sh_p2wsh"%string |};
     {| sw_prefix := [x04; xb2; x47; x46]; sw_label := "zpub"%string; sw_private := false; sw_multisig := false; sw_witness_type := "segwit"%string; sw_script_type := "p2wpkh"%string |};
     {| sw_prefix := [x02; xaa; x7e; xd3]; sw_label := "Zpub"%string; sw_private := false; sw_multisig := true; sw_witness_type := "segwit"%string; sw_script_type := "p2wsh"%string |};
     {| sw_prefix := [x04; xb2; x43; x0c]; sw_label := "zprv"%string; sw_private := true; sw_multisig := false; sw_witness_type := "segwit"%string; sw_script_type := "p2wpkh"%string |};
     {| sw_prefix := [x02; xaa; x7a; x99]; sw_label := "Zprv"%string; sw_private := true; sw_multisig := true; sw_witness_type := "segwit"%string; sw_script_type := "p2wsh"%string |}];
  sn_bip44_cointype := 0;
  sn_denominator_hex := "0x1.5798ee2308c3ap-27"%string;
  sn_dust_amount := 1000;          (* policy *)
  sn_fee_min := 1000;          (* policy *)
  sn_fee_max := 1000000;          (* policy *)
  sn_fee_default := None;          (* policy *)
  sn_priority := 0;          (* policy *)
  sn_currency_code := "rBTC"%string          (* policy *) |}.

Definition sn_litecoin : spec_network := {|
  sn_name := "litecoin"%string;
  sn_prefix_address := [x30];
  sn_prefix_address_p2sh := [x32];
  sn_prefix_bech32 := [x6c; x74; x63];
  sn_prefix_wif := [xb0];
  sn_prefixes_wif :=
    [{| sw_prefix := [x01; x9d; xa4; x62]; sw_label := "Ltub"%string; sw_private := false; sw_multisig := false; sw_witness_type := "legacy"%string; sw_script_type := "p2pkh"%string |};
     {| sw_prefix := [x01; x9d; xa4; x62]; sw_label := "Ltub"%string; sw_private := false; sw_multisig := true; sw_witness_type := "legacy"%string; sw_script_type := "p2sh"%string |};
     {| sw_prefix := [x01; x9d; x9c; xfe]; sw_label := "Ltpv"%string; sw_private := true; sw_multisig := false; sw_witness_type := "legacy"%string; sw_script_type := "p2pkh"%string |};
     {| sw_prefix := [x01; x9d; x9c; xfe]; sw_label := "Ltpv"%string; sw_private := true; sw_multisig := true; sw_witness_type := "legacy"%string; sw_script_type := "p2sh"%string |};
     {| sw_prefix := [x01; xb2; x6e; xf6]; sw_label := "Mtub"%string; sw_private := false; sw_multisig := false; sw_witness_type := "p2sh-segwit"%string; sw_script_type := "p2sh_p2wpkh"%string |};
     {| sw_prefix := [x01; xb2; x6e; xf6]; sw_label := "Mtub"%string; sw_private := false; sw_multisig := true; sw_witness_type := "p2sh-segwit"%string; sw_script_type := "p2sh_p2wsh"%string |};
     {| sw_prefix := [x01; xb2; x67; x92]; sw_label := "Mtpv"%string; sw_private := true; sw_multisig := false; sw_witness_type := "p2sh-segwit"%string; sw_script_type := "p2sh_p2wpkh"%string |};
     {| sw_prefix := [x01; xb2; x67; x92]; sw_label := "Mtpv"%string; sw_private := true; sw_multisig := true; sw_witness_type := "p2sh-segwit"%string; sw_script_type := "p2sh_p2wsh"%string |};
     {| sw_prefix := [x01; xb2; x6e; xf6]; sw_label := "Mtub"%string; sw_private := false; sw_multisig := false; sw_witness_type := "segwit"%string; sw_script_type := "p2wpkh"%string |};
     {| sw_prefix := [x01; xb2; x6e; xf6]; sw_label := "Mtub"%string; sw_private := false; sw_multisig := true; sw_witness_type := "segwit"%string; sw_script_type := "p2wsh"%string |};
     {| sw_prefix := [x01; xb2; x67; x92]; sw_label := "Mtpv"%string; sw_private := true; sw_multisig := false; sw_witness_type := "segwit"%string; sw_script_type := "p2wpkh"%string |};
     {| sw_prefix := [x01; xb2; x67; x92]; sw_label := "Mtpv"%string; sw_private := true; sw_multisig := true; sw_witness_type := "segwit"%string; sw_script_type := "p2wsh"%string |}];
  sn_bip44_cointype := 2;
  sn_denominator_hex := "0x1.5798ee2308c3ap-27"%string;
  sn_dust_amount := 1000;          (* policy *)
  sn_fee_min := 1000;          (* policy *)
  sn_fee_max := 1000000;          (* policy *)
  sn_fee_default := Some 50000;          (* policy *)
  sn_priority := 10;          (* policy *)
  sn_currency_code := "LTC"%string          (* policy *) |}.

Definition sn_litecoin_legacy : spec_network := {|
  sn_name := "litecoin_legacy"%string;
  sn_prefix_address := [x30];
  sn_prefix_address_p2sh := [x05];
  sn_prefix_bech32 := [x6c; x74; x63];
  sn_prefix_wif := [xb0];
  sn_prefixes_wif :=
    [{| sw_prefix := [x01; x9d; xa4; x62]; sw_label := "Ltub"%string; sw_private := false; sw_multisig := false; sw_witness_type := "legacy"%string; sw_script_type := "p2pkh"%string |};
     {| sw_prefix := [x01; x9d; xa4; x62]; sw_label := "Ltub"%string; sw_private := false; sw_multisig := true; sw_witness_type := "legacy"%string; sw_script_type := "p2sh"%string |};
     {| sw_prefix := [x01; x9d; x9c; xfe]; sw_label := "Ltpv"%string; sw_private := true; sw_multisig := false; sw_witness_type := "legacy"%string; sw_script_type := "p2pkh"%string |};
     {| sw_prefix := [x01; x9d; x9c; xfe]; sw_label := "Ltpv"%string; sw_private := true; sw_multisig := true; sw_witness_type := "legacy"%string; sw_script_type := "p2sh"%string |};
     {| sw_prefix := [x01; xb2; x6e; xf6]; sw_label := "Mtub"%string; sw_private := false; sw_multisig := false; sw_witness_type := "p2sh-segwit"%string; sw_script_type := "p2sh_p2wpkh"%string |};
     {| sw_prefix := [x01; xb2; x6e; xf6]; sw_label := "Mtub"%string; sw_private := false; sw_multisig := true; sw_witness_type := "p2sh-segwit"%string; sw_script_type := "p2sh_p2wsh"%string |};
     {| sw_prefix := [x01; xb2; x67; x92]; sw_label := "Mtpv"%string; sw_private := true; sw_multisig := false; sw_witness_type := "p2sh-segwit"%string; sw_script_type := "p2sh_p2wpkh"%string |};
     {| sw_prefix := [x01; xb2; x67; x92]; sw_label := "Mtpv"%string; sw_private := true; sw_multisig := true; sw_witness_type := "p2sh-segwit"%string; sw_script_type := "p2sh_p2wsh"%string |};
     {| sw_prefix := [x01; xb2; x6e; xf6]; sw_label := "Mtub"%string; sw_private := false; sw_multisig := false; sw_witness_type := "segwit"%string; sw_script_type := "p2wpkh"%string |};
     {| sw_prefix := [x01; xb2; x6e; xf6]; sw_label := "Mtub"%string; sw_private := false; sw_multisig := true; sw_witness_type := "segwit"%string; sw_script_type := "p2wsh"%string |};
     {| sw_prefix := [x01; xb2; x67; x92]; sw_label := "Mtpv"%string; sw_private := true; sw_multisig := false; sw_witness_type := "segwit"%string; sw_script_type := "p2wpkh"%string |};
     {| sw_prefix := [x01; xb2; x67; x92]; sw_label := "Mtpv"%string; sw_private := true; sw_multisig := true; sw_witness_type := "segwit"%string; sw_script_type := "p2wsh"%string |}];
  sn_bip44_cointype := 2;
  sn_denominator_hex := "0x1.5798ee2308c3ap-27"%string;
  sn_dust_amount := 1000;          (* policy *)
  sn_fee_min := 1000;          (* policy *)
  sn_fee_max := 1000000;          (* policy *)
  sn_fee_default := Some 50000;          (* policy *)
  sn_priority := 8;          (* policy *)
  sn_currency_code := "LTC"%string          (* policy *) |}.

Definition sn_litecoin_testnet : spec_network := {|
  sn_name := "litecoin_testnet"%string;
  sn_prefix_address := [x6f];
  sn_prefix_address_p2sh := [x3a];
  sn_prefix_bech32 := [x74; x6c; x74; x63];
  sn_prefix_wif := [xef];
  sn_prefixes_wif :=
    [{| sw_prefix := [x04; x36; xf6; xe1]; sw_label := "ttub"%string; sw_private := false; sw_multisig := false; sw_witness_type := "legacy"%string; sw_script_type := "p2pkh"%string |};
     {| sw_prefix := [x04; x36; xf6; xe1]; sw_label := "ttub"%string; sw_private := false; sw_multisig := true; sw_witness_type := "legacy"%string; sw_script_type := "p2sh"%string |};
     {| sw_prefix := [x04; x36; xef; x7d]; sw_label := "ttpv"%string; sw_private := true; sw_multisig := false; sw_witness_type := "legacy"%string; sw_script_type := "p2pkh"%string |};
     {| sw_prefix := [x04; x36; xef; x7d]; sw_label := "ttpv"%string; sw_private := true; sw_multisig := true; sw_witness_type := "legacy"%string; sw_script_type := "p2sh"%string |};
     {| sw_prefix := [x04; x36; xf6; xe1]; sw_label := "ttub"%string; sw_private := false; sw_multisig := false; sw_witness_type := "p2sh-segwit"%string; sw_script_type := "p2sh_p2wpkh"%string |};
     {| sw_prefix := [x04; x36; xf6; xe1]; sw_label := "ttub"%string; sw_private := false; sw_multisig := true; sw_witness_type := "p2sh-segwit"%string; sw_script_type := "p2sh_p2wsh"%string |};
     {| sw_prefix := [x04; x36; xef; x7d]; sw_label := "ttpv"%string; sw_private := true; sw_multisig := false; sw_witness_type := "p2sh-segwit"%string; sw_script_type := "p2sh_p2wpkh"%string |};
     {| sw_prefix := [x04; x36; xef; x7d]; sw_label := "ttpv"%string; sw_private := true; sw_multisig := true; sw_witness_type := "p2sh-segwit"%string; sw_script_type := "p2sh_p2wsh"%string |};
     {| sw_prefix := [x04; x36; xf6; xe1]; sw_label := "ttub"%string; sw_private := false; sw_multisig := false; sw_witness_type := "segwit"%string; sw_script_type := "p2wpkh"%string |};
     {| sw_prefix := [x04; x36; xf6; xe1]; sw_label := "ttub"%string; sw_private := false; sw_multisig := true; sw_witness_type := "segwit"%string; sw_script_type := "p2wsh"%string |};
     {| sw_prefix := [x04; x36; xef; x7d]; sw_label := "ttpv"%string; sw_private := true; sw_multisig := false; sw_witness_type := "segwit"%string; sw_script_type := "p2wpkh"%string |};
     {| sw_prefix := [x04; x36; xef; x7d]; sw_label := "ttpv"%string; sw_private := true; sw_multisig := true; sw_witness_type := "segwit"%string; sw_script_type := "p2wsh"%string |}];
  sn_bip44_cointype := 1;
  sn_denominator_hex := "0x1.5798ee2308c3ap-27"%string;
  sn_dust_amount := 1000;          (* policy *)
  sn_fee_min := 1000;          (* policy *)
  sn_fee_max := 1000000;          (* policy *)
  sn_fee_default := Some 50000;          (* policy *)
  sn_priority := 6;          (* policy *)
  sn_currency_code := "XLT"%string          (* policy *) |}.

(* DEVIATES from the reference client in: prefixes_wif (see ref_dogecoin) *)
Definition sn_dogecoin : spec_network := {|
  sn_name := "dogecoin"%string;
  sn_prefix_address := [x1e];
  sn_prefix_address_p2sh := [x16];
  sn_prefix_bech32 := [x64; x6f; x67; x65];
  sn_prefix_wif := [x9e];
  sn_prefixes_wif :=
    [{| sw_prefix := [x04; x88; xb2; x1e]; sw_label := "xpub"%string; sw_private := false; sw_multisig := false; sw_witness_type := "legacy"%string; sw_script_type := "p2pkh"%string |};
     {| sw_prefix := [x04; x88; xb2; x1e]; sw_label := "xpub"%string; sw_private := false; sw_multisig := true; sw_witness_type := "legacy"%string; sw_script_type := "p2sh"%string |};
     {| sw_prefix := [x04; x88; xad; xe4]; sw_label := "xprv"%string; sw_private := true; sw_multisig := false; sw_witness_type := "legacy"%string; sw_script_type := "p2pkh"%string |};
     {| sw_prefix := [x04; x88; xad; xe4]; sw_label := "xprv"%string; sw_private := true; sw_multisig := true; sw_witness_type := "legacy"%string; sw_script_type := "p2sh"%string |}];
  sn_bip44_cointype := 3;
  sn_denominator_hex := "0x1.5798ee2308c3ap-27"%string;
  sn_dust_amount := 1000;          (* policy *)
  sn_fee_min := 1000000;          (* policy *)
  sn_fee_max := 10000000000;          (* policy *)
  sn_fee_default := Some 200000000;          (* policy *)
  sn_priority := 10;          (* policy *)
  sn_currency_code := "DOGE"%string          (* policy *) |}.

Definition sn_dogecoin_testnet : spec_network := {|
  sn_name := "dogecoin_testnet"%string;
  sn_prefix_address := [x71];
  sn_prefix_address_p2sh := [xc4];
  sn_prefix_bech32 := [x74; x64; x6f; x67; x65];
  sn_prefix_wif := [xf1];
  sn_prefixes_wif :=
    [{| sw_prefix := [x04; x35; x87; xcf]; sw_label := "tpub"%string; sw_private := false; sw_multisig := false; sw_witness_type := "legacy"%string; sw_script_type := "p2pkh"%string |};
     {| sw_prefix := [x04; x35; x87; xcf]; sw_label := "tpub"%string; sw_private := false; sw_multisig := true; sw_witness_type := "legacy"%string; sw_script_type := "p2sh"%string |};
     {| sw_prefix := [x04; x35; x83; x94]; sw_label := "tprv"%string; sw_private := true; sw_multisig := false; sw_witness_type := "legacy"%string; sw_script_type := "p2pkh"%string |};
     {| sw_prefix := [x04; x35; x83; x94]; sw_label := "tprv"%string; sw_private := true; sw_multisig := true; sw_witness_type := "legacy"%string; sw_script_type := "p2sh"%string |}];
  sn_bip44_cointype := 1;
  sn_denominator_hex := "0x1.5798ee2308c3ap-27"%string;
  sn_dust_amount := 1000;          (* policy *)
  sn_fee_min := 1000000;          (* policy *)
  sn_fee_max := 10000000000;          (* policy *)
  sn_fee_default := Some 100000000;          (* policy *)
  sn_priority := 6;          (* policy *)
  sn_currency_code := "tDOGE"%string          (* policy *) |}.

Definition spec_networks : list spec_network :=
  [sn_bitcoinlib_test; sn_bitcoin; sn_testnet; sn_testnet4; sn_signet; sn_regtest; sn_litecoin; sn_litecoin_legacy; sn_litecoin_testnet; sn_dogecoin; sn_dogecoin_testnet].

(* ---------------------------------------------------------------- reference-client values of the deviating rows *)

(* reference client:
   prefix_address: Bitcoin Core CRegTestParams base58Prefixes[PUBKEY_ADDRESS] = 111 (0x6f)
   prefix_address_p2sh: Bitcoin Core CRegTestParams base58Prefixes[SCRIPT_ADDRESS] = 196 (0xc4)
   prefix_wif: Bitcoin Core CRegTestParams base58Prefixes[SECRET_KEY] = 239 (0xef)
   prefixes_wif: Bitcoin Core CRegTestParams EXT_PUBLIC_KEY 043587CF / EXT_SECRET_KEY 04358394 (tpub / tprv)
   bip44_cointype: SLIP-0044: coin type 1 = "Testnet (all coins)" *)
Definition ref_regtest : spec_network := {|
  sn_name := "regtest"%string;
  sn_prefix_address := [x6f];
  sn_prefix_address_p2sh := [xc4];
  sn_prefix_bech32 := [x62; x63; x72; x74];
  sn_prefix_wif := [xef];
  sn_prefixes_wif :=
    [{| sw_prefix := [x04; x35; x87; xcf]; sw_label := "tpub"%string; sw_private := false; sw_multisig := false; sw_witness_type := "legacy"%string; sw_script_type := "p2pkh"%string |};
     {| sw_prefix := [x04; x35; x87; xcf]; sw_label := "tpub"%string; sw_private := false; sw_multisig := true; sw_witness_type := "legacy"%string; sw_script_type := "p2sh"%string |};
     {| sw_prefix := [x04; x35; x83; x94]; sw_label := "tprv"%string; sw_private := true; sw_multisig := false; sw_witness_type := "legacy"%string; sw_script_type := "p2pkh"%string |};
     {| sw_prefix := [x04; x35; x83; x94]; sw_label := "tprv"%string; sw_private := true; sw_multisig := true; sw_witness_type := "legacy"%string; sw_script_type := "p2sh"%string |};
     {| sw_prefix := [x04; x4a; x52; x62]; sw_label := "upub"%string; sw_private := false; sw_multisig := false; sw_witness_type := "p2sh-segwit"%string; sw_script_type := "p2sh_p2wpkh"%string |};
     {| sw_prefix := [x02; x42; x89; xef]; sw_label := "Upub"%string; sw_private := false; sw_multisig := true; sw_witness_type := "p2sh-segwit"%string; sw_script_type := "p2sh_p2wsh"%string |};
     {| sw_prefix := [x04; x4a; x4e; x28]; sw_label := "uprv"%string; sw_private := true; sw_multisig := false; sw_witness_type := "p2sh-segwit"%string; sw_script_type := "p2sh_p2wpkh"%string |};
     {| sw_prefix := [x02; x42; x85; xb5]; sw_label := "Uprv"%string; sw_private := true; sw_multisig := true; sw_witness_type := "p2sh-segwit"%string; sw_script_type := "p2sh_p2wsh"%string |};
     {| sw_prefix := [x04; x5f; x1c; xf6]; sw_label := "vpub"%string; sw_private := false; sw_multisig := false; sw_witness_type := "segwit"%string; sw_script_type := "p2wpkh"%string |};
     {| sw_prefix := [x02; x57; x54; x83]; sw_label := "Vpub"%string; sw_private := false; sw_multisig := true; sw_witness_type := "segwit"%string; sw_script_type := "p2wsh"%string |};
     {| sw_prefix := [x04; x5f; x18; xbc]; sw_label := "vprv"%string; sw_private := true; sw_multisig := false; sw_witness_type := "segwit"%string; sw_script_type := "p2wpkh"%string |};
     {| sw_prefix := [x02; x57; x50; x48]; sw_label := "Vprv"%string; sw_private := true; sw_multisig := true; sw_witness_type := "segwit"%string; sw_script_type := "p2wsh"%string |}];
  sn_bip44_cointype := 1;
  sn_denominator_hex := "0x1.5798ee2308c3ap-27"%string;
  sn_dust_amount := 1000;          (* policy *)
  sn_fee_min := 1000;          (* policy *)
  sn_fee_max := 1000000;          (* policy *)
  sn_fee_default := None;          (* policy *)
  sn_priority := 0;          (* policy *)
  sn_currency_code := "rBTC"%string          (* policy *) |}.

(* reference client:
   prefixes_wif: Dogecoin Core CMainParams EXT_PUBLIC_KEY 02facafd (dgub) / EXT_SECRET_KEY 02fac398 (dgpv) *)
Definition ref_dogecoin : spec_network := {|
  sn_name := "dogecoin"%string;
  sn_prefix_address := [x1e];
  sn_prefix_address_p2sh := [x16];
  sn_prefix_bech32 := [x64; x6f; x67; x65];
  sn_prefix_wif := [x9e];
  sn_prefixes_wif :=
    [{| sw_prefix := [x02; xfa; xca; xfd]; sw_label := "dgub"%string; sw_private := false; sw_multisig := false; sw_witness_type := "legacy"%string; sw_script_type := "p2pkh"%string |};
     {| sw_prefix := [x02; xfa; xca; xfd]; sw_label := "dgub"%string; sw_private := false; sw_multisig := true; sw_witness_type := "legacy"%string; sw_script_type := "p2sh"%string |};
     {| sw_prefix := [x02; xfa; xc3; x98]; sw_label := "dgpv"%string; sw_private := true; sw_multisig := false; sw_witness_type := "legacy"%string; sw_script_type := "p2pkh"%string |};
     {| sw_prefix := [x02; xfa; xc3; x98]; sw_label := "dgpv"%string; sw_private := true; sw_multisig := true; sw_witness_type := "legacy"%string; sw_script_type := "p2sh"%string |}];
  sn_bip44_cointype := 3;
  sn_denominator_hex := "0x1.5798ee2308c3ap-27"%string;
  sn_dust_amount := 1000;          (* policy *)
  sn_fee_min := 1000000;          (* policy *)
  sn_fee_max := 10000000000;          (* policy *)
  sn_fee_default := Some 200000000;          (* policy *)
  sn_priority := 10;          (* policy *)
  sn_currency_code := "DOGE"%string          (* policy *) |}.

Definition ref_networks : list spec_network :=
  [sn_bitcoinlib_test; sn_bitcoin; sn_testnet; sn_testnet4; sn_signet; ref_regtest; sn_litecoin; sn_litecoin_legacy; sn_litecoin_testnet; ref_dogecoin; sn_dogecoin_testnet].

Definition deviating_networks : list string := ["regtest"%string; "dogecoin"%string].


(* ---------------------------------------------------------------- lookup *)

Fixpoint spec_find (name : string) (l : list spec_network) : option spec_network :=
  match l with
  | [] => None
  | n :: r => if String.eqb (sn_name n) name then Some n else spec_find name r
  end.

Definition spec_network_by_name (name : string) : option spec_network := spec_find name spec_networks.
Definition ref_network_by_name (name : string) : option spec_network := spec_find name ref_networks.

(* the address-relevant part of a row *)
Definition sn_address_fields (n : spec_network) : string * list byte * list byte * list byte :=
  (sn_name n, sn_prefix_address n, sn_prefix_address_p2sh n, sn_prefix_bech32 n).

Definition sn_is_deviating (n : spec_network) : bool := existsb (String.eqb (sn_name n)) deviating_networks.
