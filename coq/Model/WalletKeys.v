(* Model/WalletKeys.v — wallet key paths, key book and deterministic restore (C09).  Definitions only.

   spec_*  is written from the BIP texts: BIP32 (CKDpriv / CKDpub / master key generation), BIP44 / BIP49 / BIP84
           (m / purpose' / coin_type' / account' / change / address_index), BIP45 (m / 45' / cosigner_index /
           change / address_index), BIP48 (m / 48' / coin_type' / account' / script_type' / change / address_index,
           script_type 1' = P2SH-P2WSH, 2' = P2WSH).
   lib_*   mirrors bitcoinlib: main.get_key_structure_data, keys.path_expand, HDKey.child_private / child_public /
           subkey_for_path (one level, as repaired by the C03 fixes), Network.wif_prefix, HDKey.wif, and of
           wallets.py (keys_for_path bulk creation as repaired by fixes/C09-2): Wallet.create / _create,
           _get_account_defaults, keys_for_path (closest stored ancestor, creation of every missing level, bulk
           creation), WalletKey.from_key (row contents, id assignment), new_keys, _get_key, new_account,
           public_master, and the `used` flag as set by utxo_add.  WalletKey.public() is modelled as repaired by
           fixes/C09-1 (it returns a stripped copy; the wallet's cached key object is not touched).
   wk_*    self-contained helpers (Base58Check, Bech32 v0, standard single-key address encoders, extended key
           serialization) over the shared Crypto functions.
   Tables: WALLET_KEY_STRUCTURES / KEY_PATH_* come from Gen/GenWalletCfg.v, coin types and prefixes from
           Gen/GenNetworks.v, alphabets from Gen/GenConsts.v (all regenerated from /repo on every run).

   Scope of the key book: single-signature bip32 wallets (multisig cosigner wallets are C10); path tables and
   [lib_path_expand] cover the multisig structures too.  The configuration carries what decides the REACH of the
   wallet: depth and privacy of the main key (w_root_depth, w_root_private); the two guards that look at them
   (keys_for_path: another witness type; new_account) are the tests of the source text (Gen/GenWalletCfg.v).
   w_guard_reach / w_acct_from_path say which library the book mirrors (with / without fixes/C09-5, C09-6).
   Not modelled: import_master_key / import_key, custom key_path / purpose arguments of Wallet.create, the
   level_offset argument of key_for_path (public_master's own use of it is), cosigner_id, single-key wallets, a
   relative path with as many items as the key path on an account-level wallet (the library drops the first item,
   the book refuses), a path rooted at "M" on a wallet with a master key (the library refuses, the book derives). *)
From Coq Require Import ZArith Bool String List.
From Coq.Strings Require Import Byte Ascii.
From Verif Require Import Lib.Bytes Crypto.Sha256 Crypto.Sha512 Crypto.Ripemd160 Crypto.Hmac Crypto.Secp256k1.
From Verif Require Import Gen.GenConsts Gen.GenNetworks Gen.GenWalletCfg.
Import ListNotations.
Open Scope Z_scope.

(* ------------------------------------------------------------------ witness types, path elements *)
Inductive wtype := Legacy | P2shSegwit | Segwit.

Definition wtype_eqb (a b : wtype) : bool :=
  match a, b with
  | Legacy, Legacy | P2shSegwit, P2shSegwit | Segwit, Segwit => true
  | _, _ => false
  end.

Definition wtype_name (w : wtype) : string :=
  match w with Legacy => "legacy" | P2shSegwit => "p2sh-segwit" | Segwit => "segwit" end.

(* one level of a derivation path: (index, hardened marker) *)
Definition pelem := (Z * bool)%type.
Definition H31 : Z := 2147483648.

Definition pelem_eqb (a b : pelem) : bool := (fst a =? fst b) && Bool.eqb (snd a) (snd b).
Fixpoint path_eqb (a b : list pelem) : bool :=
  match a, b with
  | [], [] => true
  | x :: a', y :: b' => pelem_eqb x y && path_eqb a' b'
  | _, _ => false
  end.

(* ------------------------------------------------------------------ BIP32 *)
Record xkey := {
  x_priv : option Z;          (* secret exponent, None for a public-only key *)
  x_pub : point;
  x_chain : bytes;
  x_depth : Z;
  x_fpr : bytes;              (* parent fingerprint *)
  x_child : Z                 (* child number as serialized *)
}.

Definition wk_pubser (x : xkey) : bytes := ser_point_compressed (x_pub x).
Definition wk_fingerprint (x : xkey) : bytes := firstn 4 (hash160 (wk_pubser x)).
Definition bitcoin_seed : bytes := [x42; x69; x74; x63; x6f; x69; x6e; x20; x73; x65; x65; x64].   (* "Bitcoin seed" *)

(* BIP32 master key generation; HDKey.from_seed refuses I_L >= n (and, like the BIP text read literally for
   parse256(I_L) = 0, the model refuses 0 as well: unreachable without a SHA-512 preimage) *)
Definition spec_master (seed : bytes) : option xkey :=
  let I := hmac_sha512 bitcoin_seed seed in
  let k := of_be (firstn 32 I) in
  if (secp_n <=? k) || (k =? 0) then None
  else Some {| x_priv := Some k; x_pub := secp_pub k; x_chain := skipn 32 I; x_depth := 0;
               x_fpr := [x00; x00; x00; x00]; x_child := 0 |}.

(* BIP32 CKDpriv: i >= 2^31 (hardened) uses 0x00 || ser256(k) || ser32(i), else serP(point(k)) || ser32(i) *)
Definition spec_ckd_priv (x : xkey) (e : pelem) : option xkey :=
  match x_priv x with
  | None => None
  | Some k =>
      let i := if snd e then fst e + H31 else fst e in
      let data := if snd e then x00 :: be_bytes 32 k ++ be_bytes 4 i else wk_pubser x ++ be_bytes 4 i in
      let I := hmac_sha512 (x_chain x) data in
      let il := of_be (firstn 32 I) in
      if secp_n <=? il then None
      else let k' := (il + k) mod secp_n in
           if k' =? 0 then None
           else Some {| x_priv := Some k'; x_pub := secp_pub k'; x_chain := skipn 32 I; x_depth := x_depth x + 1;
                        x_fpr := wk_fingerprint x; x_child := i |}
  end.

(* BIP32 CKDpub: fails for hardened children *)
Definition spec_ckd_pub (x : xkey) (e : pelem) : option xkey :=
  if snd e then None
  else
    let i := fst e in
    let I := hmac_sha512 (x_chain x) (wk_pubser x ++ be_bytes 4 i) in
    let il := of_be (firstn 32 I) in
    if secp_n <=? il then None
    else match pt_add (secp_pub il) (x_pub x) with
         | None => None
         | Some P => Some {| x_priv := None; x_pub := Some P; x_chain := skipn 32 I; x_depth := x_depth x + 1;
                             x_fpr := wk_fingerprint x; x_child := i |}
         end.

Definition spec_neuter (x : xkey) : xkey :=
  {| x_priv := None; x_pub := x_pub x; x_chain := x_chain x; x_depth := x_depth x; x_fpr := x_fpr x;
     x_child := x_child x |}.

Fixpoint derive_with (ckd : xkey -> pelem -> option xkey) (x : xkey) (p : list pelem) : option xkey :=
  match p with
  | [] => Some x
  | e :: r => match ckd x e with Some y => derive_with ckd y r | None => None end
  end.

Definition spec_derive := derive_with spec_ckd_priv.
Definition spec_derive_pub := derive_with spec_ckd_pub.

(* HDKey.subkey_for_path / child_private(index, hardened) as repaired by the C03 fixes: a marked index must be
   below 2^31; an unmarked index >= 2^31 is derived hardened; index |= 0x80000000 *)
Definition lib_hardened (e : pelem) : bool := snd e || (H31 <=? fst e).
Definition lib_child_number (e : pelem) : Z := if lib_hardened e then Z.lor (fst e) H31 else fst e.

Definition lib_child_private (x : xkey) (e : pelem) : option xkey :=
  match x_priv x with
  | None => None
  | Some k =>
      if snd e && (H31 <=? fst e) then None
      else
      let i := lib_child_number e in
      let data := if lib_hardened e then x00 :: be_bytes 32 k ++ be_bytes 4 i else wk_pubser x ++ be_bytes 4 i in
      let I := hmac_sha512 (x_chain x) data in
      let il := of_be (firstn 32 I) in
      if secp_n <=? il then None
      else let k' := (il + k) mod secp_n in
           if k' =? 0 then None
           else Some {| x_priv := Some k'; x_pub := secp_pub k'; x_chain := skipn 32 I; x_depth := x_depth x + 1;
                        x_fpr := wk_fingerprint x; x_child := i |}
  end.

(* HDKey.child_public(index) through subkey_for_path: a hardened marker or an index >= 2^31 is refused *)
Definition lib_child_public (x : xkey) (e : pelem) : option xkey :=
  let i := fst e in
  if snd e || (H31 <=? i) then None
  else
    let I := hmac_sha512 (x_chain x) (wk_pubser x ++ be_bytes 4 i) in
    let il := of_be (firstn 32 I) in
    if secp_n <=? il then None
    else match pt_add (secp_pub il) (x_pub x) with
         | None => None
         | Some P => Some {| x_priv := None; x_pub := Some P; x_chain := skipn 32 I; x_depth := x_depth x + 1;
                             x_fpr := wk_fingerprint x; x_child := i |}
         end.

(* one level of HDKey.subkey_for_path on a stored key *)
Definition lib_subkey (x : xkey) (e : pelem) : option xkey :=
  match x_priv x with Some _ => lib_child_private x e | None => lib_child_public x e end.

(* ------------------------------------------------------------------ text encodings, prefix wk_ *)
Fixpoint wk_b58_digits (fuel : nat) (n : Z) (acc : bytes) : bytes :=
  match fuel with
  | O => acc
  | S f => if n <=? 0 then acc
           else wk_b58_digits f (n / 58) (nth (Z.to_nat (n mod 58)) alphabet_base58 x00 :: acc)
  end.
Fixpoint wk_lead_zeros (b : bytes) : nat :=
  match b with
  | x :: r => if bz x =? 0 then S (wk_lead_zeros r) else O
  | [] => O
  end.
Definition wk_b58enc (b : bytes) : bytes :=
  repeat x31 (wk_lead_zeros b) ++ wk_b58_digits (2 * length b + 1) (of_be b) [].
Definition wk_b58check (payload : bytes) : bytes := wk_b58enc (payload ++ firstn 4 (sha256d payload)).

(* BIP173 *)
Definition wk_bech32_gen : list (Z * Z) :=
  [(0, 0x3b6a57b2); (1, 0x26508e6d); (2, 0x1ea119fa); (3, 0x3d4233dd); (4, 0x2a1462b3)].
Definition wk_polymod_step (chk v : Z) : Z :=
  let b := chk / 33554432 in
  let c := Z.lxor ((chk mod 33554432) * 32) v in
  fold_left (fun acc ig => if Z.testbit b (fst ig) then Z.lxor acc (snd ig) else acc) wk_bech32_gen c.
Definition wk_polymod (values : list Z) : Z := fold_left wk_polymod_step values 1.
Definition wk_hrp_expand (hrp : bytes) : list Z :=
  map (fun c => bz c / 32) hrp ++ [0] ++ map (fun c => bz c mod 32) hrp.
Fixpoint wk_digits_le (k : nat) (base n : Z) : list Z :=
  match k with
  | O => []
  | S k' => n mod base :: wk_digits_le k' base (n / base)
  end.
Definition wk_8to5 (b : bytes) : list Z :=
  let bits := 8 * Z.of_nat (length b) in
  let pad := (5 - bits mod 5) mod 5 in
  rev (wk_digits_le (Z.to_nat ((bits + pad) / 5)) 32 (of_be b * 2 ^ pad)).
Definition wk_b32char (d : Z) : byte := nth (Z.to_nat d) alphabet_bech32 x00.
Definition wk_bech32 (hrp : bytes) (witver : Z) (prog : bytes) : bytes :=
  let data := witver :: wk_8to5 prog in
  let pm := Z.lxor (wk_polymod (wk_hrp_expand hrp ++ data ++ [0; 0; 0; 0; 0; 0])) 1 in
  hrp ++ [x31] ++ map wk_b32char (data ++ rev (wk_digits_le 6 32 pm)).

(* standard single-key addresses: P2PKH (legacy), P2SH-P2WPKH (BIP49/BIP141), P2WPKH (BIP84/BIP173) *)
Definition wk_address (nw : network) (wt : wtype) (pub : bytes) : bytes :=
  let h := hash160 pub in
  match wt with
  | Legacy => wk_b58check (nw_prefix_address nw ++ h)
  | P2shSegwit => wk_b58check (nw_prefix_address_p2sh nw ++ hash160 (x00 :: x14 :: h))
  | Segwit => wk_bech32 (nw_prefix_bech32 nw) 0 h
  end.

(* Network.wif_prefix(is_private, witness_type, multisig=False): first row with that privacy and script type *)
Definition wk_script_type (wt : wtype) : string :=
  match wt with Legacy => "p2pkh" | P2shSegwit => "p2sh_p2wpkh" | Segwit => "p2wpkh" end.
Definition lib_wif_prefix (nw : network) (wt : wtype) (private : bool) : option bytes :=
  match find (fun r => Bool.eqb (wr_private r) private && String.eqb (wr_script_type r) (wk_script_type wt))
             (nw_prefixes_wif nw) with
  | Some r => Some (wr_prefix r)
  | None => None
  end.

(* HDKey.wif(is_private=True, witness_type, multisig=False): the BIP32 serialization, private when available *)
Definition lib_xkey_wif (nw : network) (wt : wtype) (x : xkey) : option bytes :=
  let private := match x_priv x with Some _ => true | None => false end in
  match lib_wif_prefix nw wt private with
  | None => None
  | Some v =>
      let keydata := match x_priv x with Some k => x00 :: be_bytes 32 k | None => wk_pubser x end in
      Some (wk_b58check (v ++ be_bytes 1 (x_depth x) ++ x_fpr x ++ be_bytes 4 (x_child x) ++ x_chain x ++ keydata))
  end.

(* the public serialization (WalletKey.public().wif, Wallet.public_master().wif) *)
Definition lib_xkey_wif_public (nw : network) (wt : wtype) (x : xkey) : option bytes :=
  lib_xkey_wif nw wt (spec_neuter x).

Fixpoint find_network_in (l : list network) (name : string) : option network :=
  match l with
  | [] => None
  | n :: r => if String.eqb (nw_name n) name then Some n else find_network_in r name
  end.
Definition find_network := find_network_in all_networks.

(* ------------------------------------------------------------------ key structure tables and path expansion *)
Definition is_some {A} (o : option A) : bool := match o with Some _ => true | None => false end.

(* main.get_key_structure_data(witness_type, multisig): exactly one entry with a purpose must match *)
Definition lib_key_structure (wt : wtype) (ms : bool) : option (list string * Z * string) :=
  match filter (fun k => String.eqb (ks_witness_type k) (wtype_name wt) && Bool.eqb (ks_multisig k) ms
                         && is_some (ks_purpose k)) WALLET_KEY_STRUCTURES with
  | [k] => match ks_purpose k with
           | Some p => Some (ks_key_path k, p, ks_encoding k)
           | None => None
           end
  | _ => None
  end.

(* "name'" -> (name, true) *)
Fixpoint str_hardened (s : string) : string * bool :=
  match s with
  | EmptyString => (EmptyString, false)
  | String c r =>
      match r with
      | EmptyString => if Ascii.eqb c "'"%char then (EmptyString, true) else (s, false)
      | _ => (String c (fst (str_hardened r)), snd (str_hardened r))
      end
  end.

Record pvars := {
  pv_purpose : Z; pv_coin : Z; pv_account : Z; pv_script : Z; pv_cosigner : Z; pv_change : Z; pv_index : Z
}.

(* var_defaults of keys.path_expand; None = "Variable ... not found in Key structure definitions" *)
Definition lib_var (v : pvars) (name : string) : option Z :=
  if String.eqb name "purpose" then Some (pv_purpose v)
  else if String.eqb name "coin_type" then Some (pv_coin v)
  else if String.eqb name "account" then Some (pv_account v)
  else if String.eqb name "script_type" then Some (pv_script v)
  else if String.eqb name "cosigner_index" then Some (pv_cosigner v)
  else if String.eqb name "change" then Some (pv_change v)
  else if String.eqb name "address_index" then Some (pv_index v)
  else None.

Definition is_root_item (s : string) : bool := String.eqb s "m" || String.eqb s "M".

(* wallet_key_path[:level_offset] *)
Definition tpl_cut (tpl : list string) (level_offset : option Z) : list string :=
  match level_offset with
  | None => tpl
  | Some z => if z =? 0 then tpl
              else if z <? 0 then firstn (length tpl - Z.to_nat (- z)) tpl
              else firstn (Z.to_nat z) tpl
  end.

(* complementing a partial path from the template: the supplied items replace the last items *)
Definition overlay (wkp : list string) (upath : list pelem) : list (pelem + string) :=
  map inr (firstn (length wkp - length upath) wkp) ++ map inl (skipn (length upath - length wkp) upath).

(* one position: hardened if the item says so or the template item at the same position is hardened *)
Definition resolve_item (v : pvars) (t : string) (it : pelem + string) : option pelem :=
  let th := snd (str_hardened t) in
  match it with
  | inl e => Some (fst e, snd e || th)
  | inr s => match lib_var v (fst (str_hardened s)) with
             | Some z => Some (z, snd (str_hardened s) || th)
             | None => None
             end
  end.

Fixpoint resolve_items (v : pvars) (tpl : list string) (items : list (pelem + string)) : option (list pelem) :=
  match items, tpl with
  | [], _ => Some []
  | it :: ri, t :: rt =>
      match resolve_item v t it, resolve_items v rt ri with
      | Some e, Some r => Some (e :: r)
      | _, _ => None
      end
  | _ :: _, [] => None
  end.

(* keys.path_expand(path, path_template, level_offset, ...) ; the answer omits the root item ("m" / "M").
   [full] = the supplied path starts with "m"; a relative path must be shorter than the template. *)
Definition lib_path_expand (upath : list pelem) (full : bool) (tpl : list string) (level_offset : option Z)
           (v : pvars) : option (list pelem) :=
  if (length tpl <? (if full then S (length upath) else length upath))%nat then None
  else
    let items := if full then map inl upath
                 else match overlay (tpl_cut tpl level_offset) upath with
                      | inr r :: rest => if is_root_item r then rest else [inr "?"%string]
                      | _ => [inr "?"%string]
                      end in
    resolve_items v (tl tpl) items.

Definition script_type_id (wt : wtype) : Z := match wt with P2shSegwit => 1 | _ => 2 end.

(* ------------------------------------------------------------------ documented paths (specification) *)
Definition spec_purpose (wt : wtype) (ms : bool) : Z :=
  match ms, wt with
  | false, Legacy => 44
  | false, P2shSegwit => 49
  | false, Segwit => 84
  | true, Legacy => 45
  | true, _ => 48
  end.

Definition spec_path (wt : wtype) (ms : bool) (coin account change index cosigner : Z) : list pelem :=
  match ms, wt with
  | false, _ => [(spec_purpose wt false, true); (coin, true); (account, true); (change, false); (index, false)]
  | true, Legacy => [(45, true); (cosigner, false); (change, false); (index, false)]
  | true, P2shSegwit => [(48, true); (coin, true); (account, true); (1, true); (change, false); (index, false)]
  | true, Segwit => [(48, true); (coin, true); (account, true); (2, true); (change, false); (index, false)]
  end.

(* path below an account-level key *)
Definition spec_path_rel (change index : Z) : list pelem := [(change, false); (index, false)].

(* ------------------------------------------------------------------ the key book *)
Section Book.
Variable X : Type.                                   (* key material *)
Variable derive : X -> pelem -> option X.            (* one level of subkey_for_path on a stored key *)

Record keyrec := {
  k_id : Z;
  k_parent : Z;
  k_path : list pelem;             (* below the wallet's main key ("m", or "M" for an account-level main key) *)
  k_net : string;
  k_wt : wtype;
  k_purpose : Z;
  k_account : Z;
  k_change : option Z;
  k_index : Z;                     (* address_index column = child_index mod 2^31 *)
  k_used : bool;
  k_x : X
}.

Record wcfg := {
  w_net : string;
  w_wt : wtype;
  w_purpose : Z;
  w_tpl : list string;             (* key_path column *)
  w_root_depth : Z;                (* depth of the main key (main_key.depth) *)
  w_root_private : bool;           (* the main key holds a private key (main_key.is_private) *)
  w_account : Z;                   (* default account = account of the main key *)
  (* which library the book mirrors (decided per run by asking the implementation, see harness/props/c09.py):
     fixes/C09-5 - keys_for_path of a wallet whose main key is an account-level key refuses other networks and other
     accounts; fixes/C09-6 - the account_id column of a created row is the account named in the path *)
  w_guard_reach : bool;
  w_acct_from_path : bool
}.

(* the main key is a private master key of depth 0: the only key above every purpose / coin type / account branch *)
Definition w_root_master (c : wcfg) : bool := w_root_private c && (w_root_depth c =? 0).

Record wstate := { ws_cfg : wcfg; ws_keys : list keyrec }.

Definition set_keys (w : wstate) (ks : list keyrec) : wstate := {| ws_cfg := ws_cfg w; ws_keys := ks |}.

Definition set_lib_fixes (w : wstate) (guard_reach acct_from_path : bool) : wstate :=
  let c := ws_cfg w in
  {| ws_cfg := {| w_net := w_net c; w_wt := w_wt c; w_purpose := w_purpose c; w_tpl := w_tpl c;
                  w_root_depth := w_root_depth c; w_root_private := w_root_private c; w_account := w_account c;
                  w_guard_reach := guard_reach; w_acct_from_path := acct_from_path |};
     ws_keys := ws_keys w |}.

Fixpoint index_of (s : string) (l : list string) : option nat :=
  match l with
  | [] => None
  | x :: r => if String.eqb x s then Some O else match index_of s r with Some i => Some (S i) | None => None end
  end.

(* position of the last hardened template item (0 when there is none) *)
Fixpoint last_hardened_from (i : nat) (l : list string) (acc : nat) : nat :=
  match l with
  | [] => acc
  | x :: r => last_hardened_from (S i) r (if snd (str_hardened x) then i else acc)
  end.
Definition last_hardened (tpl : list string) : nat := last_hardened_from 0 tpl 0.

Definition leaf_len (c : wcfg) : nat := (length (w_tpl c) - 1)%nat.      (* key_depth - depth of the main key *)
Definition pm_len (c : wcfg) : nat :=                                    (* depth_public_master - depth of main key *)
  if 0 <? w_root_depth c then O else last_hardened (w_tpl c).
Definition is_leaf (c : wcfg) (k : keyrec) : bool := (length (k_path k) =? leaf_len c)%nat.

Definition find_path (p : list pelem) (ks : list keyrec) : option keyrec :=
  find (fun k => path_eqb (k_path k) p) ks.
Definition find_id (id : Z) (ks : list keyrec) : option keyrec := find (fun k => k_id k =? id) ks.
Definition next_id (ks : list keyrec) : Z := 1 + fold_left Z.max (map k_id ks) 0.

Definition opt_default {A} (d : A) (o : option A) : A := match o with Some a => a | None => d end.

(* Wallet._get_account_defaults(network, account_id) *)
Definition acct_defaults (w : wstate) (net : option string) (acct : option Z) : string * Z :=
  let c := ws_cfg w in
  let net' := opt_default (w_net c) net in
  let acct1 := match acct with
               | Some a => Some a
               | None => if String.eqb net' (w_net c) then Some (w_account c) else None
               end in
  match acct1 with
  | Some a => (net', a)
  | None =>
      match find (fun k => (k_purpose k =? w_purpose c) && (length (k_path k) =? pm_len c)%nat
                           && String.eqb (k_net k) net') (ws_keys w) with
      | Some k => (net', k_account k)
      | None => (net', 0)
      end
  end.

(* columns shared by every row created in one keys_for_path call *)
Record cols := { c_net : string; c_wt : wtype; c_purpose : Z; c_account : Z; c_change : option Z }.

(* WalletKey.from_key for a derived key: a row at the same position is returned, otherwise a new row is added *)
Definition from_key (ks : list keyrec) (id : Z) (parent : keyrec) (e : pelem) (x : X) (cl : cols)
  : list keyrec * keyrec :=
  match find_path (k_path parent ++ [e]) ks with
  | Some k => (ks, k)
  | None =>
      let k := {| k_id := id; k_parent := k_id parent; k_path := k_path parent ++ [e]; k_net := c_net cl;
                  k_wt := c_wt cl; k_purpose := c_purpose cl; k_account := c_account cl; k_change := c_change cl;
                  k_index := fst e mod H31; k_used := false; k_x := x |} in
      (ks ++ [k], k)
  end.

(* the loop "for lvl in fullpath[n_items:]" of keys_for_path; None = a derivation error (rows created so far stay) *)
Fixpoint create_chain (ks : list keyrec) (top : keyrec) (levels : list pelem) (cl : cols)
  : list keyrec * option keyrec :=
  match levels with
  | [] => (ks, Some top)
  | e :: rest =>
      match derive (k_x top) e with
      | None => (ks, None)
      | Some x => create_chain (fst (from_key ks (next_id ks) top e x cl)) (snd (from_key ks (next_id ks) top e x cl))
                               rest cl
      end
  end.

(* closest stored ancestor: the longest stored prefix of the path *)
Fixpoint closest (ks : list keyrec) (p : list pelem) (n : nat) : option keyrec :=
  match find_path (firstn n p) ks with
  | Some k => Some k
  | None => match n with O => None | S n' => closest ks p n' end
  end.

(* bulk part of keys_for_path: siblings first+1 .. first+count under the same parent, ids assigned in advance *)
Fixpoint create_bulk (ks : list keyrec) (parent : keyrec) (hard : bool) (idx : Z) (id : Z) (count : nat) (cl : cols)
  : list keyrec * option (list keyrec) :=
  match count with
  | O => (ks, Some [])
  | S c =>
      match derive (k_x parent) (idx, hard) with
      | None => (ks, None)
      | Some x =>
          match create_bulk (fst (from_key ks id parent (idx, hard) x cl)) parent hard (idx + 1) (id + 1) c cl with
          | (ks', Some r) => (ks', Some (snd (from_key ks id parent (idx, hard) x cl) :: r))
          | (ks', None) => (ks', None)
          end
      end
  end.

Definition coin_of (net : string) : option Z :=
  match find_network net with Some n => Some (nw_bip44_cointype n) | None => None end.

(* Wallet.keys_for_path(path, level_offset, account_id, address_index, change, witness_type, network,
   number_of_keys) for a single-signature wallet.  Answer None = an exception or a None result. *)
Definition lib_keys_for_path (w : wstate) (upath : list pelem) (full : bool) (level_offset : option Z)
           (acct : option Z) (address_index change : Z) (wt : option wtype) (net : option string) (n : nat)
  : wstate * option (list keyrec) :=
  let c := ws_cfg w in
  match n with
  | O => (w, Some [])
  | S extra =>
      let net' := fst (acct_defaults w net acct) in
      let acct' := snd (acct_defaults w net acct) in
      let wt' := opt_default (w_wt c) wt in
      (* "This wallet has no private key, cannot use multiple witness types": the test as the source has it
         (Gen/GenWalletCfg.v, regenerated from wallets.py): no main key, a public main key OR a main key below depth 0,
         and another witness type, on a wallet that is not a multisig wallet *)
      if kfp_witness_guard true (w_root_private c) (w_root_depth c =? 0) (negb (wtype_eqb wt' (w_wt c))) false
      then (w, None)
      (* fixes/C09-5: "Cannot create new keys for network / account ..., no private masterkey found" - the main key
         is an account-level key and the request names another network, or (no account level in the key path)
         another account than the main key's *)
      else if w_guard_reach c && negb (w_root_depth c =? 0)
              && (negb (String.eqb net' (w_net c))
                  || (negb (is_some (index_of "account'" (w_tpl c))) && negb (acct' =? w_account c)))
      then (w, None)
      else
        match (if wtype_eqb wt' (w_wt c) then Some (w_purpose c)
               else match lib_key_structure wt' false with Some r => Some (snd (fst r)) | None => None end),
              coin_of net' with
        | Some purpose, Some coin =>
            match lib_path_expand upath full (w_tpl c) level_offset
                    {| pv_purpose := purpose; pv_coin := coin; pv_account := acct'; pv_script := script_type_id wt';
                       pv_cosigner := 0; pv_change := change; pv_index := address_index |} with
            | None => (w, None)
            | Some fullpath =>
                match closest (ws_keys w) fullpath (length fullpath) with
                | None => (w, None)
                | Some top =>
                    let acct_col :=
                      if w_acct_from_path c || (acct' =? 0) then
                        match index_of "account'" (w_tpl c) with
                        | Some (S pos) => if (pos <? length fullpath)%nat then fst (nth pos fullpath (0, false))
                                          else acct'
                        | _ => acct'
                        end
                      else acct' in
                    let chg_col :=
                      match (match index_of "change" (w_tpl c) with
                             | Some i => Some i
                             | None => index_of "change'" (w_tpl c)
                             end) with
                      | Some (S pos) => if (pos <? length fullpath)%nat then Some (fst (nth pos fullpath (0, false)))
                                        else None
                      | _ => None
                      end in
                    let cl := {| c_net := net'; c_wt := wt'; c_purpose := purpose; c_account := acct_col;
                                 c_change := chg_col |} in
                    let found := path_eqb (k_path top) fullpath in
                    (* "Cannot create new keys for network ..., no private masterkey found": the key at that very
                       position belongs to another network *)
                    if found && negb (String.eqb (k_net top) net') then (w, None)
                    else
                    match extra, found with
                    | O, true => (w, Some [top])
                    | _, _ =>
                        match create_chain (ws_keys w) top (skipn (length (k_path top)) fullpath) cl with
                        | (ks1, None) => (set_keys w ks1, None)
                        | (ks1, Some first) =>
                            match extra with
                            | O => (set_keys w ks1, Some [first])
                            | S _ =>
                                match find_id (k_parent first) ks1, rev fullpath with
                                | Some parent, lastel :: _ =>
                                    match create_bulk ks1 parent (snd lastel) (fst lastel + 1) (next_id ks1 + 1)
                                                      extra cl with
                                    | (ks2, Some r) => (set_keys w ks2, Some (first :: r))
                                    | (ks2, None) => (set_keys w ks2, None)
                                    end
                                | _, _ => (set_keys w ks1, None)
                                end
                            end
                        end
                    end
                end
            end
        | _, _ => (w, None)
        end
  end.

(* the chain a new_keys / _get_key query looks at *)
Definition in_chain (c : wcfg) (net : string) (acct : Z) (wt : wtype) (change : Z) (k : keyrec) : bool :=
  is_leaf c k && String.eqb (k_net k) net && (k_account k =? acct) && wtype_eqb (k_wt k) wt
  && match k_change k with Some ch => ch =? change | None => false end.

Definition max_index (l : list keyrec) : option Z :=
  match l with
  | [] => None
  | k :: r => Some (fold_left Z.max (map k_index r) (k_index k))
  end.

(* address_index the next new key of a chain gets: 1 + the highest stored index, 0 for an empty chain *)
Definition next_index (w : wstate) (purpose : Z) (net : string) (acct : Z) (wt : wtype) (change : Z) : Z :=
  match max_index (filter (fun k => in_chain (ws_cfg w) net acct wt change k && (k_purpose k =? purpose))
                          (ws_keys w)) with
  | Some m => m + 1
  | None => 0
  end.

Definition op_purpose (c : wcfg) (wt' : wtype) : option Z :=
  if wtype_eqb wt' (w_wt c) then Some (w_purpose c)
  else match lib_key_structure wt' false with Some r => Some (snd (fst r)) | None => None end.

(* Wallet.new_keys(account_id, change, witness_type, number_of_keys, network) *)
Definition lib_new_keys (w : wstate) (acct : option Z) (change : Z) (wt : option wtype) (net : option string)
           (n : nat) : wstate * option (list keyrec) :=
  let c := ws_cfg w in
  let net' := fst (acct_defaults w net acct) in
  let acct' := snd (acct_defaults w net acct) in
  if negb (String.eqb net' (w_net c)) && negb (is_some (index_of "coin_type'" (w_tpl c))) then (w, None)
  else
    let wt' := opt_default (w_wt c) wt in
    match op_purpose c wt' with
    | None => (w, None)
    | Some purpose =>
        lib_keys_for_path w [] false None (Some acct') (next_index w purpose net' acct' wt' change) change
                          (Some wt') (Some net') n
    end.

(* Wallet._get_key(..., number_of_keys, change, as_list=True): the unused keys of the chain stored after the
   last used one, completed with new keys *)
Definition lib_get_keys (w : wstate) (acct : option Z) (change : Z) (wt : option wtype) (net : option string)
           (n : nat) : wstate * option (list keyrec) :=
  let c := ws_cfg w in
  let net' := fst (acct_defaults w net acct) in
  let acct' := snd (acct_defaults w net acct) in
  let wt' := opt_default (w_wt c) wt in
  let chain := filter (in_chain c net' acct' wt' change) (ws_keys w) in
  let last_used := fold_left Z.max (map k_id (filter k_used chain)) 0 in
  let unused := filter (fun k => negb (k_used k) && (last_used <? k_id k)) chain in
  if (n <? length unused)%nat then (w, Some (firstn n unused))
  else match lib_new_keys w (Some acct') change (Some wt') (Some net') (n - length unused) with
       | (w', Some r) => (w', Some (unused ++ r))
       | (w', None) => (w', None)
       end.

Definition level_offset_pm (c : wcfg) : option Z := Some (Z.of_nat (pm_len c) - Z.of_nat (leaf_len c)).

(* Wallet.new_account(account_id, witness_type, network) *)
Definition lib_new_account (w : wstate) (acct : option Z) (wt : option wtype) (net : option string)
  : wstate * option (list keyrec) :=
  let c := ws_cfg w in
  (* "A master private key of depth 0 is needed to create new accounts" *)
  if new_account_guard true (w_root_private c) (w_root_depth c =? 0) false false then (w, None)
  else if negb (is_some (index_of "account'" (w_tpl c))) then (w, None)
  else
    let net' := opt_default (w_net c) net in
    if negb (String.eqb net' (w_net c)) && negb (is_some (index_of "coin_type'" (w_tpl c))) then (w, None)
    else
      (* networks already used by the wallet (rows at the coin_type level, plus the wallet's own) must not share
         the coin type of the requested one *)
      let used_nets := w_net c :: map k_net (filter (fun k => match index_of "coin_type'" (w_tpl c) with
                                                               | Some d => (length (k_path k) =? d)%nat
                                                               | None => false
                                                               end) (ws_keys w)) in
      if existsb (fun nm => negb (String.eqb nm net') &&
                            match coin_of nm, coin_of net' with
                            | Some a, Some b => a =? b
                            | _, _ => false
                            end) used_nets then (w, None)
      else
        let wt' := opt_default (w_wt c) wt in
        let acct' := match acct with
                     | Some a => a
                     | None => match filter (fun k => wtype_eqb (k_wt k) wt' && String.eqb (k_net k) net') (ws_keys w) with
                               | [] => 0
                               | k :: r => fold_left Z.max (map k_account r) (k_account k) + 1
                               end
                     end in
        if existsb (fun k => (k_account k =? acct') && (length (k_path k) =? pm_len c)%nat && wtype_eqb (k_wt k) wt'
                             && String.eqb (k_net k) net') (ws_keys w) then (w, None)
        else
          match lib_keys_for_path w [] false (level_offset_pm c) (Some acct') 0 0 (Some wt') (Some net') 1 with
          | (w1, Some r) =>
              match lib_keys_for_path w1 [] false None (Some acct') 0 0 (Some wt') (Some net') 1 with
              | (w2, Some _) =>
                  match lib_keys_for_path w2 [] false None (Some acct') 0 1 (Some wt') (Some net') 1 with
                  | (w3, Some _) => (w3, Some r)
                  | (w3, None) => (w3, None)
                  end
              | (w2, None) => (w2, None)
              end
          | (w1, None) => (w1, None)
          end.

(* Wallet.public_master(account_id, witness_type, network): the key at the public-master level (created on demand) *)
Definition lib_public_master (w : wstate) (acct : option Z) (wt : option wtype) (net : option string)
  : wstate * option (list keyrec) :=
  lib_keys_for_path w [] false (level_offset_pm (ws_cfg w)) acct 0 0 wt net 1.

(* utxo_add(address of the j-th key at key depth, in id order) sets its used flag *)
Definition set_used (id : Z) (k : keyrec) : keyrec :=
  if k_id k =? id then
    {| k_id := k_id k; k_parent := k_parent k; k_path := k_path k; k_net := k_net k; k_wt := k_wt k;
       k_purpose := k_purpose k; k_account := k_account k; k_change := k_change k; k_index := k_index k;
       k_used := true; k_x := k_x k |}
  else k.
Definition lib_mark_used (w : wstate) (j : nat) : wstate * option (list keyrec) :=
  let lv := filter (is_leaf (ws_cfg w)) (ws_keys w) in
  match nth_error lv (Nat.modulo j (length lv)) with
  | Some k => (set_keys w (map (set_used (k_id k)) (ws_keys w)), Some [k])
  | None => (w, None)
  end.

(* Wallet.witness_types(network=net): the witness types of the stored rows of that network (GROUP BY: in the
   order legacy, p2sh-segwit, segwit), the wallet's own when there is none *)
Definition lib_witness_types (w : wstate) (net : string) : list wtype :=
  match filter (fun wt => existsb (fun k => wtype_eqb (k_wt k) wt && String.eqb (k_net k) net) (ws_keys w))
               [Legacy; P2shSegwit; Segwit] with
  | [] => [w_wt (ws_cfg w)]
  | l => l
  end.

(* Wallet.scan(scan_gap_limit, account_id, change, network) when no provider reports a transaction: for every
   change chain asked for and every witness type in use, one _get_key(number_of_keys = scan_gap_limit) *)
Fixpoint scan_steps (w : wstate) (acct : Z) (net : string) (gap : nat) (todo : list (Z * wtype))
  : wstate * option (list keyrec) :=
  match todo with
  | [] => (w, Some [])
  | (chg, wt) :: r =>
      match lib_get_keys w (Some acct) chg (Some wt) (Some net) gap with
      | (w', Some _) => scan_steps w' acct net gap r
      | (w', None) => (w', None)
      end
  end.

Definition lib_scan (w : wstate) (gap : nat) (acct : option Z) (change : option Z) (net : option string)
  : wstate * option (list keyrec) :=
  let net' := fst (acct_defaults w net acct) in
  let acct' := snd (acct_defaults w net acct) in
  let wts := lib_witness_types w net' in
  let changes := match change with Some c => [c] | None => [0; 1] end in
  scan_steps w acct' net' gap (flat_map (fun c => map (fun wt => (c, wt)) wts) changes).

(* Wallet.keys(account_id, change, depth, used, witness_type, network): the rows in id order that pass every
   given filter; account_id without depth keeps rows of depth >= 3, change without depth keeps rows at key depth
   or below (bip32 scheme) *)
Definition row_depth (c : wcfg) (k : keyrec) : Z := w_root_depth c + Z.of_nat (length (k_path k)).
Definition key_depth (c : wcfg) : Z := w_root_depth c + Z.of_nat (leaf_len c).
Definition opt_test {A} (o : option A) (f : A -> bool) : bool := match o with Some a => f a | None => true end.

Definition keys_query_pred (c : wcfg) (acct chg depth : option Z) (used : option bool) (wt : option wtype)
           (net : option string) (k : keyrec) : bool :=
  opt_test net (String.eqb (k_net k))
  && opt_test wt (wtype_eqb (k_wt k))
  && opt_test acct (fun a => (k_account k =? a) && (is_some depth || (3 <=? row_depth c k)))
  && opt_test chg (fun ch => match k_change k with Some x => x =? ch | None => false end
                             && (is_some depth || (key_depth c - 1 <? row_depth c k)))
  && opt_test depth (fun d => row_depth c k =? d)
  && opt_test used (Bool.eqb (k_used k)).

Definition lib_keys_query (w : wstate) (acct chg depth : option Z) (used : option bool) (wt : option wtype)
           (net : option string) : list keyrec :=
  filter (keys_query_pred (ws_cfg w) acct chg depth used wt net) (ws_keys w).

(* the wrappers: keys_addresses (depth defaults to the key depth), keys_address_payment / _change (change 0 / 1 at
   key depth), addresslist (depth defaults to the key depth, -1 = every depth) *)
Definition lib_keys_addresses (w : wstate) (acct chg depth : option Z) (used : option bool) (net : option string) :=
  lib_keys_query w acct chg (Some (opt_default (key_depth (ws_cfg w)) depth)) used None net.
Definition lib_keys_address_chain (w : wstate) (change : Z) (acct : option Z) (used : option bool)
           (net : option string) :=
  lib_keys_query w acct (Some change) (Some (key_depth (ws_cfg w))) used None net.
Definition lib_addresslist_rows (w : wstate) (acct chg depth : option Z) (used : option bool) (net : option string) :=
  lib_keys_query w acct chg
                 (match depth with
                  | None => Some (key_depth (ws_cfg w))
                  | Some d => if d =? -1 then None else Some d
                  end) used None net.

(* Wallet.account(account_id): the row of the wallet's own purpose and network at depth 3 with that account number;
   an error when the key path has no account level or there is not exactly one such row; never a new key *)
Definition lib_account (w : wstate) (a : Z) : wstate * option (list keyrec) :=
  let c := ws_cfg w in
  if negb (is_some (index_of "account'" (w_tpl c))) then (w, None)
  else match filter (fun k => (k_purpose k =? w_purpose c) && String.eqb (k_net k) (w_net c) && (k_account k =? a)
                              && (row_depth c k =? 3)) (ws_keys w) with
       | [k] => (w, Some [k])
       | _ => (w, None)
       end.

Inductive op :=
| ONewKeys (acct : option Z) (change : Z) (wt : option wtype) (net : option string) (n : nat)
| OGetKeys (acct : option Z) (change : Z) (wt : option wtype) (net : option string) (n : nat)
| ONewAccount (acct : option Z) (wt : option wtype) (net : option string)
| OPublicMaster (acct : option Z) (wt : option wtype) (net : option string)
| OKeysForPath (upath : list pelem) (full : bool) (acct : option Z) (change index : Z) (wt : option wtype)
               (net : option string) (n : nat)
| OMarkUsed (j : nat)
| OReopen
| OScan (gap : nat) (acct : option Z) (change : option Z) (net : option string)
| OAccount (a : Z).

Definition step (w : wstate) (o : op) : wstate * option (list keyrec) :=
  match o with
  | ONewKeys a ch wt net n => lib_new_keys w a ch wt net n
  | OGetKeys a ch wt net n => lib_get_keys w a ch wt net n
  | ONewAccount a wt net => lib_new_account w a wt net
  | OPublicMaster a wt net => lib_public_master w a wt net
  | OKeysForPath p full a ch i wt net n => lib_keys_for_path w p full None a i ch wt net n
  | OMarkUsed j => lib_mark_used w j
  | OReopen => (w, Some [])              (* every field of the state is persisted; see the correspondence *)
  | OScan gap a ch net => lib_scan w gap a ch net
  | OAccount a => lib_account w a
  end.

Definition run (w : wstate) (ops : list op) : wstate := fold_left (fun s o => fst (step s o)) ops w.

(* operations that never name a path, index or account level explicitly *)
Definition implicit_op (o : op) : bool :=
  match o with OKeysForPath _ _ _ _ _ _ _ _ => false | _ => true end.

(* Wallet.create(name, keys=<key>, network, witness_type, account_id) for a bip32 single-signature wallet.
   [root_depth] / [root_private] / [root_index] describe the supplied key (depth, holds a private key?, child number). *)
Definition dogecoin_like (net : string) : bool := String.eqb net "dogecoin" || String.eqb net "dogecoin_testnet".

Definition lib_wallet_create (net : string) (wt : wtype) (acct : Z) (root : X) (root_depth : Z) (root_private : bool)
           (root_index : Z) : option wstate :=
  if dogecoin_like net && negb (wtype_eqb wt Legacy) then None
  else
    match lib_key_structure wt false with
    | None => None
    | Some (tpl, purpose, _) =>
        let tpl' := if 0 <? root_depth then
                      if (last_hardened tpl =? Z.to_nat root_depth)%nat
                      then Some ("M"%string :: skipn (S (Z.to_nat root_depth)) tpl) else None
                    else Some tpl in
        match tpl' with
        | None => None
        | Some t =>
            let c := {| w_net := net; w_wt := wt; w_purpose := purpose; w_tpl := t; w_root_depth := root_depth;
                        w_root_private := root_private; w_account := acct; w_guard_reach := false;
                        w_acct_from_path := false |} in
            let mk := {| k_id := 1; k_parent := 0; k_path := []; k_net := net; k_wt := wt; k_purpose := purpose;
                         k_account := acct; k_change := Some 0; k_index := root_index mod H31; k_used := false;
                         k_x := root |} in
            match lib_keys_for_path {| ws_cfg := c; ws_keys := [mk] |} [] false None (Some acct) 0 0 None None 1 with
            | (w, Some _) => Some w
            | (_, None) => None
            end
        end
    end.

End Book.

Arguments k_id {X}. Arguments k_parent {X}. Arguments k_path {X}. Arguments k_net {X}. Arguments k_wt {X}.
Arguments k_purpose {X}. Arguments k_account {X}. Arguments k_change {X}. Arguments k_index {X}.
Arguments k_used {X}. Arguments k_x {X}. Arguments ws_cfg {X}. Arguments ws_keys {X}.

(* ------------------------------------------------------------------ multisig wallets: index bookkeeping *)
(* The keys of a multisig wallet are built from the keys of its cosigner wallets (each a key book as above, over the
   BIP48 / BIP45 template).  What the main wallet adds is a row per multisig key with an address_index column of
   its own, and new_keys reads the next index from that column.  Model of that bookkeeping only (the position a key
   was derived at stands for its path and address; Wallet.keys_for_path multisig branch + _new_key_multisig, as the
   code is): a key whose address exists already is returned as it is; a new one is stored with the address_index
   ARGUMENT of the call in its column, whatever position it was derived at. *)
Record msrow := { mr_pos : Z; mr_col : Z }.

Fixpoint ms_create (rows : list msrow) (arg : Z) (pos : Z) (n : nat) : list msrow * list Z :=
  match n with
  | O => (rows, [])
  | S k =>
      let rows1 := if existsb (fun r => mr_pos r =? pos) rows then rows
                   else rows ++ [{| mr_pos := pos; mr_col := arg |}] in
      let res := ms_create rows1 arg (pos + 1) k in
      (fst res, pos :: snd res)
  end.

(* keys_for_path([], address_index = i, number_of_keys = n) / key_for_path([change, i]) (argument address_index = 0) *)
Definition ms_keys_for_path (rows : list msrow) (i : Z) (n : nat) := ms_create rows i i n.
Definition ms_key_for_explicit_path (rows : list msrow) (i : Z) := ms_create rows 0 i 1.

Definition ms_next_index (rows : list msrow) : Z :=
  match rows with
  | [] => 0
  | r :: rest => fold_left Z.max (map mr_col rest) (mr_col r) + 1
  end.

Definition ms_new_keys (rows : list msrow) (n : nat) := ms_keys_for_path rows (ms_next_index rows) n.

(* ------------------------------------------------------------------ the concrete wallet: BIP32 key material *)
Definition wallet_step := step xkey lib_subkey.
Definition wallet_run := run xkey lib_subkey.

(* Wallet.create from a seed / mnemonic seed / master xprv *)
Definition wallet_from_seed (net : string) (wt : wtype) (acct : Z) (seed : bytes) : option (wstate xkey) :=
  match spec_master seed with
  | None => None
  | Some m => lib_wallet_create xkey lib_subkey net wt acct m 0 true 0
  end.

(* BIP39 "From mnemonic to seed": PBKDF2-HMAC-SHA512, password = the sentence (UTF-8, NFKD), salt = "mnemonic" ||
   passphrase (UTF-8, NFKD), 2048 iterations, 64 bytes *)
Definition bip39_salt_prefix : bytes := [x6d; x6e; x65; x6d; x6f; x6e; x69; x63].      (* "mnemonic" *)
Definition spec_bip39_seed (sentence passphrase : bytes) : bytes :=
  pbkdf2_hmac_sha512 sentence (bip39_salt_prefix ++ passphrase) 2048 64.

(* Wallet.create(keys = <sentence>, password = <passphrase>) / HDKey.from_passphrase(sentence, password): the wallet
   of the BIP39 seed of BOTH arguments *)
Definition wallet_from_mnemonic (net : string) (wt : wtype) (acct : Z) (sentence passphrase : bytes)
  : option (wstate xkey) :=
  wallet_from_seed net wt acct (spec_bip39_seed sentence passphrase).

(* the account-level key of a master, as HDKey.public_master / Wallet.public_master export it *)
Definition account_path (wt : wtype) (coin acct : Z) : list pelem :=
  [(spec_purpose wt false, true); (coin, true); (acct, true)].

(* Wallet.create from the account-level extended key (public: watch-only; private: account wallet) *)
Definition wallet_from_account_key (net : string) (wt : wtype) (acct : Z) (seed : bytes) (private : bool)
  : option (wstate xkey) :=
  match spec_master seed, coin_of net with
  | Some m, Some coin =>
      match spec_derive m (account_path wt coin acct) with
      | None => None
      | Some a => lib_wallet_create xkey lib_subkey net wt acct (if private then a else spec_neuter a) 3 private
                                    (x_child a)
      end
  | _, _ => None
  end.

(* what the correspondence prints for a key *)
Definition key_address (k : keyrec xkey) : option bytes :=
  match find_network (k_net k) with
  | Some nw => Some (wk_address nw (k_wt k) (wk_pubser (k_x k)))
  | None => None
  end.
Definition key_wif (k : keyrec xkey) : option bytes :=
  match find_network (k_net k) with
  | Some nw => lib_xkey_wif nw (k_wt k) (k_x k)
  | None => None
  end.
Definition key_wif_public (k : keyrec xkey) : option bytes :=
  match find_network (k_net k) with
  | Some nw => lib_xkey_wif_public nw (k_wt k) (k_x k)
  | None => None
  end.
Definition key_is_private (k : keyrec xkey) : bool := is_some (x_priv (k_x k)).
