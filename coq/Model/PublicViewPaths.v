(* Model/PublicViewPaths.v - C16: public views requested by a PATH (HDKey.subkey_for_path with a path that starts with
   'M') and the text presentation of database rows.

   1. [hdkey_subkey_for_path_paths] / [path_entry_params]: FROZEN copy of the body and the argument list of
      HDKey.subkey_for_path (regenerated on every run as Gen/GenFields.v, compared in Glue/FieldsGlue.v).  [sfp] is the
      reading of that body by hand over the abstraction "does the key object at hand hold its private part": the
      start of the path ('m' / 'M' / relative), then one derivation per level.  The property: a path that starts with
      'M' returns an object without private part, for EVERY number of levels (also none: the bare path 'M'), and so
      does every path asked of a public key.
   2. [db_presentation_methods]: FROZEN list of every class of db.py with the source of each of its presentation
      methods (__repr__, __str__, ... see translator/gen_fields.py PRESENTATION_METHODS).  Default exports hand row
      dictionaries (and, once a relationship has been loaded, the related row OBJECTS) to str() / json default=str:
      what such an object prints is this table.  [row_prints] lists, per class, the columns / relationships its text
      shows; the only private-bearing one is the known DbKey.__repr__ (self.wif), and no class prints a relationship. *)
From Coq Require Import List String Bool Arith.
Import ListNotations.
Open Scope string_scope.

Definition hdkey_subkey_for_path_paths : list (list (string * bool) * list string) :=
  [ ([],
     [ "if isinstance(path, TYPE_TEXT): path = path.split('/')";
       "if self.key_type == 'single': raise BKeyError(""Key derivation cannot be used for 'single' type keys"")";
       "key = self";
       "first_public = False";
       "if path[0] == 'm': path = path[1:] elif path[0] == 'M': path = path[1:] first_public = True";
       "if first_public and (not path) and key.is_private: key = key.public()";
       "if path: if len(path) > 1: _logger.info('Path length > 1 can be slow for larger paths, use Wallet Class to generate keys paths') for item in path: if not item: raise BKeyError('Could not parse path. Index is empty.') hardened = item[-1] in ""'HhPp"" if hardened: item = item[:-1] index = int(item) if index < 0: raise BKeyError('Could not parse path. Index must be a positive integer.') if hardened and index >= 2147483648: raise BKeyError('Could not parse path. Index of a hardened key must be below 0x80000000') if first_public or not key.is_private: if hardened: raise BKeyError('Cannot derive hardened key from a public key') key = key.child_public(index=index, network=network) first_public = False else: key = key.child_private(index=index, hardened=hardened, network=network)";
       "return key" ]) ].

Definition path_entry_params : list (string * list (string * string)) :=
  [ ("HDKey.subkey_for_path", [("path", "$required"); ("network", "None")]) ].

Definition db_presentation_methods : list (string * string) :=
  [ ("Db", "-");
    ("EncryptedBinary", "-");
    ("EncryptedString", "-");
    ("DbConfig", "-");
    ("DbWallet", "-");
    ("DbWallet.__repr__", "return ""<DbWallet(name='%s', network='%s'>"" % (self.name, self.network_name)");
    ("DbKeyMultisigChildren", "-");
    ("DbKey", "-");
    ("DbKey.__repr__", "return ""<DbKey(id='%s', name='%s', wif='%s'>"" % (self.id, self.name, self.wif)");
    ("DbNetwork", "-");
    ("DbNetwork.__repr__", "return ""<DbNetwork(name='%s', description='%s'>"" % (self.name, self.description)");
    ("DbTransaction", "-");
    ("DbTransaction.__repr__", "return ""<DbTransaction(txid='%s', confirmations='%s')>"" % (self.txid, self.confirmations)");
    ("DbTransactionInput", "-");
    ("DbTransactionOutput", "-") ].

(* ---- reading of the body of subkey_for_path ---- *)
Inductive pstart := StartPrivate (* 'm' *) | StartPublic (* 'M' *) | StartRelative.

(* statement 5: `first_public` *)
Definition sfp_first_public (s : pstart) : bool := match s with StartPublic => true | _ => false end.
(* statement 6: `if first_public and (not path) and key.is_private: key = key.public()` — public() strips the private
   part (Model/PublicView.v, key_public_clean) *)
Definition sfp_start (first_public : bool) (levels : nat) (priv : bool) : bool :=
  if first_public && Nat.eqb levels 0 && priv then false else priv.
(* one turn of the loop: (first_public, private part held) -> the same after the derivation;
   child_public returns a key built from public material only, child_private keeps the private part *)
Definition sfp_level (st : bool * bool) : bool * bool :=
  let (fp, priv) := st in
  if fp || negb priv then (false, false) else (false, priv).
Fixpoint sfp_levels (n : nat) (st : bool * bool) : bool * bool :=
  match n with O => st | S k => sfp_levels k (sfp_level st) end.
(* does the object returned by subkey_for_path hold a private part? *)
Definition sfp (priv : bool) (s : pstart) (levels : nat) : bool :=
  let fp := sfp_first_public s in
  snd (sfp_levels levels (fp, sfp_start fp levels priv)).

(* ---- what the text of a database row shows ---- *)
(* (class, attributes interpolated by its presentation methods); a class that is not listed prints the default
   object text (class name and address) *)
Definition row_prints : list (string * list string) :=
  [ ("DbWallet", ["name"; "network_name"]);
    ("DbKey", ["id"; "name"; "wif"]);
    ("DbNetwork", ["name"; "description"]);
    ("DbTransaction", ["txid"; "confirmations"]) ].
(* relationships of the key rows (db.py) - attributes whose value is another row object *)
Definition row_relationships : list string :=
  ["wallet"; "transaction_inputs"; "transaction_outputs"; "network"; "multisig_parents"; "multisig_children";
   "child_key"; "parent_key"; "key"; "keys"; "transactions"; "children"; "inputs"; "outputs"; "transaction"].
(* columns that can hold private key material *)
Definition row_private_columns : list string := ["private"; "wif"].

Definition smem (x : string) (l : list string) : bool := existsb (String.eqb x) l.
(* classes whose text shows a private-bearing column, and classes whose text shows a related row *)
Definition rows_printing_private : list string :=
  map fst (filter (fun r => existsb (fun a => smem a row_private_columns) (snd r)) row_prints).
Definition rows_printing_rows : list string :=
  map fst (filter (fun r => existsb (fun a => smem a row_relationships) (snd r)) row_prints).
(* the classes that define a presentation method at all, read from the frozen source table *)
Definition is_method_row (r : string * string) : bool := negb (String.eqb (snd r) "-").
Definition class_of (q : string) : string :=
  match index 0 "." q with Some i => substring 0 i q | None => q end.
Definition presenting_classes (t : list (string * string)) : list string :=
  map (fun r => class_of (fst r)) (filter is_method_row t).

(* the text of a row DICTIONARY (str(dict), json default=str) shows private material when one of the row OBJECTS it holds
   (a loaded relationship) belongs to a class whose text does *)
Definition dict_text_shows_private (objects : list string) : bool := existsb (fun c => smem c rows_printing_private) objects.
