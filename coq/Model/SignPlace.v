(* Model/SignPlace.v — Transaction.sign's placement of signatures, Input.verify's side effect on the
   signatures' public-key attribute, Transaction.verify over all inputs, what survives raw()/parse, and the
   scenario machine the correspondence driver runs.  Definitions only; [lib_*] mirrors the code as it is.

   Further down: how the PARSE path learns the threshold m from the redeem / witness script (the statements of
   Input.update_scripts, translated from the working tree into Gen/GenC02.v), and what happens when ONE attribute of a
   signed object is written by hand (which attribute raw() serializes each field from, which one the digest functions
   read, the second copies nothing reads, the verification context / derived scripts only update_scripts() aligns).

   A public key is identified by the integer id of its *public byte string* (so the compressed and the
   uncompressed encoding of one curve point are two different keys, as for Key.__eq__ on public keys and for
   pub_key_list.index(...)).  A signature is a body (the (r, s) pair) plus the tag Signature.public_key. *)
From Coq Require Import List Bool Arith ZArith.
From Verif Require Import Lib.Bytes Model.VerifyInput Gen.GenC02.
Import ListNotations.

Section Sign.
  Context {B : Type}.
  Record sg := { body : B; tag : option Z }.

  Variable sv : B -> Z -> bool.     (* body valid for the key with this public byte string, current digest *)
  Variable mk : Z -> B.             (* sign(current digest, private key of this public key) — RFC 6979, deterministic *)

  Definition retag (s : sg) (k : Z) : sg := {| body := body s; tag := Some k |}.
  Definition untag (s : sg) : sg := {| body := body s; tag := None |}.

  (* Input.verify including its side effect: keys.verify(hash, sig, key) assigns sig.public_key = key before
     checking, so every signature ends up tagged with the last key it was tried against.
     Returns (verdict, signatures afterwards). *)
  Fixpoint lib_verify_run (keys : list Z) (sigs : list sg) (need : nat) : bool * list sg :=
    match need with
    | O => (true, sigs)
    | S need' =>
      match keys with
      | [] => (false, sigs)
      | k :: ks =>
        match sigs with
        | [] => (false, [])
        | s :: ss =>
          if sv (body s) k then
            let (r, l) := lib_verify_run ks ss need' in (r, retag s k :: l)
          else lib_verify_run ks (retag s k :: ss) need
        end
      end
    end.

  Definition lib_verify_input_run (keys : list Z) (sigs : list sg) (m : nat) : bool * list sg :=
    match sigs with
    | [] => (false, [])
    | _ => lib_verify_run keys sigs m
    end.

  (* ---------- Transaction.sign, one input ---------- *)
  Fixpoint index_of (x : Z) (l : list Z) : option nat :=
    match l with
    | [] => None
    | y :: r => if Z.eqb x y then Some O else option_map S (index_of x r)
    end.

  Fixpoint set_nth {A : Type} (n : nat) (x : A) (l : list A) : list A :=
    match l, n with
    | [], _ => []
    | _ :: r, O => x :: r
    | y :: r, S n' => y :: set_nth n' x r
    end.

  Definition tag_is (k : Z) (s : sg) : bool := match tag s with Some t => Z.eqb t k | None => false end.

  (*  for key in tid_keys:
          if key.public_byte not in pub_key_list:
              if fail_on_unknown_key: raise TransactionError  else: continue
          if not replace_signatures and key in [x.public_key for x in signatures]: continue   # fix C02-3 (was: break)
          sig = sign(txid, key); sig_domain[pub_key_list.index(key.public_byte)] = sig; n_signs += 1     *)
  Fixpoint lib_sign_new (pubs : list Z) (old : list sg) (replace fail_unknown : bool) (signers : list Z)
           (dom : list (option sg)) (n_signs : nat) : option (list (option sg) * nat) :=
    match signers with
    | [] => Some (dom, n_signs)
    | k :: rest =>
      match index_of k pubs with
      | None => if fail_unknown then None else lib_sign_new pubs old replace fail_unknown rest dom n_signs
      | Some pos =>
        if negb replace && existsb (tag_is k) old then lib_sign_new pubs old replace fail_unknown rest dom n_signs
        else lib_sign_new pubs old replace fail_unknown rest
               (set_nth pos (Some {| body := mk k; tag := Some k |}) dom) (S n_signs)
      end
    end.

  (*  n_sigs_to_insert = len(signatures)
      for sig in signatures:
          if not sig.public_key: break
          newsig_pos = pub_key_list.index(sig.public_key.public_byte)        # ValueError when absent
          if sig_domain[newsig_pos] == '': sig_domain[newsig_pos] = sig; n_sigs_to_insert -= 1            *)
  Fixpoint lib_place_known (pubs : list Z) (old : list sg) (dom : list (option sg)) (n_ins : nat)
    : option (list (option sg) * nat) :=
    match old with
    | [] => Some (dom, n_ins)
    | s :: r =>
      match tag s with
      | None => Some (dom, n_ins)
      | Some t =>
        match index_of t pubs with
        | None => None
        | Some pos =>
          match nth pos dom None with
          | None => lib_place_known pubs r (set_nth pos (Some s) dom) (pred n_ins)
          | Some _ => lib_place_known pubs r dom n_ins
          end
        end
      end
    end.

  (*  if n_sigs_to_insert:
          for sig in signatures:                       # all of them, also those already placed
              free_positions = [i for i, s in enumerate(sig_domain) if s == '']
              for pos in free_positions: sig_domain[pos] = sig; n_sigs_to_insert -= 1; break               *)
  Fixpoint fill_first (s : sg) (dom : list (option sg)) : list (option sg) :=
    match dom with
    | [] => []
    | None :: r => Some s :: r
    | Some x :: r => Some x :: fill_first s r
    end.

  Fixpoint lib_fill_free (old : list sg) (dom : list (option sg)) : list (option sg) :=
    match old with
    | [] => dom
    | s :: r => lib_fill_free r (fill_first s dom)
    end.

  Fixpoint somes {A : Type} (l : list (option A)) : list A :=
    match l with
    | [] => []
    | Some x :: r => x :: somes r
    | None :: r => somes r
    end.

  (* placement of the already present signatures around the new ones, then
     signatures = [s for s in sig_domain if s != ''] *)
  Definition lib_sign_place (pubs : list Z) (old : list sg) (dom : list (option sg)) : option (list sg) :=
    match lib_place_known pubs old dom (length old) with
    | None => None
    | Some (dom1, n_ins) =>
      Some (somes (match n_ins with O => dom1 | S _ => lib_fill_free old dom1 end))
    end.

  Inductive sign_result :=
  | SignRaise (code : Z)              (* 1 TransactionError (unknown key), 2 ValueError (tag not in key list) *)
  | SignNothing                       (* n_signs = 0: this input is left as it is *)
  | SignDone (sigs : list sg).

  Definition lib_sign_input (pubs : list Z) (old : list sg) (replace fail_unknown : bool) (signers : list Z)
    : sign_result :=
    match lib_sign_new pubs old replace fail_unknown signers (repeat None (length pubs)) O with
    | None => SignRaise 1
    | Some (_, O) => SignNothing
    | Some (dom, S _) =>
      match lib_sign_place pubs old dom with
      | None => SignRaise 2
      | Some l => SignDone l
      end
    end.

  (* what is left of the signatures after raw() and Transaction.parse: update_scripts writes
     signatures[:sigs_required] into the unlocking script / witness only when there are at least
     sigs_required of them; parsed signatures carry no public key *)
  Definition lib_roundtrip_sigs (m : nat) (sigs : list sg) : list sg :=
    if Nat.leb m (length sigs) then map untag (firstn m sigs) else [].
End Sign.

Arguments sg : clear implicits.

(* Input.__init__ keeps a key only if it is not yet in the list (Key.__eq__ on public keys: same bytes) *)
Fixpoint dedup_keys (seen l : list Z) : list Z :=
  match l with
  | [] => []
  | k :: r => if existsb (Z.eqb k) seen then dedup_keys seen r else k :: dedup_keys (k :: seen) r
  end.

(* ---------- whole transactions: each input has its own digest, hence its own relation ---------- *)
Section Tx.
  Context {B : Type}.
  (* si_ht = Input.hash_type: the hash type Transaction.verify asks the digest for (SIGHASH_ALL on every input built
     through the API; set by the parse / constructor paths from the hash-type byte the signatures carry) *)
  Record sinput := { si_segwit : bool; si_keys : list Z; si_m : nat; si_sigs : list (sg B); si_valid : option bool;
                     si_hash_ok : bool; si_ht : Z }.
  Variable svi : nat -> B -> Z -> bool.
  Variable mki : nat -> Z -> B.
  Variable htb : B -> Z.            (* the hash-type byte a serialized signature carries *)

  Definition with_sigs (x : sinput) (l : list (sg B)) : sinput :=
    {| si_segwit := si_segwit x; si_keys := si_keys x; si_m := si_m x; si_sigs := l; si_valid := si_valid x;
       si_hash_ok := si_hash_ok x; si_ht := si_ht x |}.

  (*  for tid in tids: ... if not n_signs: continue  (fix C02-4, was: break) ... ;
      an exception leaves the inputs before tid updated *)
  Fixpoint lib_sign_tx_from (i : nat) (ins : list sinput) (replace fail_unknown : bool) (signers : list Z)
    : list sinput * Z :=
    match ins with
    | [] => ([], 0%Z)
    | x :: r =>
      match lib_sign_input (mki i) (si_keys x) (si_sigs x) replace fail_unknown signers with
      | SignRaise c => (x :: r, c)
      | SignNothing =>
        let (r', c) := lib_sign_tx_from (S i) r replace fail_unknown signers in (x :: r', c)
      | SignDone l =>
        let (r', c) := lib_sign_tx_from (S i) r replace fail_unknown signers in (with_sigs x l :: r', c)
      end
    end.

  Fixpoint lib_sign_tx_at (i target : nat) (ins : list sinput) (replace fail_unknown : bool) (signers : list Z)
    : list sinput * Z :=
    match ins with
    | [] => ([], 0%Z)
    | x :: r =>
      if Nat.eqb i target then
        match lib_sign_input (mki i) (si_keys x) (si_sigs x) replace fail_unknown signers with
        | SignRaise c => (x :: r, c)
        | SignNothing => (x :: r, 0%Z)
        | SignDone l => (with_sigs x l :: r, 0%Z)
        end
      else let (r', c) := lib_sign_tx_at (S i) target r replace fail_unknown signers in (x :: r', c)
    end.

  Definition lib_sign_tx (target : option nat) (ins : list sinput) (replace fail_unknown : bool) (signers : list Z)
    : list sinput * Z :=
    match target with
    | None => lib_sign_tx_from 0 ins replace fail_unknown signers
    | Some t => lib_sign_tx_at 0 t ins replace fail_unknown signers
    end.

  (* Transaction.verify with its effects (after fix C02-1): every Input.valid is reset to None first; the
     inputs are visited in order up to the first failing one; a visited input gets valid = True / False *)
  Definition set_valid (v : option bool) (x : sinput) : sinput :=
    {| si_segwit := si_segwit x; si_keys := si_keys x; si_m := si_m x; si_sigs := si_sigs x; si_valid := v;
       si_hash_ok := si_hash_ok x; si_ht := si_ht x |}.

  Fixpoint lib_tx_verify_run_from (i : nat) (ins : list sinput) : bool * list sinput :=
    match ins with
    | [] => (true, [])
    | x :: r =>
      if negb (si_hash_ok x) then (false, x :: r)
      else
        let (ok, l) := lib_verify_input_run (svi i) (si_keys x) (si_sigs x) (si_m x) in
        if ok then
          let (b, r') := lib_tx_verify_run_from (S i) r in
          (b, set_valid (Some true) (with_sigs x l) :: r')
        else (false, set_valid (Some false) (with_sigs x l) :: r)
    end.
  Definition lib_tx_verify_run (ins : list sinput) : bool * list sinput :=
    lib_tx_verify_run_from 0 (map (set_valid None) ins).

  (* Input.hash_type after the parse path: the hash type of the FIRST signature found (Input.__init__ for the
     scriptSig of legacy inputs; Transaction.parse for witness signatures — fix C02-5; before it [fixed = false] a
     segwit input kept SIGHASH_ALL whatever its witness signature said) *)
  Definition lib_parsed_ht (fixed segwit : bool) (sigs : list (sg B)) : Z :=
    match sigs with
    | [] => 1%Z
    | s :: _ => if segwit && negb fixed then 1%Z else htb (body s)
    end.

  (* Input.hash_type after Input.__init__(signatures=[...]):  for sig in signatures: if sig.hash_type: self.hash_type = sig.hash_type *)
  Definition lib_ctor_ht (sigs : list (sg B)) : Z :=
    fold_left (fun h s => if Z.eqb (htb (body s)) 0 then h else htb (body s)) sigs 1%Z.

  (* the copy obtained by Transaction.parse(t.raw()).  In a transaction serialized in segwit form (some input
     is segwit) Input.parse classes every input with an empty unlocking script as segwit; a parsed segwit
     input without witness has no script code: signature_segwit raises "Redeem script missing" and
     Transaction.verify returns False before Input.verify is reached *)
  Definition lib_roundtrip_input (fixed tx_segwit : bool) (x : sinput) : sinput :=
    let l := lib_roundtrip_sigs (si_m x) (si_sigs x) in
    {| si_segwit := si_segwit x; si_keys := si_keys x; si_m := si_m x; si_sigs := l; si_valid := None;
       si_hash_ok := si_hash_ok x && (negb tx_segwit || match l with [] => false | _ => true end);
       si_ht := lib_parsed_ht fixed (si_segwit x) l |}.
  Definition lib_roundtrip_tx (fixed : bool) (ins : list sinput) : list sinput :=
    map (lib_roundtrip_input fixed (existsb si_segwit ins)) ins.

  (* the copy obtained by building the inputs anew from serialized signatures (Transaction.add_input(keys=...,
     signatures=[DER || hash-type byte, ...])): all signatures, without public key *)
  Definition lib_ctor_input (x : sinput) : sinput :=
    let l := map untag (si_sigs x) in
    {| si_segwit := si_segwit x; si_keys := si_keys x; si_m := si_m x; si_sigs := l; si_valid := None;
       si_hash_ok := si_hash_ok x; si_ht := lib_ctor_ht l |}.

  (* the view Transaction.verify decides on (ties this file to Model/VerifyInput.v) *)
  Definition view (x : sinput) : @vinput B Z :=
    {| vi_coinbase := false; vi_hash_ok := si_hash_ok x; vi_keys := si_keys x;
       vi_sigs := map (@body B) (si_sigs x); vi_m := si_m x |}.
End Tx.

(* ---------- the concrete instance run by the correspondence driver ----------
   body = (curve point id, digest id at signing time, variant, hash type signed for, hash-type byte carried):
   variant 0 = as produced by sign(), 1 = s replaced by n - s (another valid signature of the same digest),
   >= 2 = r or s changed by one.  The last two components are 1 (SIGHASH_ALL) for everything Transaction.sign
   produces; they differ after the hash-type byte of a serialized signature was changed.
   key id 2p / 2p+1 = compressed / uncompressed public byte string of point p.                        *)
Definition cbody := (Z * Z * Z * Z * Z)%type.
Definition point_of (k : Z) : Z := Z.div k 2.
Definition c_carried (b : cbody) : Z := let '(_, _, _, _, hc) := b in hc.
(* hash types the legacy serializer treats like SIGHASH_ALL (Model/Sighash.v legacy_all_like) *)
Definition c_all_like (ht : Z) : bool :=
  Z.eqb (Z.land ht 128) 0 && negb (Z.eqb (Z.land ht 31) 2) && negb (Z.eqb (Z.land ht 31) 3).
(* is the digest the LIBRARY computes for a legacy input of a transaction with n inputs and hash type ht the consensus
   digest?  Transaction.raw(sign_id, hash_type, 'legacy') serializes like SIGHASH_ALL whatever ht says (C01 known finding
   legacy_non_all_hashtype): right for the types treated like ALL, and for ANYONECANPAY | ALL-like when the signed
   input is the only one *)
Definition c_legacy_digest_ok (n : nat) (ht : Z) : bool :=
  negb (Z.eqb (Z.land ht 31) 2) && negb (Z.eqb (Z.land ht 31) 3) && (Z.eqb (Z.land ht 128) 0 || Nat.eqb n 1).
(* validity under the digest the LIBRARY computes for an input in state [epoch] for hash type [ht]: that digest is the
   consensus digest for [ht] when [conforming] (every BIP143 input, C01 digest_ok; legacy inputs as above), otherwise
   the digest of nothing anybody signs *)
Definition c_sv_at (conforming : bool) (epoch ht : Z) (b : cbody) (k : Z) : bool :=
  let '(p, e, v, hm, _) := b in
  Z.eqb p (point_of k) && Z.eqb e epoch && Z.ltb v 2 && Z.eqb hm ht && conforming.
Definition c_sv (epoch : Z) (b : cbody) (k : Z) : bool := c_sv_at true epoch 1 b k.
(* validity under the CONSENSUS digest for the hash-type byte the signature carries (the oracle matrix) *)
Definition c_cons (epoch : Z) (b : cbody) (k : Z) : bool :=
  let '(p, e, v, hm, hc) := b in Z.eqb p (point_of k) && Z.eqb e epoch && Z.ltb v 2 && Z.eqb hm hc.
Definition c_mk (epoch : Z) (k : Z) : cbody := (point_of k, epoch, 0%Z, 1%Z, 1%Z).
(* a signature made by somebody else over the consensus digest for hash type ht, carrying ht *)
Definition c_mk_ht (epoch ht : Z) (k : Z) : cbody := (point_of k, epoch, 0%Z, ht, ht).
Definition c_set_carried (ht : Z) (b : cbody) : cbody := let '(p, e, v, hm, _) := b in (p, e, v, hm, ht).


(* ====================================================================================================
   How the PARSE path learns the threshold m (Input.update_scripts, branch p2sh_multisig / p2sh_p2wsh):

       if self.redeemscript and self.keys:
           n_tag = self.redeemscript[0:1]; if not isinstance(n_tag, int): n_tag = int.from_bytes(n_tag, 'big')
           self.sigs_required = n_tag - 80

   The statements are translated from the working tree into Gen.GenC02.gen_threshold (b0 b1 len cur) — first two
   bytes of the script, its length, the value sigs_required had before — and that function is what the machine
   below runs.  The two readings written out here: [lib_thr_v0] the code as it is, [lib_thr_v1] the code after the
   proposed repair fixes/C02-7 (a number above 16 has no opcode; it is pushed as one byte of data: 01 n).
   Proofs/VerifyThreshold.v proves gen_threshold equal to one of the two.
   ==================================================================================================== *)
Definition lib_thr_v0 (b0 b1 len cur : Z) : Z := (b0 - 80)%Z.
Definition lib_thr_v1 (b0 b1 len cur : Z) : Z :=
  if (Z.eqb b0 1 && Z.gtb len 1)%bool then b1 else (b0 - 80)%Z.

Definition script_threshold (rd : Z -> Z -> Z -> Z -> Z) (script : bytes) (cur : Z) : Z :=
  match script with
  | [] => cur                                   (* `if self.redeemscript and self.keys` is not entered *)
  | b0 :: rest => rd (bz b0) (match rest with b1 :: _ => bz b1 | [] => 0%Z end) (Z.of_nat (length script)) cur
  end.
Definition lib_script_threshold : bytes -> Z -> Z := script_threshold gen_threshold.

(* a number as an item of a multisig script.  Consensus (script numbers, minimal push): OP_1 .. OP_16 = 0x51 .. 0x60;
   17 .. 127 have no opcode of their own and are pushed as one byte of data: 0x01 n *)
Definition spec_num_item (n : Z) : bytes := if Z.leb n 16 then [zb (80 + n)] else [zb 1; zb n].
(* Script(script_types=['multisig'], ...) writes  number + 80  as ONE byte whatever the number *)
Definition lib_num_item (n : Z) : bytes := [zb (80 + n)].
Definition push_item (k : bytes) : bytes := zb (Z.of_nat (length k)) :: k.
Definition ms_script (num : Z -> bytes) (m : Z) (keys : list bytes) : bytes :=
  num m ++ concat (map push_item keys) ++ num (Z.of_nat (length keys)) ++ [zb 174].
Definition spec_ms_script := ms_script spec_num_item.
Definition lib_ms_script := ms_script lib_num_item.

(* Transaction.parse of ONE m-of-n multisig input whose serialized signature list is [sel] (signature id = position
   of the key that made it; negative ids: a foreign key's / a corrupted signature), then verify().
   Witness path (P2WSH, P2SH-P2WSH): sigs_required starts as 1 and update_scripts reads the witness script.
   Legacy P2SH: Script.parse reads  commands[0] - 80  of the recognised redeem script (n <= 15 there), Input.__init__
   takes it, update_scripts re-creates the redeem script from keys and that number and reads it back.
   Answer: (sigs_required after parse, verdict, validity matrix). *)
Definition thr_keys (n : nat) : list Z := map Z.of_nat (seq 0 n).
Definition thr_sv (s k : Z) : bool := Z.eqb s k.
Definition thr_key_bytes (k : Z) : bytes := [zb 2; zb k].
Definition lib_parsed_threshold (witness : bool) (m : Z) (n : nat) : Z :=
  let ks := map thr_key_bytes (thr_keys n) in
  if witness then lib_script_threshold (spec_ms_script m ks) 1%Z
  else lib_script_threshold (lib_ms_script m ks) m.
Definition lib_thr_run (witness : bool) (m : Z) (n : nat) (sel : list Z) : Z * bool * list (list bool) :=
  let sr := lib_parsed_threshold witness m n in
  (sr, lib_verify_input thr_sv false (thr_keys n) sel (Z.to_nat sr), map (fun s => map (thr_sv s) (thr_keys n)) sel).

(* ====================================================================================================
   Attributes a caller can write, one at a time, and what reads them.
   The consensus digest of the bytes raw() returns commits to FIELDS; raw() fills every field from one attribute
   of the object ([lib_raw_source], Transaction.raw) and the digest functions take every field from one attribute
   ([lib_digest_source]: Transaction.signature_segwit for BIP143 inputs, Transaction.raw(sign_id, ...) for legacy
   ones).  The object holds further copies (version_int, output_n_int) and many attributes neither function reads
   ([AOther]).  The last group of constructors are the attributes that are NOT fields of the transaction: what the
   object believes about the output being spent / the signatures it holds (read by verification only) and the
   scripts derived from them by update_scripts() (read by raw() only).
   ==================================================================================================== *)
Inductive field :=
| FVersion | FLocktime
| FPrev (j : nat) | FOutN (j : nat) | FSeq (j : nat)
| FOutValue (j : nat) | FOutScript (j : nat)
| FAmount (j : nat).          (* amount of the output input j spends: not serialized; the verifier is told (Input.value) *)

Inductive attr :=
| AVersion | AVersionInt | ALocktime                               (* Transaction.version (bytes) / .version_int / .locktime *)
| APrev (j : nat) | AOutN (j : nat) | AOutNInt (j : nat) | ASeq (j : nat) | AInValue (j : nat)
| AOutValue (j : nat) | AOutScript (j : nat)                       (* Output.value / .lock_script *)
| AOther                                                           (* any other attribute of the three classes *)
| AHashType (j : nat) (v : Z) | ASigsRequired (j : nat) (v : Z)
| AKeys (j : nat) (sel : list nat) | ASignatures (j : nat) (sel : list nat)
| ARedeem (j : nat) | ALocking (j : nat)
| AUnlocking (j : nat) | AWitnesses (j : nat).

Definition lib_raw_source (f : field) : attr :=
  match f with
  | FVersion => AVersion | FLocktime => ALocktime
  | FPrev j => APrev j | FOutN j => AOutN j | FSeq j => ASeq j
  | FOutValue j => AOutValue j | FOutScript j => AOutScript j
  | FAmount j => AInValue j
  end.

(*  signature_segwit:  ser_tx = self.version[::-1] + hash_prevouts + hash_sequence + inp.prev_txid[::-1] + inp.output_n[::-1]
                                + varstr(inp.redeemscript) + int(inp.value).to_bytes(8, 'little') + inp.sequence... + hash_outputs
                                + self.locktime... + hash_type...          (o.value, o.lock_script in hash_outputs)
    raw(sign_id, ...) is the serializer itself *)
Definition lib_digest_source (f : field) : attr :=
  match f with
  | FVersion => AVersion | FLocktime => ALocktime
  | FPrev j => APrev j | FOutN j => AOutN j | FSeq j => ASeq j
  | FOutValue j => AOutValue j | FOutScript j => AOutScript j
  | FAmount j => AInValue j
  end.

(* a digest that took the version from the integer copy (not the code: the witness of theorem
   digest_reads_serialised_copy being sharp) *)
Definition alt_digest_source_version_int (f : field) : attr :=
  match f with FVersion => AVersionInt | _ => lib_digest_source f end.

(* SIGHASH_ALL: the legacy digest commits to every serialized field; BIP143 additionally to the amount its own input spends *)
Definition spec_commits (segwit : bool) (i : nat) (f : field) : bool :=
  match f with FAmount j => segwit && Nat.eqb i j | _ => true end.

Definition all_fields (nin nout : nat) : list field :=
  [FVersion; FLocktime]
  ++ flat_map (fun j => [FPrev j; FOutN j; FSeq j; FAmount j]) (seq 0 nin)
  ++ flat_map (fun j => [FOutValue j; FOutScript j]) (seq 0 nout).

Definition attr_eqb (a b : attr) : bool :=
  match a, b with
  | AVersion, AVersion | AVersionInt, AVersionInt | ALocktime, ALocktime => true
  | APrev i, APrev j | AOutN i, AOutN j | AOutNInt i, AOutNInt j | ASeq i, ASeq j | AInValue i, AInValue j
  | AOutValue i, AOutValue j | AOutScript i, AOutScript j => Nat.eqb i j
  | _, _ => false
  end.

(* does a write of attribute a change the digest of input i, when fields are taken from the attributes [src] says? *)
Definition commit_reads (src : field -> attr) (nin nout : nat) (segwit : bool) (i : nat) (a : attr) : bool :=
  existsb (fun f => attr_eqb (src f) a && spec_commits segwit i f) (all_fields nin nout).

(* input kinds: 0 p2pkh, 1 p2pk, 2 p2sh multisig, 3 p2wpkh, 4 p2sh-p2wpkh, 5 p2wsh, 6 p2sh-p2wsh.
   The script code of the digest is Input.redeemscript for every kind but the first two (signature_segwit stores the
   locking script there on first use), Input.locking_script for p2pkh / p2pk (raw(sign_id)) *)
Definition code_reads (kinds : list Z) (i : nat) (a : attr) : bool :=
  match a with
  | ARedeem j => Nat.eqb i j && Z.leb 2 (nth i kinds 0%Z)
  | ALocking j => Nat.eqb i j && Z.ltb (nth i kinds 0%Z) 2
  | _ => false
  end.

Definition is_ctx_attr (a : attr) : bool :=
  match a with
  | AHashType _ _ | ASigsRequired _ _ | AKeys _ _ | ASignatures _ _ | ARedeem _ | ALocking _ | AUnlocking _
  | AWitnesses _ => true
  | _ => false
  end.

Definition new_epochs (reads : nat -> bool) (es es' : list Z) : list Z :=
  map (fun ie => if reads (fst ie) then nth (fst ie) es' (snd ie) else snd ie) (combine (seq 0 (length es)) es).

Definition sel_list {A : Type} (l : list A) (sel : list nat) : list A :=
  flat_map (fun p => match nth_error l p with Some x => [x] | None => [] end) sel.

Inductive op :=
| OSign (target : option nat) (replace fail_unknown : bool) (signers : list Z)
| OVerify
| ORound
| OEpochs (es : list Z)
| OHashOk (i : nat) (b : bool)
| ODrop (i pos : nat)
| ODup (i pos : nat)
| OSwap (i pos : nat)
| OIns (i pos : nat) (k : Z)
| OVar (i pos : nat) (v : Z)
| OUntag (i pos : nat)
| OPlace (i : nat) (ht : Z) (ks : list Z)                 (* input i carries third-party signatures for hash type ht *)
| ORoundHt (patches : list (nat * nat * Z))               (* parse(raw with hash-type bytes changed).verify() *)
| OCtor (patches : list (nat * nat * Z))                  (* inputs rebuilt from serialized signatures, verify() *)
| OWrite (a : attr) (nout : nat) (es' : list Z)           (* ONE attribute of the live object written; es' = the digest ids
                                                             the inputs have if the write is seen by their digest *)
| OProbe (a : attr) (nout : nat) (es' : list Z) (kinds : list Z)
                                                          (* the same on a deep copy: verify() of the copy and the consensus
                                                             verdict on the bytes raw() of the copy returns *)
| OUnknownAttrs.                                          (* attributes of the object outside the frozen list: none *)

Inductive obs :=
| ObsSign (code : Z)
| ObsVerify (verdict : bool) (valid : list (option bool)) (matrix : list (list (list bool)))
| ObsBoth (verdict : bool) (valid : list (option bool)) (broadcast : bool)
| ObsAttrs
| ObsNone.

Record cstate := { cs_ins : list (@sinput cbody); cs_epochs : list Z }.

Definition epoch_at (es : list Z) (i : nat) : Z := nth i es 0%Z.

Definition matrix_of (es : list Z) (ins : list (@sinput cbody)) : list (list (list bool)) :=
  map (fun ix => let '(i, x) := ix in
         map (fun s => map (fun k => c_cons (epoch_at es i) (body s) k) (si_keys x)) (si_sigs x))
      (combine (seq 0 (length ins)) ins).

Fixpoint update_at {A : Type} (i : nat) (f : A -> A) (l : list A) : list A :=
  match l, i with
  | [], _ => []
  | x :: r, O => f x :: r
  | x :: r, S i' => x :: update_at i' f r
  end.

Fixpoint insert_at {A : Type} (n : nat) (x : A) (l : list A) : list A :=
  match n, l with
  | O, _ => x :: l
  | S n', y :: r => y :: insert_at n' x r
  | S _, [] => [x]
  end.

Fixpoint remove_at {A : Type} (n : nat) (l : list A) : list A :=
  match l, n with
  | [], _ => []
  | _ :: r, O => r
  | y :: r, S n' => y :: remove_at n' r
  end.

(* positions in signature-list edits are taken modulo the current length (no-op on an empty list) *)
Definition edit_sigs (f : nat -> list (sg cbody) -> list (sg cbody)) (pos : nat) (x : @sinput cbody) : @sinput cbody :=
  match si_sigs x with
  | [] => x
  | l => with_sigs x (f (Nat.modulo pos (length l)) l)
  end.

(* the relation Transaction.verify uses for the input at position i: its digest for ITS hash type *)
Definition c_svi (es : list Z) (ins : list (@sinput cbody)) (i : nat) : cbody -> Z -> bool :=
  match nth_error ins i with
  | Some x => c_sv_at (si_segwit x || c_legacy_digest_ok (length ins) (si_ht x)) (epoch_at es i) (si_ht x)
  | None => fun _ _ => false
  end.

(* change the hash-type byte carried by signature [pos] of input [i] (no-op when there is no such signature) *)
Definition patch_ht (p : nat * nat * Z) (ins : list (@sinput cbody)) : list (@sinput cbody) :=
  let '(i, pos, ht) := p in
  update_at i (fun x => with_sigs x
     match nth_error (si_sigs x) pos with
     | Some s => set_nth pos {| body := c_set_carried ht (body s); tag := tag s |} (si_sigs x)
     | None => si_sigs x
     end) ins.


(* ---------- one attribute written ---------- *)
Definition segwit_at (ins : list (@sinput cbody)) (i : nat) : bool :=
  match nth_error ins i with Some x => si_segwit x | None => false end.

(* digest ids after the write, as the LIBRARY's digest functions see the object ... *)
Definition lib_write_epochs (src : field -> attr) (kinds : list Z) (nout : nat) (ins : list (@sinput cbody)) (a : attr)
           (es es' : list Z) : list Z :=
  new_epochs (fun i => commit_reads src (length ins) nout (segwit_at ins i) i a || code_reads kinds i a) es es'.
(* ... and as the consensus digest of the bytes raw() returns (amounts: what the verifier is told) *)
Definition raw_write_epochs (nout : nat) (ins : list (@sinput cbody)) (a : attr) (es es' : list Z) : list Z :=
  new_epochs (fun i => commit_reads lib_raw_source (length ins) nout (segwit_at ins i) i a) es es'.

Definition write_input (a : attr) (j : nat) (x : @sinput cbody) : @sinput cbody :=
  match a with
  | AHashType j' v =>
    if Nat.eqb j j' then {| si_segwit := si_segwit x; si_keys := si_keys x; si_m := si_m x; si_sigs := si_sigs x;
                            si_valid := si_valid x; si_hash_ok := si_hash_ok x; si_ht := v |} else x
  | ASigsRequired j' v =>
    if Nat.eqb j j' then {| si_segwit := si_segwit x; si_keys := si_keys x; si_m := Z.to_nat v; si_sigs := si_sigs x;
                            si_valid := si_valid x; si_hash_ok := si_hash_ok x; si_ht := si_ht x |} else x
  | AKeys j' sel =>
    if Nat.eqb j j' then {| si_segwit := si_segwit x; si_keys := sel_list (si_keys x) sel; si_m := si_m x;
                            si_sigs := si_sigs x; si_valid := si_valid x; si_hash_ok := si_hash_ok x; si_ht := si_ht x |}
    else x
  | ASignatures j' sel => if Nat.eqb j j' then with_sigs x (sel_list (si_sigs x) sel) else x
  | _ => x
  end.

Definition write_inputs (a : attr) (ins : list (@sinput cbody)) : list (@sinput cbody) :=
  map (fun jx => write_input a (fst jx) (snd jx)) (combine (seq 0 (length ins)) ins).

(* the scripts raw() writes are those update_scripts() derived the last time it ran; written by hand they are no
   longer what the spent output asks for *)
Definition ser_broken (a : attr) (j : nat) (segwit : bool) : bool :=
  match a with
  | AUnlocking j' => Nat.eqb j j'
  | AWitnesses j' => Nat.eqb j j' && segwit
  | _ => false
  end.

(* consensus on the serialized form of one input: exactly m signatures (the first m the object holds, when it holds
   that many), matched in key order against the keys and threshold of the OUTPUT BEING SPENT *)
Definition spec_input_broadcast {S K : Type} (sv : S -> K -> bool) (keys : list K) (ser : list S) (m : nat) : bool :=
  Nat.eqb (length ser) m && Nat.leb 1 m && lib_verify_loop sv keys ser m.

Definition spec_broadcast (a : attr) (es_raw : list Z) (ins : list (@sinput cbody)) : bool :=
  forallb (fun ix => let i := fst ix in let x := snd ix in
             negb (ser_broken a i (si_segwit x))
             && spec_input_broadcast (c_cons (epoch_at es_raw i)) (si_keys x)
                  (map (@body cbody) (lib_roundtrip_sigs (si_m x) (si_sigs x))) (si_m x))
          (combine (seq 0 (length ins)) ins).

(* the patches of one Q / C step are applied in the order listed (a later patch of the same signature wins) *)
Definition apply_patches (patches : list (nat * nat * Z)) (ins : list (@sinput cbody)) : list (@sinput cbody) :=
  fold_left (fun acc p => patch_ht p acc) patches ins.

Definition run_probe (src : field -> attr) (st : cstate) (a : attr) (nout : nat) (es' kinds : list Z) : obs :=
  let es := cs_epochs st in
  let ins := cs_ins st in
  let es_lib := lib_write_epochs src kinds nout ins a es es' in
  let ins_w := write_inputs a ins in
  let (b, ins') := lib_tx_verify_run (c_svi es_lib ins_w) ins_w in
  ObsBoth b (map (@si_valid cbody) ins') (spec_broadcast a (raw_write_epochs nout ins a es es') ins).

Definition run_op (fixed : bool) (st : cstate) (o : op) : cstate * obs :=
  let es := cs_epochs st in
  let svi := c_svi es (cs_ins st) in
  let mki := fun i => c_mk (epoch_at es i) in
  match o with
  | OSign target replace fail signers =>
    let (ins', c) := lib_sign_tx mki target (cs_ins st) replace fail signers in
    ({| cs_ins := ins'; cs_epochs := es |}, ObsSign c)
  | OVerify =>
    let (b, ins') := lib_tx_verify_run svi (cs_ins st) in
    ({| cs_ins := ins'; cs_epochs := es |}, ObsVerify b (map (@si_valid cbody) ins') (matrix_of es ins'))
  | ORound =>
    let copy := lib_roundtrip_tx c_carried fixed (cs_ins st) in
    let (b, ins') := lib_tx_verify_run (c_svi es copy) copy in
    (st, ObsVerify b (map (@si_valid cbody) ins') (matrix_of es ins'))
  | ORoundHt patches =>
    let copy := lib_roundtrip_tx c_carried fixed (apply_patches patches (cs_ins st)) in
    let (b, ins') := lib_tx_verify_run (c_svi es copy) copy in
    (st, ObsVerify b (map (@si_valid cbody) ins') (matrix_of es ins'))
  | OCtor patches =>
    let copy := map (lib_ctor_input c_carried) (apply_patches patches (cs_ins st)) in
    let (b, ins') := lib_tx_verify_run (c_svi es copy) copy in
    (st, ObsVerify b (map (@si_valid cbody) ins') (matrix_of es ins'))
  | OPlace i ht ks =>
    ({| cs_ins := update_at i (fun x => with_sigs x
                     (map (fun k => {| body := c_mk_ht (epoch_at es i) ht k; tag := Some k |}) ks)) (cs_ins st);
        cs_epochs := es |}, ObsNone)
  | OEpochs es' => ({| cs_ins := cs_ins st; cs_epochs := es' |}, ObsNone)
  | OHashOk i b =>
    ({| cs_ins := update_at i (fun x => {| si_segwit := si_segwit x; si_keys := si_keys x; si_m := si_m x; si_sigs := si_sigs x;
                                            si_valid := si_valid x; si_hash_ok := b; si_ht := si_ht x |}) (cs_ins st);
        cs_epochs := es |}, ObsNone)
  | ODrop i pos =>
    ({| cs_ins := update_at i (edit_sigs (fun p l => remove_at p l) pos) (cs_ins st); cs_epochs := es |}, ObsNone)
  | ODup i pos =>
    ({| cs_ins := update_at i (edit_sigs (fun p l => match nth_error l p with
                                                      | Some s => insert_at (S p) s l | None => l end) pos)
                            (cs_ins st); cs_epochs := es |}, ObsNone)
  | OSwap i pos =>
    ({| cs_ins := update_at i (edit_sigs (fun p l => match nth_error l p, nth_error l (S p) with
                                                      | Some a, Some b => set_nth p b (set_nth (S p) a l)
                                                      | _, _ => l end) pos)
                            (cs_ins st); cs_epochs := es |}, ObsNone)
  | OIns i pos k =>
    ({| cs_ins := update_at i (fun x => with_sigs x
                     (insert_at (Nat.modulo pos (S (length (si_sigs x))))
                                {| body := c_mk (epoch_at es i) k; tag := Some k |} (si_sigs x)))
                            (cs_ins st); cs_epochs := es |}, ObsNone)
  | OVar i pos v =>
    ({| cs_ins := update_at i (edit_sigs (fun p l => match nth_error l p with
                     | Some s => let '(pt, e, v0, hm, hc) := body s in
                                 if Z.eqb v0 0 then set_nth p {| body := (pt, e, v, hm, hc); tag := tag s |} l else l
                     | None => l end) pos)
                            (cs_ins st); cs_epochs := es |}, ObsNone)
  | OUntag i pos =>
    ({| cs_ins := update_at i (edit_sigs (fun p l => match nth_error l p with
                     | Some s => set_nth p (untag s) l | None => l end) pos)
                            (cs_ins st); cs_epochs := es |}, ObsNone)
  | OWrite a nout es' =>
    ({| cs_ins := cs_ins st; cs_epochs := lib_write_epochs lib_digest_source [] nout (cs_ins st) a es es' |}, ObsNone)
  | OProbe a nout es' kinds => (st, run_probe lib_digest_source st a nout es' kinds)
  | OUnknownAttrs => (st, ObsAttrs)
  end.

Fixpoint run_ops (fixed : bool) (st : cstate) (ops : list op) : list obs :=
  match ops with
  | [] => []
  | o :: r => let (st', ob) := run_op fixed st o in ob :: run_ops fixed st' r
  end.

Definition init_input (segwit : bool) (keys : list Z) (m : nat) : @sinput cbody :=
  {| si_segwit := segwit; si_keys := dedup_keys [] keys; si_m := m; si_sigs := []; si_valid := None; si_hash_ok := true;
     si_ht := 1%Z |}.

(* [fixed = false]: the parse path as it was before fix C02-5 *)
Definition run_scenario_at (fixed : bool) (inputs : list (bool * list Z * nat)) (ops : list op) : list obs :=
  run_ops fixed {| cs_ins := map (fun skm => init_input (fst (fst skm)) (snd (fst skm)) (snd skm)) inputs;
             cs_epochs := repeat 0%Z (length inputs) |} ops.
Definition run_scenario := run_scenario_at true.

(* ---------- sign_then_verify, as a statement (proved in Proofs/SignPlaceSeq.v: sign_then_verify_thm; the general
   form with replace_signatures, fail_on_unknown_key and verifications between the calls is Model/SignSeq.v +
   Properties/C02.v sign_history_then_verify) ----------
   Any sequence of sign() calls without replace_signatures on an input with pairwise distinct keys, where a
   key's own signature verifies and verifies for no other listed key: the input verifies exactly when at least
   m distinct listed keys were among the signers. *)
Fixpoint lib_sign_calls {B : Type} (mk : Z -> B) (pubs : list Z) (sigs : list (sg B)) (calls : list (list Z))
  : list (sg B) :=
  match calls with
  | [] => sigs
  | c :: r =>
    lib_sign_calls mk pubs
      match lib_sign_input mk pubs sigs false false c with
      | SignDone l => l
      | _ => sigs
      end r
  end.

Definition signed_keys (pubs : list Z) (calls : list (list Z)) : list Z :=
  filter (fun k => existsb (existsb (Z.eqb k)) calls) pubs.

Definition sign_then_verify_statement : Prop :=
  forall (B : Type) (sv : B -> Z -> bool) (mk : Z -> B),
    (forall k, sv (mk k) k = true) -> (forall k k', sv (mk k) k' = true -> k = k') ->
    forall pubs m calls, NoDup pubs -> (1 <= m)%nat ->
      fst (lib_verify_input_run sv pubs (lib_sign_calls mk pubs [] calls) m)
      = Nat.leb m (length (signed_keys pubs calls)).
