(* Model/CacheModel.v — the provider-answer cache of bitcoinlib/services/services.py (class Cache) as a pure map.
   Definitions only.  The sqlite tables become association lists; the wall clock is an explicit argument [now]
   (seconds).
   First part (cache): cache_transactions by id (one opaque record per transaction), cache_address,
   cache_variables (blockcount, fee_high / fee_medium / fee_low with their expiry).
   Second part (xcache, further down): the address index and the blocks — cache_transactions +
   cache_transactions_node read by address in (block_height, index) order (Cache.gettransactions with after_txid /
   limit / last_block, Cache.getutxos with the per-output spent flags, Cache.store_transaction(t, index),
   Cache.store_utxo, Cache.store_address with txs_complete), cache_blocks (Cache.getblock, store_block) and the block
   pages (Cache.getblocktransactions). *)
From Coq Require Import ZArith List Bool.
From Verif Require Import Gen.GenService.
Import ListNotations.
Open Scope Z_scope.

(* A transaction as seen by the cache: the id it is filed under, its content (everything a reader can observe:
   version, locktime, inputs, outputs, witnesses, raw bytes — one opaque identifier), and whether
   Cache.store_transaction accepts it (txid, date, block height, network present; every input has a value). *)
Record txrec := { t_txid : Z; t_content : Z; t_confirmed : bool; t_spent : option bool (* spent flag of the output isspent asks about *) }.

Record addrrec := { a_balance : option Z; a_last_block : option Z; a_n_txs : option Z; a_n_utxos : option Z }.

Record cache := {
  c_on : bool;                          (* Cache.cache_enabled(): a session exists *)
  c_txs : list txrec;
  c_addrs : list (Z * addrrec);
  c_vars : list (Z * (Z * Z))           (* varname -> (value, expires) *)
}.

Definition empty_cache (on : bool) : cache := {| c_on := on; c_txs := []; c_addrs := []; c_vars := [] |}.

(* ---- association lists (session.merge = insert or replace on the primary key) ---- *)
Fixpoint assoc_get {A} (k : Z) (l : list (Z * A)) : option A :=
  match l with
  | [] => None
  | (k', v) :: tl => if k' =? k then Some v else assoc_get k tl
  end.

Fixpoint assoc_del {A} (k : Z) (l : list (Z * A)) : list (Z * A) :=
  match l with
  | [] => []
  | (k', v) :: tl => if k' =? k then assoc_del k tl else (k', v) :: assoc_del k tl
  end.

Definition assoc_set {A} (k : Z) (v : A) (l : list (Z * A)) : list (Z * A) := (k, v) :: assoc_del k l.

(* ---- transactions ---- *)
Fixpoint find_tx (txid : Z) (l : list txrec) : option txrec :=
  match l with
  | [] => None
  | t :: tl => if t_txid t =? txid then Some t else find_tx txid tl
  end.

(* Cache.gettransaction(txid): False when disabled or absent *)
Definition cache_gettx (c : cache) (txid : Z) : option txrec :=
  if c_on c then find_tx txid (c_txs c) else None.

(* Cache.store_transaction(t): only complete confirmed transactions; an existing row is never overwritten *)
Definition cache_store_tx (c : cache) (t : txrec) : cache :=
  if negb (c_on c) then c
  else if negb (t_confirmed t) then c
  else match find_tx (t_txid t) (c_txs c) with
       | Some _ => c
       | None => {| c_on := c_on c; c_txs := t :: c_txs c; c_addrs := c_addrs c; c_vars := c_vars c |}
       end.

(* ---- addresses ---- *)
Definition cache_getaddr (c : cache) (a : Z) : option addrrec :=
  if c_on c then assoc_get a (c_addrs c) else None.

Definition keep_old {A} (new old : option A) : option A := match new with Some x => Some x | None => old end.

(* `last_block if last_block else getattr(db_addr, 'last_block', None)`: 0 is falsy *)
Definition keep_old_truthy (new old : option Z) : option Z :=
  match new with Some x => if x =? 0 then old else Some x | None => old end.

(* Cache.store_address(address, last_block, balance, n_utxos) with txs_complete=False, last_txid unobserved.
   [balance = None] is Python None (keep the stored value); Python False arrives here as Some 0. *)
Definition cache_store_address (c : cache) (a : Z) (last_block balance n_utxos : option Z) : cache :=
  if negb (c_on c) then c
  else
    let old := assoc_get a (c_addrs c) in
    let ob := match old with Some r => a_balance r | None => Some 0 end in    (* Column(BigInteger, default=0) on insert *)
    let ol := match old with Some r => a_last_block r | None => None end in
    let ot := match old with Some r => a_n_txs r | None => None end in
    let ou := match old with Some r => a_n_utxos r | None => None end in
    let r := {| a_balance := keep_old balance ob; a_last_block := keep_old_truthy last_block ol;
                a_n_txs := ot; a_n_utxos := keep_old n_utxos ou |} in
    {| c_on := c_on c; c_txs := c_txs c; c_addrs := assoc_set a r (c_addrs c); c_vars := c_vars c |}.

(* ---- variables with expiry ---- *)
Definition var_blockcount : Z := 0.
Definition var_fee_high : Z := 1.
Definition var_fee_medium : Z := 2.
Definition var_fee_low : Z := 3.

(* filter(DbCacheVars.expires > datetime.now()) *)
Definition cache_var_get (c : cache) (now : Z) (name : Z) : option Z :=
  if c_on c then
    match assoc_get name (c_vars c) with
    | Some (v, exp) => if now <? exp then Some v else None
    | None => None
    end
  else None.

Definition cache_var_get_never (c : cache) (name : Z) : option Z :=
  if c_on c then match assoc_get name (c_vars c) with Some (v, _) => Some v | None => None end else None.

Definition cache_var_set (c : cache) (name v exp : Z) : cache :=
  if negb (c_on c) then c
  else {| c_on := c_on c; c_txs := c_txs c; c_addrs := c_addrs c; c_vars := assoc_set name (v, exp) (c_vars c) |}.

Definition fee_var (blocks : Z) : Z :=
  if blocks <=? svc_fee_high_max_blocks then var_fee_high
  else if blocks <=? svc_fee_medium_max_blocks then var_fee_medium else var_fee_low.

(* Cache.estimatefee / Cache.store_estimated_fee / Cache.blockcount / Cache.store_blockcount *)
Definition cache_estimatefee (c : cache) (now blocks : Z) : option Z := cache_var_get c now (fee_var blocks).
Definition cache_store_fee (c : cache) (now blocks fee : Z) : cache := cache_var_set c (fee_var blocks) fee (now + svc_fee_ttl).
Definition cache_blockcount (c : cache) (now : Z) : option Z := cache_var_get c now var_blockcount.
Definition cache_blockcount_never (c : cache) : option Z := cache_var_get_never c var_blockcount.
Definition cache_store_blockcount (c : cache) (now n : Z) : cache := cache_var_set c var_blockcount n (now + svc_blockcount_ttl).

(* ====================================================================================================
   The address index: cache_transactions + cache_transactions_node read by address
   (Cache.gettransactions / Cache.getutxos / Cache.gettransaction / Cache.store_transaction(t, index) /
   Cache.store_utxo / Cache.store_address(txs_complete=True)).

   A transaction as an address query sees it: ONE input and ONE observed output.
     atx_height   block_height; 0 stands for None (unconfirmed: confirmations = 0, no date)
     atx_storable every input carries its value (Cache.store_transaction refuses the transaction otherwise)
     atx_src      the input belongs to address (fst) and is worth (snd); None: a foreign address
     atx_prev     (prev_txid, output_n) the input spends
     atx_dst      the address paid by the observed output; None: a foreign address
     atx_oidx     output_n of the observed output, atx_value its value, atx_spent its spent flag
   Rows are kept in insertion order (the order SQLite scans them in); a row carries the `index` it was stored
   with (-1 stands for NULL: store_transaction(t) without index). *)
Record atx := {
  atx_id : Z; atx_height : Z; atx_storable : bool;
  atx_src : option (Z * Z); atx_prev : Z * Z;
  atx_dst : option Z; atx_oidx : Z; atx_value : Z; atx_spent : option bool
}.

Record utxo := { u_txid : Z; u_n : Z; u_value : Z; u_height : Z }.

Record row := { r_tx : atx; r_index : Z }.

(* xc_blocks: cache_blocks, block height -> tx_count (the header fields travel unchanged and are not modelled) *)
Record xcache := { xc_base : cache; xc_rows : list row; xc_blocks : list (Z * Z) }.

Definition empty_xcache (on : bool) : xcache := {| xc_base := empty_cache on; xc_rows := []; xc_blocks := [] |}.
Definition with_base (c : xcache) (b : cache) : xcache := {| xc_base := b; xc_rows := xc_rows c; xc_blocks := xc_blocks c |}.
Definition with_rows (c : xcache) (l : list row) : xcache := {| xc_base := xc_base c; xc_rows := l; xc_blocks := xc_blocks c |}.
Definition with_blocks (c : xcache) (l : list (Z * Z)) : xcache := {| xc_base := xc_base c; xc_rows := xc_rows c; xc_blocks := l |}.
Definition xc_on (c : xcache) : bool := c_on (xc_base c).

Definition addr_is (a : Z) (o : option Z) : bool := match o with Some a' => a' =? a | None => false end.
Definition src_addr (t : atx) : option Z := match atx_src t with Some (a, _) => Some a | None => None end.
Definition src_value (t : atx) : Z := match atx_src t with Some (_, v) => v | None => 0 end.

(* join(DbCacheTransactionNode).filter(DbCacheTransactionNode.address == address): some node carries the address;
   the ORM returns each transaction once *)
Definition touches (a : Z) (t : atx) : bool := addr_is a (src_addr t) || addr_is a (atx_dst t).
Definition pays (a : Z) (t : atx) : bool := addr_is a (atx_dst t).

Fixpoint find_row (txid : Z) (l : list row) : option row :=
  match l with
  | [] => None
  | r :: tl => if atx_id (r_tx r) =? txid then Some r else find_row txid tl
  end.

(* order_by(DbCacheTransaction.block_height, DbCacheTransaction.index): ascending, NULL first, rows with equal keys
   stay in scan (= insertion) order *)
Definition row_lt (x y : row) : bool :=
  (atx_height (r_tx x) <? atx_height (r_tx y)) ||
  ((atx_height (r_tx x) =? atx_height (r_tx y)) && (r_index x <? r_index y)).

Fixpoint insert_row (x : row) (l : list row) : list row :=
  match l with
  | [] => [x]
  | y :: tl => if row_lt y x then y :: insert_row x tl else x :: l
  end.

Fixpoint sort_rows (l : list row) : list row :=
  match l with
  | [] => []
  | x :: tl => insert_row x (sort_rows tl)
  end.

(* Cache.store_transaction(t, index): False = refused (incomplete), Done = stored or nothing to do *)
Inductive store_res := StFalse | StDone.

Definition xc_store_tx (c : xcache) (t : atx) (index : Z) : store_res * xcache :=
  if negb (xc_on c) then (StDone, c)
  else if (atx_height t =? 0) || negb (atx_storable t) then (StFalse, c)
  else match find_row (atx_id t) (xc_rows c) with
       | Some _ => (StDone, c)                                   (* an existing row is never overwritten *)
       | None => (StDone, with_rows c (xc_rows c ++ [{| r_tx := t; r_index := index |}]))
       end.

(* Cache.gettransaction(txid) *)
Definition xc_gettx (c : xcache) (txid : Z) : option atx :=
  if xc_on c then match find_row txid (xc_rows c) with Some r => Some (r_tx r) | None => None end else None.

(* the loop  `db_txs2.append(d); if d.txid == after_txid: db_txs2 = []` *)
Fixpoint after_reset (aid : Z) (acc : list row) (l : list row) : list row :=
  match l with
  | [] => acc
  | d :: tl => if atx_id (r_tx d) =? aid then after_reset aid [] tl else after_reset aid (acc ++ [d]) tl
  end.

(* `txs.append(t); if len(txs) >= limit: break`: at least one element when there is one *)
Definition take_limit {A} (limit : Z) (l : list A) : list A := firstn (Z.to_nat (Z.max limit 1)) l.

(* Cache.gettransactions(address, after_txid, limit); [] also stands for the False of a disabled cache *)
Definition xc_gettransactions (c : xcache) (a : Z) (after : option Z) (limit : Z) : list atx :=
  if negb (xc_on c) then []
  else match cache_getaddr (xc_base c) a with
  | None => []
  | Some rec =>
    let mine := filter (fun r => touches a (r_tx r)) (xc_rows c) in
    let sel :=
      match after with
      | None => sort_rows mine
      | Some aid =>
        match find_row aid (xc_rows c), a_last_block rec with
        | Some ar, Some lb =>
          if lb =? 0 then []
          else after_reset aid []
                 (sort_rows (filter (fun r => (atx_height (r_tx ar) <=? atx_height (r_tx r)) &&
                                              (atx_height (r_tx r) <=? lb)) mine))
        | _, _ => []
        end
      end in
    map r_tx (take_limit limit sel)
  end.

(* Cache.getutxos(address, after_txid): output nodes of the address in (block_height, index) order;
   an output whose spent flag is unknown ends the scan *)
Definition utxo_of (t : atx) : utxo :=
  {| u_txid := atx_id t; u_n := atx_oidx t; u_value := atx_value t; u_height := atx_height t |}.

Fixpoint utxo_scan (after : option Z) (acc : list utxo) (l : list row) : list utxo :=
  match l with
  | [] => acc
  | r :: tl =>
    let t := r_tx r in
    match atx_spent t with
    | None => acc                                                              (* elif db_utxo.spent is None: return utxos *)
    | Some sp =>
      let acc1 := if sp then acc else acc ++ [utxo_of t] in
      let acc2 := match after with Some aid => if atx_id t =? aid then [] else acc1 | None => acc1 end in
      utxo_scan after acc2 tl
    end
  end.

Definition xc_getutxos (c : xcache) (a : Z) (after : option Z) : list utxo :=
  if negb (xc_on c) then []
  else utxo_scan after [] (sort_rows (filter (fun r => pays a (r_tx r)) (xc_rows c))).

(* Cache.store_utxo(txid, index_n): the output becomes "unspent" when the transaction is cached *)
Definition set_spent (t : atx) (sp : option bool) : atx :=
  {| atx_id := atx_id t; atx_height := atx_height t; atx_storable := atx_storable t; atx_src := atx_src t;
     atx_prev := atx_prev t; atx_dst := atx_dst t; atx_oidx := atx_oidx t; atx_value := atx_value t; atx_spent := sp |}.

Definition xc_store_utxo (c : xcache) (txid n : Z) : xcache :=
  if negb (xc_on c) then c
  else with_rows c (map (fun r => if (atx_id (r_tx r) =? txid) && (atx_oidx (r_tx r) =? n)
                                  then {| r_tx := set_spent (r_tx r) (Some false); r_index := r_index r |} else r)
                        (xc_rows c)).

(* Cache.store_address(address, last_block, balance, n_utxos, txs_complete): with txs_complete the counters are
   recomputed from the cached nodes of the address.  [balance]: None = Python None, Some 0 also stands for the
   default 0 / False. *)
Definition cache_store_address_full (c : cache) (a : Z) (last_block balance n_utxos n_txs : option Z) : cache :=
  if negb (c_on c) then c
  else
    let old := assoc_get a (c_addrs c) in
    let ob := match old with Some r => a_balance r | None => Some 0 end in
    let ol := match old with Some r => a_last_block r | None => None end in
    let ot := match old with Some r => a_n_txs r | None => None end in
    let ou := match old with Some r => a_n_utxos r | None => None end in
    let r := {| a_balance := keep_old balance ob; a_last_block := keep_old_truthy last_block ol;
                a_n_txs := keep_old n_txs ot; a_n_utxos := keep_old n_utxos ou |} in
    {| c_on := c_on c; c_txs := c_txs c; c_addrs := assoc_set a r (c_addrs c); c_vars := c_vars c |}.

Definition count_if {A} (f : A -> bool) (l : list A) : Z := Z.of_nat (length (filter f l)).

Fixpoint zsum_map {A} (f : A -> Z) (l : list A) : Z :=
  match l with [] => 0 | x :: tl => f x + zsum_map f tl end.

(* sum of the output nodes of the address minus the sum of its input nodes *)
Definition node_balance (a : Z) (rows : list row) : Z :=
  zsum_map (fun r => (if pays a (r_tx r) then atx_value (r_tx r) else 0)
                     - (if addr_is a (src_addr (r_tx r)) then src_value (r_tx r) else 0)) rows.

Definition xc_store_address (c : xcache) (a : Z) (last_block balance n_utxos : option Z) (complete : bool) : xcache :=
  if negb complete then with_base c (cache_store_address_full (xc_base c) a last_block balance n_utxos None)
  else
    let n_txs := count_if (fun r => touches a (r_tx r)) (xc_rows c) in
    let outs := filter (fun r => pays a (r_tx r)) (xc_rows c) in
    let n_utxos' :=
      match n_utxos with
      | Some n => Some n
      | None =>
        if existsb (fun r => match atx_spent (r_tx r) with None => true | Some _ => false end) outs then None
        else Some (count_if (fun r => match atx_spent (r_tx r) with Some false => true | _ => false end) outs)
      end in
    let balance' :=
      match balance with
      | Some b => if b =? 0 then Some (node_balance a (xc_rows c)) else Some b
      | None => Some (node_balance a (xc_rows c))
      end in
    with_base c (cache_store_address_full (xc_base c) a last_block balance' n_utxos' (Some n_txs)).

(* ---- blocks: Cache.getblock(height) / Cache.getblocktransactions(height, page, limit) / Cache.store_block ---- *)
Definition xc_getblock (c : xcache) (h : Z) : option Z :=
  if xc_on c then assoc_get h (xc_blocks c) else None.

(* filter(block_height == height, index >= n_from, index < n_to).all(): without ORDER BY (Gen.svc_cbt_order = [])
   the rows come in scan (= insertion) order, with one they are sorted; a row without index never matches *)
Definition xc_getblocktransactions_gen (order : list Z) (c : xcache) (h page limit : Z) : list atx :=
  if negb (xc_on c) then []
  else
    let sel := filter (fun r => (atx_height (r_tx r) =? h) && (0 <=? r_index r) &&
                                ((page - 1) * limit <=? r_index r) && (r_index r <? page * limit)) (xc_rows c) in
    map r_tx (match order with [] => sel | _ => sort_rows sel end).

Definition xc_getblocktransactions := xc_getblocktransactions_gen svc_cbt_order.

Definition xc_store_block (c : xcache) (h cnt : Z) : xcache :=
  if negb (xc_on c) then c else with_blocks c (assoc_set h cnt (xc_blocks c)).
