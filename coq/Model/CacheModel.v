(* Model/CacheModel.v — the provider-answer cache of bitcoinlib/services/services.py (class Cache) as a pure map.
   Definitions only.  The sqlite tables become association lists; the wall clock is an explicit argument [now]
   (seconds).  What is modelled: cache_transactions (+ nodes, as one opaque record per transaction),
   cache_address, cache_variables (blockcount, fee_high / fee_medium / fee_low with their expiry).
   Not modelled: cache_blocks, the per-output spent flags, the address index over transaction nodes
   (Cache.getutxos / Cache.gettransactions). *)
From Coq Require Import ZArith List Bool.
From Verif Require Import Gen.GenService.
Import ListNotations.
Open Scope Z_scope.

(* A transaction as seen by the cache: the id it is filed under, its content (everything a reader can observe:
   version, locktime, inputs, outputs, witnesses, raw bytes — one opaque identifier), and whether
   Cache.store_transaction accepts it (txid, date, block height, network present; every input has a value). *)
Record txrec := { t_txid : Z; t_content : Z; t_confirmed : bool; t_spent : option bool (* spent flag of the output isspent asks about *) }.

Record addrrec := { a_balance : option Z; a_last_block : option Z; a_n_txs : option Z; a_n_utxos : option Z }.

Record cache := {
  c_on : bool;                          (* Cache.cache_enabled(): a session exists *)
  c_txs : list txrec;
  c_addrs : list (Z * addrrec);
  c_vars : list (Z * (Z * Z))           (* varname -> (value, expires) *)
}.

Definition empty_cache (on : bool) : cache := {| c_on := on; c_txs := []; c_addrs := []; c_vars := [] |}.

(* ---- association lists (session.merge = insert or replace on the primary key) ---- *)
Fixpoint assoc_get {A} (k : Z) (l : list (Z * A)) : option A :=
  match l with
  | [] => None
  | (k', v) :: tl => if k' =? k then Some v else assoc_get k tl
  end.

Fixpoint assoc_del {A} (k : Z) (l : list (Z * A)) : list (Z * A) :=
  match l with
  | [] => []
  | (k', v) :: tl => if k' =? k then assoc_del k tl else (k', v) :: assoc_del k tl
  end.

Definition assoc_set {A} (k : Z) (v : A) (l : list (Z * A)) : list (Z * A) := (k, v) :: assoc_del k l.

(* ---- transactions ---- *)
Fixpoint find_tx (txid : Z) (l : list txrec) : option txrec :=
  match l with
  | [] => None
  | t :: tl => if t_txid t =? txid then Some t else find_tx txid tl
  end.

(* Cache.gettransaction(txid): False when disabled or absent *)
Definition cache_gettx (c : cache) (txid : Z) : option txrec :=
  if c_on c then find_tx txid (c_txs c) else None.

(* Cache.store_transaction(t): only complete confirmed transactions; an existing row is never overwritten *)
Definition cache_store_tx (c : cache) (t : txrec) : cache :=
  if negb (c_on c) then c
  else if negb (t_confirmed t) then c
  else match find_tx (t_txid t) (c_txs c) with
       | Some _ => c
       | None => {| c_on := c_on c; c_txs := t :: c_txs c; c_addrs := c_addrs c; c_vars := c_vars c |}
       end.

(* ---- addresses ---- *)
Definition cache_getaddr (c : cache) (a : Z) : option addrrec :=
  if c_on c then assoc_get a (c_addrs c) else None.

Definition keep_old {A} (new old : option A) : option A := match new with Some x => Some x | None => old end.

(* `last_block if last_block else getattr(db_addr, 'last_block', None)`: 0 is falsy *)
Definition keep_old_truthy (new old : option Z) : option Z :=
  match new with Some x => if x =? 0 then old else Some x | None => old end.

(* Cache.store_address(address, last_block, balance, n_utxos) with txs_complete=False, last_txid unobserved.
   [balance = None] is Python None (keep the stored value); Python False arrives here as Some 0. *)
Definition cache_store_address (c : cache) (a : Z) (last_block balance n_utxos : option Z) : cache :=
  if negb (c_on c) then c
  else
    let old := assoc_get a (c_addrs c) in
    let ob := match old with Some r => a_balance r | None => Some 0 end in    (* Column(BigInteger, default=0) on insert *)
    let ol := match old with Some r => a_last_block r | None => None end in
    let ot := match old with Some r => a_n_txs r | None => None end in
    let ou := match old with Some r => a_n_utxos r | None => None end in
    let r := {| a_balance := keep_old balance ob; a_last_block := keep_old_truthy last_block ol;
                a_n_txs := ot; a_n_utxos := keep_old n_utxos ou |} in
    {| c_on := c_on c; c_txs := c_txs c; c_addrs := assoc_set a r (c_addrs c); c_vars := c_vars c |}.

(* ---- variables with expiry ---- *)
Definition var_blockcount : Z := 0.
Definition var_fee_high : Z := 1.
Definition var_fee_medium : Z := 2.
Definition var_fee_low : Z := 3.

(* filter(DbCacheVars.expires > datetime.now()) *)
Definition cache_var_get (c : cache) (now : Z) (name : Z) : option Z :=
  if c_on c then
    match assoc_get name (c_vars c) with
    | Some (v, exp) => if now <? exp then Some v else None
    | None => None
    end
  else None.

Definition cache_var_get_never (c : cache) (name : Z) : option Z :=
  if c_on c then match assoc_get name (c_vars c) with Some (v, _) => Some v | None => None end else None.

Definition cache_var_set (c : cache) (name v exp : Z) : cache :=
  if negb (c_on c) then c
  else {| c_on := c_on c; c_txs := c_txs c; c_addrs := c_addrs c; c_vars := assoc_set name (v, exp) (c_vars c) |}.

Definition fee_var (blocks : Z) : Z :=
  if blocks <=? svc_fee_high_max_blocks then var_fee_high
  else if blocks <=? svc_fee_medium_max_blocks then var_fee_medium else var_fee_low.

(* Cache.estimatefee / Cache.store_estimated_fee / Cache.blockcount / Cache.store_blockcount *)
Definition cache_estimatefee (c : cache) (now blocks : Z) : option Z := cache_var_get c now (fee_var blocks).
Definition cache_store_fee (c : cache) (now blocks fee : Z) : cache := cache_var_set c (fee_var blocks) fee (now + svc_fee_ttl).
Definition cache_blockcount (c : cache) (now : Z) : option Z := cache_var_get c now var_blockcount.
Definition cache_blockcount_never (c : cache) : option Z := cache_var_get_never c var_blockcount.
Definition cache_store_blockcount (c : cache) (now n : Z) : cache := cache_var_set c var_blockcount n (now + svc_blockcount_ttl).
