(* Extract/C09.v — extraction of the C09 model (wallet key book) for the correspondence driver.
   Directives in force: only those of the two standard files required here. *)
From Coq Require Extraction ExtrOcamlBasic ExtrOcamlZBigInt.
From Verif Require Import Lib.Bytes Model.WalletKeys.
Extraction Language OCaml.
Extraction "../ocaml/c09_model.ml" bz zb wallet_from_seed wallet_from_account_key wallet_step
  key_address key_wif key_wif_public key_is_private lib_path_expand lib_key_structure spec_path spec_purpose
  script_type_id spec_master spec_derive spec_derive_pub spec_neuter coin_of is_leaf leaf_len
  lib_keys_query lib_keys_addresses lib_keys_address_chain lib_addresslist_rows row_depth key_depth
  spec_bip39_seed wallet_from_mnemonic set_lib_fixes.
