(* Extract/C20.v — extraction of the C20 model (provider fail-over, wrappers, cache) for the correspondence driver.
   Directives in force: only those of the two standard files required here. *)
From Coq Require Extraction ExtrOcamlBasic ExtrOcamlZBigInt.
From Verif Require Import Lib.Bytes Gen.GenService Gen.GenNetworks Model.CacheModel Model.Service.
Extraction Language OCaml.
Extraction "../ocaml/c20_model.ml" bz zb lib_order lib_provider_execute lib_step empty_cache cache_store_address
  lib_xstep empty_xcache nw_bitcoin nw_testnet.
