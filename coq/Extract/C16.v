(* Extract/C16.v — extraction of the C16 object-state machine for the correspondence driver.
   Directives in force: only those of the two standard files required here. *)
From Coq Require Extraction ExtrOcamlBasic ExtrOcamlZBigInt.
From Verif Require Import Model.PublicView.
Extraction Language OCaml.
Extraction "../ocaml/c16_model.ml" init step exports key_codes out_taint kcomp
  wk_init wstep wexports wk_codes
  wal_init wal_step wal_exports wal_returns wal_mains
  xstep xexports wallet_public_master_args no_private_request.
