(* Extract/C02.v — extraction of the C02 model for the correspondence driver.
   Directives in force: only those of the two standard files required here. *)
From Coq Require Extraction ExtrOcamlBasic ExtrOcamlZBigInt.
From Verif Require Import Lib.Bytes Model.VerifyInput Model.SignPlace.
Extraction Language OCaml.
Extraction "../ocaml/c02_model.ml" bz zb lib_verify_input lib_tx_verify unfixed_verify_loop
  lib_verify_input_run lib_sign_input lib_sign_place lib_roundtrip_sigs c_sv c_mk run_scenario lib_thr_run.
