(* Extract/C05.v — extraction of the C05 model for the correspondence driver.
   Directives in force: only those of the two standard files required here. *)
From Coq Require Extraction ExtrOcamlBasic ExtrOcamlZBigInt.
From Verif Require Import Lib.Bytes Gen.GenNetworks Model.Wire Model.AddrScript.
Extraction Language OCaml.
Extraction "../ocaml/c05_model.ml" bz zb all_networks nw_name find_network
  spec_lock_script spec_classify spec_address standard standard_wide stype_name
  lib_deserialize lib_address_new lib_address_parse lib_hd_address_obj lib_key_address_obj lib_address_of_data
  lib_output lib_reparse lib_script_new lib_get_script_types lib_script_parse
  lib_to_bytes hexlike tb fx_orig fx_all fx_now.
