(* Extract/C13.v — extraction of the C13 model (ECDSA sign / parse / verify, DER) for the correspondence driver.
   Directives in force: only those of the two standard files required here. *)
From Coq Require Extraction ExtrOcamlBasic ExtrOcamlZBigInt.
From Verif Require Import Lib.Bytes Crypto.Sha256 Crypto.Secp256k1 Model.Der Model.Ecdsa.
Extraction Language OCaml.
Extraction "../ocaml/c13_model.ml" bz zb secp_n secp_p secp_pub der_enc der_dec is_strict_der lib_der_dec lib_parse
  spec_parse lib_parse_prefix der64 lax_der lib_sign lib_sign_upper lib_nonce_upper lib_sign_prefix lib_verify spec_verify spec_sign lib_pub_point lib_pub_point_lax lib_verify_key spec_verify_key coords_reduced
  rfc6979_nonce lib_nonce lib_digest lib_z ecdsa_sign ecdsa_verify ecdsa_low_s ser_point_compressed ser_point_uncompressed
  lib_sign_req lib_sign_session lib_verify_step lib_verify_step_prefix lib_verify_arg lib_key_arg lib_new_obj obj_verify lib_verify_session stateless_step
  arg_meaning unhex py_fromhex lib_to_hexstring lib_txid_set c_digest eff_digest dg_via_verify dg_via_set sig_of_form key_of_form
  lib_verify_forms lib_verify_fkey lib_verify_step_forms lib_create_text lib_sign_forms lib_sign_req_f lib_sign_session_forms
  lib_parse_forms key_of_fkey step_of_form lib_new_obj_forms lib_verify_session_forms.
