(* Extract/C01.v — extraction of the C01 model for the correspondence driver.
   Directives in force: only those of the two standard files required here. *)
From Coq Require Extraction ExtrOcamlBasic ExtrOcamlZBigInt.
From Verif Require Import Lib.Bytes Model.Wire Model.TxCodec Model.Sighash Crypto.Sha256 Crypto.Ripemd160.
Extraction Language OCaml.
Extraction "../ocaml/c01_model.ml" bz zb sha256d hash160
  lib_signature_at lib_signature_hash_at lib_digest_at lib_verify_digest_at lib_script_code lib_bip143_preimage_at
  lib_legacy_preimage_at spec_script_code spec_bip143_preimage spec_legacy_preimage spec_preimage spec_digest
  in32 lib_new lib_ctor ob_fresh ob_build_api lib_apply ob_run ob_fields ob_signature.
