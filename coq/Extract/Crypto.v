(* Extract/Crypto.v — extraction of the shared crypto foundation for the CRYPTO selftest driver.
   Directives in force: only those of the two standard files required here. *)
From Coq Require Extraction ExtrOcamlBasic ExtrOcamlZBigInt.
From Verif Require Import Lib.Bytes Crypto.Sha256 Crypto.Sha256N Crypto.Sha512 Crypto.Sha512Z Crypto.Ripemd160 Crypto.Ripemd160Z Crypto.Hmac Crypto.Secp256k1.
Extraction Language OCaml.
Extraction "../ocaml/crypto_model.ml" bz zb sha256 sha256_n sha256d sha512 sha512_z ripemd160 ripemd160_z hash160 hmac_sha256 hmac_sha512
  pbkdf2_hmac_sha512 secp_p secp_n secp_G powmod inv_mod inv_mod_fermat mod_sqrt on_curve pt_neg pt_add pt_double
  pt_mul secp_pub decompress compress ser_point_compressed ser_point_uncompressed parse_point
  ecdsa_sign ecdsa_low_s ecdsa_verify bits2int rfc6979_nonce ecdsa_sign_rfc6979.
