(* Extract/C07.v — extraction of the C07 model for the correspondence driver.
   Directives in force: only those of the two standard files required here. *)
From Coq Require Extraction ExtrOcamlBasic ExtrOcamlZBigInt.
From Verif Require Import Lib.Bytes Gen.GenNetworks Model.CoinSelect Model.TxCreate Model.BumpFee Model.TxCreateHistory.
Extraction Language OCaml.
Extraction "../ocaml/c07_model.ml" bz zb lib_select_inputs tx_create send_gen sweep_gen tx_bumpfee wallet_bumpfee
  calculate_fee estimate_size fee_of rate_of net_by_index nw_dust_amount nw_fee_min nw_fee_max
  h_run h_step h_empty spendable.
