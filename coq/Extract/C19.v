(* Extract/C19.v — extraction of the C19 models (library interpreter, Core interpreter) for the
   correspondence driver.  Directives in force: only those of the two standard files required here.

   The hash functions are oracles of both models; for the correspondence the driver instantiates them
   with the executable Gallina SHA-256 / RIPEMD-160 of Verif.Crypto and with the SHA-1 below (only an
   oracle instantiation: no theorem depends on it; a wrong transcription shows as a disagreement with
   the implementation's hashlib.sha1). *)
From Coq Require Extraction ExtrOcamlBasic ExtrOcamlZBigInt.
From Coq Require Import ZArith List.
From Verif Require Import Lib.Bytes Crypto.Sha256 Crypto.Ripemd160 Model.Wire Model.EvalLib Model.EvalCore Model.EvalSession.
Import ListNotations.
Open Scope Z_scope.

Definition rotl32 (n x : Z) : Z := w32 (Z.lor (Z.shiftl x n) (Z.shiftr x (32 - n))).

Definition sha1_f (t : nat) (b c d : Z) : Z :=
  if (t <? 20)%nat then Z.lor (Z.land b c) (Z.land (not32 b) d)
  else if (t <? 40)%nat then Z.lxor (Z.lxor b c) d
  else if (t <? 60)%nat then Z.lor (Z.lor (Z.land b c) (Z.land b d)) (Z.land c d)
  else Z.lxor (Z.lxor b c) d.

Definition sha1_k (t : nat) : Z :=
  if (t <? 20)%nat then 0x5A827999 else if (t <? 40)%nat then 0x6ED9EBA1
  else if (t <? 60)%nat then 0x8F1BBCDC else 0xCA62C1D6.

Fixpoint sha1_rounds (n t : nat) (blockw win st : list Z) : list Z :=
  match n with
  | O => st
  | S n' =>
      let w := if (t <? 16)%nat then nth t blockw 0
               else rotl32 1 (Z.lxor (Z.lxor (nth 2 win 0) (nth 7 win 0)) (Z.lxor (nth 13 win 0) (nth 15 win 0))) in
      match st with
      | [a; b; c; d; e] =>
          let tmp := add32 (add32 (add32 (rotl32 5 a) (sha1_f t b c d)) (add32 e (sha1_k t))) w in
          sha1_rounds n' (S t) blockw (w :: firstn 15 win) [tmp; a; rotl32 30 b; c; d]
      | _ => st
      end
  end.

Definition sha1_compress (st : list Z) (block : bytes) : list Z :=
  let st' := sha1_rounds 80 0 (words_be 16 block) [] st in
  map (fun p => add32 (fst p) (snd p)) (combine st st').

Fixpoint sha1_blocks (fuel : nat) (st : list Z) (bs : bytes) : list Z :=
  match fuel with
  | O => st
  | S f => match bs with [] => st | _ => sha1_blocks f (sha1_compress st (firstn 64 bs)) (skipn 64 bs) end
  end.

Definition sha1 (msg : bytes) : bytes :=
  let p := pad256 msg in
  flat_map (be_bytes 4)
    (sha1_blocks (S (length p / 64)) [0x67452301; 0xEFCDAB89; 0x98BADCFE; 0x10325476; 0xC3D2E1F0] p).

Extraction Language OCaml.
Extraction "../ocaml/c19_model.ml" bz zb sha1 sha256 ripemd160 lib_eval core_eval core_limits_ok
  consensus_flags lib_dispatch cast_to_bool env_u32_version lib_session resolve core_obs.
