(* Extract/C04.v — extraction of the C04 model for the correspondence driver.
   Directives in force: only those of the two standard files required here. *)
From Coq Require Extraction ExtrOcamlBasic ExtrOcamlZBigInt.
From Verif Require Import Lib.Bytes Crypto.Secp256k1 Gen.GenNetworks Model.SpecNetworks Model.AddrEnc Model.KeyPoint.
Extraction Language OCaml.
Extraction "../ocaml/c04_model.ml" bz zb all_networks nw_name
  lib_key_import_gen lib_public_point lib_public_uncompressed lib_public_compressed lib_public_byte
  lib_key_hash160 lib_key_address_args_gen lib_hdkey_address_args_gen lib_key_address_gen lib_hdkey_address_gen lib_address lib_mod_sqrt lib_decompress_y
  spec_address spec_valid_secret spec_valid_public secp_pub
  spec_networks ref_networks frozen_address frozen_p2tr frozen_address_by_name spec_find.
