(* Extract/C10.v — extraction of the C10 model for the correspondence driver.
   Directives in force: only those of the two standard files required here. *)
From Coq Require Extraction ExtrOcamlBasic ExtrOcamlZBigInt.
From Verif Require Import Lib.Bytes Model.Wire Crypto.Sha256 Crypto.Ripemd160 Model.Multisig.
Extraction Language OCaml.
Extraction "../ocaml/c10_model.ml" bz zb bytes_leb ms_sort lib_cosigner_order lib_cosigner_id lib_position
  lib_key_path lib_redeemscript lib_wallet_child_order lib_wallet_redeemscript lib_script_owners
  spec_multisig_script lib_script_hash sha256 hash160 ms_init ms_run ms_channel ms_sign_input ms_input_verify
  lib_create_fields ms_channel_fields cs_init cs_run lib_tx_locktime lib_default_sequence.
