(* Extract/C12.v — extraction of the C12 model (key export / import formats) for the correspondence driver.
   Directives in force: only those of the two standard files required here. *)
From Coq Require Extraction ExtrOcamlBasic ExtrOcamlZBigInt.
From Verif Require Import Lib.Bytes Model.KeyFormat.
Extraction Language OCaml.
Extraction "../ocaml/c12_model.ml" bz zb lib_get_key_format lib_wif_prefix_search lib_networks_by_wif
  find_network lib_network_wif_prefix lib_key_import lib_hdkey_import lib_hdkey_from_wif lib_wif lib_xkey
  lib_wif_with lib_xkey_with km_constructible network_defined ss_init sop_answer sop_step session session_states session_final.
