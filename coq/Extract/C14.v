(* Extract/C14.v — extraction of the C14 model for the correspondence driver.
   Directives in force: only those of the two standard files required here. *)
From Coq Require Extraction ExtrOcamlBasic ExtrOcamlZBigInt.
From Verif Require Import Lib.Bytes Lib.BitRegroup Model.ChangeBase Model.Bip39.
Extraction Language OCaml.
Extraction "../ocaml/c14_model.ml" bz zb lib_cb_10_2 lib_cb_256_2 lib_cb_2_2048 lib_cb_2048_256 lib_cb_2_256
  lib_to_bytes hexlike lib_to_indices_sha lib_to_entropy_sha spec_to_indices_sha spec_to_entropy_sha
  lib_entropy_of_words_sha lib_seed_query_x
  lib_to_indices_opt_sha lib_to_entropy_opt_sha lib_detect_x lib_sanitize_x lib_entropy_obj_x lib_seed_query_vx
  answer run_session.
