(* Extract/C17.v — extraction of the C17 model (primitive floats) for the correspondence driver.
   Directives in force: only those of the standard files required here.
   Besides the conversion functions of Model/Amount.v: the session models (Model/AmountSession.v), the
   transaction-amount session (Model/AmountTx.v) and, through it, the C07 fee-bump functions
   (Model/BumpFee.v: bump_amounts, bump_loop, tx_bumpfee). *)
From Coq Require Extraction ExtrOcamlBasic ExtrOcamlZBigInt ExtrOCamlFloats ExtrOCamlInt63.
From Coq Require Import Floats.PrimFloat Floats.SpecFloat Floats.FloatOps.
From Verif Require Import Lib.Bytes Float.DecRound Float.B64 Model.Amount Model.AmountSession.
From Verif Require Model.CoinSelect Model.TxCreate Model.BumpFee Model.AmountTx.
Extraction Language OCaml.
Extraction "../ocaml/c17_model.ml" bz zb Prim2SF SF2Prim cps nets dens default_network_name find_by_name find_by_code
  py_float py_int b64_of_Z b64_round b64_round_nd b64_fmt b64_of_hex b64_of_dec log10_trunc
  lib_value_init_str lib_value_init_num lib_value_sat lib_value_to_satoshi lib_from_satoshi lib_str lib_to_bytes
  lib_arith lib_output_value lib_add_output lib_raw_value
  lib_conv lib_conv_session lib_vsession lib_value_default lib_value_float lib_add_output_value
  AmountTx.x_init AmountTx.x_step AmountTx.x_run AmountTx.x_net AmountTx.rate2_of
  BumpFee.tx_bumpfee BumpFee.bump_loop BumpFee.bump_amounts.
