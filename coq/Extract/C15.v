(* Extract/C15.v — the instance of the C15 model that is extracted for the correspondence driver.
   scrypt and AES stay function arguments (the driver answers them from a table supplied with each request);
   hashes, Base58 and the curve are the executable Gallina ones.
   Directives in force: only those of the two standard files required here. *)
From Coq Require Extraction ExtrOcamlBasic ExtrOcamlZBigInt.
From Coq Require Import ZArith List Bool.
From Coq.Strings Require Import Byte.
From Verif Require Import Lib.Bytes Crypto.Sha256 Crypto.Ripemd160 Crypto.Secp256k1 Model.Base58 Model.Bip38.
Import ListNotations.
Open Scope Z_scope.

(* a str argument is handed over as (UTF-8 of the text as written, UTF-8 of its NFC form);
   a passphrase ARGUMENT is that or a bytes object *)
Definition TXT := (bytes * bytes)%type.
Definition txt_utf8 (p : TXT) : bytes := fst p.
Definition txt_nfc (p : TXT) : TXT := (snd p, snd p).
Definition PW := pyarg TXT.
Definition pw_utf8 (p : PW) : bytes := arg_bytes txt_utf8 p.
Definition pw_nfc (p : PW) : PW := arg_nfc txt_nfc p.

Definition ser_pt (c : bool) (xy : Z * Z) : bytes :=
  if c then ser_point_compressed (Some xy) else ser_point_uncompressed (Some xy).

Definition secp_pubser (c : bool) (k : Z) : option bytes :=
  match secp_pub k with None => None | Some xy => Some (ser_pt c xy) end.

Definition secp_ptmulser (c : bool) (pp : bytes) (f : Z) : option bytes :=
  match parse_point pp with
  | None => None
  | Some xy => match pt_mul f (Some xy) with None => None | Some q => Some (ser_pt c q) end
  end.

Definition x_b58d (s : bytes) : option bytes := lib_b58_dec false s 0.

Section Inst.
Variable scrypt : bytes -> bytes -> Z -> Z -> Z -> nat -> bytes.
Variable aes_enc aes_dec : bytes -> bytes -> bytes.

Definition x_address (pfx : bytes) (c : bool) (k : Z) : option bytes :=
  lib_address sha256d hash160 b58_enc secp_pubser pfx c k.
Definition x_key_encrypt (pfx : bytes) (c : bool) (k : Z) (pw : PW) : option bytes :=
  lib_key_encrypt PW pw_utf8 scrypt aes_enc sha256d hash160 b58_enc secp_pubser pfx c k pw.
Definition x_key_decrypt (pfx : bytes) (s : bytes) (pw : PW) : key_res :=
  lib_key_decrypt PW pw_utf8 scrypt aes_dec sha256d hash160 b58_enc x_b58d secp_pubser pfx s pw.
Definition x_bip38_decrypt (s : bytes) (pw : PW) : res dec_info :=
  lib_bip38_decrypt PW pw_utf8 scrypt aes_dec sha256d hash160 b58_enc x_b58d secp_pubser s pw.
Definition x_intermediate (pw : PW) (lot sequence : option Z) (salt : bytes) : res bytes :=
  lib_intermediate_arg TXT txt_utf8 txt_nfc scrypt sha256d b58_enc secp_pubser pw lot sequence salt.
Definition x_encrypt_call (priv : bytes) (addr pw : PW) (flag : byte) : bytes :=
  lib_bip38_encrypt_call TXT txt_utf8 scrypt aes_enc sha256d b58_enc priv addr pw flag.
Definition x_create_new (pfx : bytes) (ip : bytes) (c : bool) (seed : bytes) : res new_key :=
  lib_create_new scrypt aes_enc sha256d hash160 b58_enc x_b58d secp_pubser secp_ptmulser pfx ip c seed.
Definition x_spec_encrypt (pfx : bytes) (c : bool) (k : Z) (pw : PW) : option bytes :=
  spec_encrypt PW pw_utf8 pw_nfc scrypt aes_enc sha256d hash160 b58_enc secp_pubser pfx c k pw.
Definition x_spec_decrypt (pfx : bytes) (s : bytes) (pw : PW) : option (Z * bool) :=
  spec_decrypt PW pw_utf8 pw_nfc scrypt aes_dec sha256d hash160 b58_enc x_b58d secp_pubser pfx s pw.
Definition x_spec_intermediate (pw : PW) (ls : option (Z * Z)) (salt : bytes) : option bytes :=
  spec_intermediate PW pw_utf8 pw_nfc scrypt sha256d b58_enc secp_pubser pw ls salt.
End Inst.

Extraction Language OCaml.
Extraction "../ocaml/c15_model.ml" bz zb lib_is_protected x_address x_key_encrypt x_key_decrypt x_bip38_decrypt
  x_intermediate x_encrypt_call x_create_new x_spec_encrypt x_spec_decrypt x_spec_intermediate
  lib_entropy_use legacy_entropy_use spec_entropy_use.
