(* Extract/C06.v — extraction of the C06 model for the correspondence driver.
   Directives in force: only those of the two standard files required here. *)
From Coq Require Extraction ExtrOcamlBasic ExtrOcamlZBigInt.
From Verif Require Import Lib.Bytes Model.Wire Crypto.Sha256 Model.TxCodec Model.BlockCodec Model.TxStrict.
Extraction Language OCaml.
Extraction "../ocaml/c06_model.ml" bz zb be_bytes spec_ser spec_parse spec_txid strip_witness
  lib_parse lib_raw lib_calc_txid api_build view
  spec_block_parse spec_block_ser spec_block_hash spec_target
  lib_block_parse lib_block_serialize lib_block_dict lib_target
  lib_bsession sl_refuses lib_sig_ok.
