(* Extract/C08.v — extraction of the C08 ledger model for the history-differential driver.
   Directives in force: only those of the two standard files required here. *)
From Coq Require Extraction ExtrOcamlBasic ExtrOcamlZBigInt.
From Verif Require Import Lib.Bytes Model.Ledger.
Extraction Language OCaml.
Extraction "../ocaml/c08_model.ml" bz zb init step_gen op_ok store_respends utxos persisted l_keys l_txs has_cross
  db_step_gen db_create db_op_ok open_disk find_wal touches_others delete_blocked lib_variant.
