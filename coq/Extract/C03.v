(* Extract/C03.v — extraction of the C03 model (BIP32) for the correspondence driver.
   Directives in force: only those of the two standard files required here. *)
From Coq Require Extraction ExtrOcamlBasic ExtrOcamlZBigInt.
From Verif Require Import Lib.Bytes Crypto.Secp256k1 Model.Bip32 Proofs.Bip32Construct.
Extraction Language OCaml.
Extraction "../ocaml/c03_model.ml" bz zb lib_from_seed lib_child_private lib_child_public lib_public
  lib_subkey_for_path lib_parse_path lib_point_of_bytes lib_import_pub lib_public_byte lib_private_byte lib_wif
  lib_is_private lib_chain lib_meta s_master s_subkey s_ser_prv s_ser_pub sem ser_pub
  lib_wif_index lib_public_master pm_items cfg_after op_key op_self session_step session_run lib_session lib_construct.
