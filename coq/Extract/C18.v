(* Extract/C18.v — extraction of the C18 model for the correspondence driver.
   Directives in force: only those of the two standard files required here. *)
From Coq Require Extraction ExtrOcamlBasic ExtrOcamlZBigInt.
From Verif Require Import Lib.Bytes Model.Wire.
Extraction Language OCaml.
Extraction "../ocaml/c18_model.ml" bz zb lib_cs_enc lib_cs_dec core_cs_enc core_cs_dec lib_varstr
  lib_encode_num lib_decode_num core_minimal core_scriptnum_ser core_scriptnum_dec
  lib_data_pack core_push lib_serialize parse_plain lib_parse_dl lib_serialize_items.
