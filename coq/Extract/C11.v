(* Extract/C11.v — extraction of the C11 model for the correspondence driver.
   Directives in force: only those of the two standard files required here. *)
From Coq Require Extraction ExtrOcamlBasic ExtrOcamlZBigInt.
From Verif Require Import Lib.Bytes Crypto.Sha256 Model.Base58 Model.Bech32 Proofs.Base58Fixed.
Extraction Language OCaml.
Extraction "../ocaml/c11_model.ml" bz zb sha256d b58_enc spec_b58_dec lib_b58_dec lib_addr_b58_gen
  lib_addr_b58_enc lib_deserialize_gen lib_addr_to_pkh_gen lib_bech32_dec lib_bech32_raw lib_bech32_enc
  spec_bech32_enc lib_bech32_checksum convertbits polymod lib_fixed_check.
