(* Proofs/VerifyThreshold.v — how the parse path learns the multisig threshold (Input.update_scripts), tied to the
   working tree through Gen/GenC02.v, and the attribute read sets of the serializer / digest / verification functions.

   gen_threshold is TRANSLATED from the source on every run; everything below is re-checked against it:
     tree_threshold_reader_known   it is one of the two readings written out in Model/SignPlace.v
                                   (lib_thr_v0: the code as it is; lib_thr_v1: after the proposed repair C02-7)
     parsed_threshold_*            for every multisig script whose first item is the number m (1 <= m <= 16, OP_m) the
                                   parsed sigs_required is m, whatever follows and whatever sigs_required was before;
                                   for 17 <= m <= 127 (pushed number) only the repaired reading gives m, the
                                   unrepaired one gives -79 and such an input verifies with any signature
   A range test that leaves out an opcode (seeded change C02-r) makes tree_threshold_reader_known fail. *)
From Coq Require Import List Bool Arith ZArith Lia.
From Verif Require Import Lib.Bytes Model.VerifyInput Model.SignPlace Gen.GenC02 Proofs.VerifyInput.
Import ListNotations.

Lemma tree_threshold_translated_thm : gen_threshold_translated = true.
Proof. reflexivity. Qed.

Lemma tree_threshold_reader_known_thm :
  (forall b0 b1 len cur, gen_threshold b0 b1 len cur = lib_thr_v0 b0 b1 len cur) \/
  (forall b0 b1 len cur, gen_threshold b0 b1 len cur = lib_thr_v1 b0 b1 len cur).
Proof. first [ left; intros; reflexivity | right; intros; reflexivity ]. Qed.

Open Scope Z_scope.

Lemma bz_zb_small z : 0 <= z < 256 -> bz (zb z) = z.
Proof. intros H. rewrite bz_zb. apply Z.mod_small. exact H. Qed.

Lemma spec_num_item_low m : m <= 16 -> spec_num_item m = [zb (80 + m)].
Proof. intros H. unfold spec_num_item. destruct (Z.leb_spec m 16); [reflexivity|lia]. Qed.

Lemma spec_num_item_high m : 16 < m -> spec_num_item m = [zb 1; zb m].
Proof. intros H. unfold spec_num_item. destruct (Z.leb_spec m 16); [lia|reflexivity]. Qed.

Lemma lib_num_item_is_spec m : m <= 16 -> lib_num_item m = spec_num_item m.
Proof. intros H. rewrite spec_num_item_low by exact H. reflexivity. Qed.

Lemma lib_ms_script_is_spec_thm m keys :
  m <= 16 -> (length keys <= 16)%nat -> lib_ms_script m keys = spec_ms_script m keys.
Proof.
  intros Hm Hn. unfold lib_ms_script, spec_ms_script, ms_script.
  rewrite !lib_num_item_is_spec by lia. reflexivity.
Qed.

(* the two readings on a script that starts with OP_m *)
Lemma thr_v0_op m rest cur :
  1 <= m <= 16 -> script_threshold lib_thr_v0 (zb (80 + m) :: rest) cur = m.
Proof.
  intros H. unfold script_threshold, lib_thr_v0. rewrite bz_zb_small by lia. lia.
Qed.

Lemma thr_v1_op m rest cur :
  1 <= m <= 16 -> script_threshold lib_thr_v1 (zb (80 + m) :: rest) cur = m.
Proof.
  intros H. unfold script_threshold, lib_thr_v1. rewrite bz_zb_small by lia.
  destruct (Z.eqb_spec (80 + m) 1); [lia|]. cbn [andb]. lia.
Qed.

(* ... and on a script that starts with the pushed number m *)
Lemma thr_v1_push m rest cur :
  17 <= m <= 127 -> script_threshold lib_thr_v1 (zb 1 :: zb m :: rest) cur = m.
Proof.
  intros H. unfold script_threshold, lib_thr_v1. rewrite !bz_zb_small by lia.
  replace (Z.of_nat (length (zb 1 :: zb m :: rest))) with (2 + Z.of_nat (length rest)).
  - destruct (Z.gtb_spec (2 + Z.of_nat (length rest)) 1); [reflexivity|lia].
  - cbn [length]. lia.
Qed.

Lemma thr_v0_push m rest cur :
  script_threshold lib_thr_v0 (zb 1 :: zb m :: rest) cur = -79.
Proof. unfold script_threshold, lib_thr_v0. rewrite bz_zb_small by lia. reflexivity. Qed.

Lemma script_threshold_ext rd rd' script cur :
  (forall b0 b1 len c, rd b0 b1 len c = rd' b0 b1 len c) -> script_threshold rd script cur = script_threshold rd' script cur.
Proof. intros E. destruct script; [reflexivity|]. unfold script_threshold. apply E. Qed.

(* the reading of the working tree *)
Theorem parsed_threshold_op_thm m rest cur :
  1 <= m <= 16 -> lib_script_threshold (spec_num_item m ++ rest) cur = m.
Proof.
  intros H. rewrite spec_num_item_low by lia. unfold lib_script_threshold. cbn [app].
  destruct tree_threshold_reader_known_thm as [E|E].
  - rewrite (script_threshold_ext _ _ _ _ E). apply thr_v0_op. exact H.
  - rewrite (script_threshold_ext _ _ _ _ E). apply thr_v1_op. exact H.
Qed.

Theorem parsed_threshold_is_script_threshold_thm m keys cur :
  1 <= m <= 16 -> lib_script_threshold (spec_ms_script m keys) cur = m.
Proof. intros H. unfold spec_ms_script, ms_script. apply parsed_threshold_op_thm. exact H. Qed.

Theorem parsed_threshold_repaired_thm m keys cur :
  1 <= m <= 127 -> script_threshold lib_thr_v1 (spec_ms_script m keys) cur = m.
Proof.
  intros H. unfold spec_ms_script, ms_script.
  destruct (Z.le_gt_cases m 16) as [L|G].
  - rewrite spec_num_item_low by lia. cbn [app]. apply thr_v1_op. lia.
  - rewrite spec_num_item_high by lia. cbn [app]. apply thr_v1_push. lia.
Qed.

Theorem parsed_threshold_unrepaired_above_16_thm m keys cur :
  17 <= m -> script_threshold lib_thr_v0 (spec_ms_script m keys) cur = -79.
Proof.
  intros H. unfold spec_ms_script, ms_script. rewrite spec_num_item_high by lia. cbn [app]. apply thr_v0_push.
Qed.

(* both parse paths of the machine (witness script read from the bytes; legacy redeem script re-created) *)
Theorem lib_parsed_threshold_thm witness m n :
  1 <= m <= 16 -> lib_parsed_threshold witness m n = m.
Proof.
  intros H. unfold lib_parsed_threshold. destruct witness.
  - apply parsed_threshold_is_script_threshold_thm. exact H.
  - unfold lib_ms_script, ms_script. rewrite lib_num_item_is_spec by lia. apply parsed_threshold_op_thm. exact H.
Qed.

Close Scope Z_scope.

(* a parsed m-of-n input whose serialized signature list holds fewer than m signatures valid for some listed key does
   not verify (what the seeded change C02-r broke for m = 16) *)
Theorem parsed_input_needs_m_signatures_thm witness m n sel :
  (1 <= m <= 16)%Z ->
  (length (filter (sig_useful thr_sv (thr_keys n)) sel) < Z.to_nat m)%nat ->
  snd (fst (lib_thr_run witness m n sel)) = false.
Proof.
  intros H L. unfold lib_thr_run. cbn [fst snd]. rewrite lib_parsed_threshold_thm by exact H.
  apply verify_insufficient_sigs_thm. exact L.
Qed.

Theorem parsed_input_complete_thm witness m n sel :
  (1 <= m <= 16)%Z -> signed_in_order thr_sv (thr_keys n) sel -> (Z.to_nat m <= length sel)%nat ->
  snd (fst (lib_thr_run witness m n sel)) = true.
Proof.
  intros H S L. unfold lib_thr_run. cbn [fst snd]. rewrite lib_parsed_threshold_thm by exact H.
  apply verify_complete_thm; [exact S|]. split; [|exact L].
  change 1%nat with (Z.to_nat 1). apply Z2Nat.inj_le; lia.
Qed.

(* ---------- attribute read sets of the working tree ---------- *)
From Coq Require Import String.
Open Scope string_scope.
Definition mem_s (a : string) (l : list string) : bool := existsb (String.eqb a) l.
Definition subset_s (a b : list string) : bool := forallb (fun x => mem_s x b) a.

(* the names under which the serializer / the digests read the committed fields, and the two shadow copies *)
Definition attr_name (a : attr) : string :=
  match a with
  | AVersion => "version" | AVersionInt => "version_int" | ALocktime => "locktime"
  | APrev _ => "prev_txid" | AOutN _ => "output_n" | AOutNInt _ => "output_n_int" | ASeq _ => "sequence"
  | AInValue _ => "value" | AOutValue _ => "value" | AOutScript _ => "lock_script"
  | AHashType _ _ => "hash_type" | ASigsRequired _ _ => "sigs_required" | AKeys _ _ => "keys"
  | ASignatures _ _ => "signatures" | ARedeem _ => "redeemscript" | ALocking _ => "locking_script"
  | AUnlocking _ => "unlocking_script" | AWitnesses _ => "witnesses"
  | AOther => ""
  end.

(* frozen lists (what the functions read in the tree this model was written for) *)
Definition shadow_names : list string := ["version_int"; "output_n_int"].
Definition frozen_verify_reads : list string := ["hash_type"; "inputs"; "verified"; "witness_type"].
Definition frozen_input_verify_reads : list string := ["index_n"; "keys"; "script_type"; "signatures"; "sigs_required"].
Definition frozen_signature_reads : list string := ["witness_type"].
Definition frozen_segwit_writes : list string := ["redeemscript"].
Definition frozen_raw_writes : list string := ["size"].
Definition frozen_verify_writes : list string := ["valid"; "verified"].
Definition frozen_input_verify_writes : list string := ["valid"].

(* the BIP143 digest reads no attribute the serializer does not read *)
Lemma tree_digest_reads_within_raw_thm :
  subset_s gen_attrs_signature_segwit_reads gen_attrs_raw_reads = true.
Proof. vm_compute. reflexivity. Qed.

(* every field is taken, by the serializer and by the BIP143 digest, from an attribute the function reads in the tree *)
Lemma tree_sources_are_read_thm f :
  mem_s (attr_name (lib_raw_source f)) gen_attrs_raw_reads = true /\
  mem_s (attr_name (lib_digest_source f)) gen_attrs_signature_segwit_reads = true.
Proof. destruct f; vm_compute; split; reflexivity. Qed.

(* the second copies of version and output index are read by none of the six functions *)
Lemma tree_shadow_copies_unread_thm :
  forallb (fun a => negb (mem_s a (gen_attrs_raw_reads ++ gen_attrs_signature_segwit_reads ++ gen_attrs_signature_reads
                                   ++ gen_attrs_signature_hash_reads ++ gen_attrs_verify_reads
                                   ++ gen_attrs_input_verify_reads)))
          shadow_names = true.
Proof. vm_compute. reflexivity. Qed.

(* Transaction.verify / Input.verify read the signatures, keys, threshold, hash type and kind of the input and
   nothing else (no cached verdict, no cached digest); the digest writes redeemscript only, verification the two flags *)
Lemma tree_verify_reads_frozen_thm :
  subset_s gen_attrs_verify_reads frozen_verify_reads = true /\
  subset_s gen_attrs_input_verify_reads frozen_input_verify_reads = true /\
  subset_s gen_attrs_signature_reads frozen_signature_reads = true /\
  subset_s gen_attrs_signature_hash_reads [] = true /\
  subset_s gen_attrs_signature_segwit_writes frozen_segwit_writes = true /\
  subset_s gen_attrs_raw_writes frozen_raw_writes = true /\
  subset_s gen_attrs_verify_writes frozen_verify_writes = true /\
  subset_s gen_attrs_input_verify_writes frozen_input_verify_writes = true.
Proof. vm_compute. repeat split. Qed.
